(* Step shapes: a step only moves the pc / writes one entry / writes one row (possibly changing the held
   list), with the obligations reduced to the affected huge frame; and the tactics used by the per-pc lemmas. *)
From Coq Require Import PeanoNat.
From LLF Require Import Base BitLemmas Row RowProofs Bitfield Lower Spec LowerMachine ConcBase ConcInvDef ConcInvGeom ConcInvStep.

(* ---------- tactics ---------- *)
(* expose the ghost functions of concrete pcs *)
Ltac gsimp :=
  unfold fr, tr, pend, trcount, needsC, hfr;
  cbn [ghost_of gpc gtoggle gpend gtr gown ghuge gput gsplit gh0 g_h own_lo own_n tr_lo tr_n p_n nd hu].
Ltac gsimp_in H :=
  unfold fr, tr, pend, trcount, needsC, hfr in H;
  cbn [ghost_of gpc gtoggle gpend gtr gown ghuge gput gsplit gh0 g_h own_lo own_n tr_lo tr_n p_n nd hu] in H.
Ltac destr_if :=
  repeat match goal with
         | |- context [if ?b then _ else _] => destruct b eqn:?
         end.
Ltac gsolve := intros; gsimp; unfold inb; try lia; destr_if; try lia.
(* the six ghost-sameness conditions *)
Ltac gsame_tac := constructor; gsolve.

Section Shapes.
  Variable g : geom.
  Hypothesis wf : wf_geom g.
  Notation HF := (HF g).
  Notation THUGE := (THUGE g).
  Notation ROWS := (ROWS g).

  (* the ghost part of `same_at`, with a possibly different held list *)
  Record gsameH (s : mstate) (held' : list (N * nat)) (x0 x' : thr) (h : N) : Prop := {
    GH_fr : forall r i, r < ROWS -> i < 64 ->
            heldc (fidx g h r i) held' + fr g h r i x' = heldc (fidx g h r i) (ms_held s) + fr g h r i x0;
    GH_tr : forall r, tr g h r x' = tr g h r x0;
    GH_pend : pend g h x' = pend g h x0;
    GH_trc : trcount g h x' = trcount g h x0;
    GH_nd : entv s h = MARK -> needsC g h x' <= needsC g h x0;
    GH_hfr : hugec g h held' + hfr g h x' <= hugec g h (ms_held s) + hfr g h x0
  }.
  (* ... and with the same held list *)
  Record gsame (s : mstate) (x0 x' : thr) (h : N) : Prop := {
    GS_fr : forall r i, r < ROWS -> i < 64 -> fr g h r i x' = fr g h r i x0;
    GS_tr : forall r, tr g h r x' = tr g h r x0;
    GS_pend : pend g h x' = pend g h x0;
    GS_trc : trcount g h x' = trcount g h x0;
    GS_nd : entv s h = MARK -> needsC g h x' <= needsC g h x0;
    GS_hfr : hfr g h x' = hfr g h x0
  }.
  Lemma gsame_H s x0 x' h : gsame s x0 x' h -> gsameH s (ms_held s) x0 x' h.
  Proof. intros [A B C D E F]. constructor; auto; intros; rewrite ?A, ?F by assumption; lia. Qed.

  Definition mk_thr (s : mstate) (t : nat) (x' : thr) (held' : list (N * nat)) : mstate :=
    set_held (set_thr s t x') held'.

  (* ----- only the thread (and the held list) changes ----- *)
  Lemma inv_thr s t x0 x' held' :
    Inv g s -> nth_error (ms_pool s) t = Some x0 ->
    (forall h, gsameH s held' x0 x' h) ->
    isBad x' = 0 -> local_b g (ms_frames s) x' = true ->
    Forall (fun b => blk_ok (ms_frames s) b = true) held' ->
    Inv g (mk_thr s t x' held').
  Proof.
    intros I Ht Hs Hb Hl Hh.
    apply (inv_step g s (mk_thr s t x' held') t x0 x' I Ht); try reflexivity; try assumption.
    - apply I.
    - intros h. apply (same_step g s _ t x0 x' h I Ht). destruct (Hs h). constructor; auto.
  Qed.
  Lemma inv_plain s t x0 x' :
    Inv g s -> nth_error (ms_pool s) t = Some x0 ->
    (forall h, gsame s x0 x' h) ->
    isBad x' = 0 -> local_b g (ms_frames s) x' = true ->
    Inv g (set_thr s t x').
  Proof.
    intros I Ht Hs Hb Hl. change (Inv g (mk_thr s t x' (ms_held s))).
    apply (inv_thr s t x0 x' (ms_held s) I Ht); try assumption; [|apply I].
    intros h. apply gsame_H, Hs.
  Qed.

  (* ----- one entry is written ----- *)
  Definition mk_ent (s : mstate) (h0 e' : N) (t : nat) (x' : thr) (held' : list (N * nat)) : mstate :=
    set_held (set_thr (wr_ent s h0 e') t x') held'.

  Lemma mk_ent_entv s h0 e' t x' held' cur h : rd_ent s h0 = Some cur ->
    entv (mk_ent s h0 e' t x' held') h = if h =? h0 then e' else entv s h.
  Proof. intros H. apply (entv_wr_ent s h0 e' cur h H). Qed.
  Lemma mk_ent_bit s h0 e' t x' held' h r i : bit (mk_ent s h0 e' t x' held') h r i = bit s h r i.
  Proof. reflexivity. Qed.
  Lemma mk_ent_zeros s h0 e' t x' held' h : zeros (mk_ent s h0 e' t x' held') h = zeros s h.
  Proof. reflexivity. Qed.

  Lemma inv_ent s t x0 x' h0 cur e' held' :
    Inv g s -> nth_error (ms_pool s) t = Some x0 -> rd_ent s h0 = Some cur ->
    (forall h, h <> h0 -> gsameH s held' x0 x' h) ->
    step_at g s (mk_ent s h0 e' t x' held') x0 x' h0 ->
    isBad x' = 0 -> local_b g (ms_frames s) x' = true ->
    Forall (fun b => blk_ok (ms_frames s) b = true) held' ->
    Inv g (mk_ent s h0 e' t x' held').
  Proof.
    intros I Ht Hrd Hs H0 Hb Hl Hh.
    apply (inv_step g s (mk_ent s h0 e' t x' held') t x0 x' I Ht); try reflexivity; try assumption.
    - cbn. apply upd_length.
    - apply I.
    - intros h. destruct (N.eq_dec h h0) as [->|Hne]; [exact H0|].
      apply (same_step g s _ t x0 x' h I Ht). destruct (Hs h Hne). constructor; auto.
      rewrite (mk_ent_entv _ _ _ _ _ _ _ _ Hrd). destruct (N.eqb_spec h h0); [contradiction|reflexivity].
  Qed.

  (* a counter entry is updated and the difference moves to / from the thread's pending amount *)
  Lemma inv_counter s t x0 x' h cur e' :
    Inv g s -> nth_error (ms_pool s) t = Some x0 -> rd_ent s h = Some cur ->
    h < nbf g (ms_frames s) -> cur <> MARK -> e' <> MARK ->
    (forall h', h' <> h -> gsame s x0 x' h') ->
    (forall r i, fr g h r i x' = fr g h r i x0) -> (forall r, tr g h r x' = tr g h r x0) ->
    trcount g h x' = trcount g h x0 -> hfr g h x' = hfr g h x0 ->
    e' + pend g h x' = cur + pend g h x0 ->
    isBad x' = 0 -> local_b g (ms_frames s) x' = true ->
    Inv g (mk_ent s h e' t x' (ms_held s)).
  Proof.
    intros I Ht Hrd Hh Hc He' Hs Hfr Htr Htc Hhf Hp Hb Hl.
    pose proof (entv_rd s h cur Hrd) as Ec.
    apply (inv_ent s t x0 x' h cur e' (ms_held s) I Ht Hrd); try assumption; [| |apply I].
    - intros h' Hne. apply gsame_H, Hs, Hne.
    - constructor; intros;
        rewrite ?(mk_ent_entv _ _ _ _ _ _ _ _ Hrd), ?N.eqb_refl, ?mk_ent_bit, ?mk_ent_zeros in *; try contradiction; try lia.
      + cbn [ms_held mk_ent set_held]. rewrite Hfr, Htr, Ec. unfold isMark.
        destruct (N.eqb_spec e' MARK); [contradiction|]. destruct (N.eqb_spec cur MARK); [contradiction|]. lia.
      + pose proof (I_C g s I h Hh ltac:(rewrite Ec; exact Hc)) as C. rewrite Ec in C. rewrite Htc. lia.
      + cbn [ms_held mk_ent set_held]. pose proof (I_F g s I h ltac:(rewrite Ec; exact Hc)) as F.
        pose proof (sumf_ge (hfr g h) _ _ _ Ht). lia.
  Qed.

  (* ----- entry operations ----- *)
  Lemma e_dec_some v n v' : e_dec v n = Some v' -> v <> MARK /\ n <= v /\ v' = v - n.
  Proof. unfold e_dec, e_free, e_huge. destruct (N.eqb_spec v MARK); cbn [negb andb]; [discriminate|].
    destruct (N.leb_spec n v); [|discriminate]. intros E; inversion E. auto. Qed.
  Lemma e_dec_none v n : e_dec v n = None -> v = MARK \/ v < n.
  Proof. unfold e_dec, e_free, e_huge. destruct (N.eqb_spec v MARK); cbn [negb andb]; [auto|].
    destruct (N.leb_spec n v); [discriminate|auto]. Qed.
  Lemma e_inc_some v n v' : e_inc g v n = Some v' -> v <> MARK /\ v + n <= HF /\ v' = v + n.
  Proof. unfold e_inc, e_free, e_huge. destruct (N.eqb_spec v MARK); cbn [negb andb]; [discriminate|].
    destruct (N.leb_spec (v + n) HF); [|discriminate]. intros E; inversion E. auto. Qed.
  Lemma e_inc_none v n : e_inc g v n = None -> v = MARK \/ HF < v + n.
  Proof. unfold e_inc, e_free, e_huge. destruct (N.eqb_spec v MARK); cbn [negb andb]; [auto|].
    destruct (N.leb_spec (v + n) HF); [discriminate|auto]. Qed.

  Lemma ent_nz_lt s h : Inv g s -> entv s h <> 0 -> h < nbf g (ms_frames s).
  Proof. intros I H. destruct (N.lt_ge_cases h (nbf g (ms_frames s))); [assumption|]. exfalso. apply H, (I_nobf g s I), H0. Qed.

  (* the counter plus what a thread has pending never exceeds HF *)
  Lemma counter_bound s t x h : Inv g s -> nth_error (ms_pool s) t = Some x -> h < nbf g (ms_frames s) ->
    entv s h <> MARK -> entv s h + pend g h x + gfr g h x <= HF.
  Proof.
    intros I Ht Hh He. pose proof (K1 g wf s h I Hh He) as K.
    pose proof (sumf_upd (pend g h) _ t (TIdle None) x Ht) as U1.
    pose proof (sumf_upd (gfr g h) _ t (TIdle None) x Ht) as U2.
    assert (pend g h (TIdle None) = 0) by gsolve.
    assert (gfr g h (TIdle None) = 0).
    { unfold gfr, gsum. rewrite (ssum_ext _ _ (fun _ => 0)); [rewrite ssum_const; lia|].
      intros r _. rewrite (ssum_ext _ _ (fun _ => 0)); [rewrite ssum_const; lia|]. intros i _. gsimp. unfold inb. lia. }
    lia.
  Qed.
  (* a thread that needs a counter sees one *)
  Lemma needs_counter s t x h : Inv g s -> nth_error (ms_pool s) t = Some x -> h < nbf g (ms_frames s) ->
    needsC g h x = 1 -> entv s h <> MARK.
  Proof. intros I Ht Hh Hn He. pose proof (I_D g s I h Hh He). pose proof (sumf_ge (needsC g h) _ _ _ Ht). lia. Qed.

  (* ----- one row is written ----- *)
  Definition mk_row (s : mstate) (h0 r0 v' : N) (t : nat) (x' : thr) (held' : list (N * nat)) : mstate :=
    set_held (set_thr (wr_row s h0 r0 v') t x') held'.

  Lemma mk_row_entv s h0 r0 v' t x' held' h : entv (mk_row s h0 r0 v' t x' held') h = entv s h.
  Proof. apply entv_wr_row. Qed.
  Lemma mk_row_rowv s h0 r0 v' t x' held' cur h r : rd_row s h0 r0 = Some cur ->
    rowv (mk_row s h0 r0 v' t x' held') h r = if (h =? h0) && (r =? r0) then v' else rowv s h r.
  Proof. intros H. apply (rowv_wr_row s h0 r0 v' cur h r H). Qed.
  Lemma mk_row_bit s h0 r0 v' t x' held' cur r i : rd_row s h0 r0 = Some cur ->
    bit (mk_row s h0 r0 v' t x' held') h0 r i = if r =? r0 then N.testbit v' i else bit s h0 r i.
  Proof. intros H. unfold bit. rewrite (mk_row_rowv _ _ _ _ _ _ _ _ _ _ H), N.eqb_refl. cbn [andb]. destruct (r =? r0); reflexivity. Qed.
  Lemma mk_row_zeros s h0 r0 v' t x' held' cur : rd_row s h0 r0 = Some cur ->
    zeros (mk_row s h0 r0 v' t x' held') h0 + cz cur = zeros s h0 + cz v'.
  Proof. intros H. apply (zeros_wr_row_same s h0 r0 v' cur H). Qed.

  Lemma inv_row s t x0 x' h0 r0 cur v' held' :
    Inv g s -> nth_error (ms_pool s) t = Some x0 -> rd_row s h0 r0 = Some cur -> v' < W64 ->
    (forall h, h <> h0 -> gsameH s held' x0 x' h) ->
    step_at g s (mk_row s h0 r0 v' t x' held') x0 x' h0 ->
    isBad x' = 0 -> local_b g (ms_frames s) x' = true ->
    Forall (fun b => blk_ok (ms_frames s) b = true) held' ->
    Inv g (mk_row s h0 r0 v' t x' held').
  Proof.
    intros I Ht Hrd Hv Hs H0 Hb Hl Hh.
    apply (inv_step g s (mk_row s h0 r0 v' t x' held') t x0 x' I Ht); try assumption.
    - apply frames_wr_row.
    - cbn. rewrite pool_wr_row. reflexivity.
    - cbn. apply bfs_len_wr_row.
    - cbn. rewrite ents_wr_row. reflexivity.
    - cbn. apply bfs_wr_row_rows; [exact Hv|apply I].
    - intros h. destruct (N.eq_dec h h0) as [->|Hne]; [exact H0|].
      apply (same_step g s _ t x0 x' h I Ht). destruct (Hs h Hne). constructor; auto.
      + apply mk_row_entv.
      + intros r. rewrite (mk_row_rowv _ _ _ _ _ _ _ _ _ _ Hrd). destruct (N.eqb_spec h h0); [contradiction|reflexivity].
      + apply zeros_wr_row_other. exact Hne.
  Qed.

  (* a row step whose change of ownership matches the change of the bits *)
  Lemma inv_row_delta s t x0 x' h0 r0 cur v' held' :
    Inv g s -> nth_error (ms_pool s) t = Some x0 -> rd_row s h0 r0 = Some cur -> v' < W64 ->
    h0 < nbf g (ms_frames s) ->
    (forall h, h <> h0 -> gsameH s held' x0 x' h) ->
    (forall r i, r < ROWS -> i < 64 ->
       b2n (if r =? r0 then N.testbit v' i else bit s h0 r i) + heldc (fidx g h0 r i) (ms_held s) + fr g h0 r i x0 + tr g h0 r x0
       = b2n (bit s h0 r i) + heldc (fidx g h0 r i) held' + fr g h0 r i x' + tr g h0 r x') ->
    (entv s h0 = MARK -> forall r i, r < ROWS -> i < 64 ->
       heldc (fidx g h0 r i) held' + fr g h0 r i x' = heldc (fidx g h0 r i) (ms_held s) + fr g h0 r i x0) ->
    (entv s h0 <> MARK -> pend g h0 x' + 64 * trcount g h0 x0 + cz cur = cz v' + 64 * trcount g h0 x' + pend g h0 x0) ->
    (entv s h0 = MARK -> needsC g h0 x' = 0) ->
    hugec g h0 held' + hfr g h0 x' = hugec g h0 (ms_held s) + hfr g h0 x0 ->
    isBad x' = 0 -> local_b g (ms_frames s) x' = true ->
    Forall (fun b => blk_ok (ms_frames s) b = true) held' ->
    Inv g (mk_row s h0 r0 v' t x' held').
  Proof.
    intros I Ht Hrd Hv Hh Hs HA HB HC HD HF Hb Hl Hhe.
    apply (inv_row s t x0 x' h0 r0 cur v' held' I Ht Hrd Hv Hs); try assumption.
    constructor; intros; rewrite ?mk_row_entv, ?(mk_row_bit _ _ _ _ _ _ _ _ _ _ Hrd) in *; try lia.
    - cbn [ms_held mk_row set_held]. specialize (HA r i H0 H1). lia.
    - cbn [ms_held mk_row set_held]. specialize (HB H0 r i H1 H2). pose proof (I_B g s I h0 Hh H0 r i H1 H2). lia.
    - specialize (HC H0). pose proof (I_C g s I h0 Hh H0). pose proof (mk_row_zeros s h0 r0 v' t x' held' cur Hrd). lia.
    - specialize (HD H0). pose proof (I_D g s I h0 Hh H0). pose proof (sumf_ge (needsC g h0) _ _ _ Ht). lia.
    - apply (I_G g s I h0 Hh H0).
    - cbn [ms_held mk_row set_held]. pose proof (I_F g s I h0 H). pose proof (sumf_ge (hfr g h0) _ _ _ Ht). lia.
  Qed.

  Lemma heldc_cons b held x : heldc x (b :: held) = b2n (cover b x) + heldc x held.
  Proof. reflexivity. Qed.
  Lemma hugec_cons b held h : hugec g h (b :: held) = hugeb g h b + hugec g h held.
  Proof. reflexivity. Qed.
  Lemma hugeb_small h f k : (k < hord g)%nat -> hugeb g h (f, k) = 0.
  Proof. intros H. unfold hugeb. cbn [snd]. destruct (Nat.leb_spec (hord g) k); [lia|reflexivity]. Qed.

  Lemma mod_add_aligned a b m : m <> 0 -> a mod m = 0 -> b mod m = 0 -> (a + b) mod m = 0.
  Proof. intros Hm Ha Hb. apply N.mod_divide in Ha, Hb; try assumption. apply N.mod_divide; [assumption|]. apply N.divide_add_r; assumption. Qed.
  Lemma mod_mul_aligned a b m : m <> 0 -> b mod m = 0 -> (a * b) mod m = 0.
  Proof. intros Hm Hb. apply N.mod_divide in Hb; try assumption. apply N.mod_divide; [assumption|]. apply N.divide_mul_r; assumption. Qed.
  Lemma HF_mod_pow2 k : (k <= hord g)%nat -> HF mod pow2 k = 0.
  Proof. intros H. rewrite HF_pow2, (pow2_split k (hord g)) by lia. apply N.mod_mul, pow2_nz. Qed.
  Lemma mod64_pow2 k : (k <= 6)%nat -> 64 mod pow2 k = 0.
  Proof. intros H. change 64 with (pow2 6). rewrite (pow2_split k 6) by lia. apply N.mod_mul, pow2_nz. Qed.

  (* a thread whose whole ghost is "n frames pending at h" *)
  Record pending_at (x0 : thr) (h n : N) : Prop := {
    PA_fr : forall h' r i, fr g h' r i x0 = 0;
    PA_tr : forall h' r, tr g h' r x0 = 0;
    PA_trc : forall h', trcount g h' x0 = 0;
    PA_hfr : forall h', hfr g h' x0 = 0;
    PA_pend : pend g h x0 = n;
    PA_pend' : forall h', h' <> h -> pend g h' x0 = 0;
    PA_nd : needsC g h x0 = 1
  }.

  Lemma pending_gpend x h n : ghost_of g x = gpend h n -> pending_at x h n.
  Proof. intros E. constructor; intros; unfold fr, tr, pend, trcount, needsC, hfr; rewrite E; cbn; unfold inb;
    rewrite ?N.eqb_refl; try reflexivity; try lia; destr_if; lia. Qed.
  Lemma pending_gtr0 x h n lo : ghost_of g x = gtr h n lo 0 -> pending_at x h n.
  Proof. intros E. constructor; intros; unfold fr, tr, pend, trcount, needsC, hfr; rewrite E; cbn; unfold inb;
    rewrite ?N.eqb_refl; try reflexivity; try lia; destr_if; lia. Qed.

  Lemma finish_get_row s h r v' t c f : is_put c = false ->
    finish (wr_row s h r v') t c (Ok f) = mk_row s h r v' t (TIdle (Some (Ok f))) ((f, c_order c) :: ms_held s).
  Proof. intros H. destruct c; try discriminate; unfold finish, mk_row; cbn [ms_held set_thr c_order]; rewrite held_wr_row; reflexivity. Qed.
  Lemma finish_get_ent s h v' t c f : is_put c = false ->
    finish (wr_ent s h v') t c (Ok f) = mk_ent s h v' t (TIdle (Some (Ok f))) ((f, c_order c) :: ms_held s).
  Proof. intros H. destruct c; try discriminate; reflexivity. Qed.
  Lemma set_thr_row s h r v t x : set_thr (wr_row s h r v) t x = mk_row s h r v t x (ms_held s).
  Proof. unfold mk_row, set_held, set_thr. cbn [ms_frames ms_ents ms_bfs ms_pool ms_held]. rewrite held_wr_row. reflexivity. Qed.
  Lemma goto_row s h r v t c p : goto (wr_row s h r v) t c p = mk_row s h r v t (TRun c p) (ms_held s).
  Proof. apply set_thr_row. Qed.
  Lemma finish_put s t c r : is_put c = true -> finish s t c r = set_thr s t (TIdle (Some r)).
  Proof. intros H. destruct c; try discriminate. destruct r; reflexivity. Qed.

  (* the bits [off, off + 2^k) of row r of h are set and the block is handed out *)
  Lemma inv_alloc_block s t x0 h r cur v' off k res :
    Inv g s -> nth_error (ms_pool s) t = Some x0 -> rd_row s h r = Some cur -> v' < W64 ->
    h < nbf g (ms_frames s) -> r < ROWS -> (k < hord g)%nat -> (k <= 6)%nat -> off + pow2 k <= 64 -> off mod pow2 k = 0 ->
    (forall i, i < 64 -> N.testbit v' i = N.testbit cur i || inb off (pow2 k) i) ->
    (forall i, inb off (pow2 k) i = true -> N.testbit cur i = false) ->
    pending_at x0 h (pow2 k) ->
    Inv g (mk_row s h r v' t (TIdle (Some res)) ((h * HF + r * 64 + off, k) :: ms_held s)).
  Proof.
    intros I Ht Hrd Hv Hh Hr Hk Hk6 Hoff Hal Hset Hfree [Pfr Ptr Ptrc Phfr Pp Pp' Pnd].
    pose proof (rowv_rd s h r cur Hrd) as Erow.
    pose proof (needs_counter s t x0 h I Ht Hh Pnd) as He.
    assert (Hcov : forall h' r' i, r' < ROWS -> i < 64 ->
              cover (h * HF + r * 64 + off, k) (fidx g h' r' i) = (h' =? h) && ((r' =? r) && inb off (pow2 k) i)).
    { intros h' r' i Hr' Hi. unfold cover, fidx. cbn [fst snd].
      rewrite <- !N.add_assoc. rewrite (inb_in_huge g h (r * 64 + off) (pow2 k) h' (r' * 64 + i)).
      - rewrite (inb_in_row r off (pow2 k) r' i Hoff Hi). reflexivity.
      - pose proof (rowbit_lt g wf r 63 Hr ltac:(lia)). lia.
      - apply (rowbit_lt g wf); assumption. }
    apply (inv_row_delta s t x0 _ h r cur v' _ I Ht Hrd Hv Hh).
    - intros h' Hne. constructor; intros; rewrite ?Pfr, ?Ptr, ?Ptrc, ?Phfr, ?(Pp' _ Hne); gsimp; unfold inb; try lia.
      + rewrite heldc_cons, Hcov by assumption. destruct (N.eqb_spec h' h); [contradiction|]. cbn. lia.
      + destr_if; lia.
      + destr_if; lia.
      + rewrite hugec_cons, hugeb_small by assumption. lia.
    - intros r' i Hr' Hi. rewrite Pfr, Ptr, heldc_cons, Hcov, N.eqb_refl by assumption. cbn [andb]. gsimp. unfold bit.
      destruct (N.eqb_spec r' r) as [->|Hne]; cbn [andb].
      + rewrite Erow, (Hset i Hi). specialize (Hfree i). destruct (inb off (pow2 k) i) eqn:Ei.
        * rewrite Hfree by reflexivity. cbn. unfold inb. lia.
        * rewrite orb_false_r. cbn. unfold inb. lia.
      + cbn. unfold inb. lia.
    - intros Hm. contradiction.
    - intros _. rewrite Ptrc, Pp. pose proof (cz_set cur v' off (pow2 k) Hoff Hset Hfree). gsimp. destr_if; lia.
    - intros Hm. contradiction.
    - rewrite hugec_cons, hugeb_small, Phfr by assumption. gsimp. cbn. lia.
    - reflexivity.
    - reflexivity.
    - constructor; [|apply I].
      unfold blk_ok. cbn [fst snd]. apply andb_true_iff. split.
      + apply N.eqb_eq. pose proof (pow2_nz k).
        apply mod_add_aligned; [assumption| |exact Hal].
        apply mod_add_aligned; [assumption| |]; apply mod_mul_aligned; try assumption.
        * apply HF_mod_pow2. lia.
        * apply mod64_pow2. exact Hk6.
      + apply N.leb_le. pose proof (pow2_pos k).
        assert (Hi : off + pow2 k - 1 < 64) by lia.
        pose proof (I_A g s I h r (off + pow2 k - 1) Hh Hr Hi) as A.
        unfold bit in A. rewrite Erow, Hfree in A by (unfold inb; lia).
        unfold isMark, oor, fidx in A. destruct (N.eqb_spec (entv s h) MARK); [contradiction|]. cbn [b2n] in A.
        destruct (N.leb_spec (ms_frames s) (h * HF + r * 64 + (off + pow2 k - 1))); [cbn [b2n] in A; lia|]. lia.
  Qed.

  (* the undo increment of a pending amount cannot fail *)
  Lemma inc_possible s t x0 h n cur : Inv g s -> nth_error (ms_pool s) t = Some x0 -> h < nbf g (ms_frames s) ->
    needsC g h x0 = 1 -> pend g h x0 = n -> rd_ent s h = Some cur ->
    e_inc g cur n = Some (cur + n) /\ cur <> MARK /\ cur + n <= HF.
  Proof.
    intros I Ht Hh Hnd Hp Hrd. pose proof (entv_rd s h cur Hrd) as Ec.
    pose proof (needs_counter s t x0 h I Ht Hh Hnd) as He. rewrite Ec in He.
    pose proof (counter_bound s t x0 h I Ht Hh ltac:(rewrite Ec; exact He)) as Kb. rewrite Ec, Hp in Kb.
    unfold e_inc, e_free, e_huge. destruct (N.eqb_spec cur MARK); [contradiction|]. cbn [negb andb].
    destruct (N.leb_spec (cur + n) HF); [auto|lia].
  Qed.

  (* ----- what ownership says about the bits ----- *)
  Lemma transit_bit s t x0 h r i : Inv g s -> nth_error (ms_pool s) t = Some x0 ->
    h < nbf g (ms_frames s) -> r < ROWS -> i < 64 -> tr g h r x0 = 1 -> bit s h r i = true.
  Proof.
    intros I Ht Hh Hr Hi Htr. apply b2n_true. pose proof (I_A g s I h r i Hh Hr Hi) as A.
    pose proof (sumf_ge (tr g h r) _ _ _ Ht) as G. unfold isMark in A.
    destruct (N.eqb_spec (entv s h) MARK) as [He|He]; cbn [b2n] in A; [|lia].
    pose proof (I_B g s I h Hh He r i Hr Hi). lia.
  Qed.
  Lemma transit_row_full s t x0 h r cur : Inv g s -> nth_error (ms_pool s) t = Some x0 ->
    h < nbf g (ms_frames s) -> r < ROWS -> tr g h r x0 = 1 -> rd_row s h r = Some cur -> cur = MAX64.
  Proof.
    intros I Ht Hh Hr Htr Hrd. destruct (has_row g wf s h r I Hh Hr) as (v & Ev & Hv). rewrite Hrd in Ev. inversion Ev; subst v.
    apply row_all_set; [exact Hv|]. intros i Hi. pose proof (transit_bit s t x0 h r i I Ht Hh Hr Hi Htr) as B.
    unfold bit in B. rewrite (rowv_rd s h r cur Hrd) in B. exact B.
  Qed.
  Lemma owned_bit s t x0 h r i : Inv g s -> nth_error (ms_pool s) t = Some x0 ->
    h < nbf g (ms_frames s) -> r < ROWS -> i < 64 -> entv s h <> MARK -> fr g h r i x0 = 1 -> bit s h r i = true.
  Proof.
    intros I Ht Hh Hr Hi He Hfr. apply b2n_true. pose proof (I_A g s I h r i Hh Hr Hi) as A.
    pose proof (sumf_ge (fr g h r i) _ _ _ Ht) as G. unfold isMark in A.
    destruct (N.eqb_spec (entv s h) MARK); [contradiction|]. cbn [b2n] in A. lia.
  Qed.

  (* ----- a row enters / leaves the transit of the thread ----- *)
  Record tr_grow (x0 x' : thr) (h r : N) : Prop := {
    TG_fr : forall h' r' i, fr g h' r' i x' = fr g h' r' i x0;
    TG_hfr : forall h', hfr g h' x' = hfr g h' x0;
    TG_pend : forall h', pend g h' x' = pend g h' x0;
    TG_nd : forall h', needsC g h' x' = needsC g h' x0;
    TG_tr : forall r', tr g h r' x' = tr g h r' x0 + b2n (r' =? r);
    TG_tr' : forall h' r', h' <> h -> tr g h' r' x' = tr g h' r' x0;
    TG_trc : trcount g h x' = trcount g h x0 + 1;
    TG_trc' : forall h', h' <> h -> trcount g h' x' = trcount g h' x0
  }.
  Lemma tr_grow_ghost x0 x' :
    ghost_of g x' = {| g_h := g_h (ghost_of g x0); own_lo := own_lo (ghost_of g x0); own_n := own_n (ghost_of g x0);
                       tr_lo := tr_lo (ghost_of g x0); tr_n := tr_n (ghost_of g x0) + 1; p_n := p_n (ghost_of g x0);
                       nd := nd (ghost_of g x0); hu := hu (ghost_of g x0) |} ->
    tr_grow x0 x' (g_h (ghost_of g x0)) (tr_lo (ghost_of g x0) + tr_n (ghost_of g x0)).
  Proof.
    intros E. constructor; intros; unfold fr, tr, pend, trcount, needsC, hfr; rewrite E;
      cbn [g_h own_lo own_n tr_lo tr_n p_n nd hu]; rewrite ?N.eqb_refl; try reflexivity; unfold inb; try lia; destr_if; lia.
  Qed.

  Lemma inv_fill_row s t x0 x' h r :
    Inv g s -> nth_error (ms_pool s) t = Some x0 -> rd_row s h r = Some 0 ->
    h < nbf g (ms_frames s) -> r < ROWS -> tr_grow x0 x' h r ->
    isBad x' = 0 -> local_b g (ms_frames s) x' = true ->
    Inv g (mk_row s h r MAX64 t x' (ms_held s)).
  Proof.
    intros I Ht Hrd Hh Hr [Tfr Thfr Tp Tnd Ttr Ttr' Ttrc Ttrc'] Hb Hl.
    pose proof (rowv_rd s h r 0 Hrd) as Erow.
    apply (inv_row_delta s t x0 x' h r 0 MAX64 _ I Ht Hrd); try assumption; try reflexivity; try (apply I).
    - intros h' Hne. constructor; intros; rewrite ?Tfr, ?Thfr, ?Tp, ?Tnd, ?(Ttr' _ _ Hne), ?(Ttrc' _ Hne); lia.
    - intros r' i Hr' Hi. rewrite Tfr, Ttr. unfold bit. destruct (N.eqb_spec r' r) as [->|Hne].
      + rewrite Erow, testbit_MAX64, N.bits_0. cbn. destruct (N.ltb_spec i 64); [cbn; lia|lia].
      + cbn. lia.
    - intros _ r' i _ _. rewrite Tfr. reflexivity.
    - intros _. rewrite Tp, Ttrc, cz_0, cz_MAX64. lia.
    - intros He. rewrite Tnd. pose proof (I_D g s I h Hh He). pose proof (sumf_ge (needsC g h) _ _ _ Ht). lia.
    - rewrite Thfr. reflexivity.
  Qed.

  Lemma inv_unfill_row s t x0 x' h r cur :
    Inv g s -> nth_error (ms_pool s) t = Some x0 -> rd_row s h r = Some cur ->
    h < nbf g (ms_frames s) -> r < ROWS -> tr_grow x' x0 h r ->
    isBad x' = 0 -> local_b g (ms_frames s) x' = true ->
    cur = MAX64 /\ Inv g (mk_row s h r 0 t x' (ms_held s)).
  Proof.
    intros I Ht Hrd Hh Hr [Tfr Thfr Tp Tnd Ttr Ttr' Ttrc Ttrc'] Hb Hl.
    assert (Hcur : cur = MAX64).
    { apply (transit_row_full s t x0 h r cur I Ht Hh Hr); [|exact Hrd]. pose proof (Ttr r) as E. rewrite N.eqb_refl in E.
      unfold tr in *. cbn [b2n] in E. lia. }
    split; [exact Hcur|]. subst cur.
    pose proof (rowv_rd s h r MAX64 Hrd) as Erow.
    apply (inv_row_delta s t x0 x' h r MAX64 0 _ I Ht Hrd); try assumption; try reflexivity; try (apply I).
    - intros h' Hne. constructor; intros; rewrite <- ?Tfr, <- ?Thfr, <- ?Tp, <- ?Tnd, <- ?(Ttr' _ _ Hne), <- ?(Ttrc' _ Hne); lia.
    - intros r' i Hr' Hi. rewrite Tfr, Ttr. unfold bit. destruct (N.eqb_spec r' r) as [->|Hne].
      + rewrite Erow, testbit_MAX64, N.bits_0. cbn. destruct (N.ltb_spec i 64); [cbn; lia|lia].
      + cbn. lia.
    - intros _ r' i _ _. rewrite Tfr. reflexivity.
    - intros _. rewrite Tp, Ttrc, cz_0, cz_MAX64. lia.
    - intros He. rewrite <- Tnd. pose proof (I_D g s I h Hh He). pose proof (sumf_ge (needsC g h) _ _ _ Ht). lia.
    - rewrite Thfr. reflexivity.
  Qed.

  Lemma zero_bit_in_range s h r i : Inv g s -> h < nbf g (ms_frames s) -> r < ROWS -> i < 64 ->
    entv s h <> MARK -> bit s h r i = false -> fidx g h r i < ms_frames s.
  Proof.
    intros I Hh Hr Hi He Hb. pose proof (I_A g s I h r i Hh Hr Hi) as A. rewrite Hb in A. unfold isMark, oor in A.
    destruct (N.eqb_spec (entv s h) MARK); [contradiction|]. cbn [b2n] in A.
    destruct (N.leb_spec (ms_frames s) (fidx g h r i)); [cbn [b2n] in A; lia|assumption].
  Qed.

  (* the last row of a multi-row block is filled and the block is handed out *)
  Lemma inv_alloc_rows s t x0 h lo q k res :
    Inv g s -> nth_error (ms_pool s) t = Some x0 -> rd_row s h (lo + q) = Some 0 ->
    h < nbf g (ms_frames s) -> lo + q < ROWS -> (k < hord g)%nat -> pow2 k = 64 * (q + 1) ->
    ghost_of g x0 = gtr h (pow2 k) lo q ->
    blk_ok (ms_frames s) (h * HF + lo * 64, k) = true ->
    Inv g (mk_row s h (lo + q) MAX64 t (TIdle (Some res)) ((h * HF + lo * 64, k) :: ms_held s)).
  Proof.
    intros I Ht Hrd Hh Hr Hk Hn E Hok.
    pose proof (rowv_rd s h _ 0 Hrd) as Erow.
    assert (Hnd : needsC g h x0 = 1) by (unfold needsC; rewrite E; cbn; rewrite N.eqb_refl; reflexivity).
    pose proof (needs_counter s t x0 h I Ht Hh Hnd) as He.
    assert (Hcov : forall h' r' i, r' < ROWS -> i < 64 ->
              cover (h * HF + lo * 64, k) (fidx g h' r' i) = (h' =? h) && inb lo (q + 1) r').
    { intros h' r' i Hr' Hi. unfold cover, fidx. cbn [fst snd].
      rewrite <- !N.add_assoc, Hn. rewrite (inb_in_huge g h (lo * 64) (64 * (q + 1)) h' (r' * 64 + i)).
      - rewrite (inb_rows lo (q + 1) r' i Hi). reflexivity.
      - rewrite (HF_64 g wf). lia.
      - apply (rowbit_lt g wf); assumption. }
    apply (inv_row_delta s t x0 _ h (lo + q) 0 MAX64 _ I Ht Hrd); try assumption; try reflexivity.
    - intros h' Hne. constructor; intros; unfold fr, tr, pend, trcount, needsC, hfr; rewrite E; gsimp; unfold inb; try (destr_if; lia).
      + rewrite heldc_cons, Hcov by assumption. destruct (N.eqb_spec h' h); [contradiction|]. cbn. lia.
      + rewrite hugec_cons, hugeb_small by assumption. lia.
    - intros r' i Hr' Hi. rewrite heldc_cons, Hcov, N.eqb_refl by assumption. cbn [andb].
      unfold fr, tr, bit. rewrite E. gsimp. rewrite N.eqb_refl. cbn [andb]. unfold inb.
      destruct (N.eqb_spec r' (lo + q)) as [->|Hne].
      + rewrite Erow, testbit_MAX64, N.bits_0. destruct (N.ltb_spec i 64); [cbn; lia|lia].
      + lia.
    - intros Hm. contradiction.
    - intros _. unfold pend, trcount. rewrite E. gsimp. rewrite N.eqb_refl, cz_0, cz_MAX64. destr_if; lia.
    - intros Hm. contradiction.
    - rewrite hugec_cons, hugeb_small by assumption. unfold hfr. rewrite E. gsimp. cbn. lia.
    - constructor; [exact Hok|apply I].
  Qed.

  (* ----- the block of a small get_at / put in (huge frame, row, bit) coordinates ----- *)
  Lemma own_block6 fr c h' r' i : cwf g fr c = true -> small g c = true -> is_get c = false -> (c_order c <= 6)%nat ->
    r' < ROWS -> i < 64 ->
    inb (c_frame c) (c_n c) (fidx g h' r' i)
    = (h' =? c_huge g c) && ((r' =? t_row g XPut c) && inb (t_off XPut c) (c_n c) i).
  Proof.
    intros Hc Hs Hg H6 Hr Hi. destruct (small_call_decomp g wf fr c Hc Hs Hg) as (E & H1 & H2 & Hal & _).
    assert (Hk : (c_order c < hord g)%nat) by (unfold small in Hs; apply Nat.ltb_lt in Hs; exact Hs).
    pose proof (small_fit6 g (c_frame c) (c_order c) Hal Hk H6) as Hfit. fold (t_off XPut c) in Hfit. fold (c_n c) in Hfit.
    rewrite E at 1. unfold fidx. rewrite <- !N.add_assoc.
    rewrite (inb_in_huge g (c_huge g c) (t_row g XPut c * 64 + t_off XPut c) (c_n c) h' (r' * 64 + i)).
    - rewrite (inb_in_row (t_row g XPut c) (t_off XPut c) (c_n c) r' i Hfit Hi). reflexivity.
    - pose proof (rowbit_lt g wf (t_row g XPut c) 63 H1 ltac:(lia)). lia.
    - apply (rowbit_lt g wf); assumption.
  Qed.
  Lemma own_rows7 fr c q h' r' i : cwf g fr c = true -> small g c = true -> is_get c = false -> (7 <= c_order c)%nat ->
    q <= pow2 (c_order c - 6) -> r' < ROWS -> i < 64 ->
    inb (c_frame c + 64 * q) (c_n c - 64 * q) (fidx g h' r' i)
    = (h' =? c_huge g c) && inb (t_row g XPut c + q) (pow2 (c_order c - 6) - q) r'.
  Proof.
    intros Hc Hs Hg H7 Hq Hr Hi. destruct (small_call_decomp g wf fr c Hc Hs Hg) as (E & H1 & H2 & Hal & _).
    destruct (toggle_rows_fit g wf fr c Hc Hs Hg H7) as (E0 & En & Hfit).
    rewrite E, E0, En. unfold fidx. 
    replace (c_huge g c * HF + t_row g XPut c * 64 + 0 + 64 * q) with (c_huge g c * HF + (t_row g XPut c + q) * 64) by lia.
    replace (64 * pow2 (c_order c - 6) - 64 * q) with (64 * (pow2 (c_order c - 6) - q)) by lia.
    rewrite <- !N.add_assoc.
    rewrite (inb_in_huge g (c_huge g c) ((t_row g XPut c + q) * 64) _ h' (r' * 64 + i)).
    - rewrite (inb_rows (t_row g XPut c + q) _ r' i Hi). reflexivity.
    - rewrite (HF_64 g wf). nia.
    - apply (rowbit_lt g wf); assumption.
  Qed.

  Lemma owned_block s t x0 h r cur off w : Inv g s -> nth_error (ms_pool s) t = Some x0 -> rd_row s h r = Some cur ->
    h < nbf g (ms_frames s) -> r < ROWS -> off + w <= 64 -> needsC g h x0 = 1 ->
    (forall i, inb off w i = true -> fr g h r i x0 = 1) ->
    forall i, inb off w i = true -> N.testbit cur i = true.
  Proof.
    intros I Ht Hrd Hh Hr Hw Hnd Hfr i Hi. pose proof (needs_counter s t x0 h I Ht Hh Hnd) as He.
    assert (Hi64 : i < 64) by (unfold inb in Hi; lia).
    pose proof (owned_bit s t x0 h r i I Ht Hh Hr Hi64 He (Hfr i Hi)) as B. unfold bit in B. rewrite (rowv_rd s h r cur Hrd) in B. exact B.
  Qed.

  (* the thread clears bits [off, off+w) of row r that it owns; they become pending *)
  Lemma inv_release s t x0 x' h r cur v' off w :
    Inv g s -> nth_error (ms_pool s) t = Some x0 -> rd_row s h r = Some cur -> v' < W64 ->
    h < nbf g (ms_frames s) -> r < ROWS -> off + w <= 64 -> needsC g h x0 = 1 ->
    (forall i, i < 64 -> N.testbit v' i = N.testbit cur i && negb (inb off w i)) ->
    (forall r' i, r' < ROWS -> i < 64 -> fr g h r' i x0 = fr g h r' i x' + b2n ((r' =? r) && inb off w i)) ->
    (forall r', tr g h r' x' = tr g h r' x0) -> trcount g h x' = trcount g h x0 -> hfr g h x' = hfr g h x0 ->
    pend g h x' = pend g h x0 + w ->
    (forall h', h' <> h -> gsame s x0 x' h') ->
    isBad x' = 0 -> local_b g (ms_frames s) x' = true ->
    Inv g (mk_row s h r v' t x' (ms_held s)).
  Proof.
    intros I Ht Hrd Hv Hh Hr Hw Hnd Hclr Hfr Htr Htrc Hhfr Hp Hs Hb Hl.
    pose proof (rowv_rd s h r cur Hrd) as Erow.
    pose proof (needs_counter s t x0 h I Ht Hh Hnd) as He.
    assert (Hset : forall i, inb off w i = true -> N.testbit cur i = true).
    { apply (owned_block s t x0 h r cur off w I Ht Hrd Hh Hr Hw Hnd). intros i Hi.
      assert (Hi64 : i < 64) by (unfold inb in Hi; lia).
      pose proof (Hfr r i Hr Hi64) as E. rewrite N.eqb_refl, Hi in E. cbn in E. unfold fr in *. lia. }
    apply (inv_row_delta s t x0 x' h r cur v' _ I Ht Hrd); try assumption; try (apply I).
    - intros h' Hne. apply gsame_H, Hs, Hne.
    - intros r' i Hr' Hi. rewrite (Hfr r' i Hr' Hi), Htr. unfold bit. destruct (N.eqb_spec r' r) as [->|Hne]; cbn [andb].
      + rewrite Erow, (Hclr i Hi). specialize (Hset i). destruct (inb off w i).
        * rewrite Hset by reflexivity. cbn. lia.
        * rewrite andb_true_r. cbn. lia.
      + cbn. lia.
    - intros Hm. contradiction.
    - intros _. rewrite Hp, Htrc. pose proof (cz_clear cur v' off w Hw Hclr Hset). lia.
    - intros Hm. contradiction.
    - rewrite Hhfr. reflexivity.
  Qed.

  (* ----- entry-level ownership covers whole huge frames ----- *)
  Lemma hugeb_le_cover fr b h r i : blk_ok fr b = true -> r < ROWS -> i < 64 -> hugeb g h b <= b2n (cover b (fidx g h r i)).
  Proof.
    intros Hok Hr Hi. destruct b as [F K]. unfold hugeb, cover, blk_ok in *. cbn [fst snd] in *.
    destruct (Nat.leb_spec (hord g) K) as [HK|HK]; [|cbn; lia]. cbn [andb].
    assert (Hal : F mod pow2 K = 0) by lia.
    rewrite (pow2_split (hord g) K HK), <- HF_pow2 in *.
    pose proof (HF_pos g). pose proof (pow2_nz (K - hord g)).
    assert (EF : F = F / HF * HF).
    { pose proof (mod_of_multiple F HF (pow2 (K - hord g)) ltac:(lia) ltac:(lia)) as M.
      rewrite (N.mul_comm HF) in M. specialize (M Hal). pose proof (N.div_mod F HF ltac:(lia)). lia. }
    rewrite EF. pose proof (rowbit_lt g wf r i Hr Hi). unfold fidx. rewrite <- N.add_assoc.
    rewrite (inb_ents g (F / HF) (pow2 (K - hord g)) h (r * 64 + i)) by assumption.
    replace (h * HF) with (h * HF + 0) by lia. rewrite (inb_ents g (F / HF) (pow2 (K - hord g)) h 0) by lia. lia.
  Qed.
  Lemma hugec_le_heldc fr held h r i : Forall (fun b => blk_ok fr b = true) held -> r < ROWS -> i < 64 ->
    hugec g h held <= heldc (fidx g h r i) held.
  Proof. intros Hf Hr Hi. apply sumf_le_in. intros b Hb. apply (hugeb_le_cover fr); [|assumption|assumption].
    exact (proj1 (Forall_forall _ _) Hf b Hb). Qed.

  Lemma huge_call_aligned fr c : cwf g fr c = true -> (hord g <= c_order c)%nat -> is_get c = false ->
    c_frame c = c_huge g c * HF /\ c_n c = c_hnum g c * HF.
  Proof.
    intros Hc Hk Hg. unfold c_n, c_hnum. rewrite (pow2_split (hord g) (c_order c) Hk), <- HF_pow2. split; [|reflexivity].
    assert (Hal : c_frame c mod pow2 (c_order c) = 0) by (unfold cwf in Hc; destruct c; try discriminate; cbn [c_frame c_order] in *; lia).
    rewrite (pow2_split (hord g) (c_order c) Hk), <- HF_pow2 in Hal.
    pose proof (HF_pos g). pose proof (pow2_nz (c_order c - hord g)).
    pose proof (mod_of_multiple (c_frame c) HF (pow2 (c_order c - hord g)) ltac:(lia) ltac:(lia)) as M.
    rewrite (N.mul_comm HF) in M. specialize (M Hal). unfold c_huge. pose proof (N.div_mod (c_frame c) HF ltac:(lia)). lia.
  Qed.

  Lemma hu_aligned fr x : local_b g fr x = true -> hu (ghost_of g x) = true ->
    exists a cnt, own_lo (ghost_of g x) = a * HF /\ own_n (ghost_of g x) = cnt * HF.
  Proof.
    destruct x as [l|c p|s c]; cbn [local_b ghost_of]; [cbn; discriminate| |destruct s; cbn; discriminate].
    intros L Hu.
    destruct p; cbn [gpc lpc] in *; try (cbn in Hu; discriminate); try (destruct x; cbn in Hu; discriminate).
    - destruct (is_put c) eqn:Ep; cbn [own_lo own_n ghuge].
      + destruct (huge_call_aligned fr c) as [E1 E2]; try lia; [apply is_put_not_get; exact Ep|].
        exists (c_huge g c + q), (c_hnum g c - q). rewrite E1, E2, N.mul_sub_distr_r, N.mul_add_distr_r. split; reflexivity.
      + exists (group_h g c gi), q. split; reflexivity.
    - destruct (is_put c) eqn:Ep; cbn [own_lo own_n ghuge].
      + exfalso. lia.
      + exists (group_h g c gi), (q + 1). split; reflexivity.
  Qed.
  Lemma hfr_le_fr fm x h r i : local_b g fm x = true -> r < ROWS -> i < 64 -> hfr g h x <= fr g h r i x.
  Proof.
    intros L Hr Hi. unfold hfr, fr. destruct (hu (ghost_of g x)) eqn:Hu; [|cbn; lia]. cbn [andb].
    destruct (hu_aligned fm x L Hu) as (a & cnt & E1 & E2). rewrite E1, E2.
    pose proof (rowbit_lt g wf r i Hr Hi). unfold fidx. rewrite <- N.add_assoc.
    rewrite (inb_ents g a cnt h (r * 64 + i)) by assumption.
    replace (h * HF) with (h * HF + 0) at 1 by lia. pose proof (HF_pos g). rewrite (inb_ents g a cnt h 0) by lia. lia.
  Qed.

  (* entry-level ownership of the other threads is bounded by their frame-level ownership *)
  Lemma hfr_others s t x0 h r i : Inv g s -> nth_error (ms_pool s) t = Some x0 -> r < ROWS -> i < 64 ->
    sumf (hfr g h) (ms_pool s) + fr g h r i x0 <= sumf (fr g h r i) (ms_pool s) + hfr g h x0.
  Proof.
    intros I Ht Hr Hi.
    pose proof (sumf_upd (hfr g h) _ t (TIdle None) x0 Ht) as U1.
    pose proof (sumf_upd (fr g h r i) _ t (TIdle None) x0 Ht) as U2.
    assert (Hle : sumf (hfr g h) (upd (ms_pool s) t (TIdle None)) <= sumf (fr g h r i) (upd (ms_pool s) t (TIdle None))).
    { apply sumf_le_in. intros x Hx. apply (hfr_le_fr (ms_frames s)); try assumption.
      assert (Hf : Forall (fun x => local_b g (ms_frames s) x = true) (upd (ms_pool s) t (TIdle None))) by (apply Forall_upd; [apply I|reflexivity]).
      exact (proj1 (Forall_forall _ _) Hf x Hx). }
    assert (hfr g h (TIdle None) = 0) by reflexivity.
    assert (fr g h r i (TIdle None) = 0) by (gsimp; unfold inb; lia).
    lia.
  Qed.

  (* the frames of a small block, counted inside its huge frame *)
  Lemma gfr_small fm c x : cwf g fm c = true -> small g c = true -> is_get c = false ->
    own_lo (ghost_of g x) = c_frame c -> own_n (ghost_of g x) = c_n c ->
    gfr g (c_huge g c) x = c_n c.
  Proof.
    intros Hc Hs Hg E1 E2. unfold gfr, fr. cbv zeta. rewrite E1, E2.
    destruct (small_call_decomp g wf fm c Hc Hs Hg) as (E & H1 & H2 & Hal & _).
    assert (Hk : (c_order c < hord g)%nat) by (unfold small in Hs; apply Nat.ltb_lt in Hs; exact Hs).
    destruct (Nat.le_gt_cases (c_order c) 6) as [H6|H7].
    - pose proof (small_fit6 g (c_frame c) (c_order c) Hal Hk H6) as Hfit. fold (t_off XPut c) in Hfit. fold (c_n c) in Hfit.
      rewrite (gsum_ext g _ (fun r i => b2n (r =? t_row g XPut c) * b2n (inb (t_off XPut c) (c_n c) i))).
      2:{ intros r i Hr Hi. rewrite (own_block6 fm c _ r i Hc Hs Hg H6 Hr Hi), N.eqb_refl. cbn [andb].
          destruct (r =? t_row g XPut c); cbn; lia. }
      unfold gsum. rewrite (ssum_ext _ _ (fun r => c_n c * b2n (r =? t_row g XPut c))).
      2:{ intros r Hr. rewrite ssum_mulc, (ssum_inb_in 64 _ _ Hfit). lia. }
      rewrite ssum_mulc, ssum_eqb. destruct (N.ltb_spec (t_row g XPut c) ROWS); cbn; lia.
    - destruct (toggle_rows_fit g wf fm c Hc Hs Hg H7) as (E0 & En & Hfit).
      rewrite (gsum_ext g _ (fun r _ => b2n (inb (t_row g XPut c) (pow2 (c_order c - 6)) r))).
      2:{ intros r i Hr Hi. pose proof (own_rows7 fm c 0 (c_huge g c) r i Hc Hs Hg H7 ltac:(lia) Hr Hi) as Eo.
          rewrite N.mul_0_r, N.add_0_r, N.sub_0_r, N.add_0_r, N.sub_0_r, N.eqb_refl in Eo. rewrite Eo. reflexivity. }
      rewrite (gsum_row g), (ssum_inb_in ROWS _ _ Hfit). lia.
  Qed.
End Shapes.

