(* Step shapes: a step only moves the pc / writes one entry / writes one row (possibly changing the held
   list), with the obligations reduced to the affected huge frame; and the tactics used by the per-pc lemmas. *)
From Coq Require Import PeanoNat.
From LLF Require Import Base BitLemmas Row RowProofs Bitfield Lower Spec LowerMachine ConcBase ConcInvDef ConcInvGeom ConcInvStep.

Section Shapes.
  Variable g : geom.
  Hypothesis wf : wf_geom g.
  Notation HF := (HF g).
  Notation THUGE := (THUGE g).
  Notation ROWS := (ROWS g).

  (* the ghost part of `same_at`, with a possibly different held list *)
  Record gsameH (s : mstate) (held' : list (N * nat)) (x0 x' : thr) (h : N) : Prop := {
    GH_fr : forall r i, r < ROWS -> i < 64 ->
            heldc (fidx g h r i) held' + fr g h r i x' = heldc (fidx g h r i) (ms_held s) + fr g h r i x0;
    GH_tr : forall r, tr g h r x' = tr g h r x0;
    GH_pend : pend g h x' = pend g h x0;
    GH_trc : trcount g h x' = trcount g h x0;
    GH_nd : entv s h = MARK -> needsC g h x' <= needsC g h x0;
    GH_hfr : hugec g h held' + hfr g h x' = hugec g h (ms_held s) + hfr g h x0
  }.
  (* ... and with the same held list *)
  Record gsame (s : mstate) (x0 x' : thr) (h : N) : Prop := {
    GS_fr : forall r i, fr g h r i x' = fr g h r i x0;
    GS_tr : forall r, tr g h r x' = tr g h r x0;
    GS_pend : pend g h x' = pend g h x0;
    GS_trc : trcount g h x' = trcount g h x0;
    GS_nd : entv s h = MARK -> needsC g h x' <= needsC g h x0;
    GS_hfr : hfr g h x' = hfr g h x0
  }.
  Lemma gsame_H s x0 x' h : gsame s x0 x' h -> gsameH s (ms_held s) x0 x' h.
  Proof. intros [A B C D E F]. constructor; auto; intros; rewrite ?A, ?F; reflexivity. Qed.

  Definition mk_thr (s : mstate) (t : nat) (x' : thr) (held' : list (N * nat)) : mstate :=
    set_held (set_thr s t x') held'.

  (* ----- only the thread (and the held list) changes ----- *)
  Lemma inv_thr s t x0 x' held' :
    Inv g s -> nth_error (ms_pool s) t = Some x0 ->
    (forall h, gsameH s held' x0 x' h) ->
    isBad x' = 0 -> local_b g (ms_frames s) x' = true ->
    Forall (fun b => blk_ok (ms_frames s) b = true) held' ->
    Inv g (mk_thr s t x' held').
  Proof.
    intros I Ht Hs Hb Hl Hh.
    apply (inv_step g s (mk_thr s t x' held') t x0 x' I Ht); try reflexivity; try assumption.
    - apply I.
    - intros h. apply (same_step g s _ t x0 x' h I Ht). destruct (Hs h). constructor; auto.
  Qed.
  Lemma inv_plain s t x0 x' :
    Inv g s -> nth_error (ms_pool s) t = Some x0 ->
    (forall h, gsame s x0 x' h) ->
    isBad x' = 0 -> local_b g (ms_frames s) x' = true ->
    Inv g (set_thr s t x').
  Proof.
    intros I Ht Hs Hb Hl. change (Inv g (mk_thr s t x' (ms_held s))).
    apply (inv_thr s t x0 x' (ms_held s) I Ht); try assumption; [|apply I].
    intros h. apply gsame_H, Hs.
  Qed.

  (* ----- one entry is written ----- *)
  Definition mk_ent (s : mstate) (h0 e' : N) (t : nat) (x' : thr) (held' : list (N * nat)) : mstate :=
    set_held (set_thr (wr_ent s h0 e') t x') held'.

  Lemma mk_ent_entv s h0 e' t x' held' cur h : rd_ent s h0 = Some cur ->
    entv (mk_ent s h0 e' t x' held') h = if h =? h0 then e' else entv s h.
  Proof. intros H. apply (entv_wr_ent s h0 e' cur h H). Qed.
  Lemma mk_ent_bit s h0 e' t x' held' h r i : bit (mk_ent s h0 e' t x' held') h r i = bit s h r i.
  Proof. reflexivity. Qed.
  Lemma mk_ent_zeros s h0 e' t x' held' h : zeros (mk_ent s h0 e' t x' held') h = zeros s h.
  Proof. reflexivity. Qed.

  Lemma inv_ent s t x0 x' h0 cur e' held' :
    Inv g s -> nth_error (ms_pool s) t = Some x0 -> rd_ent s h0 = Some cur ->
    (forall h, h <> h0 -> gsameH s held' x0 x' h) ->
    step_at g s (mk_ent s h0 e' t x' held') x0 x' h0 ->
    isBad x' = 0 -> local_b g (ms_frames s) x' = true ->
    Forall (fun b => blk_ok (ms_frames s) b = true) held' ->
    Inv g (mk_ent s h0 e' t x' held').
  Proof.
    intros I Ht Hrd Hs H0 Hb Hl Hh.
    apply (inv_step g s (mk_ent s h0 e' t x' held') t x0 x' I Ht); try reflexivity; try assumption.
    - cbn. apply upd_length.
    - apply I.
    - intros h. destruct (N.eq_dec h h0) as [->|Hne]; [exact H0|].
      apply (same_step g s _ t x0 x' h I Ht). destruct (Hs h Hne). constructor; auto.
      rewrite (mk_ent_entv _ _ _ _ _ _ _ _ Hrd). destruct (N.eqb_spec h h0); [contradiction|reflexivity].
  Qed.

  (* a counter entry is updated and the difference moves to / from the thread's pending amount *)
  Lemma inv_counter s t x0 x' h cur e' :
    Inv g s -> nth_error (ms_pool s) t = Some x0 -> rd_ent s h = Some cur ->
    h < nbf g (ms_frames s) -> cur <> MARK -> e' <> MARK ->
    (forall h', h' <> h -> gsame s x0 x' h') ->
    (forall r i, fr g h r i x' = fr g h r i x0) -> (forall r, tr g h r x' = tr g h r x0) ->
    trcount g h x' = trcount g h x0 -> hfr g h x' = hfr g h x0 ->
    e' + pend g h x' = cur + pend g h x0 ->
    isBad x' = 0 -> local_b g (ms_frames s) x' = true ->
    Inv g (mk_ent s h e' t x' (ms_held s)).
  Proof.
    intros I Ht Hrd Hh Hc He' Hs Hfr Htr Htc Hhf Hp Hb Hl.
    pose proof (entv_rd s h cur Hrd) as Ec.
    apply (inv_ent s t x0 x' h cur e' (ms_held s) I Ht Hrd); try assumption; [| |apply I].
    - intros h' Hne. apply gsame_H, Hs, Hne.
    - constructor; rewrite ?(mk_ent_entv _ _ _ _ _ _ _ _ Hrd), ?N.eqb_refl, ?mk_ent_bit, ?mk_ent_zeros; try contradiction; try lia.
      + intros _ r i Hr Hi. cbn [ms_held mk_ent set_held]. rewrite Hfr, Htr, Ec. unfold isMark.
        destruct (N.eqb_spec e' MARK); [contradiction|]. destruct (N.eqb_spec cur MARK); [contradiction|]. lia.
      + intros _ _. pose proof (I_C g s I h Hh ltac:(rewrite Ec; exact Hc)) as C. rewrite Ec in C. rewrite Htc. lia.
      + intros _. cbn [ms_held mk_ent set_held]. pose proof (I_F g s I h ltac:(rewrite Ec; exact Hc)) as F.
        pose proof (sumf_ge (hfr g h) _ _ _ Ht). lia.
  Qed.

  (* ----- one row is written ----- *)
  Definition mk_row (s : mstate) (h0 r0 v' : N) (t : nat) (x' : thr) (held' : list (N * nat)) : mstate :=
    set_held (set_thr (wr_row s h0 r0 v') t x') held'.

  Lemma mk_row_entv s h0 r0 v' t x' held' h : entv (mk_row s h0 r0 v' t x' held') h = entv s h.
  Proof. apply entv_wr_row. Qed.
  Lemma mk_row_rowv s h0 r0 v' t x' held' cur h r : rd_row s h0 r0 = Some cur ->
    rowv (mk_row s h0 r0 v' t x' held') h r = if (h =? h0) && (r =? r0) then v' else rowv s h r.
  Proof. intros H. apply (rowv_wr_row s h0 r0 v' cur h r H). Qed.
  Lemma mk_row_bit s h0 r0 v' t x' held' cur r i : rd_row s h0 r0 = Some cur ->
    bit (mk_row s h0 r0 v' t x' held') h0 r i = if r =? r0 then N.testbit v' i else bit s h0 r i.
  Proof. intros H. unfold bit. rewrite (mk_row_rowv _ _ _ _ _ _ _ _ _ _ H), N.eqb_refl. cbn [andb]. destruct (r =? r0); reflexivity. Qed.
  Lemma mk_row_zeros s h0 r0 v' t x' held' cur : rd_row s h0 r0 = Some cur ->
    zeros (mk_row s h0 r0 v' t x' held') h0 + cz cur = zeros s h0 + cz v'.
  Proof. intros H. apply (zeros_wr_row_same s h0 r0 v' cur H). Qed.

  Lemma inv_row s t x0 x' h0 r0 cur v' held' :
    Inv g s -> nth_error (ms_pool s) t = Some x0 -> rd_row s h0 r0 = Some cur -> v' < W64 ->
    (forall h, h <> h0 -> gsameH s held' x0 x' h) ->
    step_at g s (mk_row s h0 r0 v' t x' held') x0 x' h0 ->
    isBad x' = 0 -> local_b g (ms_frames s) x' = true ->
    Forall (fun b => blk_ok (ms_frames s) b = true) held' ->
    Inv g (mk_row s h0 r0 v' t x' held').
  Proof.
    intros I Ht Hrd Hv Hs H0 Hb Hl Hh.
    apply (inv_step g s (mk_row s h0 r0 v' t x' held') t x0 x' I Ht); try assumption.
    - apply frames_wr_row.
    - cbn. rewrite pool_wr_row. reflexivity.
    - cbn. apply bfs_len_wr_row.
    - cbn. rewrite ents_wr_row. reflexivity.
    - cbn. apply bfs_wr_row_rows; [exact Hv|apply I].
    - intros h. destruct (N.eq_dec h h0) as [->|Hne]; [exact H0|].
      apply (same_step g s _ t x0 x' h I Ht). destruct (Hs h Hne). constructor; auto.
      + apply mk_row_entv.
      + intros r. rewrite (mk_row_rowv _ _ _ _ _ _ _ _ _ _ Hrd). destruct (N.eqb_spec h h0); [contradiction|reflexivity].
      + apply zeros_wr_row_other. exact Hne.
  Qed.
End Shapes.

(* ---------- tactics ---------- *)
(* expose the ghost functions of concrete pcs *)
Ltac gsimp :=
  unfold fr, tr, pend, trcount, needsC, hfr;
  cbn [ghost_of gpc gtoggle gpend gtr gown ghuge gput gsplit gh0 g_h own_lo own_n tr_lo tr_n p_n nd hu].
Ltac gsimp_in H :=
  unfold fr, tr, pend, trcount, needsC, hfr in H;
  cbn [ghost_of gpc gtoggle gpend gtr gown ghuge gput gsplit gh0 g_h own_lo own_n tr_lo tr_n p_n nd hu] in H.
Ltac destr_if :=
  repeat match goal with
         | |- context [if ?b then _ else _] => destruct b eqn:?
         end.
Ltac gsolve := intros; gsimp; unfold inb; try lia; destr_if; try lia.
(* the six ghost-sameness conditions *)
Ltac gsame_tac := constructor; gsolve.
