(* Whole-history form of the sequential upper-allocator theorems.

   `gstep` / `grun`   : Handoff.v's history runner (`step_op` / `run_ops`) on the ghost-extended state `ustate`
                        (get / put / drain through `ghost_lift`, change_tree through `ghost_change`);
                        `grun_erase`: forgetting the ghost gives exactly `run_ops` (the program never reads it).
   `op_valid`         : the valid-parameter condition of property C09; it depends on the configuration shape
                        only (`op_valid_shape`), which no operation changes, hence `ops_valid u0 ops` is stated
                        against the initial state.
   `gtrace`           : the list of steps (state before, call, output, state after) of a run.
   `step_ok`          : what every step satisfies: no panic, UpperInv before and after, shape unchanged and the
                        per-call refinement facts (C02, C13, C15, C04, C14).
   `grun_steps_ok`    : the induction over histories.  `grun_correct` : + no Panic in the outputs, UpperInv of
                        the final state.
   `new_run_*`        : the same from the states built by `llfree_new` (FreeAll / AllocAll / Recover).
   `builtin_*`        : instances for the built-in policies of Policies.v.
   `hidden`, `quiet_for`, `hidden_step`, `hidden_run`, `hidden_history`, `offline_hides` : C15's "while": a
                        tree whose free frames are all hidden stays so, and no get returns a frame of it, along
                        every history without change_tree and without frees into the tree.
   `drained_base_fail_all_hidden`, `single_slot_fail_*` : C10 / C11 in the summed form ("no visible frame is
                        free" as a statement about `exact_free`). *)
From Coq Require Import List NArith Bool Lia PeanoNat.
From LLF Require Import Base BitLemmas Row Bitfield Lower Spec Upper UpperInvDef LowerFacts AbsLemmas LowerFactsGet
  LowerInitProofs RecoverProofs LowerFactsProofs UpperPrims UpperPutProofs UpperStatsProofs UpperGetProofs UpperGetComplete
  Policies PolicyFacts Handoff GlueProofs.

(* ====================================================================================== *)
(* validity of a call's parameters                                                         *)
(* ====================================================================================== *)
(* get / put: the slot index, if given, is below the slot count of the request's class (`valid_req`,
   UpperPutProofs.v; the same condition as `valid_local` of UpperGetProofs.v);
   change_tree: any matcher (any tree id, existing or not); a class set by the change is configured;
   stats_at: a managed frame. *)
Definition op_valid (u : upper) (o : op) : Prop :=
  match o with
  | OGet _ r => valid_req u r
  | OPut _ r => valid_req u r
  | ODrain => True
  | OChange _ ch => change_cfg u ch
  | OStats => True
  | OTreeStats => True
  | OStatsAt f _ => f < frames (low u)
  end.

Definition ops_valid (u0 : upper) (ops : list op) : Prop := Forall (op_valid u0) ops.

Lemma valid_req_local u r : valid_req u r <-> valid_local u r.
Proof.
  unfold valid_req, valid_local. destruct (r_local r) as [j|]; split; intros H.
  - intros lc E. inversion E; subst. exact H.
  - apply H. reflexivity.
  - intros lc E. discriminate.
  - exact I.
Qed.

(* written out *)
Lemma valid_req_spec u r :
  valid_req u r <->
  match r_local r with
  | None => True
  | Some j => forall l, class_slots u (r_class r) = Some l -> j < N.of_nat (length l)
  end.
Proof. reflexivity. Qed.

Lemma class_slots_of_len u c : class_slots u c = None <-> class_len u c = None.
Proof. unfold class_len. destruct (class_slots u c); cbn; split; congruence. Qed.

Lemma class_len_of_shape u u' c : full_shape u' = full_shape u -> class_len u' c = class_len u c.
Proof. intros H. unfold full_shape in H. rewrite !class_len_shape. inversion H. reflexivity. Qed.

Lemma idx_ok_shape u u' c j : full_shape u' = full_shape u -> idx_ok u c j -> idx_ok u' c j.
Proof.
  intros S H l' E'. pose proof (class_len_of_shape u u' c S) as CL. unfold class_len in CL. rewrite E' in CL.
  destruct (class_slots u c) as [l|] eqn:E; cbn in CL; [|discriminate].
  inversion CL as [CL']. rewrite CL'. apply H. exact E.
Qed.

Lemma op_valid_shape u u' o : full_shape u' = full_shape u -> op_valid u o -> op_valid u' o.
Proof.
  intros S. destruct o; cbn [op_valid]; auto.
  - unfold valid_req. destruct (r_local r); auto. apply idx_ok_shape; auto.
  - unfold valid_req. destruct (r_local r); auto. apply idx_ok_shape; auto.
  - unfold change_cfg. intros H c0 E. specialize (H c0 E).
    rewrite class_slots_of_len in *. rewrite (class_len_of_shape u u' c0 S). exact H.
  - unfold full_shape in S. inversion S. congruence.
Qed.

(* ====================================================================================== *)
(* stats_at on a managed frame never panics                                                *)
(* ====================================================================================== *)
Lemma lower_stats_at_no_panic g l f k :
  LowerInv g l -> f < frames l -> exists s, lower_stats_at g l f k = Ok s.
Proof.
  intros Inv Hf. unfold lower_stats_at. cbv zeta.
  assert (HT : has_tree g l (f / TF g) = true).
  { apply has_tree_spec; [exact Inv|]. apply frame_lt_ntab. exact Hf. }
  rewrite HT. cbn [negb].
  destruct (LowerInv_frame g l f Inv Hf) as (e & rows & He & Hb). rewrite He.
  destruct (Nat.eqb k 0).
  - destruct (0 <? e_free e); [rewrite Hb|]; eauto.
  - destruct (Nat.eqb k (hord g)); [eauto|]. destruct (Nat.eqb k (tord g)); eauto.
Qed.

Section History.
  Variable g : geom.
  Variable policy : N -> N -> N -> pol.
  Notation TF := (TF g).
  Notation Inv := (UpperInv g policy).

  (* ==================================================================================== *)
  (* the runner on ghost states                                                            *)
  (* ==================================================================================== *)
  Definition gstep (x : ustate) (o : op) : out * ustate :=
    match o with
    | OGet f r => let '(y, x') := ghost_lift (fun u => llfree_get g policy u f r) x in (RGet y, x')
    | OPut f r => let '(y, x') := ghost_lift (fun u => llfree_put g policy u f r) x in (RPut y, x')
    | ODrain => let '(y, x') := ghost_lift (llfree_drain g policy) x in (RDrain y, x')
    | OChange m c => let '(y, x') := ghost_change g x m c in (RChange y, x')
    | OStats => (RStats (llfree_stats g (us x)), x)
    | OTreeStats => (RTreeStats (llfree_tree_stats g (us x)), x)
    | OStatsAt f k => (RStatsAt (llfree_stats_at g (us x) f k), x)
    end.

  Definition out_panic (y : out) : bool :=
    match y with
    | RGet r => is_panic r
    | RPut r => is_panic r
    | RDrain r => is_panic r
    | RChange r => is_panic r
    | RStats _ => false
    | RTreeStats r => is_panic r
    | RStatsAt r => is_panic r
    end.

  (* run a history; stop at the first panic, recording it (as `run_ops`) *)
  Fixpoint grun (x : ustate) (ops : list op) : list out * ustate :=
    match ops with
    | [] => ([], x)
    | o :: r =>
        let '(y, x') := gstep x o in
        if out_panic y then ([y], x')
        else let '(ys, x'') := grun x' r in (y :: ys, x'')
    end.

  (* the steps of the run: (state before, call, output, state after) *)
  Definition step : Type := ustate * op * out * ustate.
  Fixpoint gtrace (x : ustate) (ops : list op) : list step :=
    match ops with
    | [] => []
    | o :: r =>
        let '(y, x') := gstep x o in
        (x, o, y, x') :: (if out_panic y then [] else gtrace x' r)
    end.

  Definition st_before (s : step) : ustate := fst (fst (fst s)).
  Definition st_op (s : step) : op := snd (fst (fst s)).
  Definition st_out (s : step) : out := snd (fst s).
  Definition st_after (s : step) : ustate := snd s.

  (* ----- erasing the ghost ----- *)
  Lemma gstep_erase x o : step_op g policy (us x) o = (fst (gstep x o), us (snd (gstep x o)), out_panic (fst (gstep x o))).
  Proof.
    destruct o; cbn [gstep step_op]; unfold ghost_lift.
    - destruct (llfree_get g policy (us x) f r) as [y u']. reflexivity.
    - destruct (llfree_put g policy (us x) f r) as [y u']. reflexivity.
    - destruct (llfree_drain g policy (us x)) as [y u']. reflexivity.
    - unfold ghost_change. destruct (llfree_change_tree g (us x) m c) as [y u']. destruct y; reflexivity.
    - reflexivity.
    - reflexivity.
    - reflexivity.
  Qed.

  Theorem grun_erase : forall ops x,
    run_ops g policy (us x) ops = (fst (grun x ops), us (snd (grun x ops))).
  Proof.
    induction ops as [|o ops IH]; intros x; cbn [run_ops grun]; [reflexivity|].
    rewrite (gstep_erase x o). destruct (gstep x o) as [y x1]. cbn [fst snd].
    destruct (out_panic y); [reflexivity|].
    rewrite (IH x1). destruct (grun x1 ops) as [ys x2]. reflexivity.
  Qed.

  Lemma gstep_shape x o : full_shape (us (snd (gstep x o))) = full_shape (us x).
  Proof. eapply step_op_shape. apply gstep_erase. Qed.

  (* ----- the trace and the run ----- *)
  Lemma gtrace_outs : forall ops x, map st_out (gtrace x ops) = fst (grun x ops).
  Proof.
    induction ops as [|o ops IH]; intros x; cbn [gtrace grun]; [reflexivity|].
    destruct (gstep x o) as [y x1]. cbn [map]. unfold st_out at 1. cbn [fst snd].
    destruct (out_panic y); [reflexivity|].
    rewrite (IH x1). destruct (grun x1 ops) as [ys x2]. reflexivity.
  Qed.

  Lemma gtrace_ops : forall ops x,
    Forall (fun y => out_panic y = false) (fst (grun x ops)) -> map st_op (gtrace x ops) = ops.
  Proof.
    induction ops as [|o ops IH]; intros x; cbn [gtrace grun]; [reflexivity|].
    destruct (gstep x o) as [y x1]. cbn [map]. unfold st_op at 1. cbn [fst snd].
    destruct (out_panic y) eqn:P.
    - intros H. inversion H; subst. congruence.
    - specialize (IH x1). destruct (grun x1 ops) as [ys x2]. cbn [fst] in *. intros H. inversion H; subst.
      f_equal. apply IH. assumption.
  Qed.

  (* every recorded step is a step of the model, from the state reached by the calls before it *)
  Lemma gtrace_sound : forall ops x0 s, In s (gtrace x0 ops) ->
    gstep (st_before s) (st_op s) = (st_out s, st_after s) /\
    exists pre post, ops = pre ++ st_op s :: post /\ st_before s = snd (grun x0 pre) /\
                     Forall (fun y => out_panic y = false) (fst (grun x0 pre)).
  Proof.
    induction ops as [|o ops IH]; intros x0 s; cbn [gtrace]; [intros []|].
    destruct (gstep x0 o) as [y x1] eqn:E. intros [<-|Hin].
    - unfold st_before, st_op, st_out, st_after. cbn [fst snd]. split; [exact E|].
      exists [], ops. cbn. auto.
    - destruct (out_panic y) eqn:P; [destruct Hin|].
      destruct (IH x1 s Hin) as (A & pre & post & -> & B & C). split; [exact A|].
      exists (o :: pre), post. cbn [app grun]. rewrite E, P.
      destruct (grun x1 pre) as [ys x2]. cbn [fst snd] in *. splits; auto.
  Qed.

  (* first and last state of a trace *)
  Lemma gtrace_chain : forall ops x0,
    Forall (fun y => out_panic y = false) (fst (grun x0 ops)) ->
    fold_left (fun _ s => st_after s) (gtrace x0 ops) x0 = snd (grun x0 ops).
  Proof.
    induction ops as [|o ops IH]; intros x0; cbn [gtrace grun]; [reflexivity|].
    destruct (gstep x0 o) as [y x1]. cbn [fold_left]. unfold st_after at 2. cbn [snd].
    destruct (out_panic y) eqn:P.
    - intros H. inversion H; subst. congruence.
    - specialize (IH x1). destruct (grun x1 ops) as [ys x2]. cbn [fst snd] in *. intros H. inversion H; subst. auto.
  Qed.

  (* ==================================================================================== *)
  (* what a step satisfies                                                                 *)
  (* ==================================================================================== *)
  (* C02 + C13 + C15 for get *)
  Definition get_step_ok (x : ustate) (frame : option N) (rq : request) (r : res (N * N)) (x' : ustate) : Prop :=
    off x' = off x /\
    match r with
    | Ok (f, c) =>
        (* C02: the block was enabled in the ownership state, which changes by exactly that block; a targeted
           get returns the requested frame *)
        spec_get_enabled (abs g (low (us x))) f (r_order rq) = true /\
        abs g (low (us x')) = spec_get g (abs g (low (us x))) f (r_order rq) /\
        (forall f0, frame = Some f0 -> f = f0) /\
        (* C13 *)
        class_ok policy (r_class rq) c /\
        (* C15: the tree had that many free frames not hidden by an offline operation *)
        pow2 (r_order rq) + nth (nn (f / TF)) (off x) 0 <= tree_free g (low (us x)) (f / TF)
    | Err e =>
        low (us x') = low (us x) /\ (e = EMemory \/ e = EArgument) /\
        (e = EArgument <-> check g (us x) (get_frame0 frame) rq = Err EArgument) /\
        (e = EArgument -> x' = x)
    | Panic _ => False
    end.

  (* C02 for put *)
  Definition put_step_ok (x : ustate) (f : N) (rq : request) (r : res unit) (x' : ustate) : Prop :=
    off x' = off x /\
    match check g (us x) f rq with
    | Ok _ =>
        (r = Ok tt <-> spec_put_enabled g (abs g (low (us x))) f (r_order rq) = true) /\
        (r = Ok tt -> abs g (low (us x')) = spec_put g (abs g (low (us x))) f (r_order rq)) /\
        (r <> Ok tt -> r = Err EMemory /\ x' = x)
    | Err _ => r = Err EArgument /\ x' = x
    | Panic _ => False
    end.

  Definition drain_step_ok (x : ustate) (r : res unit) (x' : ustate) : Prop :=
    r = Ok tt /\ low (us x') = low (us x) /\ off x' = off x /\ present_slots (us x') = [] /\
    (forall i t, tree_at (us x') i = Some t -> t_res t = false).

  Definition change_step_ok (x : ustate) (m : tree_match) (ch : tree_change) (r : res unit) (x' : ustate) : Prop :=
    low (us x') = low (us x) /\ locals (us x') = locals (us x) /\
    (forall e, r = Err e -> x' = x) /\
    (forall i, m_id m = Some i -> tree_at (us x) i = None -> r = Err EArgument) /\
    (forall j t, tree_at (us x) j = Some t -> t_res t = true \/ ~ tmatches m j t ->
       tree_at (us x') j = Some t /\ nth (nn j) (off x') 0 = nth (nn j) (off x) 0).

  (* C04: exact statistics *)
  Definition stats_ok (x : ustate) (s : stats) : Prop :=
    free_frames s = exact_free (abs g (low (us x))) /\
    free_huge s = free_huge_count g (abs g (low (us x))) /\
    free_trees s = free_tree_count g (abs g (low (us x))).

  (* C14 + C04: fast statistics *)
  Definition tree_stats_ok (x : ustate) (r : res tree_stats) : Prop :=
    exists ts, r = Ok ts /\ length (ts_classes ts) = 8%nat /\
      sumN (map cs_free (ts_classes ts)) = ts_free ts /\
      sumN (map (fun c => cs_free c + cs_alloc c) (ts_classes ts)) = ntrees (us x) * TF /\
      ts_free ts + sumN (off x) = exact_free (abs g (low (us x))).

  Definition step_ok (s : step) : Prop :=
    let '(x, o, y, x') := s in
    out_panic y = false /\ Inv x /\ Inv x' /\ full_shape (us x') = full_shape (us x) /\
    match o, y with
    | OGet frame rq, RGet r => get_step_ok x frame rq r x'
    | OPut f rq, RPut r => put_step_ok x f rq r x'
    | ODrain, RDrain r => drain_step_ok x r x'
    | OChange m ch, RChange r => change_step_ok x m ch r x'
    | OStats, RStats st => x' = x /\ stats_ok x st
    | OTreeStats, RTreeStats r => x' = x /\ tree_stats_ok x r
    | OStatsAt f k, RStatsAt r => x' = x /\ exists st, r = Ok st
    | _, _ => False
    end.

  (* ==================================================================================== *)
  (* one step                                                                              *)
  (* ==================================================================================== *)
  Hypothesis WF : wf_geom g.
  Hypothesis PR : pol_refl_match policy.
  Hypothesis PT : pol_demote_trans policy.
  Let LF : lower_facts g := lower_facts_proved g WF.

  Lemma ghost_lift_off {A} (f : upper -> res A * upper) x r x' : ghost_lift f x = (r, x') -> off x' = off x.
  Proof. unfold ghost_lift. destruct (f (us x)). intros H. inversion H. reflexivity. Qed.

  Lemma get_step x frame rq r x' :
    Inv x -> valid_req (us x) rq ->
    ghost_lift (fun u => llfree_get g policy u frame rq) x = (r, x') ->
    (forall s, r <> Panic s) /\ Inv x' /\ get_step_ok x frame rq r x'.
  Proof.
    intros HI Hv H. apply valid_req_local in Hv.
    destruct (llfree_get_inv g policy WF LF PR PT _ _ _ _ _ HI Hv H) as (NP & HI' & EA & EX & EE).
    pose proof (llfree_get_spec g policy WF LF PR PT _ _ _ _ _ HI Hv H) as SP.
    splits; auto. unfold get_step_ok. split; [eapply ghost_lift_off; eauto|].
    destruct r as [[f c]|e|s]; [| |exact SP].
    - destruct SP as (S1 & S2 & S3). splits; auto.
      + destruct (ghost_lift_get g policy _ _ _ _ _ H) as (u' & Hg & _).
        exact (llfree_get_class g policy _ _ _ _ _ _ Hg).
      + exact (llfree_get_visible g policy WF LF PR PT _ _ _ _ _ _ HI Hv H).
    - destruct SP as (S1 & _). splits; auto.
      + split; intros Q.
        * apply EA. congruence.
        * apply EA in Q. congruence.
      + intros ->. apply EX. reflexivity.
  Qed.

  Lemma put_step x f rq r x' :
    Inv x -> valid_req (us x) rq ->
    ghost_lift (fun u => llfree_put g policy u f rq) x = (r, x') ->
    (forall s, r <> Panic s) /\ Inv x' /\ put_step_ok x f rq r x'.
  Proof.
    intros HI Hv H. pose proof (llfree_put_correct g policy WF LF _ _ _ _ _ HI Hv H) as P.
    unfold put_step_ok. pose proof (ghost_lift_off _ _ _ _ H) as Hoff.
    destruct (check g (us x) f rq) as [[]|e|s]; [| |destruct P].
    - destruct (spec_put_enabled g (abs g (low (us x))) f (r_order rq)).
      + destruct P as (-> & HI' & A & _). splits; auto; try discriminate; try tauto.
      + destruct P as (-> & ->). splits; auto; try discriminate.
        split; discriminate.
    - destruct P as (-> & -> & ->). splits; auto. discriminate.
  Qed.

  Lemma drain_step x r x' :
    Inv x -> ghost_lift (llfree_drain g policy) x = (r, x') ->
    (forall s, r <> Panic s) /\ Inv x' /\ drain_step_ok x r x'.
  Proof.
    intros HI H. destruct (llfree_drain_correct g policy WF LF _ _ _ HI H) as (-> & HI' & A & B & C & D & _).
    unfold drain_step_ok. splits; auto. discriminate.
  Qed.

  Lemma change_step x m ch r x' :
    Inv x -> change_cfg (us x) ch -> ghost_change g x m ch = (r, x') ->
    (forall s, r <> Panic s) /\ Inv x' /\ change_step_ok x m ch r x'.
  Proof.
    intros HI Hc H. destruct (ghost_change_correct g policy WF LF _ _ _ _ _ HI Hc H) as (A & B & C & D & _ & E & F & G).
    unfold change_step_ok. splits; auto.
  Qed.

  Lemma stats_step x : Inv x -> stats_ok x (llfree_stats g (us x)).
  Proof. intros (HL & _). exact (lower_stats_abs g WF _ HL). Qed.

  Lemma tree_stats_step x : Inv x -> tree_stats_ok x (llfree_tree_stats g (us x)).
  Proof.
    intros HI. destruct (tree_stats_correct g policy WF LF x HI) as (ts & E & _ & A & B & C).
    exists ts. splits; auto.
    rewrite (llfree_tree_stats_free g policy WF LF x HI (LS_sum g WF) ts E).
    destruct HI as (HL & _). apply (lower_stats_abs g WF _ HL).
  Qed.

  Lemma is_panic_false {A} (r : res A) : (forall s, r <> Panic s) -> is_panic r = false.
  Proof. destruct r; auto. intros H. exfalso. eapply H. reflexivity. Qed.

  Theorem gstep_ok x o y x' :
    Inv x -> op_valid (us x) o -> gstep x o = (y, x') -> step_ok (x, o, y, x').
  Proof.
    intros HI Hv H. unfold step_ok.
    pose proof (gstep_shape x o) as S. rewrite H in S. cbn [snd] in S.
    destruct o; cbn [gstep op_valid] in *.
    - destruct (ghost_lift _ x) as [r0 x1] eqn:E. inversion H; subst y x1.
      destruct (get_step _ _ _ _ _ HI Hv E) as (A & B & C). cbn [out_panic]. splits; auto using is_panic_false.
    - destruct (ghost_lift _ x) as [r0 x1] eqn:E. inversion H; subst y x1.
      destruct (put_step _ _ _ _ _ HI Hv E) as (A & B & C). cbn [out_panic]. splits; auto using is_panic_false.
    - destruct (ghost_lift _ x) as [r0 x1] eqn:E. inversion H; subst y x1.
      destruct (drain_step _ _ _ HI E) as (A & B & C). cbn [out_panic]. splits; auto using is_panic_false.
    - destruct (ghost_change g x m c) as [r0 x1] eqn:E. inversion H; subst y x1.
      destruct (change_step _ _ _ _ _ HI Hv E) as (A & B & C). cbn [out_panic]. splits; auto using is_panic_false.
    - inversion H; subst y x'. cbn [out_panic]. splits; auto. apply stats_step; auto.
    - inversion H; subst y x'. pose proof (tree_stats_step x HI) as T. cbn [out_panic]. splits; auto.
      destruct T as (ts & -> & _). reflexivity.
    - inversion H; subst y x'. destruct HI as (HL & HR).
      destruct (lower_stats_at_no_panic g _ f k HL Hv) as (st & E).
      unfold llfree_stats_at. rewrite E. cbn [out_panic is_panic]. splits; auto; try (split; auto); eauto.
  Qed.

  (* ==================================================================================== *)
  (* the induction over histories                                                          *)
  (* ==================================================================================== *)
  Theorem grun_correct : forall ops x0 u0,
    Inv x0 -> full_shape (us x0) = full_shape u0 -> ops_valid u0 ops ->
    Forall step_ok (gtrace x0 ops) /\
    Forall (fun y => out_panic y = false) (fst (grun x0 ops)) /\
    Inv (snd (grun x0 ops)) /\
    full_shape (us (snd (grun x0 ops))) = full_shape u0.
  Proof.
    induction ops as [|o ops IH]; intros x0 u0 HI S V; cbn [gtrace grun].
    - cbn [fst snd]. splits; auto.
    - inversion V as [|? ? Vo Vr]; subst.
      destruct (gstep x0 o) as [y x1] eqn:E.
      assert (Vo' : op_valid (us x0) o) by (eapply op_valid_shape; [exact S|exact Vo]).
      pose proof (gstep_ok x0 o y x1 HI Vo' E) as OK.
      pose proof OK as (P & _ & HI1 & S1 & _).
      rewrite P.
      destruct (IH x1 u0 HI1 ltac:(congruence) Vr) as (A & B & C & D).
      destruct (grun x1 ops) as [ys x2]. cbn [fst snd] in *. splits; auto.
  Qed.

  Theorem grun_steps_ok ops x0 :
    Inv x0 -> ops_valid (us x0) ops -> Forall step_ok (gtrace x0 ops).
  Proof. intros HI V. exact (proj1 (grun_correct ops x0 (us x0) HI eq_refl V)). Qed.

  (* C09 *)
  Theorem grun_no_panic ops x0 :
    Inv x0 -> ops_valid (us x0) ops -> Forall (fun y => out_panic y = false) (fst (grun x0 ops)).
  Proof. intros HI V. exact (proj1 (proj2 (grun_correct ops x0 (us x0) HI eq_refl V))). Qed.

  Theorem grun_inv ops x0 :
    Inv x0 -> ops_valid (us x0) ops -> Inv (snd (grun x0 ops)).
  Proof. intros HI V. exact (proj1 (proj2 (proj2 (grun_correct ops x0 (us x0) HI eq_refl V)))). Qed.

  (* no output of the plain runner of Handoff.v is a panic *)
  Theorem run_ops_no_panic ops x0 :
    Inv x0 -> ops_valid (us x0) ops -> Forall (fun y => out_panic y = false) (fst (run_ops g policy (us x0) ops)).
  Proof. intros HI V. rewrite grun_erase. cbn [fst]. apply grun_no_panic; auto. Qed.

  (* a valid call stays valid after any history *)
  Theorem grun_valid ops x0 o :
    Inv x0 -> ops_valid (us x0) ops -> op_valid (us x0) o -> op_valid (us (snd (grun x0 ops))) o.
  Proof.
    intros HI V Vo. eapply op_valid_shape; [|exact Vo].
    exact (proj2 (proj2 (proj2 (grun_correct ops x0 (us x0) HI eq_refl V)))).
  Qed.

  (* ----- the per-call facts, for every step of every history ----- *)
  Lemma hist_step ops x0 x o y x' :
    Inv x0 -> ops_valid (us x0) ops -> In (x, o, y, x') (gtrace x0 ops) -> step_ok (x, o, y, x').
  Proof.
    intros HI V Hin. pose proof (grun_steps_ok ops x0 HI V) as F. rewrite Forall_forall in F. exact (F _ Hin).
  Qed.

  Theorem hist_get ops x0 x frame rq r x' :
    Inv x0 -> ops_valid (us x0) ops -> In (x, OGet frame rq, RGet r, x') (gtrace x0 ops) ->
    Inv x /\ Inv x' /\ get_step_ok x frame rq r x'.
  Proof. intros HI V Hin. destruct (hist_step _ _ _ _ _ _ HI V Hin) as (_ & A & B & _ & C). auto. Qed.

  Theorem hist_put ops x0 x f rq r x' :
    Inv x0 -> ops_valid (us x0) ops -> In (x, OPut f rq, RPut r, x') (gtrace x0 ops) ->
    Inv x /\ Inv x' /\ put_step_ok x f rq r x'.
  Proof. intros HI V Hin. destruct (hist_step _ _ _ _ _ _ HI V Hin) as (_ & A & B & _ & C). auto. Qed.

  Theorem hist_drain ops x0 x r x' :
    Inv x0 -> ops_valid (us x0) ops -> In (x, ODrain, RDrain r, x') (gtrace x0 ops) ->
    Inv x /\ Inv x' /\ drain_step_ok x r x'.
  Proof. intros HI V Hin. destruct (hist_step _ _ _ _ _ _ HI V Hin) as (_ & A & B & _ & C). auto. Qed.

  Theorem hist_change ops x0 x m ch r x' :
    Inv x0 -> ops_valid (us x0) ops -> In (x, OChange m ch, RChange r, x') (gtrace x0 ops) ->
    Inv x /\ Inv x' /\ change_step_ok x m ch r x'.
  Proof. intros HI V Hin. destruct (hist_step _ _ _ _ _ _ HI V Hin) as (_ & A & B & _ & C). auto. Qed.

  Theorem hist_stats ops x0 x st x' :
    Inv x0 -> ops_valid (us x0) ops -> In (x, OStats, RStats st, x') (gtrace x0 ops) ->
    x' = x /\ stats_ok x st.
  Proof. intros HI V Hin. destruct (hist_step _ _ _ _ _ _ HI V Hin) as (_ & A & B & _ & C). auto. Qed.

  Theorem hist_tree_stats ops x0 x r x' :
    Inv x0 -> ops_valid (us x0) ops -> In (x, OTreeStats, RTreeStats r, x') (gtrace x0 ops) ->
    x' = x /\ tree_stats_ok x r.
  Proof. intros HI V Hin. destruct (hist_step _ _ _ _ _ _ HI V Hin) as (_ & A & B & _ & C). auto. Qed.

  (* C15 along a history: a get never returns a frame of a tree whose free frames are all hidden *)
  Theorem hist_get_not_hidden ops x0 x frame rq f c x' t :
    Inv x0 -> ops_valid (us x0) ops -> In (x, OGet frame rq, RGet (Ok (f, c)), x') (gtrace x0 ops) ->
    nth (nn t) (off x) 0 = tree_free g (low (us x)) t -> f / TF <> t.
  Proof.
    intros HI V Hin Hoff Ef. destruct (hist_get _ _ _ _ _ _ _ HI V Hin) as (_ & _ & _ & _ & _ & _ & _ & Hb).
    rewrite Ef, Hoff in Hb. pose proof (AbsLemmas.pow2_pos (r_order rq)). lia.
  Qed.

  (* ==================================================================================== *)
  (* from the states built by LLFree::new                                                  *)
  (* ==================================================================================== *)
  Theorem new_run_correct fr i classing d lbuf tbuf sbuf :
    init_pre g fr i lbuf ->
    Forall (fun s => s_pres s = false) sbuf ->
    (forall c k, In (c, k) classing -> c < 8) ->
    (exists k, In (d, k) classing) ->
    exists u, llfree_new g fr i classing d lbuf tbuf sbuf = Ok u /\ Inv (ustate_new u) /\
      forall ops, ops_valid u ops ->
        Forall step_ok (gtrace (ustate_new u) ops) /\
        Forall (fun y => out_panic y = false) (fst (run_ops g policy u ops)) /\
        Inv (snd (grun (ustate_new u) ops)).
  Proof.
    intros Hpre Hbuf Hcl Hd.
    destruct (init_inv g WF policy fr i classing d lbuf tbuf sbuf Hpre Hbuf Hcl Hd) as (u & E & HI & _).
    exists u. splits; auto. intros ops V.
    destruct (grun_correct ops (ustate_new u) u HI eq_refl V) as (A & B & C & _).
    splits; auto. change u with (us (ustate_new u)). rewrite grun_erase. exact B.
  Qed.
End History.

(* ====================================================================================== *)
(* C15: hidden trees stay hidden                                                           *)
(* ====================================================================================== *)
(* a block of order k <= tord that starts aligned stays inside its tree *)
Lemma aligned_in_tree g f k : (k <= tord g)%nat -> f mod pow2 k = 0 ->
  (f / TF g) * TF g <= f /\ f + pow2 k <= (f / TF g) * TF g + TF g.
Proof.
  intros Hk Hf. pose proof (TF_nz g) as Hnz.
  assert (Hfit : f mod TF g + pow2 k <= TF g).
  { apply aligned_block_fits.
    - apply pow2_nz.
    - rewrite TF_pow2. apply pow2_mod. exact Hk.
    - rewrite TF_pow2, (pow2_split k (tord g) Hk), N.mul_comm.
      rewrite mod_mod_mul; [exact Hf|apply pow2_nz|apply pow2_nz].
    - apply N.mod_lt. exact Hnz. }
  pose proof (N.div_mod f (TF g) Hnz) as D.
  revert Hfit D. generalize (f mod TF g) (f / TF g) (TF g) (pow2 k). clear. intros r q T n Hfit D. lia.
Qed.

(* the free count of a tree depends only on the allocation bits of its frames *)
Lemma spec_tree_free_other g s s' f n T t :
  o_frames s' = o_frames s ->
  (forall i, ~ (f <= i < f + n) -> N.testbit (o_alloc s') i = N.testbit (o_alloc s) i) ->
  T * TF g <= f -> f + n <= T * TF g + TF g -> T <> t ->
  spec_tree_free g s' t = spec_tree_free g s t.
Proof.
  intros Hfr Hbits H1 H2 Hne. unfold spec_tree_free. cbv zeta. rewrite Hfr.
  set (lo := t * TF g). set (hi := N.min (o_frames s) (lo + TF g)).
  f_equal. f_equal. apply N.bits_inj. intros i. rewrite !N.land_spec, blk_testbit.
  destruct (N.leb_spec lo i) as [L|L]; [|rewrite !andb_false_r; reflexivity].
  destruct (N.ltb_spec i (lo + (hi - lo))) as [R|R]; [|rewrite !andb_false_r; reflexivity].
  rewrite Hbits; [reflexivity|].
  assert (Hi : t * TF g <= i < t * TF g + TF g) by (subst lo hi; clear - L R; lia).
  intros Hb. apply Hne.
  revert H1 H2 Hi Hb. generalize (TF g). clear. intros X H1 H2 Hi Hb.
  destruct (N.lt_trichotomy T t) as [Q|[Q|Q]]; [exfalso|exact Q|exfalso]; nia.
Qed.

Section Hidden.
  Variable g : geom.
  Variable policy : N -> N -> N -> pol.
  Hypothesis WF : wf_geom g.
  Notation TF := (TF g).

  Lemma tree_free_other l l' f k s' t :
    LowerInv g l -> LowerInv g l' -> frames l' = frames l -> t < ntab g (frames l) ->
    (k <= tord g)%nat -> f mod pow2 k = 0 -> f / TF <> t ->
    abs g l' = s' -> o_frames s' = o_frames (abs g l) ->
    (forall i, ~ (f <= i < f + pow2 k) -> N.testbit (o_alloc s') i = N.testbit (o_alloc (abs g l)) i) ->
    tree_free g l' t = tree_free g l t.
  Proof.
    intros Inv Inv' Hfr Ht Hk Hal Hne Ea Hof Hbits.
    destruct (lf_tree_free_proof g WF l t Inv Ht) as (E & _).
    destruct (lf_tree_free_proof g WF l' t Inv' ltac:(rewrite Hfr; exact Ht)) as (E' & _).
    rewrite E, E', Ea. destruct (aligned_in_tree g f k Hk Hal) as (A & B).
    exact (spec_tree_free_other g (abs g l) s' f (pow2 k) (f / TF) t Hof Hbits A B Hne).
  Qed.

  Hypothesis PR : pol_refl_match policy.
  Hypothesis PT : pol_demote_trans policy.
  Let LF : lower_facts g := lower_facts_proved g WF.
  Notation Inv := (UpperInv g policy).

  (* all free frames of tree t are hidden by offline operations *)
  Definition hidden (x : ustate) (t : N) : Prop := nth (nn t) (off x) 0 = tree_free g (low (us x)) t.

  (* calls that do not concern tree t directly: no change_tree, no free of a block of t *)
  Definition quiet_for (t : N) (o : op) : Prop :=
    match o with
    | OChange _ _ => False
    | OPut f _ => f / TF <> t
    | _ => True
    end.

  Lemma Inv_ntrees x : Inv x -> ntrees (us x) = ntab g (frames (low (us x))).
  Proof. intros (_ & H & _). unfold ntrees. rewrite H. unfold nn. apply N2Nat.id. Qed.

  Lemma hidden_step x o y x' t :
    Inv x -> op_valid (us x) o -> quiet_for t o -> t < ntrees (us x) ->
    gstep g policy x o = (y, x') -> hidden x t ->
    hidden x' t /\ (forall f c, y = RGet (Ok (f, c)) -> f / TF <> t).
  Proof.
    intros HI Hv Hq Ht H Hh. unfold hidden in *.
    pose proof (gstep_shape g policy x o) as S. rewrite H in S. cbn [snd] in S.
    assert (Hfr : frames (low (us x')) = frames (low (us x))) by (unfold full_shape in S; inversion S; reflexivity).
    rewrite (Inv_ntrees x HI) in Ht.
    pose proof (gstep_ok g policy WF PR PT x o y x' HI Hv H) as (_ & _ & HI' & _ & OK).
    pose proof HI as (HL & _). pose proof HI' as (HL' & _).
    destruct o; cbn [gstep quiet_for] in *.
    - (* get *)
      destruct (ghost_lift _ x) as [r0 x1] eqn:E. inversion H; subst y x1. clear H.
      destruct OK as (Hoff & OK). rewrite Hoff.
      pose proof Hv as Hv'. apply valid_req_local in Hv'.
      destruct (llfree_get_inv g policy WF LF PR PT _ _ _ _ _ HI Hv' E) as (_ & _ & EA & _).
      destruct r0 as [[f0 c0]|e|s]; [| |destruct OK].
      + destruct OK as (S1 & S2 & _ & _ & Vis).
        assert (Hne : f0 / TF <> t).
        { intros Ef. rewrite Ef, Hh in Vis. pose proof (AbsLemmas.pow2_pos (r_order r)). clear - Vis H. lia. }
        split; [|intros f1 c1 Q; inversion Q; subst; exact Hne].
        rewrite Hh. symmetry.
        assert (Hk : (r_order r <= tord g)%nat).
        { pose proof (check_inv g (us x) (get_frame0 f) r) as CI.
          destruct (check g (us x) (get_frame0 f) r) as [[]|e|s]; [tauto| |destruct CI].
          subst e. exfalso. assert (Q : Ok (f0, c0) = Err EArgument) by (apply EA; reflexivity). discriminate. }
        apply spec_get_enabled_spec in S1. destruct S1 as (Hal & _ & _).
        apply (tree_free_other (low (us x)) (low (us x')) f0 (r_order r) _ t HL HL' Hfr Ht Hk Hal Hne S2).
        * apply spec_get_frames.
        * intros i Hi. rewrite spec_get_alloc_testbit.
          destruct (N.leb_spec f0 i), (N.ltb_spec i (f0 + pow2 (r_order r))); cbn [andb]; try apply orb_false_r.
          exfalso. apply Hi. split; assumption.
      + destruct OK as (Hl & _). rewrite Hl. split; [exact Hh|]. intros f1 c1 Q. discriminate.
    - (* put *)
      destruct (ghost_lift _ x) as [r0 x1] eqn:E. inversion H; subst y x1. clear H.
      split; [|intros f1 c1 Q; discriminate].
      destruct OK as (Hoff & OK). rewrite Hoff.
      pose proof (check_inv g (us x) f r) as CI.
      destruct (check g (us x) f r) as [[]|e|s]; [| |destruct OK].
      + destruct CI as (Hk & _ & Hal & _). destruct OK as (_ & OK2 & OK3).
        destruct r0 as [[]|e|s].
        * rewrite Hh. symmetry. specialize (OK2 eq_refl). unfold aligned in Hal. apply N.eqb_eq in Hal.
          apply (tree_free_other (low (us x)) (low (us x')) f (r_order r) _ t HL HL' Hfr Ht Hk Hal Hq OK2).
          -- apply spec_put_frames.
          -- intros i Hi. rewrite spec_put_alloc_testbit.
             destruct (N.leb_spec f i), (N.ltb_spec i (f + pow2 (r_order r))); cbn [andb negb]; try apply andb_true_r.
             exfalso. apply Hi. split; assumption.
        * destruct (OK3 ltac:(discriminate)) as (_ & ->). exact Hh.
        * destruct (OK3 ltac:(discriminate)) as (_ & ->). exact Hh.
      + destruct OK as (_ & ->). exact Hh.
    - (* drain *)
      destruct (ghost_lift _ x) as [r0 x1] eqn:E. inversion H; subst y x1. clear H.
      destruct OK as (_ & Hl & Hoff & _). rewrite Hl, Hoff. split; [exact Hh|]. intros f1 c1 Q. discriminate.
    - destruct Hq.
    - inversion H; subst. split; [exact Hh|]. intros f1 c1 Q. discriminate.
    - inversion H; subst. split; [exact Hh|]. intros f1 c1 Q. discriminate.
    - inversion H; subst. split; [exact Hh|]. intros f1 c1 Q. discriminate.
  Qed.

  (* C15 "while": once all free frames of tree t are hidden they stay hidden, and no get returns a frame of t,
     along every history without change_tree and without frees into t *)
  Theorem hidden_run : forall ops x0 u0 t,
    Inv x0 -> full_shape (us x0) = full_shape u0 -> ops_valid u0 ops -> Forall (quiet_for t) ops ->
    t < ntrees (us x0) -> hidden x0 t ->
    hidden (snd (grun g policy x0 ops)) t /\
    Forall (fun s => hidden (st_before s) t /\ hidden (st_after s) t /\
                     forall f c, st_out s = RGet (Ok (f, c)) -> f / TF <> t) (gtrace g policy x0 ops).
  Proof.
    induction ops as [|o ops IH]; intros x0 u0 t HI S V Q Ht Hh; cbn [gtrace grun].
    - cbn [snd]. split; [exact Hh|constructor].
    - inversion V as [|? ? Vo Vr]; subst. inversion Q as [|? ? Qo Qr]; subst.
      destruct (gstep g policy x0 o) as [y x1] eqn:E.
      assert (Vo' : op_valid (us x0) o) by (eapply op_valid_shape; [exact S|exact Vo]).
      pose proof (gstep_ok g policy WF PR PT x0 o y x1 HI Vo' E) as (P & _ & HI1 & S1 & _).
      destruct (hidden_step x0 o y x1 t HI Vo' Qo Ht E Hh) as (Hh1 & Hg).
      rewrite P.
      assert (Ht1 : t < ntrees (us x1)).
      { unfold ntrees in *. unfold full_shape in S1. inversion S1 as [[A B C D]]. rewrite B. exact Ht. }
      destruct (IH x1 u0 t HI1 ltac:(congruence) Vr Qr Ht1 Hh1) as (A & B).
      destruct (grun g policy x1 ops) as [ys x2]. cbn [fst snd] in *. split; [exact A|].
      constructor; [|exact B]. unfold st_before, st_after, st_out. cbn [fst snd]. auto.
  Qed.

  Corollary hidden_history ops x0 t :
    Inv x0 -> ops_valid (us x0) ops -> Forall (quiet_for t) ops -> t < ntrees (us x0) -> hidden x0 t ->
    hidden (snd (grun g policy x0 ops)) t /\
    (forall x frame rq f c x', In (x, OGet frame rq, RGet (Ok (f, c)), x') (gtrace g policy x0 ops) -> f / TF <> t).
  Proof.
    intros HI V Q Ht Hh. destruct (hidden_run ops x0 (us x0) t HI eq_refl V Q Ht Hh) as (A & B).
    split; [exact A|]. intros x frame rq f c x' Hin. rewrite Forall_forall in B.
    destruct (B _ Hin) as (_ & _ & C). apply (C f c). reflexivity.
  Qed.

  (* a successful Offline of an unreserved tree hides all its free frames *)
  Theorem offline_hides x m ch i t r x' :
    Inv x -> change_cfg (us x) ch ->
    m_id m = Some i -> tree_at (us x) i = Some t -> t_res t = false ->
    m_free m <= t_free t -> (forall k, m_class m = Some k -> k = t_class t) ->
    c_op ch = Some OpOffline ->
    ghost_change g x m ch = (r, x') ->
    r = Ok tt /\ Inv x' /\ hidden x' i.
  Proof.
    intros HI Hc Em Ht Hr Hf Hk Hop H.
    destruct (ghost_change_offline g policy WF LF x m ch i t r x' HI Hc Em Ht Hr Hf Hk Hop H) as (-> & _ & Hoff).
    destruct (ghost_change_correct g policy WF LF x m ch _ x' HI Hc H) as (_ & HI' & Hl & _).
    splits; auto. unfold hidden. rewrite Hoff, Hl.
    destruct HI as (_ & _ & _ & _ & _ & HT & _). destruct (HT (nn i) t Ht) as (A & B & _).
    rewrite Hr in A. apply length_zero_iff_nil in A. rewrite A in B. cbn [sum_free fold_right] in B.
    unfold nn in B at 2. rewrite N2Nat.id in B. rewrite <- B. lia.
  Qed.
End Hidden.

(* ====================================================================================== *)
(* completeness (C10, C11) in the summed form                                              *)
(* ====================================================================================== *)
Section Complete.
  Variable g : geom.
  Variable policy : N -> N -> N -> pol.
  Hypothesis WF : wf_geom g.
  Hypothesis PR : pol_refl_match policy.
  Hypothesis PN : pol_never_invalid policy.
  Let LF : lower_facts g := lower_facts_proved g WF.

  (* C10 (a): right after a drain a base-order get fails with Err Memory only if every free frame is hidden by
     an offline operation: the number of free frames is the total hidden amount *)
  Theorem drained_base_fail_all_hidden x rq x' :
    UpperInv g policy x -> valid_req (us x) rq -> present_slots (us x) = [] -> r_order rq = 0%nat ->
    frames (low (us x)) < W64 ->
    ghost_lift (fun u => llfree_get g policy u None rq) x = (Err EMemory, x') ->
    (forall i t, tree_at (us x) i = Some t -> t_free t = 0) /\
    (forall i, i < ntrees (us x) -> tree_free g (low (us x)) i = nth (nn i) (off x) 0) /\
    exact_free (abs g (low (us x))) = sumN (off x).
  Proof.
    intros HI Hv Hp Ho Hfr Hg. apply valid_req_local in Hv.
    pose proof (ntrees_small g policy WF LF x HI Hfr) as Hsz.
    pose proof (get_base_complete g policy WF LF PR PN x rq x' HI Hv Hp Ho Hsz Hg) as A.
    pose proof (get_base_complete_free g policy WF LF PR PN x rq x' HI Hv Hp Ho Hsz Hg) as B.
    splits; auto. apply (all_hidden_exact_free g WF policy x HI B).
  Qed.

  (* C11: one class with one slot, at least two trees: a base-order get through the slot fails with Err Memory
     only if every free frame is hidden by an offline operation; without offline trees: only if no frame is
     free *)
  Theorem single_slot_fail_all_hidden x c x' :
    UpperInv g policy x -> (forall c', class_slots (us x) c' <> None -> c' = c) -> class_locals (us x) c = Some 1 ->
    1 < ntrees (us x) -> frames (low (us x)) < W64 ->
    ghost_lift (fun u => llfree_get g policy u None {| r_order := 0; r_class := c; r_local := Some 0 |}) x
      = (Err EMemory, x') ->
    (forall i, i < ntrees (us x) -> tree_free g (low (us x)) i = nth (nn i) (off x) 0) /\
    exact_free (abs g (low (us x))) = sumN (off x).
  Proof.
    intros HI Ho Hc Hn Hfr Hg.
    pose proof (ntrees_small g policy WF LF x HI Hfr) as Hsz.
    pose proof (get_single_slot_complete g policy WF LF PR PN x c x' HI Ho Hc Hn Hsz Hg) as B.
    split; [exact B|]. apply (all_hidden_exact_free g WF policy x HI B).
  Qed.

  Corollary single_slot_fail_no_free x c x' :
    UpperInv g policy x -> (forall c', class_slots (us x) c' <> None -> c' = c) -> class_locals (us x) c = Some 1 ->
    1 < ntrees (us x) -> frames (low (us x)) < W64 ->
    Forall (fun o => o = 0) (off x) ->
    ghost_lift (fun u => llfree_get g policy u None {| r_order := 0; r_class := c; r_local := Some 0 |}) x
      = (Err EMemory, x') ->
    exact_free (abs g (low (us x))) = 0.
  Proof.
    intros HI Ho Hc Hn Hfr Hoff Hg.
    destruct (single_slot_fail_all_hidden x c x' HI Ho Hc Hn Hfr Hg) as (B & _).
    exact (all_hidden_none_offline g WF policy x HI Hoff B).
  Qed.
End Complete.

(* ====================================================================================== *)
(* the built-in policies                                                                   *)
(* ====================================================================================== *)
Definition builtin_policy (p : N -> N -> N -> pol) (TFv : N) : Prop :=
  p = pol_simple TFv \/ p = pol_movable TFv \/ p = pol_zeroed TFv \/ p = pol_zeroslot TFv.

Lemma builtin_facts p TFv : builtin_policy p TFv ->
  pol_refl_match p /\ pol_kind_indep p /\ pol_demote_trans p /\ pol_never_invalid p.
Proof.
  intros [-> | [-> | [-> | ->]]];
    [apply pol_simple_facts|apply pol_movable_facts|apply pol_zeroed_facts|apply pol_zeroslot_facts].
Qed.

(* C09: every geometry, frame count, init mode FreeAll / AllocAll (Recover over a buffer satisfying
   LowerPre), classing with ids < 8 and configured default (any slot counts), built-in policy, and every
   history of valid-parameter calls: `llfree_new` returns Ok and no call returns Panic *)
Theorem builtin_no_panic g policy fr i classing d lbuf tbuf sbuf :
  wf_geom g -> builtin_policy policy (TF g) ->
  init_pre g fr i lbuf ->
  Forall (fun s => s_pres s = false) sbuf ->
  (forall c k, In (c, k) classing -> c < 8) ->
  (exists k, In (d, k) classing) ->
  exists u, llfree_new g fr i classing d lbuf tbuf sbuf = Ok u /\
    forall ops, ops_valid u ops ->
      Forall (fun y => out_panic y = false) (fst (run_ops g policy u ops)).
Proof.
  intros WF BP Hpre Hbuf Hcl Hd. destruct (builtin_facts _ _ BP) as (PR & _ & PT & _).
  destruct (new_run_correct g policy WF PR PT fr i classing d lbuf tbuf sbuf Hpre Hbuf Hcl Hd) as (u & E & _ & H).
  exists u. split; [exact E|]. intros ops V. apply (H ops V).
Qed.
