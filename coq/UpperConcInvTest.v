(* Testing the M2 invariant checker `uinv_b` (UpperConcInvDef.v) along pseudo-random schedules by vm_compute.
   Nothing depends on this file; it documents how the clauses were tested before being proved.  Longer campaigns
   (7 configurations x 1500-2000 steps, 2-3 threads: one / two slots per class, partial last tree, three classes with
   the movable policy, a class without slots, tiny memories for the out-of-memory paths steal_local / demote_local)
   were run during development: no violation; every (primitive, top frame) combination of `top_wf` was visited.
   `cover` returns the visited combinations (100 * primitive tag + frame tag). *)
From LLF Require Import Base Row Bitfield Lower Spec Sorted Upper UpperInvDef UpperPrims LowerMachine ConcBase ConcInvDef
  Policies UpperMachine UpperConcInvDef.

Definition lcg (x : N) : N := (x * 6364136223846793005 + 1442695040888963407) mod 18446744073709551616.
Definition pick {A} (l : list A) (d : A) (x : N) : A := nth (nn (x mod N.of_nat (length l))) l d.

Section Gen.
  Variable g : geom.
  Variable policy : N -> N -> N -> pol.
  Variable nthreads : N.
  Variable orders : list nat.
  Variable classes : list N.
  Variable locals_ : list (option N).

  Definition gen_call (s : m2state) (x : N) : ucall :=
    let kind := (x / 1024) mod 8 in
    let k := pick orders 0%nat (x / 65536) in
    let c := pick classes 0 (x / 8192) in
    let l0 := pick locals_ None (x / 524288) in
    (* valid parameters: a slot index below the slot count of the class, or none *)
    let l := match l0, class_locals (m2_up s) c with
             | Some i, Some len => if i <? len then l0 else None
             | _, _ => None
             end in
    let y := x / 16777216 in
    let fr := frames (low (m2_up s)) in
    let rq := {| r_order := k; r_class := c; r_local := l |} in
    if kind <? 3 then UGet None rq
    else if kind =? 3 then UGet (Some (((y mod fr) / pow2 k) * pow2 k)) rq
    else if kind =? 4 then UDrain
    else
      match m2_held s with
      | [] => UGet None rq
      | b :: _ =>
          let b := pick (m2_held s) b y in
          if (x / 4096) mod 2 =? 0 then UPut (fst b) {| r_order := snd b; r_class := c; r_local := l |}
          else let k' := Nat.min k (snd b) in
               UPut (fst b + ((y / 4096) mod pow2 (snd b - k')) * pow2 k') {| r_order := k'; r_class := c; r_local := l |}
      end.

  Definition parts (s : m2state) : bool * bool * bool :=
    let gs := map (uthr_gh g) (m2_pool s) in
    (inv_b g (m1_of g s), uic2b g policy (CRf gs) (IHf gs) (m2_up s), forallb panic_okb (m2_pool s)).

  Fixpoint fuzz (n : nat) (x : N) (s : m2state) (acc : list (nat * ucall))
    : option (list (nat * ucall) * (bool * bool * bool)) * m2state :=
    match n with
    | O => (None, s)
    | S n' =>
        let t := nn ((x / 8) mod nthreads) in
        let c := gen_call s x in
        let s' := fst (ustep g policy s t c) in
        if uinv_b g policy s' then fuzz n' (lcg x) s' ((t, c) :: acc)
        else (Some (rev ((t, c) :: acc), parts s'), s')
    end.
End Gen.

Definition g7 : geom := {| hord := 7; tlog := 1 |}.          (* HF = 128, TF = 256 *)
Definition mkU (g : geom) (fr : N) (i : init) (classing : list (N * N)) (d : N) : upper :=
  match llfree_new g fr i classing d (free_all g fr) [] (repeat slot_none 16) with
  | Ok u => u
  | _ => {| low := free_all g 0; trees := []; locals := []; dflt := 0 |}
  end.
Definition simple7 := pol_simple 256.
Definition summary (s : m2state) :=
  (trees (m2_up s), locals (m2_up s), map (fun x => match x with UIdle _ => 0 | URun _ _ k => 1 + N.of_nat (length k) | UPanic _ _ => 99 end) (m2_pool s), length (m2_held s)).
Definition ptag (p : prim) : N :=
  match p with PLd _ => 1 | PTL _ f | PTF _ f _ _ _ | PTC _ f _ _ => 10 + match f with FSync _ => 0 | FSteal _ _ => 1 | FRos _ _ => 2 | FUnres _ _ => 3 | FChange _ _ _ => 4 | FPut _ => 5 end
  | PSL _ _ f | PSC _ _ f _ _ => 20 + match f with SGet _ _ => 0 | SGetNone _ _ => 1 | SPut _ _ => 2 | SSetStart _ => 3 end
  | PSW _ _ _ => 30 | PLow _ => 40 end.
Definition ftag (f : kframe) : N :=
  match f with KGet1 _ _ => 1 | KGet2 _ _ => 2 | KOom1 _ _ => 3 | KAt1 _ _ => 4 | KGL1 _ _ _ _ _ => 5 | KGL2 _ _ _ _ => 6 | KGL3 _ _ => 7
  | KGL4 _ _ => 8 | KGL5 _ _ _ _ _ => 9 | KGL6 _ _ _ _ _ _ => 10 | KSR1 _ _ _ _ => 11 | KSBL _ => 12 | KSBA _ => 13 | KSBT _ _ => 14
  | KSe _ _ _ => 15 | KRS1 _ _ _ _ => 16 | KRS2 _ _ _ _ _ _ => 17 | KRS3 _ _ => 18 | KUnres _ => 19 | KRetR _ => 20 | KSG1 _ _ _ => 21
  | KSG2 _ _ _ => 22 | KSL1 _ _ _ _ => 23 | KSL2 _ _ _ => 24 | KDL1 _ _ _ _ => 25 | KDL2 _ _ _ => 26 | KDL3 _ _ _ => 27 | KDL4 _ _ => 28
  | KPut1 _ _ => 29 | KPut2 _ _ => 30 | KDr1 _ _ => 31 | KDr2 _ _ => 32 | KCh => 33 end.
Definition utag (x : uthr) : N :=
  match x with UIdle _ => 0 | UPanic _ _ => 9999 | URun _ p k => ptag p * 100 + match k with f :: _ => ftag f | [] => 0 end end.
Fixpoint insert_tag (x : N) (l : list N) : list N :=
  match l with [] => [x] | y :: r => if x =? y then l else if x <? y then x :: l else y :: insert_tag x r end.
Section Cov.
  Variable g : geom.
  Variable policy : N -> N -> N -> pol.
  Variable nthreads : N.
  Variable orders : list nat.
  Variable classes : list N.
  Variable locals_ : list (option N).
  Fixpoint cover (n : nat) (x : N) (s : m2state) (acc : list N) : list N :=
    match n with
    | O => acc
    | S n' =>
        let t := nn ((x / 8) mod nthreads) in
        let c := gen_call orders classes locals_ s x in
        let s' := fst (ustep g policy s t c) in
        cover n' (lcg x) s' (fold_right insert_tag acc (map utag (m2_pool s')))
    end.
End Cov.

(* 1. two classes, one slot each, 4 trees, 3 threads *)
Definition U1 := mkU g7 1024 IFreeAll [(0, 1); (1, 1)] 1.
Definition t1 := fuzz g7 simple7 3 [0;0;3;7;8]%nat [0;1] [None; Some 0; Some 0] 300 777 (uboot U1 [] 3) [].
Time Eval vm_compute in (fst t1, summary (snd t1)).
Time Eval vm_compute in cover g7 simple7 3 [0;0;3;7;8]%nat [0;1] [None; Some 0; Some 0] 300 777 (uboot U1 [] 3) [].

(* 2. two slots per class, partial last tree *)
Definition U2 := mkU g7 700 IFreeAll [(0, 2); (1, 2)] 0.
Definition t2 := fuzz g7 simple7 3 [0;1;6;7;8]%nat [0;1] [None; Some 0; Some 1] 300 4242 (uboot U2 [] 3) [].
Time Eval vm_compute in (fst t2, summary (snd t2)).

(* 3. a class without slots, small memory: out-of-memory paths *)
Definition U4 := mkU g7 512 IFreeAll [(0, 1); (1, 0); (2, 1)] 1.
Definition t4 := fuzz g7 simple7 2 [0;7;8;7]%nat [0;1;2] [None; Some 0; Some 0] 300 31337 (uboot U4 [] 2) [].
Time Eval vm_compute in (fst t4, summary (snd t4)).

(* 4. demote_local: the class-1 slot holds the only tree with free frames, class 0 asks *)
Definition U6 := mkU g7 512 IFreeAll [(0, 1); (1, 1)] 1.
Fixpoint until_idle (fuel : nat) (s : m2state) (t : nat) (c : ucall) : m2state :=
  match fuel with O => s | S f =>
    let s' := fst (ustep g7 simple7 s t c) in
    match nth_error (m2_pool s') t with Some (URun _ _ _) => until_idle f s' t c | _ => s' end end.
Definition rq o c l := {| r_order := o; r_class := c; r_local := l |}.
Definition s2 := until_idle 300 (until_idle 300 (uboot U6 [] 3) 0 (UGet None (rq 0 1 (Some 0)))) 0 (UGet None (rq 8 1 None)).
Fixpoint fuzzc (calls : list ucall) (n : nat) (x : N) (s : m2state) (acc : list (nat * ucall)) :=
  match n with
  | O => (None, s)
  | S n' =>
      let t := nn ((x / 8) mod N.of_nat (length calls)) in
      let c := nth t calls UDrain in
      let s' := fst (ustep g7 simple7 s t c) in
      if uinv_b g7 simple7 s' then fuzzc calls n' (lcg x) s' ((t, c) :: acc)
      else (Some (rev ((t, c) :: acc), parts g7 simple7 s'), s')
  end.
Definition cs := [UGet None (rq 0 0 (Some 0)); UGet None (rq 0 1 (Some 0)); UGet None (rq 0 0 None)].
Time Eval vm_compute in map (fun sd => fst (fuzzc cs 120 sd s2 [])) [1; 2; 3; 4].
