(* Testing the M2 invariant checker `uinv_b` (UpperConcInvDef.v) along pseudo-random schedules by vm_compute.
   Nothing depends on this file; it documents how the clauses were tested before being proved. *)
From LLF Require Import Base Row Bitfield Lower Spec Sorted Upper UpperInvDef UpperPrims LowerMachine ConcBase ConcInvDef
  Policies UpperMachine UpperConcInvDef.

Definition lcg (x : N) : N := (x * 6364136223846793005 + 1442695040888963407) mod 18446744073709551616.
Definition pick {A} (l : list A) (d : A) (x : N) : A := nth (nn (x mod N.of_nat (length l))) l d.

Section Gen.
  Variable g : geom.
  Variable policy : N -> N -> N -> pol.
  Variable nthreads : N.
  Variable orders : list nat.
  Variable classes : list N.
  Variable locals_ : list (option N).

  Definition gen_call (s : m2state) (x : N) : ucall :=
    let kind := (x / 1024) mod 8 in
    let k := pick orders 0%nat (x / 65536) in
    let c := pick classes 0 (x / 8192) in
    let l0 := pick locals_ None (x / 524288) in
    (* valid parameters: a slot index below the slot count of the class, or none *)
    let l := match l0, class_locals (m2_up s) c with
             | Some i, Some len => if i <? len then l0 else None
             | _, _ => None
             end in
    let y := x / 16777216 in
    let fr := frames (low (m2_up s)) in
    let rq := {| r_order := k; r_class := c; r_local := l |} in
    if kind <? 3 then UGet None rq
    else if kind =? 3 then UGet (Some (((y mod fr) / pow2 k) * pow2 k)) rq
    else if kind =? 4 then UDrain
    else
      match m2_held s with
      | [] => UGet None rq
      | b :: _ =>
          let b := pick (m2_held s) b y in
          if (x / 4096) mod 2 =? 0 then UPut (fst b) {| r_order := snd b; r_class := c; r_local := l |}
          else let k' := Nat.min k (snd b) in
               UPut (fst b + ((y / 4096) mod pow2 (snd b - k')) * pow2 k') {| r_order := k'; r_class := c; r_local := l |}
      end.

  Definition parts (s : m2state) : bool * bool * bool :=
    let gs := map (uthr_gh g) (m2_pool s) in
    (inv_b g (m1_of g s), uic2b g policy (CRf gs) (IHf gs) (m2_up s), forallb panic_okb (m2_pool s)).

  Fixpoint fuzz (n : nat) (x : N) (s : m2state) (acc : list (nat * ucall))
    : option (list (nat * ucall) * (bool * bool * bool)) * m2state :=
    match n with
    | O => (None, s)
    | S n' =>
        let t := nn ((x / 8) mod nthreads) in
        let c := gen_call s x in
        let s' := fst (ustep g policy s t c) in
        if uinv_b g policy s' then fuzz n' (lcg x) s' ((t, c) :: acc)
        else (Some (rev ((t, c) :: acc), parts s'), s')
    end.
End Gen.

Definition g7 : geom := {| hord := 7; tlog := 1 |}.          (* HF = 128, TF = 256 *)
Definition mkU (g : geom) (fr : N) (i : init) (classing : list (N * N)) (d : N) : upper :=
  match llfree_new g fr i classing d (free_all g fr) [] (repeat slot_none 16) with
  | Ok u => u
  | _ => {| low := free_all g 0; trees := []; locals := []; dflt := 0 |}
  end.
Definition simple7 := pol_simple 256.
Definition summary (s : m2state) :=
  (trees (m2_up s), locals (m2_up s), map (fun x => match x with UIdle _ => 0 | URun _ _ k => 1 + N.of_nat (length k) | UPanic _ _ => 99 end) (m2_pool s), length (m2_held s)).

Definition U1 := mkU g7 1024 IFreeAll [(0, 1); (1, 1)] 1.
Definition t1 := fuzz g7 simple7 2 [0;0;3;7;8]%nat [0;1] [None; Some 0; Some 0] 600 12345 (uboot U1 [] 2) [].
Time Eval vm_compute in (fst t1, summary (snd t1)).
