(* Generic bit-level lemmas over N (Stdlib only): bounded checks by computation, testbit of
   words below 2^n, trailing_ones / trailing_zeros / popcount characterisations, lanes of a
   word and the borrow-free lane of a wrapping subtraction. Nothing here mentions the model. *)
From LLF Require Import Base.
Local Open Scope N_scope.

(* ---------- bounded universal quantification by computation ---------- *)
Definition forall_below (n : nat) (f : N -> bool) : bool :=
  forallb (fun k => f (N.of_nat k)) (seq 0 n).

Lemma forall_below_spec n f :
  forall_below n f = true -> forall i, i < N.of_nat n -> f i = true.
Proof.
  unfold forall_below. rewrite forallb_forall. intros H i Hi.
  specialize (H (N.to_nat i)). rewrite N2Nat.id in H. apply H. apply in_seq. lia.
Qed.

(* ---------- words below 2^n ---------- *)
Lemma testbit_high x n i : x < 2 ^ n -> n <= i -> N.testbit x i = false.
Proof.
  intros Hx Hi. rewrite <- (N.mod_small x (2 ^ n)) by assumption.
  apply N.mod_pow2_bits_high. assumption.
Qed.

Lemma lt_pow2_bits x n : (forall i, n <= i -> N.testbit x i = false) -> x < 2 ^ n.
Proof.
  intros H. assert (E : x mod 2 ^ n = x).
  { apply N.bits_inj. intros i. destruct (N.lt_ge_cases i n) as [Hi|Hi].
    - apply N.mod_pow2_bits_low; assumption.
    - rewrite N.mod_pow2_bits_high by assumption. symmetry; apply H; assumption. }
  rewrite <- E. apply N.mod_lt. apply N.pow_nonzero. discriminate.
Qed.

Lemma lor_lt_pow2 a b n : a < 2 ^ n -> b < 2 ^ n -> N.lor a b < 2 ^ n.
Proof.
  intros Ha Hb. apply lt_pow2_bits. intros i Hi.
  rewrite N.lor_spec, (testbit_high a n i), (testbit_high b n i); auto.
Qed.

Lemma W64_pow : W64 = 2 ^ 64.
Proof. reflexivity. Qed.

Lemma MAX64_ones : MAX64 = N.ones 64.
Proof. reflexivity. Qed.

Lemma not64_spec v i :
  N.testbit (not64 v) i = if i <? 64 then negb (N.testbit v i) else N.testbit v i.
Proof.
  unfold not64. rewrite N.lxor_spec, MAX64_ones.
  destruct (N.ltb_spec i 64).
  - rewrite N.ones_spec_low by assumption. apply xorb_true_r.
  - rewrite N.ones_spec_high by assumption. apply xorb_false_r.
Qed.

(* top bit of a w-bit number *)
Lemma testbit_top x w : 0 < w -> x < 2 ^ w -> N.testbit x (w - 1) = (2 ^ (w - 1) <=? x).
Proof.
  intros Hw Hx. rewrite N.testbit_eqb.
  assert (E : 2 ^ w = 2 * 2 ^ (w - 1)).
  { replace w with (N.succ (w - 1)) at 1 by lia. apply N.pow_succ_r'. }
  assert (Hp : 2 ^ (w - 1) <> 0) by (apply N.pow_nonzero; discriminate).
  destruct (N.leb_spec (2 ^ (w - 1)) x) as [H|H].
  - assert (x / 2 ^ (w - 1) = 1) as ->.
    { symmetry. apply (N.div_unique x (2 ^ (w - 1)) 1 (x - 2 ^ (w - 1))); lia. }
    reflexivity.
  - rewrite N.div_small by assumption. reflexivity.
Qed.

(* ---------- trailing_ones / trailing_zeros ---------- *)
Lemma testbit_xO_succ p i : N.testbit (Npos p~0) (N.succ i) = N.testbit (Npos p) i.
Proof. change (Npos p~0) with (2 * Npos p). apply N.testbit_even_succ. lia. Qed.

Lemma testbit_xI_succ p i : N.testbit (Npos p~1) (N.succ i) = N.testbit (Npos p) i.
Proof. change (Npos p~1) with (2 * Npos p + 1). apply N.testbit_odd_succ. lia. Qed.

Lemma to_pos_low p : forall i, i < to_pos p -> N.testbit (Npos p) i = true.
Proof.
  induction p as [p IH|p IH|]; cbn [to_pos]; intros i Hi.
  - destruct (N.eq_dec i 0) as [->|Hn]; [reflexivity|].
    replace i with (N.succ (N.pred i)) by lia. rewrite testbit_xI_succ. apply IH. lia.
  - lia.
  - replace i with 0 by lia. reflexivity.
Qed.

Lemma to_pos_high p : N.testbit (Npos p) (to_pos p) = false.
Proof.
  induction p as [p IH|p IH|]; cbn [to_pos].
  - rewrite testbit_xI_succ. exact IH.
  - reflexivity.
  - reflexivity.
Qed.

Lemma trailing_ones_low v i : i < trailing_ones v -> N.testbit v i = true.
Proof. destruct v as [|p]; cbn [trailing_ones]; [lia|apply to_pos_low]. Qed.

Lemma trailing_ones_high v : N.testbit v (trailing_ones v) = false.
Proof. destruct v as [|p]; cbn [trailing_ones]; [reflexivity|apply to_pos_high]. Qed.

Lemma trailing_ones_ge v n : (forall i, i < n -> N.testbit v i = true) -> n <= trailing_ones v.
Proof.
  intros H. destruct (N.le_gt_cases n (trailing_ones v)) as [|Hlt]; [assumption|].
  apply H in Hlt. rewrite trailing_ones_high in Hlt. discriminate.
Qed.

Lemma trailing_ones_unique v n :
  (forall i, i < n -> N.testbit v i = true) -> N.testbit v n = false -> trailing_ones v = n.
Proof.
  intros Hl Hh. apply trailing_ones_ge in Hl.
  destruct (N.eq_dec (trailing_ones v) n) as [|Hne]; [assumption|].
  assert (Hlt : n < trailing_ones v) by lia.
  apply trailing_ones_low in Hlt. congruence.
Qed.

Lemma tz_pos_low p : forall i, i < tz_pos p -> N.testbit (Npos p) i = false.
Proof.
  induction p as [p IH|p IH|]; cbn [tz_pos]; intros i Hi; try lia.
  destruct (N.eq_dec i 0) as [->|Hn]; [reflexivity|].
  replace i with (N.succ (N.pred i)) by lia. rewrite testbit_xO_succ. apply IH. lia.
Qed.

Lemma tz_pos_high p : N.testbit (Npos p) (tz_pos p) = true.
Proof.
  induction p as [p IH|p IH|]; cbn [tz_pos].
  - reflexivity.
  - rewrite testbit_xO_succ. exact IH.
  - reflexivity.
Qed.

Lemma trailing_zeros_0 : trailing_zeros 0 = 64.
Proof. reflexivity. Qed.

Lemma trailing_zeros_unique v n :
  N.testbit v n = true -> (forall i, i < n -> N.testbit v i = false) -> trailing_zeros v = n.
Proof.
  intros Hh Hl. destruct v as [|p]; [rewrite N.bits_0 in Hh; discriminate|].
  cbn [trailing_zeros].
  destruct (N.lt_trichotomy (tz_pos p) n) as [Hlt|[E|Hgt]]; [|assumption|].
  - apply Hl in Hlt. rewrite tz_pos_high in Hlt. discriminate.
  - apply tz_pos_low in Hgt. congruence.
Qed.

(* ---------- popcount ---------- *)
Lemma popcount_double a : popcount (2 * a) = popcount a.
Proof. destruct a; reflexivity. Qed.

Lemma popcount_succ_double a : popcount (2 * a + 1) = N.succ (popcount a).
Proof. destruct a; reflexivity. Qed.

Lemma popcount_shiftl a p : popcount (N.shiftl a p) = popcount a.
Proof.
  induction p as [|p IH] using N.peano_ind.
  - rewrite N.shiftl_0_r. reflexivity.
  - rewrite N.shiftl_succ_r, popcount_double. exact IH.
Qed.

Lemma ones_succ n : N.ones (N.succ n) = 2 * N.ones n + 1.
Proof.
  rewrite !N.ones_equiv, N.pow_succ_r'.
  assert (2 ^ n <> 0) by (apply N.pow_nonzero; discriminate). lia.
Qed.

Lemma popcount_ones n : popcount (N.ones n) = n.
Proof.
  induction n as [|n IH] using N.peano_ind.
  - reflexivity.
  - rewrite ones_succ, popcount_succ_double, IH. reflexivity.
Qed.

Lemma Ndouble_eq_0 x : Pos.Ndouble x = 0 -> x = 0.
Proof. destruct x; [reflexivity|discriminate]. Qed.

Lemma popcount_pos_lor_disjoint p : forall q,
  Pos.land p q = 0 -> popcount_pos (Pos.lor p q) = popcount_pos p + popcount_pos q.
Proof.
  induction p as [p IH|p IH|]; intros [q|q|]; cbn [Pos.land Pos.lor popcount_pos]; intros H;
    try discriminate;
    try (apply Ndouble_eq_0 in H; rewrite (IH _ H)); try lia.
Qed.

Lemma popcount_lor_disjoint a b :
  N.land a b = 0 -> popcount (N.lor a b) = popcount a + popcount b.
Proof.
  destruct a as [|p], b as [|q]; intros H.
  - reflexivity.
  - reflexivity.
  - change (N.lor (Npos p) 0) with (Npos p). change (popcount 0) with 0. lia.
  - apply popcount_pos_lor_disjoint. exact H.
Qed.

(* ---------- lanes ---------- *)
(* lane j (width w) of x *)
Definition lane (w x j : N) : N := (x / 2 ^ (w * j)) mod 2 ^ w.

Lemma lane_lt w x j : lane w x j < 2 ^ w.
Proof. apply N.mod_lt, N.pow_nonzero. discriminate. Qed.

Lemma lane_testbit w x j r : r < w -> N.testbit (lane w x j) r = N.testbit x (w * j + r).
Proof.
  intros Hr. unfold lane. rewrite N.mod_pow2_bits_low by assumption.
  rewrite N.div_pow2_bits. f_equal. lia.
Qed.

Lemma lane_high w x j r : w <= r -> N.testbit (lane w x j) r = false.
Proof. intros. apply (testbit_high _ w); [apply lane_lt|assumption]. Qed.

(* bits [p, p+w) of v, as a number *)
Lemma land_shiftl_ones v w p :
  N.land v (N.shiftl (N.ones w) p) = N.shiftl ((v / 2 ^ p) mod 2 ^ w) p.
Proof.
  apply N.bits_inj. intros i. rewrite N.land_spec.
  destruct (N.lt_ge_cases i p) as [Hi|Hi].
  - rewrite !N.shiftl_spec_low by assumption. apply andb_false_r.
  - rewrite !N.shiftl_spec_high' by assumption.
    destruct (N.lt_ge_cases (i - p) w) as [Hw|Hw].
    + rewrite N.ones_spec_low, N.mod_pow2_bits_low by assumption.
      rewrite N.div_pow2_bits, andb_true_r. f_equal. lia.
    + rewrite N.ones_spec_high, N.mod_pow2_bits_high by assumption. apply andb_false_r.
Qed.

Lemma mod_pow2_split x w j :
  x mod 2 ^ (w * (j + 1)) = x mod 2 ^ (w * j) + 2 ^ (w * j) * lane w x j.
Proof.
  replace (w * (j + 1)) with (w * j + w) by lia. rewrite N.pow_add_r.
  apply N.mod_mul_r; apply N.pow_nonzero; discriminate.
Qed.

(* ---------- arithmetic of a lane of a wrapping subtraction ---------- *)
Lemma div_mod_mul x P Q : P <> 0 -> Q <> 0 -> (x mod (P * Q)) / P = (x / P) mod Q.
Proof.
  intros HP HQ. rewrite N.mod_mul_r by assumption.
  rewrite (N.mul_comm P), N.div_add by assumption.
  rewrite N.div_small by (apply N.mod_lt; assumption). apply N.add_0_l.
Qed.

Lemma mod_mod_mul x A S : A <> 0 -> S <> 0 -> (x mod (A * S)) mod A = x mod A.
Proof.
  intros HA HS. rewrite N.mod_mul_r by assumption.
  rewrite (N.mul_comm A), N.mod_add by assumption. apply N.mod_mod. assumption.
Qed.

(* If the bits of v below lane position P are >= those of m (no borrow into the lane) and the
   lane of m is 1, the lane of v - m (mod P*Q*S) is the lane of v minus one, mod Q. *)
Lemma wsub_lane_gen P Q S v m :
  P <> 0 -> Q <> 0 -> S <> 0 -> v < P * Q * S -> m < P * Q * S ->
  m mod P <= v mod P -> (m / P) mod Q = 1 ->
  (((v + P * Q * S - m) mod (P * Q * S)) / P) mod Q = ((v / P) mod Q + Q - 1) mod Q.
Proof.
  intros HP HQ HS Hv Hm Hlow Hm1.
  assert (HA : P * Q <> 0) by lia.
  rewrite <- div_mod_mul by assumption.
  rewrite mod_mod_mul by assumption.
  set (A := P * Q) in *.
  pose proof (N.div_mod v A HA) as Ev. pose proof (N.div_mod m A HA) as Em.
  assert (Ev0 : v mod A = v mod P + P * ((v / P) mod Q)) by (apply N.mod_mul_r; assumption).
  assert (Em0 : m mod A = m mod P + P * 1) by (rewrite <- Hm1; apply N.mod_mul_r; assumption).
  set (a := (v / P) mod Q) in *. set (l := v mod P) in *. set (ml := m mod P) in *.
  assert (Ha : a < Q) by (apply N.mod_lt; assumption).
  assert (Hl : l < P) by (apply N.mod_lt; assumption).
  assert (Hm1S : m / A < S) by (apply N.div_lt_upper_bound; [assumption|lia]).
  set (v1 := v / A) in *. set (m1 := m / A) in *.
  assert (EA : A = P * Q) by reflexivity.
  clearbody A a l ml v1 m1.
  assert (Hd : exists d, S = m1 + 1 + d) by (exists (S - m1 - 1); lia).
  destruct Hd as [d ->].
  assert (ES : A * (m1 + 1 + d) = A * m1 + A + A * d) by ring.
  destruct (N.eq_dec a 0) as [Ea|Ea].
  - (* lane is zero: borrow, lane becomes Q-1 *)
    rewrite Ea, N.add_0_l, (N.mod_small (Q - 1) Q) by lia.
    assert (EQ : P * (Q - 1) + P = P * Q).
    { replace Q with (Q - 1 + 1) at 2 by lia. ring. }
    assert (E : (v + A * (m1 + 1 + d) - m) mod A = (l - ml) + P * (Q - 1)).
    { symmetry. apply (N.mod_unique _ A (v1 + d)); [lia|].
      rewrite Ea in Ev0. rewrite N.mul_add_distr_l. lia. }
    rewrite E, (N.mul_comm P), N.div_add, N.div_small by lia. lia.
  - assert (Ea1 : (a + Q - 1) mod Q = a - 1).
    { replace (a + Q - 1) with (a - 1 + 1 * Q) by lia.
      rewrite N.mod_add by assumption. apply N.mod_small. lia. }
    rewrite Ea1.
    assert (EQ : P * (a - 1) + P = P * a).
    { replace a with (a - 1 + 1) at 2 by lia. ring. }
    assert (EQ2 : P * a + P <= P * Q).
    { replace (P * a + P) with (P * (a + 1)) by ring. apply N.mul_le_mono_l. lia. }
    assert (E : (v + A * (m1 + 1 + d) - m) mod A = (l - ml) + P * (a - 1)).
    { symmetry. apply (N.mod_unique _ A (v1 + 1 + d)); [lia|].
      rewrite !N.mul_add_distr_l, N.mul_1_r. lia. }
    rewrite E, (N.mul_comm P), N.div_add, N.div_small by lia. lia.
Qed.
