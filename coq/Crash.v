(* C05: a crash at any point of any interleaving, followed by recovery from the persistent metadata alone.

   The crash point is ANY reachable state `s` of the machine M1 (LowerMachine.v: one transition per atomic
   load / compare-exchange, so "between any two writes to the persistent metadata, with any calls in flight").
   The persistent metadata is `lower_of s`; the volatile part (thread pool, ghost) is lost.  Recovery is
   `lower_recover g (lower_of s)` (what `Lower::new(.., Init::Recover)` leaves).
   Everything follows from the invariant `Inv g s` (ConcInvDef.v / ConcProps.conc_inv) read through the
   theorems of RecoverProofs.v (recover does not change which frames are allocated nor which huge frames are
   whole, and re-establishes the counters).

   `touched s f`: frame f is touched by a call in flight, defined from the ghost record of the in-flight
   threads (ConcInvDef.ghost_of): f lies in the owned interval of a thread, or in a transit row of its focus
   huge frame.  Per program point this is (see `gpc`):
     put, order < hord   P1/PP3, toggling (TL..TW XPut), panicked "Exceeding retries": the frames of its block
                         not yet cleared (rows already cleared by a multi-row put are free and not touched);
                         PS2L/PS2C (bits cleared, counter not yet incremented): nothing - the block is free;
     put of a part of a marker huge frame (split protocol) TL..TU (XSplit _), PP2: its block and the rows
                         [0, cnt) of the huge frame that its own CAS filled so far (at PP2: the whole huge
                         frame).  This includes the "stale split" window: a splitter whose huge frame was
                         already split by another thread fills rows whose frames others have freed in the
                         meantime, until its CAS fails and it rolls back;
     put, order >= hord  HC _ q: the entries not yet released [frame + q HF, frame + n);
     get, order <= 6     nothing (one CAS on the counter, one on the row: the successful last CAS goes straight
                         to `finish`, so "committed but not yet returned" is empty in M1);
     get, 7 <= order < hord   G2W/G2U: the rows of the chunk filled so far;
     get / get_at, order >= hord   HC/HU: the entries claimed so far;
     get_at, order < hord     TW/TU XGetAt: the rows of its block toggled so far (a successful last CAS goes to
                         `finish`).
   Definitions and proofs; the property theorems are restated in Properties/C05.v. *)
From Coq Require Import PeanoNat ZArith ZifyN ZifyBool.
From LLF Require Import Base BitLemmas Row RowProofs Bitfield Lower Spec AbsLemmas LowerMachine
  ConcBase ConcInvDef ConcInvGeom ConcInvStep ConcInvTac ConcInv ConcInvInit ConcProps RecoverProofs.
Local Open Scope N_scope.

(* ---------- the statement's vocabulary ---------- *)
(* frame f lies in a block returned by a completed allocation and not passed to a (started) free *)
Definition covered_by_held (s : mstate) (f : N) : Prop :=
  exists F K, In (F, K) (ms_held s) /\ F <= f < F + pow2 K.
Definition covered_b (s : mstate) (f : N) : bool := existsb (fun b => cover b f) (ms_held s).
(* no call in flight *)
Definition quiescent (s : mstate) : Prop := forall x, In x (ms_pool s) -> exists l, x = TIdle l.

Section Defs.
  Variable g : geom.

  (* thread x touches frame f *)
  Definition touches (x : thr) (f : N) : bool :=
    let G := ghost_of g x in
    inb (own_lo G) (own_n G) f ||
    ((f / HF g =? g_h G) && inb (tr_lo G) (tr_n G) ((f mod HF g) / 64)).
  Definition touched (s : mstate) (f : N) : Prop := exists x, In x (ms_pool s) /\ touches x f = true.

  (* boolean forms (testing, examples) *)
  Definition touched_b (s : mstate) (f : N) : bool := existsb (fun x => touches x f) (ms_pool s).
  Definition crash_ok_b (s : mstate) : bool :=
    let m := lower_recover g (lower_of s) in
    let a := abs g m in
    lower_invb g m &&
    forallb (fun b => spec_put_enabled g a (fst b) (snd b)) (ms_held s) &&
    allb (ms_frames s) (fun f => negb (N.testbit (o_alloc a) f) || covered_b s f || touched_b s f).
End Defs.

Lemma sumf_pos_in {A} (f : A -> N) l : 0 < sumf f l -> exists x, In x l /\ 0 < f x.
Proof.
  induction l as [|a r IH]; [rewrite sumf_nil; lia|]. rewrite sumf_cons. intros H.
  destruct (N.eq_dec (f a) 0) as [E|E].
  - destruct IH as (x & Hx & Hp); [lia|]. exists x. split; [right; exact Hx|exact Hp].
  - exists a. split; [left; reflexivity|lia].
Qed.

Section Crash.
  Variable g : geom.
  Hypothesis wf : wf_geom g.
  Notation HF := (HF g).
  Notation THUGE := (THUGE g).
  Notation ROWS := (ROWS g).

  (* ---------- reading the persistent memory of a machine state ---------- *)
  Lemma fidx_divmod h r i : r < ROWS -> i < 64 ->
    fidx g h r i / HF = h /\ fidx g h r i mod HF = r * 64 + i /\ (r * 64 + i) / 64 = r /\ (r * 64 + i) mod 64 = i.
  Proof.
    intros Hr Hi. pose proof (rowbit_lt g wf r i Hr Hi) as Hb. pose proof (HF_pos g) as HP. unfold fidx.
    repeat split.
    - symmetry. apply (N.div_unique _ _ _ (r * 64 + i)); [exact Hb|lia].
    - symmetry. apply (N.mod_unique _ _ h); [exact Hb|lia].
    - symmetry. apply (N.div_unique _ _ _ i); [exact Hi|lia].
    - symmetry. apply (N.mod_unique _ _ r); [exact Hi|lia].
  Qed.

  Lemma frame_decomp f : exists r i, f = fidx g (f / HF) r i /\ r < ROWS /\ i < 64.
  Proof.
    destruct (small_decomp g wf f 0 (N.mod_1_r f)) as (E & Hr & Hi); [destruct wf; lia|].
    exists ((f / 64) mod ROWS), (f mod 64). auto.
  Qed.

  Lemma inv_ent s h : Inv g s -> h < nbf g (ms_frames s) -> rd_ent s h = Some (entv s h).
  Proof.
    intros I Hh. destruct (has_ent g s h I) as (v & E); [pose proof (nbf_le_ents g (ms_frames s)); lia|].
    rewrite (entv_rd s h v E). exact E.
  Qed.

  Lemma rows_bit s h rows r i : Inv g s -> nth_error (ms_bfs s) (nn h) = Some rows -> r < ROWS -> i < 64 ->
    N.testbit (rows_bits rows) (r * 64 + i) = bit s h r i.
  Proof.
    intros I E Hr Hi. pose proof (I_rows g s I _ _ E) as Hok.
    destruct (fidx_divmod 0 r i Hr Hi) as (_ & _ & Ed & Em).
    rewrite (rows_bits_testbit g rows Hok), Ed, Em. unfold bit, rowv, rd_row. rewrite E.
    destruct (nth_error rows (nn r)); [reflexivity|symmetry; apply N.bits_0].
  Qed.

  Lemma alloc_at_bit s h r i : Inv g s -> h < nbf g (ms_frames s) -> r < ROWS -> i < 64 ->
    alloc_at g (lower_of s) (fidx g h r i) =
    (fidx g h r i <? ms_frames s) && ((entv s h =? MARK) || bit s h r i).
  Proof.
    intros I Hh Hr Hi. destruct (fidx_divmod h r i Hr Hi) as (Ed & Em & _).
    destruct (has_rows g s h I Hh) as (rows & Eb & _).
    unfold alloc_at. rewrite Ed, Em. cbn [frames lower_of]. f_equal.
    change (ent (lower_of s) h) with (rd_ent s h). change (bf (lower_of s) h) with (nth_error (ms_bfs s) (nn h)).
    rewrite (inv_ent s h I Hh), Eb, (rows_bit s h rows r i I Eb Hr Hi). reflexivity.
  Qed.

  Lemma whole_at_mark s h : Inv g s -> h < nbf g (ms_frames s) -> whole_at (lower_of s) h = (entv s h =? MARK).
  Proof.
    intros I Hh. destruct (has_rows g s h I Hh) as (rows & Eb & _). unfold whole_at.
    change (ent (lower_of s) h) with (rd_ent s h). change (bf (lower_of s) h) with (nth_error (ms_bfs s) (nn h)).
    rewrite (inv_ent s h I Hh), Eb. reflexivity.
  Qed.

  (* slots at or beyond `frames` are set and lie under a counter entry *)
  Lemma oor_bit s h r i : Inv g s -> h < nbf g (ms_frames s) -> r < ROWS -> i < 64 ->
    ms_frames s <= fidx g h r i -> bit s h r i = true /\ entv s h <> MARK.
  Proof.
    intros I Hh Hr Hi Ho. pose proof (I_A g s I h r i Hh Hr Hi) as A.
    assert (Hm : entv s h <> MARK).
    { intros E. pose proof (I_G g s I h Hh E). pose proof (rowbit_lt g wf r i Hr Hi). unfold fidx in Ho. lia. }
    unfold isMark, oor in A. destruct (N.eqb_spec (entv s h) MARK); [contradiction|].
    destruct (N.leb_spec (ms_frames s) (fidx g h r i)); [|lia]. cbn [b2n] in A.
    split; [|exact Hm]. destruct (bit s h r i); [reflexivity|cbn [b2n] in A; lia].
  Qed.

  (* ---------- recover's precondition holds at every crash point ---------- *)
  Theorem inv_lower_pre s : Inv g s -> LowerPre g (lower_of s).
  Proof.
    intros I. unfold LowerPre. cbn [frames bfs ents lower_of].
    split; [exact (I_len1 g s I)|]. split; [exact (I_len2 g s I)|]. split.
    - intros h e rows He Hb.
      assert (Hh : N.of_nat h < nbf g (ms_frames s)).
      { assert ((h < length (ms_bfs s))%nat) by (apply nth_error_Some; congruence).
        rewrite (I_len1 g s I) in H. unfold nn in H. lia. }
      assert (Ee : entv s (N.of_nat h) = e).
      { unfold entv, rd_ent, nn. rewrite Nat2N.id, He. reflexivity. }
      assert (Eb : nth_error (ms_bfs s) (nn (N.of_nat h)) = Some rows) by (unfold nn; rewrite Nat2N.id; exact Hb).
      split; [exact (I_rows g s I _ _ Hb)|]. split.
      + intros Em. apply (I_G g s I _ Hh). rewrite Ee. exact Em.
      + intros i Hi Ho. pose proof (ROWS_pos g wf) as PR.
        assert (Hr : i / 64 < ROWS) by (apply N.div_lt_upper_bound; [lia|]; rewrite <- (HF_64 g wf); exact Hi).
        assert (Hj : i mod 64 < 64) by (apply N.mod_lt; lia).
        assert (Ei : i = i / 64 * 64 + i mod 64) by (pose proof (N.div_mod i 64 ltac:(lia)); lia).
        rewrite Ei, (rows_bit s _ rows _ _ I Eb Hr Hj).
        apply (oor_bit s _ _ _ I Hh Hr Hj). unfold fidx. lia.
    - intros h e He Hb.
      assert (Hh : nbf g (ms_frames s) <= N.of_nat h).
      { apply nth_error_None in Hb. rewrite (I_len1 g s I) in Hb. unfold nn in Hb. lia. }
      pose proof (I_nobf g s I _ Hh) as Z. unfold entv, rd_ent, nn in Z. rewrite Nat2N.id, He in Z. exact Z.
  Qed.

  (* ---------- held blocks: still allocated, whole if of huge order ---------- *)
  Lemma held_cover s F K f : In (F, K) (ms_held s) -> F <= f < F + pow2 K -> 1 <= heldc f (ms_held s).
  Proof.
    intros Hin Hf. pose proof (sumf_ge_in (fun b => b2n (cover b f)) _ _ Hin) as G. cbn beta in G.
    fold (heldc f (ms_held s)) in G. assert (cover (F, K) f = true) by (unfold cover, inb; cbn [fst snd]; lia).
    rewrite H in G. exact G.
  Qed.

  Lemma held_in_range s F K : Inv g s -> In (F, K) (ms_held s) -> F mod pow2 K = 0 /\ F + pow2 K <= ms_frames s.
  Proof.
    intros I Hin. pose proof (proj1 (Forall_forall _ _) (I_H g s I) _ Hin) as B. cbn beta in B.
    unfold blk_ok in B. cbn [fst snd] in B. lia.
  Qed.

  Lemma held_alloc s F K f : Inv g s -> In (F, K) (ms_held s) -> F <= f < F + pow2 K ->
    alloc_at g (lower_of s) f = true.
  Proof.
    intros I Hin Hf. destruct (held_in_range s F K I Hin) as (_ & Hr).
    assert (Hfr : f < ms_frames s) by lia.
    destruct (frame_decomp f) as (r & i & E & Hr' & Hi). pose proof (lt_nbf g _ _ Hfr) as Hh.
    pose proof (held_cover s F K f Hin Hf) as Hc.
    rewrite E, (alloc_at_bit s _ r i I Hh Hr' Hi), <- E.
    pose proof (I_A g s I _ r i Hh Hr' Hi) as A. rewrite <- E in A. unfold isMark in A.
    destruct (N.ltb_spec f (ms_frames s)); [|lia]. cbn [andb].
    destruct (entv s (f / HF) =? MARK); [reflexivity|]. cbn [orb b2n] in *.
    destruct (bit s (f / HF) r i); [reflexivity|cbn [b2n] in A; lia].
  Qed.

  Lemma held_whole s F K h : Inv g s -> In (F, K) (ms_held s) -> (hord g <= K)%nat ->
    F / HF <= h < F / HF + pow2 (K - hord g) -> whole_at (lower_of s) h = true.
  Proof.
    intros I Hin HK Hh. destruct (held_in_range s F K I Hin) as (Hal & Hr). pose proof (HF_pos g) as HP.
    assert (Ek : pow2 K = pow2 (K - hord g) * HF) by (rewrite (HF_pow2 g); apply pow2_split; exact HK).
    assert (EF : F = F / HF * HF).
    { pose proof (N.div_mod F HF ltac:(lia)) as D.
      assert (F mod HF = 0); [|lia].
      apply (mod_of_multiple F HF (pow2 (K - hord g))); [lia|apply pow2_nz|]. rewrite N.mul_comm, <- Ek. exact Hal. }
    assert (Hc : F <= h * HF /\ h * HF + HF <= F + pow2 K) by (rewrite Ek; nia).
    assert (Hn : h < nbf g (ms_frames s)).
    { assert (h + 1 <= nbf g (ms_frames s)); [apply (le_nbf g)|]; lia. }
    rewrite (whole_at_mark s h I Hn). apply N.eqb_eq.
    destruct (N.eq_dec (entv s h) MARK) as [E|E]; [exact E|exfalso].
    pose proof (I_F g s I h E) as Fz.
    pose proof (sumf_ge_in (hugeb g h) _ _ Hin) as G. fold (hugec g h (ms_held s)) in G.
    assert (hugeb g h (F, K) = 1); [|lia].
    unfold hugeb, cover, inb. cbn [fst snd]. destruct (Nat.leb_spec (hord g) K); [|lia]. cbn [andb]. lia.
  Qed.

  (* ---------- every allocated frame has an owner ---------- *)
  Lemma alloc_owner s f : Inv g s -> alloc_at g (lower_of s) f = true -> covered_by_held s f \/ touched g s f.
  Proof.
    intros I Ha.
    assert (Hfr : f < ms_frames s).
    { unfold alloc_at in Ha. cbn [frames lower_of] in Ha. apply andb_true_iff in Ha. lia. }
    destruct (frame_decomp f) as (r & i & E & Hr & Hi). pose proof (lt_nbf g _ _ Hfr) as Hh.
    rewrite E, (alloc_at_bit s _ r i I Hh Hr Hi), <- E in Ha.
    pose proof (I_A g s I _ r i Hh Hr Hi) as A. rewrite <- E in A. unfold isMark, oor in A.
    destruct (N.leb_spec (ms_frames s) f); [lia|]. cbn [b2n] in A. rewrite N.add_0_r in A.
    assert (Hpos : 1 <= heldc f (ms_held s) + sumf (fr g (f / HF) r i) (ms_pool s) + sumf (tr g (f / HF) r) (ms_pool s)).
    { rewrite <- A. apply andb_true_iff in Ha. destruct Ha as (_ & Ha). apply orb_true_iff in Ha.
      destruct Ha as [Ha|Ha]; rewrite Ha; cbn [b2n]; lia. }
    destruct (N.eq_dec (heldc f (ms_held s)) 0) as [Z1|Z1].
    - right. destruct (fidx_divmod (f / HF) r i Hr Hi) as (_ & Em & Ed & _). rewrite <- E in Em.
      destruct (N.eq_dec (sumf (fr g (f / HF) r i) (ms_pool s)) 0) as [Z2|Z2].
      + destruct (sumf_pos_in (tr g (f / HF) r) (ms_pool s)) as (x & Hx & Hp); [lia|].
        exists x. split; [exact Hx|]. unfold touches. cbv zeta. unfold tr in Hp. cbv zeta in Hp.
        rewrite Em, Ed. apply orb_true_iff. right.
        destruct ((f / HF =? g_h (ghost_of g x)) && inb (tr_lo (ghost_of g x)) (tr_n (ghost_of g x)) r); [reflexivity|cbn [b2n] in Hp; lia].
      + destruct (sumf_pos_in (fr g (f / HF) r i) (ms_pool s)) as (x & Hx & Hp); [lia|].
        exists x. split; [exact Hx|]. unfold touches. cbv zeta. unfold fr in Hp. cbv zeta in Hp. rewrite <- E in Hp.
        apply orb_true_iff. left.
        destruct (inb (own_lo (ghost_of g x)) (own_n (ghost_of g x)) f); [reflexivity|cbn [b2n] in Hp; lia].
    - left. destruct (sumf_pos_in (fun b => b2n (cover b f)) (ms_held s)) as ((F, K) & Hx & Hp); [unfold heldc in Z1; lia|].
      exists F, K. split; [exact Hx|]. cbn beta in Hp. unfold cover, inb in Hp. cbn [fst snd] in Hp. lia.
  Qed.

  (* conversely: `touched` is exact - every managed frame touched by an in-flight call is allocated in the
     crashed metadata (hence after recovery): the definition contains no frame that recovery could free *)
  Lemma touched_alloc s f : Inv g s -> f < ms_frames s -> touched g s f -> alloc_at g (lower_of s) f = true.
  Proof.
    intros I Hfr (x & Hx & T).
    destruct (frame_decomp f) as (r & i & E & Hr & Hi). pose proof (lt_nbf g _ _ Hfr) as Hh.
    rewrite E, (alloc_at_bit s _ r i I Hh Hr Hi), <- E.
    pose proof (I_A g s I _ r i Hh Hr Hi) as A. rewrite <- E in A.
    destruct (fidx_divmod (f / HF) r i Hr Hi) as (_ & Em & Ed & _). rewrite <- E in Em.
    assert (Hpos : 1 <= sumf (fr g (f / HF) r i) (ms_pool s) + sumf (tr g (f / HF) r) (ms_pool s)).
    { unfold touches in T. cbv zeta in T. rewrite Em, Ed in T. apply orb_true_iff in T. destruct T as [T|T].
      - pose proof (sumf_ge_in (fr g (f / HF) r i) _ _ Hx) as G. unfold fr at 1 in G. cbv zeta in G.
        rewrite <- E, T in G. cbn [b2n] in G. lia.
      - pose proof (sumf_ge_in (tr g (f / HF) r) _ _ Hx) as G. unfold tr at 1 in G. cbv zeta in G.
        rewrite T in G. cbn [b2n] in G. lia. }
    destruct (N.ltb_spec f (ms_frames s)); [|lia]. cbn [andb]. unfold isMark in A.
    destruct (entv s (f / HF) =? MARK); [reflexivity|]. cbn [orb b2n] in *.
    destruct (bit s (f / HF) r i); [reflexivity|cbn [b2n] in A; lia].
  Qed.

  (* ---------- the crash theorem over the invariant ---------- *)
  Theorem crash_safe_inv s : Inv g s ->
    let m := lower_recover g (lower_of s) in
    LowerPre g (lower_of s) /\ LowerInv g m /\ abs g m = abs g (lower_of s) /\
    (forall f k, In (f, k) (ms_held s) -> spec_put_enabled g (abs g m) f k = true) /\
    (forall f, N.testbit (o_alloc (abs g m)) f = true -> covered_by_held s f \/ touched g s f).
  Proof.
    intros I m. pose proof (inv_lower_pre s I) as Pre.
    pose proof (recover_inv g wf _ Pre) as LI. fold m in LI.
    pose proof (recover_abs g wf _ Pre) as EA. fold m in EA.
    assert (Hbit : forall f, N.testbit (o_alloc (abs g m)) f = alloc_at g (lower_of s) f).
    { intros f. rewrite (abs_alloc_testbit g wf m LI). apply (recover_alloc_at g wf _ f Pre). }
    assert (Hwh : forall h, N.testbit (o_whole (abs g m)) h = whole_at (lower_of s) h).
    { intros h. rewrite abs_whole_testbit_gen. apply (recover_whole_at g wf _ h Pre). }
    split; [exact Pre|]. split; [exact LI|]. split; [exact EA|]. split.
    - intros f k Hin. unfold spec_put_enabled. apply andb_true_iff. split.
      + apply all_alloc_spec. intros i Hi. rewrite Hbit. apply (held_alloc s f k i I Hin Hi).
      + destruct (Nat.leb_spec (hord g) k) as [Hk|Hk]; [|reflexivity].
        apply all_whole_spec. intros h Hh. rewrite Hwh. apply (held_whole s f k h I Hin Hk Hh).
    - intros f Hf. rewrite Hbit in Hf. apply (alloc_owner s f I Hf).
  Qed.

  (* the complement reading: a frame that is neither held nor touched is free after recovery; and a frame that
     is free in the crashed metadata (bit clear under a counter entry) is free after recovery *)
  Corollary crash_free_inv s f : Inv g s -> ~ covered_by_held s f -> ~ touched g s f ->
    N.testbit (o_alloc (abs g (lower_recover g (lower_of s)))) f = false.
  Proof.
    intros I H1 H2. destruct (crash_safe_inv s I) as (_ & _ & _ & _ & H).
    destruct (N.testbit (o_alloc (abs g (lower_recover g (lower_of s)))) f) eqn:E; [|reflexivity].
    destruct (H f E); contradiction.
  Qed.
  Corollary crash_keeps_free_inv s f : Inv g s -> alloc_at g (lower_of s) f = false ->
    N.testbit (o_alloc (abs g (lower_recover g (lower_of s)))) f = false.
  Proof.
    intros I H. pose proof (inv_lower_pre s I) as Pre.
    rewrite (abs_alloc_testbit g wf _ (recover_inv g wf _ Pre)), (recover_alloc_at g wf _ f Pre). exact H.
  Qed.

  (* exact characterisation of the recovered allocation state *)
  Theorem crash_alloc_iff_inv s f : Inv g s -> f < ms_frames s ->
    (N.testbit (o_alloc (abs g (lower_recover g (lower_of s)))) f = true <-> covered_by_held s f \/ touched g s f).
  Proof.
    intros I Hfr. pose proof (inv_lower_pre s I) as Pre.
    rewrite (abs_alloc_testbit g wf _ (recover_inv g wf _ Pre)), (recover_alloc_at g wf _ f Pre). split.
    - apply (alloc_owner s f I).
    - intros [(F & K & Hin & Hf)|T]; [exact (held_alloc s F K f I Hin Hf)|exact (touched_alloc s f I Hfr T)].
  Qed.
End Crash.

(* ---------- quiescent crash points: the metadata is consistent, recovery is the identity ---------- *)
Section Quiescent.
  Variable g : geom.
  Hypothesis wf : wf_geom g.
  Notation HF := (HF g).
  Notation ROWS := (ROWS g).

  Lemma idle_sums s (F : thr -> N) : quiescent s -> (forall l, F (TIdle l) = 0) -> sumf F (ms_pool s) = 0.
  Proof. intros Q H. apply sumf_all_zero. intros x Hx. destruct (Q x Hx) as (l & ->). apply H. Qed.

  (* whenever no call is in flight the persistent metadata satisfies the sequential invariant (in particular
     every counter equals the number of zero bits of its bitfield) *)
  Theorem quiescent_inv s : Inv g s -> quiescent s -> LowerInv g (lower_of s).
  Proof.
    intros I Q. destruct (inv_lower_pre g wf s I) as (P1 & P2 & P3 & P4).
    split; [exact P1|]. split; [exact P2|]. split; [|exact P4].
    cbn [frames bfs ents lower_of] in *. intros h e rows He Hb.
    destruct (P3 h e rows He Hb) as (Hok & Hm & Ht).
    assert (Hh : N.of_nat h < nbf g (ms_frames s)).
    { assert ((h < length (ms_bfs s))%nat) by (apply nth_error_Some; congruence).
      rewrite (I_len1 g s I) in H. unfold nn in H. lia. }
    assert (Ee : entv s (N.of_nat h) = e).
    { unfold entv, rd_ent, nn. rewrite Nat2N.id, He. reflexivity. }
    split; [exact Hok|]. split; [|split; [|exact Ht]].
    - intros Em. split; [|exact (Hm Em)]. specialize (Hm Em). rewrite <- Ee in Em.
      apply Forall_forall. intros v Hv. apply In_nth_error in Hv. destruct Hv as (n & Hn).
      destruct Hok as (Hl & Hw).
      assert (Hr : N.of_nat n < ROWS).
      { assert ((n < length rows)%nat) by (apply nth_error_Some; congruence). rewrite Hl in H. rewrite (ROWS_nat g wf). lia. }
      assert (Ev : rowv s (N.of_nat h) (N.of_nat n) = v).
      { unfold rowv, rd_row, nn. rewrite !Nat2N.id, Hb, Hn. reflexivity. }
      apply row_all_clear; [exact (Forall_nth_error _ _ _ _ Hw Hn)|]. intros i Hi.
      pose proof (I_A g s I _ _ i Hh Hr Hi) as A. pose proof (I_B g s I _ Hh Em _ i Hr Hi) as B.
      rewrite (idle_sums s _ Q) in A, B by (intros; gsimp; unfold inb; lia).
      rewrite (idle_sums s _ Q) in A by (intros; gsimp; unfold inb; lia).
      unfold isMark, oor, bit in A. rewrite Ev in A. rewrite Em in A. change (MARK =? MARK) with true in A.
      pose proof (rowbit_lt g wf _ i Hr Hi). unfold fidx in A, B.
      destruct (N.leb_spec (ms_frames s) (N.of_nat h * HF + N.of_nat n * 64 + i)); [lia|].
      destruct (N.testbit v i); [cbn [b2n] in A; lia|reflexivity].
    - intros En. rewrite <- Ee in En. pose proof (I_C g s I _ Hh En) as C.
      rewrite !(idle_sums s _ Q) in C by (intros; gsimp; destr_if; lia).
      assert (Ez : zeros s (N.of_nat h) = bf_count_zeros rows).
      { unfold zeros, nn. rewrite Nat2N.id, Hb. apply sumf_cz_count. apply Hok. }
      rewrite Ee, Ez in C. split; [lia|]. rewrite N.add_0_r in C. rewrite C, N.mul_0_r, N.add_0_r.
      apply (bf_count_zeros_le g wf rows Hok).
  Qed.

  Lemma idle_touches l f : touches g (TIdle l) f = false.
  Proof. unfold touches. cbn [ghost_of gh0 own_lo own_n tr_lo tr_n g_h]. unfold inb.
    destruct (f / HF =? 0); cbn [andb]; lia. Qed.

  (* at a quiescent crash point recovery changes nothing, and the allocated frames are exactly the frames of
     the held blocks *)
  Theorem quiescent_crash s : Inv g s -> quiescent s ->
    LowerInv g (lower_of s) /\ lower_recover g (lower_of s) = lower_of s /\
    (forall f, N.testbit (o_alloc (abs g (lower_of s))) f = true <-> covered_by_held s f).
  Proof.
    intros I Q. pose proof (quiescent_inv s I Q) as LI. split; [exact LI|]. split; [exact (recover_id g wf _ LI)|].
    intros f. rewrite (abs_alloc_testbit g wf _ LI). split.
    - intros H. destruct (alloc_owner g wf s f I H) as [C|(x & Hx & T)]; [exact C|exfalso].
      destruct (Q x Hx) as (l & ->). rewrite idle_touches in T. discriminate.
    - intros (F & K & Hin & Hf). exact (held_alloc g wf s F K f I Hin Hf).
  Qed.
End Quiescent.

(* ---------- a readable description of `touches` ---------- *)
Definition in_block (c : call) (f : N) : Prop := c_frame c <= f < c_frame c + c_n c.
Definition splitting (p : pc) : bool :=
  match p with
  | TL (XSplit _) | TC (XSplit _) _ | TN (XSplit _) | TW (XSplit _) _ | TU (XSplit _) _ | PP2 _ => true
  | _ => false
  end.

Section Readable.
  Variable g : geom.
  Hypothesis wf : wf_geom g.
  Notation HF := (HF g).
  Notation TF := (TF g).
  Notation THUGE := (THUGE g).
  Notation ROWS := (ROWS g).

  Ltac tsimp H := unfold touches in H; cbv zeta in H;
    cbn [ghost_of gpc gtoggle gpend gtr gown ghuge gput gsplit gh0 g_h own_lo own_n tr_lo tr_n p_n nd hu is_put is_get is_getat] in H.

  (* f in row r of huge frame h *)
  Lemma in_row_bounds f h lo cnt : (f / HF =? h) && inb lo cnt ((f mod HF) / 64) = true ->
    h * HF + lo * 64 <= f < h * HF + (lo + cnt) * 64.
  Proof.
    intros H. apply andb_true_iff in H. destruct H as (Hh & Hr). apply N.eqb_eq in Hh. unfold inb in Hr.
    pose proof (HF_pos g). pose proof (N.div_mod f HF ltac:(lia)) as D. rewrite Hh in D.
    pose proof (N.div_mod (f mod HF) 64 ltac:(lia)) as D2. pose proof (N.mod_lt (f mod HF) 64 ltac:(lia)). lia.
  Qed.

  Lemma touches_getat fr f0 k p f : cwf g fr (CGetAt f0 k) = true -> lpc g fr (CGetAt f0 k) p = true ->
    touches g (TRun (CGetAt f0 k) p) f = true -> in_block (CGetAt f0 k) f.
  Proof.
    intros Hc L T. unfold in_block. pose proof (HF_pos g) as HP.
    destruct p; try destruct x; cbn [lpc ctx_ok not_xput is_get is_getat is_put andb negb] in L; rewrite ?andb_false_r, ?andb_true_r in L; try discriminate L;
      tsimp T.
    all: try (unfold inb in T; exfalso; lia).
    - (* HC *) assert (Hk : (hord g <= c_order (CGetAt f0 k))%nat) by lia.
      destruct (huge_call_aligned_geom g fr (CGetAt f0 k) Hc Hk eq_refl) as (E1 & E2).
      cbn [group_h] in T. rewrite E2, E1. unfold inb in T. nia.
    - (* HU *) assert (Hk : (hord g <= c_order (CGetAt f0 k))%nat) by lia.
      destruct (huge_call_aligned_geom g fr (CGetAt f0 k) Hc Hk eq_refl) as (E1 & E2).
      cbn [group_h] in T. rewrite E2, E1. unfold inb in T. nia.
    - (* TW *) apply orb_true_iff in T. destruct T as [T|T]; [unfold inb in T; lia|].
      apply in_row_bounds in T. unfold t_nrows in L. cbn [t_order] in L.
      apply andb_true_iff in L. destruct L as (L & Hq). apply andb_true_iff in L. destruct L as (Hs & H7). apply Nat.leb_le in H7.
      destruct (toggle_rows_fit g wf fr (CGetAt f0 k) Hc Hs eq_refl H7) as (E0 & En & Hfit).
      destruct (small_call_decomp g wf fr (CGetAt f0 k) Hc Hs eq_refl) as (Ed & _).
      rewrite En, Ed, E0. unfold fidx. change (t_row g XGetAt (CGetAt f0 k)) with (t_row g XPut (CGetAt f0 k)) in T. lia.
    - (* TU *) apply orb_true_iff in T. destruct T as [T|T]; [unfold inb in T; lia|].
      apply in_row_bounds in T. unfold t_nrows in L. cbn [t_order] in L.
      apply andb_true_iff in L. destruct L as (L & Hq). apply andb_true_iff in L. destruct L as (Hs & H7). apply Nat.leb_le in H7.
      destruct (toggle_rows_fit g wf fr (CGetAt f0 k) Hc Hs eq_refl H7) as (E0 & En & Hfit).
      destruct (small_call_decomp g wf fr (CGetAt f0 k) Hc Hs eq_refl) as (Ed & _).
      rewrite En, Ed, E0. unfold fidx. change (t_row g XGetAt (CGetAt f0 k)) with (t_row g XPut (CGetAt f0 k)) in T. lia.
  Qed.

  Lemma touches_put fr f0 k p f : cwf g fr (CPut f0 k) = true -> lpc g fr (CPut f0 k) p = true ->
    touches g (TRun (CPut f0 k) p) f = true ->
    in_block (CPut f0 k) f \/ (splitting p = true /\ f / HF = c_huge g (CPut f0 k)).
  Proof.
    intros Hc L T. unfold in_block. pose proof (HF_pos g) as HP.
    destruct p; try destruct x; cbn [lpc ctx_ok not_xput is_get is_getat is_put andb negb] in L; rewrite ?andb_false_r, ?andb_true_r in L; try discriminate L;
      tsimp T; cbn [splitting].
    all: try (unfold inb in T; exfalso; lia).
    all: try (left; unfold inb in T; lia).
    all: try (apply orb_true_iff in T; destruct T as [T|T]; [left; unfold inb in T; lia|right; split; [reflexivity|];
              apply andb_true_iff in T; destruct T as (T & _); apply N.eqb_eq in T; exact T]).
  Qed.

  (* an aligned block of order k <= tord lies in one tree *)
  Lemma block_in_tree G k f : (k <= tord g)%nat -> G mod pow2 k = 0 -> G <= f < G + pow2 k -> f / TF = G / TF.
  Proof.
    intros Hk Hal Hf. pose proof (pow2_nz k) as HP. pose proof (pow2_nz (tord g - k)) as HM.
    assert (ET : TF = pow2 k * pow2 (tord g - k)) by (rewrite (TF_pow2 g), (pow2_split k (tord g) Hk); lia).
    pose proof (TF_pos g) as PT.
    pose proof (N.div_mod G TF ltac:(lia)) as D. pose proof (N.mod_lt G TF ltac:(lia)) as Lr.
    assert (Hr : (G mod TF) mod pow2 k = 0) by (rewrite ET; apply mod_mod_aligned; assumption).
    assert (Hfit : G mod TF + pow2 k <= TF).
    { apply aligned_fit; [exact HP| |exact Hr|exact Lr]. rewrite ET, N.mul_comm. apply N.mod_mul. exact HP. }
    symmetry. apply (N.div_unique _ _ _ (G mod TF + (f - G))); lia.
  Qed.

  Lemma tbase_tree c y : y < THUGE -> (c_tbase g c + y) / THUGE = c_frame c / TF.
  Proof.
    intros Hy. unfold c_tbase. symmetry. apply (N.div_unique _ _ _ y); [exact Hy|lia].
  Qed.

  Lemma touches_get fr st k p f : cwf g fr (CGet st k) = true -> lpc g fr (CGet st k) p = true ->
    touches g (TRun (CGet st k) p) f = true ->
    ((7 <= k)%nat \/ (hord g <= k)%nat) /\ f / TF = st * 64 / TF.
  Proof.
    intros Hc L T. pose proof (HF_pos g) as HP. pose proof (THUGE_pos g) as PT.
    change (st * 64) with (c_frame (CGet st k)).
    destruct p; try destruct x; cbn [lpc ctx_ok not_xput is_get is_getat is_put andb negb] in L; rewrite ?andb_false_r, ?andb_true_r in L; try discriminate L;
      tsimp T.
    all: try (unfold inb in T; exfalso; lia).
    - (* G2W *) apply orb_true_iff in T. destruct T as [T|T]; [unfold inb in T; lia|].
      apply andb_true_iff in T. destruct T as (T & _). apply N.eqb_eq in T.
      split; [left; cbn [c_order] in L; lia|]. rewrite (div_TF g f), T. unfold child_h.
      apply tbase_tree. apply N.mod_lt. lia.
    - (* G2U *) apply orb_true_iff in T. destruct T as [T|T]; [unfold inb in T; lia|].
      apply andb_true_iff in T. destruct T as (T & _). apply N.eqb_eq in T.
      split; [left; cbn [c_order] in L; lia|]. rewrite (div_TF g f), T. unfold child_h.
      apply tbase_tree. apply N.mod_lt. lia.
    - (* HC *) apply orb_true_iff in T. destruct T as [T|T]; [|unfold inb in T; lia].
      assert (Hk : (hord g <= c_order (CGet st k))%nat) by lia.
      split; [right; exact Hk|].
      destruct (huge_group g fr (CGet st k) gi Hc Hk) as (_ & Hal).
      assert (Ek : pow2 (c_order (CGet st k)) = c_hnum g (CGet st k) * HF) by (unfold c_hnum; rewrite (HF_pow2 g); apply pow2_split; exact Hk).
      assert (Hto : (c_order (CGet st k) <= tord g)%nat) by (unfold cwf in Hc; lia).
      rewrite (block_in_tree (group_h g (CGet st k) gi * HF) (c_order (CGet st k)) f Hto Hal) by (rewrite Ek; unfold inb in T; nia).
      rewrite (TF_eq g), N.div_mul_cancel_r by lia. cbn [group_h]. apply tbase_tree. apply N.mod_lt. lia.
    - (* HU *) apply orb_true_iff in T. destruct T as [T|T]; [|unfold inb in T; lia].
      assert (Hk : (hord g <= c_order (CGet st k))%nat) by lia.
      split; [right; exact Hk|].
      destruct (huge_group g fr (CGet st k) gi Hc Hk) as (_ & Hal).
      assert (Ek : pow2 (c_order (CGet st k)) = c_hnum g (CGet st k) * HF) by (unfold c_hnum; rewrite (HF_pow2 g); apply pow2_split; exact Hk).
      assert (Hto : (c_order (CGet st k) <= tord g)%nat) by (unfold cwf in Hc; lia).
      rewrite (block_in_tree (group_h g (CGet st k) gi * HF) (c_order (CGet st k)) f Hto Hal) by (rewrite Ek; unfold inb in T; nia).
      rewrite (TF_eq g), N.div_mul_cancel_r by lia. cbn [group_h]. apply tbase_tree. apply N.mod_lt. lia.
  Qed.

  (* ---------- what `touches` means, per kind of call ---------- *)
  Definition touch_shape (x : thr) (f : N) : Prop :=
    match x with
    | TIdle _ => False
    | TPanic st c => st = SExceedingRetries /\ is_put c = true /\ in_block c f
    | TRun (CPut f0 k) p => in_block (CPut f0 k) f \/ (splitting p = true /\ f / HF = f0 / HF)
    | TRun (CGetAt f0 k) p => in_block (CGetAt f0 k) f
    | TRun (CGet st k) p => ((7 <= k)%nat \/ (hord g <= k)%nat) /\ f / TF = st * 64 / TF
    end.

  Lemma touches_shape fr x f : local_b g fr x = true -> touches g x f = true -> touch_shape x f.
  Proof.
    intros L T. destruct x as [l|c p|st c].
    - rewrite (idle_touches g) in T. discriminate.
    - cbn [local_b] in L. apply andb_true_iff in L. destruct L as (Hc & L). destruct c; cbn [touch_shape].
      + exact (touches_get fr _ _ p f Hc L T).
      + exact (touches_getat fr _ _ p f Hc L T).
      + exact (touches_put fr _ _ p f Hc L T).
    - cbn [touch_shape]. destruct st; tsimp T; try (unfold inb in T; exfalso; lia).
      cbn [local_b] in L. split; [reflexivity|]. split; [lia|]. unfold in_block. unfold inb in T. lia.
  Qed.

  (* a touched frame lies in the block of an in-flight put or get_at, or in the huge frame of an in-flight split,
     or in the tree searched by an in-flight get of at least 64 frames *)
  Theorem touched_readable s f : Inv g s -> touched g s f -> exists x, In x (ms_pool s) /\ touch_shape x f.
  Proof.
    intros I (x & Hx & T). exists x. split; [exact Hx|].
    apply (touches_shape (ms_frames s)); [|exact T]. exact (proj1 (Forall_forall _ _) (I_L g s I) x Hx).
  Qed.
End Readable.

(* ====================================================================================== *)
(* the theorems over reachable states                                                      *)
(* ====================================================================================== *)
(* C05: ANY reachable state s of any schedule of any number of threads = any crash point, any calls in flight *)
Theorem crash_safe : forall g l held0 n sch, wf_geom g -> LowerInv g l -> HeldInit g l held0 ->
  let s := mrun g sch (boot l held0 n) in
  let m := lower_recover g (lower_of s) in
  LowerPre g (lower_of s) /\
  LowerInv g m /\
  (forall f k, In (f, k) (ms_held s) -> spec_put_enabled g (abs g m) f k = true) /\
  (forall f, N.testbit (o_alloc (abs g m)) f = true -> covered_by_held s f \/ touched g s f).
Proof.
  intros g l held0 n sch wf HL HI s m.
  destruct (crash_safe_inv g wf s (conc_inv g l held0 n sch wf HL HI)) as (A & B & _ & C & D). auto.
Qed.

(* recovery neither allocates nor frees: the ownership state read off the recovered metadata is the one read
   off the crashed metadata *)
Theorem crash_abs : forall g l held0 n sch, wf_geom g -> LowerInv g l -> HeldInit g l held0 ->
  let s := mrun g sch (boot l held0 n) in
  abs g (lower_recover g (lower_of s)) = abs g (lower_of s).
Proof.
  intros g l held0 n sch wf HL HI s.
  destruct (crash_safe_inv g wf s (conc_inv g l held0 n sch wf HL HI)) as (_ & _ & A & _). exact A.
Qed.

(* the complement reading used by the oracle *)
Theorem crash_free_stays_free : forall g l held0 n sch f, wf_geom g -> LowerInv g l -> HeldInit g l held0 ->
  let s := mrun g sch (boot l held0 n) in
  let m := lower_recover g (lower_of s) in
  (~ covered_by_held s f -> ~ touched g s f -> N.testbit (o_alloc (abs g m)) f = false) /\
  (alloc_at g (lower_of s) f = false -> N.testbit (o_alloc (abs g m)) f = false).
Proof.
  intros g l held0 n sch f wf HL HI s m. pose proof (conc_inv g l held0 n sch wf HL HI) as I. split.
  - apply (crash_free_inv g wf s f I).
  - apply (crash_keeps_free_inv g wf s f I).
Qed.

(* `touched` is exact: a managed frame is allocated after recovery iff it is held or touched *)
Theorem crash_alloc_iff : forall g l held0 n sch f, wf_geom g -> LowerInv g l -> HeldInit g l held0 ->
  let s := mrun g sch (boot l held0 n) in
  f < ms_frames s ->
  (N.testbit (o_alloc (abs g (lower_recover g (lower_of s)))) f = true <-> covered_by_held s f \/ touched g s f).
Proof.
  intros g l held0 n sch f wf HL HI s. apply (crash_alloc_iff_inv g wf s f (conc_inv g l held0 n sch wf HL HI)).
Qed.

Theorem crash_quiescent : forall g l held0 n sch, wf_geom g -> LowerInv g l -> HeldInit g l held0 ->
  let s := mrun g sch (boot l held0 n) in
  quiescent s ->
  LowerInv g (lower_of s) /\ lower_recover g (lower_of s) = lower_of s /\
  (forall f, N.testbit (o_alloc (abs g (lower_of s))) f = true <-> covered_by_held s f).
Proof.
  intros g l held0 n sch wf HL HI s Q. apply (quiescent_crash g wf s (conc_inv g l held0 n sch wf HL HI) Q).
Qed.

(* ---------- every managed frame count, both initialisation modes ---------- *)
From LLF Require Import LowerInitProofs.

Corollary crash_safe_free_all : forall g fr n sch, wf_geom g ->
  let s := mrun g sch (boot (free_all g fr) [] n) in
  let m := lower_recover g (lower_of s) in
  LowerPre g (lower_of s) /\ LowerInv g m /\
  (forall f k, In (f, k) (ms_held s) -> spec_put_enabled g (abs g m) f k = true) /\
  (forall f, N.testbit (o_alloc (abs g m)) f = true -> covered_by_held s f \/ touched g s f).
Proof.
  intros g fr n sch wf. apply crash_safe; [exact wf|apply free_all_inv; exact wf|apply held_init_free_all; exact wf].
Qed.

Corollary crash_safe_reserve_all : forall g fr n sch, wf_geom g ->
  let s := mrun g sch (boot (reserve_all g fr) (alloc_all_held g fr) n) in
  let m := lower_recover g (lower_of s) in
  LowerPre g (lower_of s) /\ LowerInv g m /\
  (forall f k, In (f, k) (ms_held s) -> spec_put_enabled g (abs g m) f k = true) /\
  (forall f, N.testbit (o_alloc (abs g m)) f = true -> covered_by_held s f \/ touched g s f).
Proof.
  intros g fr n sch wf. apply crash_safe; [exact wf|apply reserve_all_inv; exact wf|apply held_init_reserve_all; exact wf].
Qed.

(* ====================================================================================== *)
(* composition with the upper allocator: LLFree::new(.., Init::Recover) over the crashed   *)
(* metadata and zeroed volatile buffers                                                    *)
(* ====================================================================================== *)
From LLF Require Import Upper UpperInvDef LowerFacts LowerFactsProofs UpperStatsProofs GlueProofs.

Lemma sumN_repeat0 n : sumN (repeat 0 n) = 0.
Proof. induction n as [|n IH]; [reflexivity|]. cbn [repeat sumN fold_right]. fold (sumN (repeat 0 n)). rewrite IH. reflexivity. Qed.

Section CrashUpper.
  Variable g : geom.
  Hypothesis wf : wf_geom g.
  Variable policy : N -> N -> N -> pol.

  Theorem crash_upper_inv s classing d tbuf sbuf : ConcInvDef.Inv g s ->
    Forall (fun sl => s_pres sl = false) sbuf ->
    (forall c k, In (c, k) classing -> c < 8) ->
    (exists k, In (d, k) classing) ->
    exists u ts,
      llfree_new g (ms_frames s) IRecover classing d (lower_of s) tbuf sbuf = Ok u /\
      UpperInv g policy (ustate_new u) /\
      low u = lower_recover g (lower_of s) /\
      llfree_tree_stats g u = Ok ts /\
      ts_free ts = free_frames (llfree_stats g u) /\
      ts_free ts = exact_free (abs g (lower_of s)) /\
      llfree_validate g u = Ok tt.
  Proof.
    intros I Hbuf Hcl Hd. pose proof (inv_lower_pre g wf s I) as Pre.
    destruct (init_inv g wf policy (ms_frames s) IRecover classing d (lower_of s) tbuf sbuf Pre Hbuf Hcl Hd)
      as (u & E & HI & Hl & _).
    change (lower_new g (ms_frames s) IRecover (lower_of s)) with (lower_recover g (lower_of s)) in Hl.
    pose proof (lower_facts_proved g wf) as LF.
    destruct (tree_stats_correct g policy wf LF _ HI) as (ts & Et & _).
    cbn [us ustate_new] in Et.
    pose proof (llfree_tree_stats_free g policy wf LF _ HI (LS_sum g wf) ts Et) as Fs.
    cbn [us off ustate_new] in Fs. rewrite sumN_repeat0, N.add_0_r in Fs.
    exists u, ts. split; [exact E|]. split; [exact HI|]. split; [exact Hl|]. split; [exact Et|].
    split; [exact Fs|]. split.
    - rewrite Fs, Hl. destruct (lower_stats_abs g wf _ (recover_inv g wf _ Pre)) as (-> & _).
      rewrite (recover_abs g wf _ Pre). reflexivity.
    - apply (llfree_validate_ok g policy wf LF _ HI (LS_sum g wf)). cbn [off ustate_new].
      apply Forall_forall. intros x Hx. apply repeat_spec in Hx. exact Hx.
  Qed.
End CrashUpper.

(* the recovered allocator's fast and exact counts agree, whatever the crash point *)
Theorem crash_counts_agree : forall g policy l held0 n sch classing d tbuf sbuf,
  wf_geom g -> LowerInv g l -> HeldInit g l held0 ->
  Forall (fun sl => s_pres sl = false) sbuf ->
  (forall c k, In (c, k) classing -> c < 8) ->
  (exists k, In (d, k) classing) ->
  let s := mrun g sch (boot l held0 n) in
  exists u ts,
    llfree_new g (ms_frames s) IRecover classing d (lower_of s) tbuf sbuf = Ok u /\
    UpperInv g policy (ustate_new u) /\
    low u = lower_recover g (lower_of s) /\
    llfree_tree_stats g u = Ok ts /\
    ts_free ts = free_frames (llfree_stats g u) /\
    ts_free ts = exact_free (abs g (lower_of s)) /\
    llfree_validate g u = Ok tt.
Proof.
  intros g policy l held0 n sch classing d tbuf sbuf wf HL HI Hbuf Hcl Hd s.
  apply (crash_upper_inv g wf policy s classing d tbuf sbuf (conc_inv g l held0 n sch wf HL HI) Hbuf Hcl Hd).
Qed.

(* quiescent crash points: the lower allocator's own statistics are exact *)
Theorem crash_quiescent_counts : forall g l held0 n sch, wf_geom g -> LowerInv g l -> HeldInit g l held0 ->
  let s := mrun g sch (boot l held0 n) in
  quiescent s ->
  free_frames (lower_stats g (lower_of s)) = exact_free (abs g (lower_of s)) /\
  free_huge (lower_stats g (lower_of s)) = free_huge_count g (abs g (lower_of s)) /\
  free_trees (lower_stats g (lower_of s)) = free_tree_count g (abs g (lower_of s)).
Proof.
  intros g l held0 n sch wf HL HI s Q. apply (lower_stats_abs g wf).
  apply (quiescent_inv g wf s (conc_inv g l held0 n sch wf HL HI) Q).
Qed.

(* ====================================================================================== *)
(* non-vacuity: three crash points with calls in flight, and what recovery yields          *)
(* ====================================================================================== *)
Definition gx8 : geom := {| hord := 8; tlog := 1 |}.       (* 256-frame huge frames = 4 rows, 2 per tree *)
Lemma wf_gx8 : wf_geom gx8. Proof. unfold wf_geom; cbn; lia. Qed.
Definition recovered (s : mstate) : lower := lower_recover gx8 (lower_of s).
(* frames lo .. lo+n-1 are all: allocated after recovery, not held, touched *)
Definition lost_b (s : mstate) (lo n : N) : bool :=
  forallb (fun i => N.testbit (o_alloc (abs gx8 (recovered s))) (lo + i) && negb (covered_b s (lo + i)) && touched_b gx8 s (lo + i)) (nseq n).
Definition free_after_b (s : mstate) (lo n : N) : bool :=
  forallb (fun i => negb (N.testbit (o_alloc (abs gx8 (recovered s))) (lo + i))) (nseq n).

(* 1. in the middle of a multi-row get (order 7 = 2 rows): counter already decremented by 128, first row filled.
      Recovery rewrites the counter to the number of zero bits (192); the 64 frames of the filled row stay
      allocated: they are touched (transit row of the in-flight get), nothing else is. *)
Definition ex_get := mrun gx8 ([(0%nat, CGet 0 7)] ++ run_n 0 5) (boot (free_all gx8 512) [] 1).
Example crash_mid_get :
  ms_pool ex_get = [TRun (CGet 0 7) (G2W 0 0 1)] /\
  ms_ents ex_get = [128; 256] /\ ms_bfs ex_get = [[MAX64; 0; 0; 0]; [0; 0; 0; 0]] /\
  ents (recovered ex_get) = [192; 256] /\ bfs (recovered ex_get) = ms_bfs ex_get /\
  lost_b ex_get 0 64 = true /\ free_after_b ex_get 64 448 = true /\
  crash_ok_b gx8 ex_get = true.
Proof. vm_compute. repeat split. Qed.

(* 2. in the middle of a split: thread 0 frees frame 5 of a held huge frame and is frozen at PP2 (all rows
      filled, marker not yet cleared).  Recovery keeps the marker and clears the bitfield: the whole huge frame
      is allocated again; the siblings the client still holds are all freeable at their orders; frame 5 itself
      (the in-flight free) stays allocated. *)
Definition ex_split := mrun gx8 ([(0%nat, CPut 5 0)] ++ run_n 0 5) (boot (reserve_all gx8 512) (alloc_all_held gx8 512) 2).
Example crash_mid_split :
  ms_pool ex_split = [TRun (CPut 5 0) (PP2 MARK); TIdle None] /\
  ms_ents ex_split = [MARK; MARK] /\ ms_bfs ex_split = [[MAX64; MAX64; MAX64; MAX64]; [0; 0; 0; 0]] /\
  ms_held ex_split = [(4, 0%nat); (6, 1%nat); (0, 2%nat); (8, 3%nat); (16, 4%nat); (32, 5%nat); (64, 6%nat); (128, 7%nat); (256, 8%nat)] /\
  ents (recovered ex_split) = [MARK; MARK] /\ bfs (recovered ex_split) = [[0; 0; 0; 0]; [0; 0; 0; 0]] /\
  forallb (fun b => spec_put_enabled gx8 (abs gx8 (recovered ex_split)) (fst b) (snd b)) (ms_held ex_split) = true /\
  lost_b ex_split 5 1 = true /\
  crash_ok_b gx8 ex_split = true.
Proof. vm_compute. repeat split. Qed.

(* 3. the stale-split window.  Thread 1 starts freeing frame 200 of a held huge frame and sees the marker (P1);
      thread 0 then frees frames 0..63 of the same huge frame: it performs the whole split and RETURNS Ok; the
      huge frame now has counter 64 and row 0 clear.  Thread 1, still believing it has to split, fills row 0
      (its CAS 0 -> MAX64 succeeds) before failing on row 1 and rolling back.  A crash inside that window
      leaves frames 0..63 allocated although their free completed: they are `touched` by thread 1's put. *)
Definition ex_stale_pre := mrun gx8 ([(1%nat, CPut 200 0)] ++ run_n 1 1 ++ [(0%nat, CPut 0 6)] ++ run_n 0 9)
                                (boot (reserve_all gx8 512) (alloc_all_held gx8 512) 2).
Definition ex_stale := fst (mstep gx8 ex_stale_pre 1 (CGet 0 0)).
Example crash_stale_split :
  ms_pool ex_stale_pre = [TIdle (Some (Ok 0)); TRun (CPut 200 0) (TW (XSplit MARK) 0)] /\
  ms_ents ex_stale_pre = [64; MARK] /\ ms_bfs ex_stale_pre = [[0; MAX64; MAX64; MAX64]; [0; 0; 0; 0]] /\
  free_after_b ex_stale_pre 0 64 = true /\ crash_ok_b gx8 ex_stale_pre = true /\
  ms_pool ex_stale = [TIdle (Some (Ok 0)); TRun (CPut 200 0) (TW (XSplit MARK) 1)] /\
  ms_ents ex_stale = [64; MARK] /\ ms_bfs ex_stale = [[MAX64; MAX64; MAX64; MAX64]; [0; 0; 0; 0]] /\
  ents (recovered ex_stale) = [0; MARK] /\
  lost_b ex_stale 0 64 = true /\ lost_b ex_stale 200 1 = true /\
  forallb (fun b => spec_put_enabled gx8 (abs gx8 (recovered ex_stale)) (fst b) (snd b)) (ms_held ex_stale) = true /\
  crash_ok_b gx8 ex_stale = true /\
  (* without the crash thread 1 rolls back and completes: solo, 7 more steps *)
  ms_pool (mrun gx8 (run_n 1 7) ex_stale) = [TIdle (Some (Ok 0)); TIdle (Some (Ok 0))] /\
  ms_ents (mrun gx8 (run_n 1 7) ex_stale) = [65; MARK].
Proof. vm_compute. repeat split. Qed.

(* 4. a quiescent crash point: recovery is the identity *)
Definition ex_quiet := mrun gx8 ([(0%nat, CGet 0 3)] ++ run_n 0 4 ++ [(1%nat, CGetAt 256 8)] ++ run_n 1 1)
                            (boot (free_all gx8 512) [] 2).
Example crash_quiet :
  ms_pool ex_quiet = [TIdle (Some (Ok 0)); TIdle (Some (Ok 256))] /\ ms_held ex_quiet = [(256, 8%nat); (0, 3%nat)] /\
  recovered ex_quiet = lower_of ex_quiet /\ ms_ents ex_quiet = [248; MARK] /\ crash_ok_b gx8 ex_quiet = true.
Proof. vm_compute. repeat split. Qed.

Print Assumptions crash_safe.
Print Assumptions crash_abs.
Print Assumptions crash_free_stays_free.
Print Assumptions crash_alloc_iff.
Print Assumptions crash_quiescent.
Print Assumptions crash_counts_agree.
Print Assumptions crash_quiescent_counts.
Print Assumptions crash_safe_free_all.
Print Assumptions crash_safe_reserve_all.
Print Assumptions touched_readable.
