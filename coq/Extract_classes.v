(* Extraction of the executable class-configuration model and specification for driver `classes` (C19).
   ExtrOcamlBasic only: bool, option, list, prod, unit, sumbool map to OCaml's; N, positive, nat
   stay Coq's inductives. No Extract Constant / Extract Inductive of our own. *)
From LLF Require Import Base EvalClasses.
Require Import ExtrOcamlBasic.
Extraction Language OCaml.
Set Extraction KeepSingleton.
Extraction "model.ml" request old_request classing_counts allocator_slots req_valid_b fell_through
  cfg_matches gfp_matches to_count.
