(* C05 through the WHOLE allocator: every state reachable by machine M2 (UpperMachine.v: concurrent get / put /
   drain / change_tree calls of LLFree, one transition per atomic access of trees, locals and the lower allocator)
   is a crash point.  The persistent metadata of M2 is its lower allocator; `m1_of` (UpperConcInvDef.v) is the view of
   an M2 state as an M1 state (pool = the lower calls the upper calls are inside of; held = the blocks returned by
   completed upper allocations ++ the blocks an in-flight upper get has already taken from the lower allocator but not
   yet returned).  The M2 invariant `UInv` contains M1's invariant for this view, so the crash theorems of Crash.v
   (stated over the invariant) apply verbatim. *)
From Coq Require Import PeanoNat.
From LLF Require Import Base Row Bitfield Lower Spec Sorted Upper UpperInvDef LowerFacts LowerMachine ConcBase ConcInvDef
  UpperPrims ConcInv RecoverProofs Crash UpperMachine UpperConcInvDef UpperConcInv UpperConcProps.

Lemma lower_of_m1_of g s : lower_of (m1_of g s) = low (m2_up s).
Proof. unfold lower_of, m1_of. cbn. destruct (low (m2_up s)); reflexivity. Qed.

(* the blocks an in-flight upper call has taken from the lower allocator and not yet handed to its caller *)
Definition in_hand (g : geom) (s : m2state) : list (N * nat) := flat_map (inflight g) (m2_pool s).

(* every reachable M2 state is a crash point: recovery of the persistent metadata alone *)
Theorem conc_upper_crash_safe : forall g policy u held0 n sch,
  wf_geom g -> pol_refl_match policy -> pol_demote_trans policy ->
  UpperInv g policy (ustate_new u) -> HeldInit g (low u) held0 -> sched_valid g u sch ->
  let s := urun g policy sch (uboot u held0 n) in
  let l := low (m2_up s) in
  let m := lower_recover g l in
  LowerPre g l /\ LowerInv g m /\ abs g m = abs g l /\
  (* completed allocations (and blocks in the hands of in-flight gets) are still allocated and can be freed *)
  (forall f k, In (f, k) (m2_held s ++ in_hand g s) -> spec_put_enabled g (abs g m) f k = true) /\
  (* every frame allocated after recovery is held, in hand, or touched by an in-flight lower call *)
  (forall f, N.testbit (o_alloc (abs g m)) f = true ->
     covered_by_held (m1_of g s) f \/ touched g (m1_of g s) f).
Proof.
  intros g policy u held0 n sch WF PR PT HU HH SV s l m.
  destruct (conc_uinv g policy WF PR PT u held0 n sch HU HH SV) as ((I & _) & E).
  rewrite E in I. fold s in I.
  pose proof (crash_safe_inv g WF (m1_of g s) I) as C. cbv zeta in C.
  rewrite lower_of_m1_of in C. fold l in C. fold m in C.
  destruct C as (A & B & C & D & F). repeat (split; [assumption|]). exact F.
Qed.
Print Assumptions conc_upper_crash_safe.

(* ... and LLFree::new(.., Init::Recover) over the crashed metadata with zeroed volatile buffers succeeds, establishes
   the sequential invariant, its fast and exact free counts agree and equal the free frames of the crashed ownership
   state, validate() passes *)
Theorem conc_upper_crash_counts : forall g policy u held0 n sch classing d tbuf sbuf,
  wf_geom g -> pol_refl_match policy -> pol_demote_trans policy ->
  UpperInv g policy (ustate_new u) -> HeldInit g (low u) held0 -> sched_valid g u sch ->
  Forall (fun sl => s_pres sl = false) sbuf ->
  (forall c k, In (c, k) classing -> c < 8) ->
  (exists k, In (d, k) classing) ->
  let s := urun g policy sch (uboot u held0 n) in
  let l := low (m2_up s) in
  exists u' ts,
    llfree_new g (frames l) IRecover classing d l tbuf sbuf = Ok u' /\
    UpperInv g policy (ustate_new u') /\
    low u' = lower_recover g l /\
    llfree_tree_stats g u' = Ok ts /\
    ts_free ts = free_frames (llfree_stats g u') /\
    ts_free ts = exact_free (abs g l) /\
    llfree_validate g u' = Ok tt.
Proof.
  intros g policy u held0 n sch classing d tbuf sbuf WF PR PT HU HH SV Hb Hc Hd s l.
  destruct (conc_uinv g policy WF PR PT u held0 n sch HU HH SV) as ((I & _) & E).
  rewrite E in I. fold s in I.
  pose proof (crash_upper_inv g WF policy (m1_of g s) classing d tbuf sbuf I Hb Hc Hd) as C.
  rewrite lower_of_m1_of in C. exact C.
Qed.
Print Assumptions conc_upper_crash_counts.
