(* L3 + L4: sequential model of trees.rs (`Tree`, `Trees`), local.rs (`LocalTree`, `Locals`) and
   llfree.rs (`LLFree`). Definitions only.
   This is the model of the code *with the repairs of DESIGN.md section 8 applied*
   (D3 get_local sync guard, D4 change_at bounds, D5 no class reset while reserved, D6 no assert on
   slot-less target class, D7 sync threshold >=, D8 tree_stats of reservations, D14 checked add in
   check, D15 class_locals bounds).
   The policy is a parameter.  Packed-field setters (`with_free` etc., bitfield-struct range checks) are
   not modelled as panic sites: the values written are bounded by the asserts that are modelled
   (`free <= TREE_FRAMES`) or by sizes of the metadata. *)
From LLF Require Import Base Row Bitfield Lower Sorted.

Inductive pol := PMatch (n : N) | PDemote | PSteal | PInvalid.

Definition pol_is_match (p : pol) : bool := match p with PMatch _ => true | _ => false end.
Definition pol_is_invalid (p : pol) : bool := match p with PInvalid => true | _ => false end.
(* derived `Ord` on `Policy`: Match(a) < Match(b) iff a < b; Match < Demote < Steal < Invalid *)
Definition pol_rank (p : pol) : N :=
  match p with PMatch n => n | PDemote => 256 | PSteal => 257 | PInvalid => 258 end.
(* key of a candidate: (Policy, entirely free) lexicographic *)
Definition cand_key (p : pol) (entirely_free : bool) : N := pol_rank p * 2 + (if entirely_free then 1 else 0).

Record tree := { t_free : N; t_res : bool; t_class : N }.
Record slot := { s_pres : bool; s_row : N; s_free : N }.
Definition slot_none : slot := {| s_pres := false; s_row := 0; s_free := 0 |}.

Record reservation := { rv_row : N; rv_class : N; rv_free : N }.

Record upper := {
  low : lower;
  trees : list tree;
  locals : list (option (list slot));      (* 8 entries, indexed by class id *)
  dflt : N
}.

Record request := { r_order : nat; r_class : N; r_local : option N }.

Inductive tree_op := OpOnline | OpOffline.
Record tree_match := { m_id : option N; m_class : option N; m_free : N }.
Record tree_change := { c_class : option N; c_op : option tree_op }.

Record class_stats := { cs_free : N; cs_alloc : N }.
Record tree_stats := { ts_free : N; ts_trees : N; ts_classes : list class_stats (* 8 *) }.

Section Upper.
  Variable g : geom.
  Variable policy : N -> N -> N -> pol.     (* requested class, target class, free *)
  Notation HF := (HF g).
  Notation TF := (TF g).

  Definition with_low (u : upper) (l : lower) : upper :=
    {| low := l; trees := trees u; locals := locals u; dflt := dflt u |}.
  Definition with_trees (u : upper) (ts : list tree) : upper :=
    {| low := low u; trees := ts; locals := locals u; dflt := dflt u |}.
  Definition with_locals (u : upper) (ls : list (option (list slot))) : upper :=
    {| low := low u; trees := trees u; locals := ls; dflt := dflt u |}.

  Definition ntrees (u : upper) : N := N.of_nat (length (trees u)).
  Definition row_tree (row : N) : N := (row * 64) / TF.
  Definition tree_row (t : N) : N := (t * TF) / 64.

  (* ================= Tree entry transitions (trees.rs:322-433) ================= *)
  Definition tree_put (d : N) (t : tree) (free : N) : res tree :=
    let f := t_free t + free in
    if TF <? f then Panic STreeFree else
    Ok {| t_free := f; t_res := t_res t;
          t_class := if (f =? TF) && negb (t_res t) && negb (pol_is_invalid (policy (t_class t) d f))
                     then d else t_class t |}.

  Definition tree_steal (t : tree) (class free : N) : option tree :=
    if (free <=? t_free t) && negb (t_res t) then
      match policy class (t_class t) free with
      | PMatch _ => Some {| t_free := t_free t - free; t_res := t_res t; t_class := class |}
      | PDemote => Some {| t_free := t_free t - free; t_res := t_res t; t_class := class |}
      | PSteal => Some {| t_free := t_free t - free; t_res := t_res t; t_class := t_class t |}
      | PInvalid => None
      end
    else None.

  Definition tree_reserve_or_steal (t : tree) (free class : N) : option tree :=
    if (free <=? t_free t) && negb (t_res t) then
      match policy class (t_class t) free with
      | PMatch _ | PDemote => Some {| t_free := 0; t_res := true; t_class := class |}
      | PSteal => Some {| t_free := t_free t - free; t_res := t_res t; t_class := t_class t |}
      | PInvalid => None
      end
    else None.

  (* None = not reserved (the caller's `expect("Unreserve failed")`) *)
  Definition tree_unreserve_add (d : N) (t : tree) (free class : N) : option (res tree) :=
    if t_res t then
      Some (match policy class (t_class t) free with
            | PMatch _ => tree_put d {| t_free := t_free t; t_res := false; t_class := t_class t |} free
            | PDemote => tree_put d {| t_free := t_free t; t_res := false; t_class := class |} free
            | PSteal | PInvalid => Panic SUnreserveClass
            end)
    else None.

  Definition tree_sync_steal (t : tree) (min : N) : option tree :=
    if t_res t && (min <=? t_free t) then Some {| t_free := 0; t_res := t_res t; t_class := t_class t |} else None.

  Definition tree_apply_change (t : tree) (class : option N) (free : N) (ch : tree_change) (fetch : N) : option tree :=
    if negb (t_res t) && (match class with None => true | Some k => k =? t_class t end) && (free <=? t_free t) then
      let c := match c_class ch with Some c => c | None => t_class t end in
      match c_op ch with
      | Some OpOffline => Some {| t_free := 0; t_res := t_res t; t_class := c |}
      | Some OpOnline => if t_free t =? 0 then Some {| t_free := fetch; t_res := t_res t; t_class := c |} else None
      | None => Some {| t_free := t_free t; t_res := t_res t; t_class := c |}
      end
    else None.

  (* ================= Trees (trees.rs:76-300) ================= *)
  Definition tree_at (u : upper) (i : N) : option tree := nth_error (trees u) (nn i).
  Definition set_tree (u : upper) (i : N) (t : tree) : upper := with_trees u (upd (trees u) (nn i) t).

  (* `Trees::put`: update with an assert inside *)
  Definition trees_put (u : upper) (i free : N) : res unit * upper :=
    match tree_at u i with
    | None => (Panic (SIndex 30), u)
    | Some t => match tree_put (dflt u) t free with
                | Ok t' => (Ok tt, set_tree u i t')
                | Err e => (Err e, u)
                | Panic s => (Panic s, u)
                end
    end.

  Definition trees_sync (u : upper) (i min : N) : res (option N) * upper :=
    match tree_at u i with
    | None => (Panic (SIndex 31), u)
    | Some t => match tree_sync_steal t min with
                | Some t' => (Ok (Some (t_free t)), set_tree u i t')
                | None => (Ok None, u)
                end
    end.

  Definition trees_steal (u : upper) (i class free : N) : res (option N) * upper :=
    match tree_at u i with
    | None => (Panic (SIndex 32), u)
    | Some t => match tree_steal t class free with
                | Some t' => (Ok (Some (t_class t')), set_tree u i t')
                | None => (Ok None, u)
                end
    end.

  (* returns (new.reserved, old.free, new.class) *)
  Definition trees_reserve_or_steal (u : upper) (i class free : N) : res (option (bool * N * N)) * upper :=
    match tree_at u i with
    | None => (Panic (SIndex 33), u)
    | Some t => match tree_reserve_or_steal t free class with
                | Some t' => (Ok (Some (t_res t', t_free t, t_class t')), set_tree u i t')
                | None => (Ok None, u)
                end
    end.

  Definition trees_unreserve (u : upper) (i free class : N) : res unit * upper :=
    match tree_at u i with
    | None => (Panic (SIndex 34), u)
    | Some t => match tree_unreserve_add (dflt u) t free class with
                | None => (Panic SUnreserveFailed, u)
                | Some (Ok t') => (Ok tt, set_tree u i t')
                | Some (Err e) => (Err e, u)
                | Some (Panic s) => (Panic s, u)
                end
    end.

  (* alternating walk around `start` (trees.rs:208-215): i even: +i/2, i odd: -ceil(i/2), as usize, mod n *)
  Definition walk_idx (start n : N) (i : N) : N :=
    if N.even i then ((start + n + i / 2) mod W64) mod n
    else ((start + n + W64 - (i + 1) / 2) mod W64) mod n.

  (* `search_best::<CAP>(start, offset, len, rate, access)`; `access` may change the state *)
  Section Search.
    Context {A : Type}.
    Variable access : upper -> N -> res A * upper.
    Variable rate : N -> N -> pol.
    Variable cap : nat.

    Fixpoint sb_try (u : upper) (cands : list (N * N)) : res A * upper :=
      match cands with
      | [] => (Err EMemory, u)
      | (_, i) :: r =>
          match access u i with
          | (Err EMemory, u') => sb_try u' r
          | other => other
          end
      end.

    Fixpoint sb_loop (u : upper) (start : N) (i : N) (n : nat) (best : list (N * N)) : res A * upper :=
      match n with
      | O => sb_try u (sb_iter_rev best)
      | S n' =>
          let idx := walk_idx start (ntrees u) i in
          match tree_at u idx with
          | None => (Panic (SIndex 35), u)
          | Some t =>
              if t_res t then sb_loop u start (i + 1) n' best else
              match rate (t_class t) (t_free t) with
              | PMatch 255 =>
                  match access u idx with
                  | (Err EMemory, u') => sb_loop u' start (i + 1) n' best
                  | other => other
                  end
              | PInvalid => sb_loop u start (i + 1) n' best
              | p => sb_loop u start (i + 1) n' (sb_add N.leb cap best (cand_key p (t_free t =? TF), idx))
              end
          end
      end.

    Definition search_best (u : upper) (start : N) (offset len : N) : res A * upper :=
      if (0 <? len - offset) && (ntrees u =? 0) then (Panic (SArith 1), u)   (* % 0 *)
      else sb_loop u start offset (nn (len - offset)) [].

    (* `Trees::search(start, offset, len, access)` *)
    Fixpoint search_loop (u : upper) (start : N) (i : N) (n : nat) : res A * upper :=
      match n with
      | O => (Err EMemory, u)
      | S n' =>
          match access u (walk_idx start (ntrees u) i) with
          | (Err EMemory, u') => search_loop u' start (i + 1) n'
          | other => other
          end
      end.
  End Search.

  Definition trees_change_at (u : upper) (id : N) (class : option N) (free : N) (ch : tree_change)
    : res unit * upper :=
    match tree_at u id with
    | None => (Err EArgument, u)
    | Some t =>
        let fetch := match lower_stats_at g (low u) (id * TF) (tord g) with Ok s => Some (free_frames s) | _ => None end in
        (* fetch_free is only evaluated for Online on an entry with free = 0 *)
        let needs := match c_op ch with Some OpOnline => true | _ => false end in
        match fetch with
        | None => if needs then (Panic (SIndex 36), u) else
                    match tree_apply_change t class free ch 0 with
                    | Some t' => (Ok tt, set_tree u id t')
                    | None => (Err EMemory, u)
                    end
        | Some f => match tree_apply_change t class free ch f with
                    | Some t' => (Ok tt, set_tree u id t')
                    | None => (Err EMemory, u)
                    end
        end
    end.

  Definition trees_change (u : upper) (m : tree_match) (ch : tree_change) : res unit * upper :=
    match m_id m with
    | Some i => trees_change_at u i (m_class m) (m_free m) ch
    | None =>
        if ntrees u =? 0 then (Err EMemory, u) else
        search_loop (fun u i => trees_change_at u i (m_class m) (m_free m) ch) u 0 0 (length (trees u))
    end.

  Definition class_stats0 := {| cs_free := 0; cs_alloc := 0 |}.
  Definition add_class (cs : list class_stats) (c : N) (f a : N) : list class_stats :=
    match nth_error cs (nn c) with
    | Some x => upd cs (nn c) {| cs_free := cs_free x + f; cs_alloc := cs_alloc x + a |}
    | None => cs
    end.

  Definition trees_stats (u : upper) : tree_stats :=
    fold_left (fun s t =>
      {| ts_free := ts_free s + t_free t; ts_trees := ts_trees s + t_free t / TF;
         ts_classes := add_class (ts_classes s) (t_class t) (t_free t) (TF - t_free t) |})
      (trees u) {| ts_free := 0; ts_trees := 0; ts_classes := repeat class_stats0 8 |}.

  (* ================= LocalTree / Locals (local.rs) ================= *)
  Definition slot_get (s : slot) (tree : option N) (free : N) : option slot :=
    if s_pres s && (match tree with None => true | Some i => row_tree (s_row s) =? i end) then
      if free <=? s_free s then Some {| s_pres := true; s_row := s_row s; s_free := s_free s - free |} else None
    else None.

  Definition slot_put (s : slot) (tree free : N) : option (res slot) :=
    if s_pres s && (row_tree (s_row s) =? tree) then
      Some (if s_free s + free <=? TF then Ok {| s_pres := true; s_row := s_row s; s_free := s_free s + free |}
            else Panic SLocalFree)
    else None.

  Definition slot_set_start (s : slot) (row : N) : option slot :=
    if s_pres s && (row_tree (s_row s) =? row_tree row) && negb (s_row s =? row)
    then Some {| s_pres := true; s_row := row; s_free := s_free s |} else None.

  Definition slot_resv (s : slot) (class : N) : reservation :=
    {| rv_row := s_row s; rv_class := class; rv_free := s_free s |}.

  (* `self.classes[class.0]` with the D15 repair in class_locals only; `locals(class)` still indexes *)
  Definition class_slots (u : upper) (class : N) : option (list slot) :=
    match nth_error (locals u) (nn class) with Some (Some l) => Some l | _ => None end.
  Definition class_locals (u : upper) (class : N) : option N :=
    option_map (fun l => N.of_nat (length l)) (class_slots u class).
  Definition set_slot (u : upper) (class idx : N) (s : slot) : upper :=
    match class_slots u class with
    | Some l => with_locals u (upd (locals u) (nn class) (Some (upd l (nn idx) s)))
    | None => u
    end.

  (* Locals::get: Ok row | Err (Some reservation) | Err None; Panic on a slot index out of range *)
  Inductive lget := LRow (row : N) | LResv (r : reservation) | LNone | LPanic (s : site).
  Definition locals_get (u : upper) (class local : N) (tree : option N) (free : N) : lget * upper :=
    match class_slots u class with
    | None => (LNone, u)
    | Some l =>
        match nth_error l (nn local) with
        | None => (LPanic (SIndex 40), u)
        | Some s =>
            match slot_get s tree free with
            | Some s' => (LRow (s_row s), set_slot u class local s')
            | None => (if s_pres s then LResv (slot_resv s class) else LNone, u)
            end
        end
    end.

  Definition locals_put (u : upper) (class local tree free : N) : res bool * upper :=
    match class_slots u class with
    | None => (Ok false, u)
    | Some l =>
        match nth_error l (nn local) with
        | None => (Panic (SIndex 41), u)
        | Some s =>
            match slot_put s tree free with
            | Some (Ok s') => (Ok true, set_slot u class local s')
            | Some (Panic p) => (Panic p, u)
            | Some (Err e) => (Err e, u)
            | None => (Ok false, u)
            end
        end
    end.

  Definition locals_swap (u : upper) (class local tree free : N) : res (option reservation) * upper :=
    match class_slots u class with
    | None => (Panic SInvalidClass, u)
    | Some l =>
        match nth_error l (nn local) with
        | None => (Panic (SIndex 42), u)
        | Some old =>
            (Ok (if s_pres old then Some (slot_resv old class) else None),
             set_slot u class local {| s_pres := true; s_row := tree_row tree; s_free := free |})
        end
    end.

  Definition locals_set_start (u : upper) (class idx row : N) : res unit * upper :=
    match class_slots u class with
    | None => (Ok tt, u)
    | Some l =>
        match nth_error l (nn idx) with
        | None => (Panic (SIndex 43), u)
        | Some s => match slot_set_start s row with
                    | Some s' => (Ok tt, set_slot u class idx s')
                    | None => (Ok tt, u)
                    end
        end
    end.

  Definition locals_load (u : upper) (class local : N) : res (option reservation) :=
    match class_slots u class with
    | None => Ok None
    | Some l => match nth_error l (nn local) with
                | None => Panic (SIndex 44)
                | Some s => Ok (if s_pres s then Some (slot_resv s class) else None)
                end
    end.

  (* steal_any: classes (class + i) mod 8 for i = 0..7, slots from `index`, wrapping *)
  Fixpoint steal_slots (u : upper) (tc : N) (index : N) (len : N) (tree : option N) (free : N) (j : N) (n : nat)
    : option (lget * upper) :=
    match n with
    | O => None
    | S n' =>
        match locals_get u tc ((index + j) mod len) tree free with
        | (LRow row, u') => Some (LRow row, u')
        | (LPanic s, u') => Some (LPanic s, u')
        | _ => steal_slots u tc index len tree free (j + 1) n'
        end
    end.

  Fixpoint steal_any_loop (u : upper) (class : N) (index : N) (tree : option N) (free : N) (i : N) (n : nat)
    : res (option reservation) * upper :=
    match n with
    | O => (Ok None, u)
    | S n' =>
        let tc := (i + class) mod 8 in
        match class_slots u tc with
        | None => steal_any_loop u class index tree free (i + 1) n'
        | Some l =>
            match policy class tc free with
            | PSteal | PMatch _ =>
                match steal_slots u tc index (N.of_nat (length l)) tree free 0 (length l) with
                | Some (LRow row, u') => (Ok (Some {| rv_row := row; rv_class := tc; rv_free := 0 |}), u')
                | Some (LPanic s, u') => (Panic s, u')
                | _ => steal_any_loop u class index tree free (i + 1) n'
                end
            | _ => steal_any_loop u class index tree free (i + 1) n'
            end
        end
    end.
  Definition locals_steal_any (u : upper) (class : N) (index : option N) (tree : option N) (free : N) :=
    steal_any_loop u class (match index with Some i => i | None => 0 end) tree free 0 8.

  (* demote_any *)
  Fixpoint demote_slots (u : upper) (class tc : N) (local : option N) (len : N) (tree : option N) (free : N)
           (j : N) (n : nat) : option (res (N * option reservation) * upper) :=
    match n with
    | O => None
    | S n' =>
        let idx := ((match local with Some i => i | None => 0 end) + j) mod len in
        match class_slots u tc with
        | None => None
        | Some l =>
            match nth_error l (nn idx) with
            | None => Some (Panic (SIndex 45), u)
            | Some old =>
                match slot_get old tree free with
                | None => demote_slots u class tc local len tree free (j + 1) n'
                | Some new =>
                    let u1 := set_slot u tc idx slot_none in
                    match local with
                    | Some lc =>
                        match class_slots u1 class with
                        | None => Some (Panic (SIndex 46), u1)
                        | Some ml =>
                            match nth_error ml (nn lc) with
                            | None => Some (Panic (SIndex 47), u1)
                            | Some o2 =>
                                Some (Ok (s_row new, if s_pres o2 then Some (slot_resv o2 class) else None),
                                      set_slot u1 class lc new)
                            end
                        end
                    | None => Some (Ok (s_row new, Some (slot_resv new class)), u1)
                    end
                end
            end
        end
    end.

  Fixpoint demote_any_loop (u : upper) (class : N) (local : option N) (tree : option N) (free : N) (i : N) (n : nat)
    : res (option (N * option reservation)) * upper :=
    match n with
    | O => (Ok None, u)
    | S n' =>
        let tc := (i + class) mod 8 in
        match class_slots u tc with
        | None => demote_any_loop u class local tree free (i + 1) n'
        | Some l =>
            match policy class tc free with
            | PDemote =>
                match demote_slots u class tc local (N.of_nat (length l)) tree free 0 (length l) with
                | Some (Ok r, u') => (Ok (Some r), u')
                | Some (Panic s, u') => (Panic s, u')
                | Some (Err e, u') => (Err e, u')
                | None => demote_any_loop u class local tree free (i + 1) n'
                end
            | _ => demote_any_loop u class local tree free (i + 1) n'
            end
        end
    end.
  Definition locals_demote_any (u : upper) (class : N) (local : option N) (tree : option N) (free : N) :=
    match class_slots u class with
    | None => (Ok None, u)
    | Some _ => demote_any_loop u class local tree free 1 7
    end.

  (* ================= LLFree (llfree.rs) ================= *)
  Definition check (u : upper) (frame : N) (r : request) : res unit :=
    if negb (Nat.leb (r_order r) (tord g)) then Err EArgument
    else if negb ((frame + pow2 (r_order r) <? W64) && (frame + pow2 (r_order r) <=? frames (low u))) then Err EArgument
    else if negb (frame mod pow2 (r_order r) =? 0) then Err EArgument
    else match class_locals u (r_class r) with None => Err EArgument | Some _ => Ok tt end.

  Definition lift {A B} (x : res A * upper) (k : A -> upper -> res B * upper) : res B * upper :=
    match x with
    | (Ok a, u) => k a u
    | (Err e, u) => (Err e, u)
    | (Panic s, u) => (Panic s, u)
    end.

  Definition lget_low (u : upper) (row : N) (order : nat) (frame : option N) : res N * upper :=
    let '(r, l) := lower_get_opt g (low u) row order frame in (r, with_low u l).

  (* get_local; fuel 2 = one retry after a sync *)
  Inductive glr := GOk (f c : N) | GErr (e : error) (t : option N) | GPanic (s : site).
  Fixpoint get_local (fuel : nat) (u : upper) (order : nat) (class local : N) (frame : option N) (sync : bool)
    : glr * upper :=
    match fuel with
    | O => (GPanic (SArith 99), u)
    | S fuel' =>
    match locals_get u class local (option_map (fun f => f / TF) frame) (pow2 order) with
    | (LPanic s, u1) => (GPanic s, u1)
    | (LNone, u1) => (GErr EMemory None, u1)
    | (LRow row, u1) =>
        match lget_low u1 row order frame with
        | (Ok f, u2) =>
            if negb (row =? f / 64) then
              match locals_set_start u2 class local (f / 64) with
              | (Panic s, u3) => (GPanic s, u3)
              | (_, u3) => (GOk f class, u3)
              end
            else (GOk f class, u2)
        | (Err e, u2) =>
            match trees_put u2 (row_tree row) (pow2 order) with
            | (Panic s, u3) => (GPanic s, u3)
            | (_, u3) => (GErr e (Some (row_tree row)), u3)
            end
        | (Panic s, u2) => (GPanic s, u2)
        end
    | (LResv rv, u1) =>
        let t := row_tree (rv_row rv) in
        if sync && (match frame with None => true | Some f => f / TF =? t end) then
          if pow2 order <? rv_free rv then (GPanic (SArith 2), u1) else
          match trees_sync u1 t (pow2 order - rv_free rv) with
          | (Panic s, u2) => (GPanic s, u2)
          | (Ok (Some fr), u2) =>
              match locals_put u2 class local t fr with
              | (Ok true, u3) => get_local fuel' u3 order class local frame false
              | (Ok false, u3) =>
                  match trees_put u3 t fr with
                  | (Panic s, u4) => (GPanic s, u4)
                  | (_, u4) => (GErr EMemory (Some t), u4)
                  end
              | (Panic s, u3) => (GPanic s, u3)
              | (Err e, u3) => (GErr e (Some t), u3)
              end
          | (_, u2) => (GErr EMemory (Some t), u2)
          end
        else (GErr EMemory (Some t), u1)
    end
    end.

  Definition steal_global (u : upper) (i class : N) (order : nat) (frame : option N) : res (N * N) * upper :=
    lift (trees_steal u i class (pow2 order)) (fun oc u1 =>
      match oc with
      | None => (Err EMemory, u1)
      | Some c =>
          match lget_low u1 (tree_row i) order frame with
          | (Ok f, u2) => (Ok (f, c), u2)
          | (Err e, u2) => lift (trees_put u2 i (pow2 order)) (fun _ u3 => (Err e, u3))
          | (Panic s, u2) => (Panic s, u2)
          end
      end).

  Definition reserve_or_steal (u : upper) (i : N) (order : nat) (class local : N) : res (N * N) * upper :=
    lift (trees_reserve_or_steal u i class (pow2 order)) (fun o u1 =>
      match o with
      | None => (Err EMemory, u1)
      | Some (reserved, free, tc) =>
          match lget_low u1 (tree_row i) order None with
          | (Ok f, u2) =>
              if reserved then
                match class_locals u2 tc with
                | Some len =>
                    if 0 <? len then
                      lift (locals_swap u2 tc (local mod len) (f / TF) (free - pow2 order)) (fun old u3 =>
                        match old with
                        | Some rv => lift (trees_unreserve u3 (row_tree (rv_row rv)) (rv_free rv) tc)
                                          (fun _ u4 => (Ok (f, tc), u4))
                        | None => (Ok (f, tc), u3)
                        end)
                    else (Ok (f, tc), u2)
                | None => (Ok (f, tc), u2)
                end
              else (Ok (f, tc), u2)
          | (Err e, u2) =>
              if reserved then lift (trees_unreserve u2 i free tc) (fun _ u3 => (Err e, u3))
              else lift (trees_put u2 i (pow2 order)) (fun _ u3 => (Err e, u3))
          | (Panic s, u2) => (Panic s, u2)
          end
      end).

  Definition steal_local (u : upper) (r : request) (frame : option N) : res (N * N) * upper :=
    lift (locals_steal_any u (r_class r) (r_local r) (option_map (fun f => f / TF) frame) (pow2 (r_order r)))
      (fun o u1 =>
         match o with
         | None => (Err EMemory, u1)
         | Some rv =>
             match lget_low u1 (rv_row rv) (r_order r) frame with
             | (Err EMemory, u2) =>
                 lift (trees_put u2 (row_tree (rv_row rv)) (pow2 (r_order r))) (fun _ u3 => (Err EMemory, u3))
             | (Ok f, u2) => (Ok (f, rv_class rv), u2)
             | (Err e, u2) => (Err e, u2)
             | (Panic s, u2) => (Panic s, u2)
             end
         end).

  Definition demote_local (u : upper) (r : request) (frame : option N) : res (N * N) * upper :=
    lift (locals_demote_any u (r_class r) (r_local r) (option_map (fun f => f / TF) frame) (pow2 (r_order r)))
      (fun o u1 =>
         match o with
         | None => (Err EMemory, u1)
         | Some (row, old) =>
             let x := match old with
                      | Some rv => trees_unreserve u1 (row_tree (rv_row rv)) (rv_free rv) (rv_class rv)
                      | None => (Ok tt, u1)
                      end in
             lift x (fun _ u2 =>
               match lget_low u2 row (r_order r) frame with
               | (Err EMemory, u3) =>
                   lift (trees_put u3 (row_tree row) (pow2 (r_order r))) (fun _ u4 => (Err EMemory, u4))
               | (Ok f, u3) => (Ok (f, r_class r), u3)
               | (Err e, u3) => (Err e, u3)
               | (Panic s, u3) => (Panic s, u3)
               end)
         end).

  Definition rate_req (class : N) (frames_ : N) (t free : N) : pol :=
    if free <? frames_ then PInvalid else policy class t free.

  Definition next_pow2 (n : N) : N := if n <=? 1 then 1 else 2 ^ N.log2_up n.
  Definition align_down (v a : N) : N := (v / a) * a.

  Definition search_and_reserve (u : upper) (order : nat) (class local : N) (start : N) : res (N * N) * upper :=
    let rate := rate_req class (pow2 order) in
    let acc := fun u i => reserve_or_steal u i order class local in
    let near := N.max (ntrees u / 16) 4 in
    let start := align_down start (next_pow2 (2 * near)) in
    let first :=
      if Nat.ltb order (hord g) then
        search_best acc (fun t f => match rate t f with
                                    | PMatch n => PMatch n
                                    | PDemote => if f =? TF then PDemote else PInvalid
                                    | _ => PInvalid end) 3 u start 1 near
      else (Err EMemory, u) in
    match first with
    | (Err EMemory, u1) =>
        search_best acc (fun t f => match rate t f with
                                    | PMatch _ => PMatch 255
                                    | PDemote => if f =? TF then PMatch 255 else PDemote
                                    | p => p end) 8 u1 start 0 (ntrees u1)
    | other => other
    end.

  Definition of_glr (x : glr * upper) : res (N * N) * upper :=
    match x with
    | (GOk f c, u) => (Ok (f, c), u)
    | (GErr e _, u) => (Err e, u)
    | (GPanic s, u) => (Panic s, u)
    end.

  Definition get_at (u : upper) (frame : N) (r : request) : res (N * N) * upper :=
    let after_local (u1 : upper) :=
      match steal_global u1 (frame / TF) (r_class r) (r_order r) (Some frame) with
      | (Err EMemory, u2) =>
          match steal_local u2 r (Some frame) with
          | (Err EMemory, u3) => demote_local u3 r (Some frame)
          | other => other
          end
      | other => other
      end in
    match r_local r with
    | Some local =>
        match get_local 2 u (r_order r) (r_class r) local (Some frame) true with
        | (GErr EMemory _, u1) => after_local u1
        | other => of_glr other
        end
    | None => after_local u
    end.

  Definition llfree_get (u : upper) (frame : option N) (r : request) : res (N * N) * upper :=
    match check u (match frame with Some f => f | None => 0 end) r with
    | Err e => (Err e, u)
    | Panic s => (Panic s, u)
    | Ok _ =>
    match frame with
    | Some f => get_at u f r
    | None =>
        let len := match class_locals u (r_class r) with Some n => n | None => 0 end in
        let lidx := match r_local r with Some i => i | None => 0 end in
        let start0 := (if len =? 0 then 0 else ntrees u / len) * lidx in
        let oom (u1 : upper) :=
          match steal_local u1 r None with
          | (Err EMemory, u2) =>
              match demote_local u2 r None with
              | (Err EMemory, u3) => (Err EMemory, u3)
              | other => other
              end
          | other => other
          end in
        match r_local r with
        | Some local =>
            if (0 <? len) && (len <? ntrees u) then
              match get_local 2 u (r_order r) (r_class r) local None true with
              | (GOk f c, u1) => (Ok (f, c), u1)
              | (GPanic s, u1) => (Panic s, u1)
              | (GErr EMemory t, u1) =>
                  let start := match t with Some s => s | None => start0 end in
                  match search_and_reserve u1 (r_order r) (r_class r) local start with
                  | (Err EMemory, u2) => oom u2
                  | other => other
                  end
              | (GErr e _, u1) => (Err e, u1)
              end
            else
              match search_best (fun u i => steal_global u i (r_class r) (r_order r) None)
                                (rate_req (r_class r) (pow2 (r_order r))) 8 u start0 0 (ntrees u) with
              | (Err EMemory, u1) => oom u1
              | other => other
              end
        | None =>
            match search_best (fun u i => steal_global u i (r_class r) (r_order r) None)
                              (rate_req (r_class r) (pow2 (r_order r))) 8 u start0 0 (ntrees u) with
            | (Err EMemory, u1) => oom u1
            | other => other
            end
        end
    end
    end.

  Definition llfree_put (u : upper) (frame : N) (r : request) : res unit * upper :=
    match check u frame r with
    | Err e => (Err e, u)
    | Panic s => (Panic s, u)
    | Ok _ =>
        let '(rl, l) := lower_put g (low u) frame (r_order r) in
        let u1 := with_low u l in
        match rl with
        | Err e => (Err e, u1)
        | Panic s => (Panic s, u1)
        | Ok _ =>
            let global := trees_put u1 (frame / TF) (pow2 (r_order r)) in
            match r_local r with
            | Some local =>
                match locals_put u1 (r_class r) local (frame / TF) (pow2 (r_order r)) with
                | (Ok true, u2) => (Ok tt, u2)
                | (Ok false, u2) => trees_put u2 (frame / TF) (pow2 (r_order r))
                | (Panic s, u2) => (Panic s, u2)
                | (Err e, u2) => (Err e, u2)
                end
            | None => global
            end
        end
    end.

  (* drain: every class in id order, every slot in order *)
  Fixpoint drain_slots (u : upper) (class : N) (j : N) (n : nat) : res unit * upper :=
    match n with
    | O => (Ok tt, u)
    | S n' =>
        match class_slots u class with
        | None => (Ok tt, u)
        | Some l =>
            match nth_error l (nn j) with
            | None => (Ok tt, u)
            | Some s =>
                let u1 := set_slot u class j slot_none in
                if s_pres s then
                  lift (trees_unreserve u1 (row_tree (s_row s)) (s_free s) class)
                       (fun _ u2 => drain_slots u2 class (j + 1) n')
                else drain_slots u1 class (j + 1) n'
            end
        end
    end.
  Fixpoint drain_classes (u : upper) (c : N) (n : nat) : res unit * upper :=
    match n with
    | O => (Ok tt, u)
    | S n' =>
        let len := match class_slots u c with Some l => length l | None => O end in
        lift (drain_slots u c 0 len) (fun _ u1 => drain_classes u1 (c + 1) n')
    end.
  Definition llfree_drain (u : upper) : res unit * upper := drain_classes u 0 8.

  Definition llfree_change_tree (u : upper) (m : tree_match) (ch : tree_change) : res unit * upper :=
    trees_change u m ch.

  (* ----- statistics ----- *)
  Definition all_slots (u : upper) : list (N * slot) :=
    flat_map (fun c => match class_slots u (N.of_nat c) with
                       | Some l => map (fun s => (N.of_nat c, s)) l
                       | None => [] end) (seq 0 8).

  Definition locals_stats (u : upper) : tree_stats :=
    fold_left (fun s cs =>
      let '(c, sl) := cs in
      if s_pres sl then
        {| ts_free := ts_free s + s_free sl; ts_trees := ts_trees s + s_free sl / TF;
           ts_classes := add_class (ts_classes s) c (s_free sl) 0 |}
      else s) (all_slots u) {| ts_free := 0; ts_trees := 0; ts_classes := repeat class_stats0 8 |}.

  Definition sub_alloc (cs : list class_stats) (c : N) (f : N) : list class_stats :=
    match nth_error cs (nn c) with
    | Some x => upd cs (nn c) {| cs_free := cs_free x; cs_alloc := cs_alloc x - f |}    (* saturating *)
    | None => cs
    end.

  Definition llfree_tree_stats (u : upper) : res tree_stats :=
    let a := trees_stats u in
    let b := locals_stats u in
    let classes := map (fun p => {| cs_free := cs_free (fst p) + cs_free (snd p);
                                    cs_alloc := cs_alloc (fst p) + cs_alloc (snd p) |})
                       (combine (ts_classes a) (ts_classes b)) in
    (* frames of local reservations are free, not allocated (D8 repair) *)
    let fixed :=
      fold_left (fun acc cs =>
        let '(c, sl) := cs in
        match acc with
        | Ok cl =>
            if s_pres sl then
              match tree_at u (row_tree (s_row sl)) with
              | Some t => Ok (sub_alloc cl (t_class t) (s_free sl))
              | None => Panic (SIndex 48)
              end
            else Ok cl
        | other => other
        end) (all_slots u) (Ok classes) in
    match fixed with
    | Ok cl => Ok {| ts_free := ts_free a + ts_free b; ts_trees := ts_trees a + ts_trees b; ts_classes := cl |}
    | Err e => Err e
    | Panic s => Panic s
    end.

  Definition llfree_stats (u : upper) : stats := lower_stats g (low u).
  Definition llfree_stats_at (u : upper) (frame : N) (order : nat) : res stats := lower_stats_at g (low u) frame order.

  (* validate(): Ok tt when all asserts pass, Panic (SValidate k) for the k-th assert *)
  Definition llfree_validate (u : upper) : res unit :=
    match llfree_tree_stats u with
    | Panic s => Panic s
    | Err e => Err e
    | Ok fast =>
        if negb (ts_free fast =? free_frames (llfree_stats u)) then Panic (SValidate 1) else
        let unres_ok := forallb (fun it => let '(i, t) := it in
                                   t_res t || (t_free t =? tree_free g (low u) (N.of_nat i)))
                                (combine (seq 0 (length (trees u))) (trees u)) in
        if negb unres_ok then Panic (SValidate 2) else
        let nres := N.of_nat (length (filter t_res (trees u))) in
        let pres := filter (fun cs => s_pres (snd cs)) (all_slots u) in
        let each_ok := forallb (fun cs =>
                         let sl := snd cs in
                         match tree_at u (row_tree (s_row sl)) with
                         | Some t => t_res t && (s_free sl + t_free t =? tree_free g (low u) (row_tree (s_row sl)))
                         | None => false
                         end) pres in
        if negb each_ok then Panic (SValidate 3) else
        if negb (nres =? N.of_nat (length pres)) then Panic (SValidate 4) else Ok tt
    end.

  (* ----- construction ----- *)
  Definition locals_new (classing : list (N * N)) (buf : list slot) : res (list (option (list slot))) :=
    (* slots are laid out in classing order; a later entry with the same id replaces the earlier one *)
    let fix go (cl : list (N * N)) (buf : list slot) (acc : list (option (list slot))) :=
      match cl with
      | [] => Ok acc
      | (c, n) :: r =>
          if 8 <=? c then Panic (SIndex 49)
          else go r (skipn (nn n) buf) (upd acc (nn c) (Some (firstn (nn n) buf)))
      end in
    go classing buf (repeat None 8).

  Definition trees_new (l : lower) (d : N) : res (list tree) :=
    fold_right (fun i acc =>
      match acc with
      | Ok ts =>
          match lower_stats_at g l (N.of_nat i * TF) (tord g) with
          | Ok s => if TF <? free_frames s then Panic STreeFree
                    else Ok ({| t_free := free_frames s; t_res := false; t_class := d |} :: ts)
          | Err e => Err e
          | Panic s => Panic s
          end
      | other => other
      end) (Ok []) (seq 0 (nn (ntab g (frames l)))).

  (* `LLFree::new` over valid metadata. `lbuf`/`tbuf`/`sbuf`: previous content of the three buffers
     (used by Recover for the lower buffer and by None for all three; the local buffer is used as is
     in every mode: the caller provides it zeroed unless handing over). *)
  Definition llfree_new (fr : N) (i : init) (classing : list (N * N)) (d : N)
             (lbuf : lower) (tbuf : list tree) (sbuf : list slot) : res upper :=
    let l := lower_new g fr i lbuf in
    match locals_new classing sbuf with
    | Panic s => Panic s
    | Err e => Err e
    | Ok ls =>
        match i with
        | INone => Ok {| low := l; trees := firstn (nn (ntab g fr)) tbuf; locals := ls; dflt := d |}
        | _ => match trees_new l d with
               | Ok ts => Ok {| low := l; trees := ts; locals := ls; dflt := d |}
               | Err e => Err e
               | Panic s => Panic s
               end
        end
    end.
End Upper.
