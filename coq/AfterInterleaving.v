(* Proofs for Properties/ConcSeq.v.
   "Every quiescent state reached by the explored sequential histories AND concurrent interleavings" (C10, C14):
   the sequential theorems of C10 / C14 are stated for any state satisfying the invariant `UpperInv`; the concurrent
   theorem Conc_upper_safe_with_changes says that the state of the whole-allocator machine M2 satisfies it whenever no
   call is in flight, after ANY interleaving (scope of Properties/Conc.v: valid parameters, concurrent
   change_tree(Online) excluded - finding D16).  This file only composes them, so that the claim "after every
   interleaving, then a drain, then the checked call" is a theorem and not a reading of two files.
   `st` below is the quiescent end state of the interleaving with the ghost `off` computed along the run. *)
From Coq Require Import List NArith.
From LLF Require Import Base Row Bitfield Lower Spec LowerFactsProofs Upper UpperInvDef UpperPrims UpperPutProofs
  UpperStatsProofs UpperGetProofs UpperGetComplete Handoff GlueProofs GlueHistory
  LowerMachine UpperMachine ConcInvDef ConcInv UpperConcInvDef UpperConcInv UpperConcProps.

Section AfterInterleaving.
  Variables (g : geom) (policy : N -> N -> N -> pol) (u : upper) (held0 : list (N * nat)) (n : nat)
            (sch : list (nat * ucall)).
  Hypothesis WF : wf_geom g.
  Hypothesis PR : pol_refl_match policy.
  Hypothesis PT : pol_demote_trans policy.
  Hypothesis HU : UpperInv g policy (ustate_new u).
  Hypothesis HH : HeldInit g (low u) held0.
  Hypothesis SV : sched_valid g u sch.

  Let x := UpperConcInv.grun g policy sch (uboot u held0 n, zeros u).
  Let st : ustate := {| us := m2_up (fst x); off := snd x |}.
  Hypothesis Q : uquiescent (fst x).

  Lemma st_inv : UpperInv g policy st.
  Proof.
    destruct (conc_upper_safe_off g policy u held0 n sch WF PR PT HU HH SV) as (_ & _ & _ & C). exact (C Q).
  Qed.

  (* C10: drain the end state of the interleaving ... *)
  Lemma after_interleaving_drain : exists st',
    ghost_lift (llfree_drain g policy) st = (Ok tt, st') /\ UpperInv g policy st' /\
    low (us st') = low (us st) /\ off st' = off st /\ present_slots (us st') = [].
  Proof.
    destruct (ghost_lift (llfree_drain g policy) st) as [r st'] eqn:E.
    destruct (llfree_drain_correct g policy WF (lower_facts_proved g WF) st r st' st_inv E) as (-> & I & L & O & P & _).
    exists st'. split; [reflexivity|]. split; [exact I|]. split; [exact L|]. split; [exact O|exact P].
  Qed.

  (* ... then a base-order allocation fails only if every free frame is hidden by an offline tree *)
  Lemma after_interleaving_base_complete : pol_never_invalid policy -> forall st' rq st'',
    ghost_lift (llfree_drain g policy) st = (Ok tt, st') ->
    valid_req (us st') rq -> r_order rq = 0%nat -> frames (low (us st')) < W64 ->
    ghost_lift (fun v => llfree_get g policy v None rq) st' = (Err EMemory, st'') ->
    (forall i t, tree_at (us st') i = Some t -> t_free t = 0) /\
    exact_free (abs g (low (us st'))) = sumN (off st').
  Proof.
    intros PN st' rq st'' E Hv Ho Hfr Hg.
    destruct (llfree_drain_correct g policy WF (lower_facts_proved g WF) st (Ok tt) st' st_inv E) as (_ & I & _ & _ & P & _).
    destruct (drained_base_fail_all_hidden g policy WF PR PN st' rq st'' I Hv P Ho Hfr Hg) as (A & _ & C).
    split; assumption.
  Qed.

  (* ... and a targeted allocation succeeds iff the counter covers it and the block is free *)
  Lemma after_interleaving_at_complete : pol_never_invalid policy -> forall st' f rq t,
    ghost_lift (llfree_drain g policy) st = (Ok tt, st') ->
    valid_req (us st') rq -> check g (us st') f rq = Ok tt -> tree_at (us st') (f / TF g) = Some t ->
    ((exists c st'', ghost_lift (fun v => llfree_get g policy v (Some f) rq) st' = (Ok (f, c), st'')) <->
     (pow2 (r_order rq) <= t_free t /\ spec_get_enabled (abs g (low (us st'))) f (r_order rq) = true)).
  Proof.
    intros PN st' f rq t E Hv Hc Ht.
    destruct (llfree_drain_correct g policy WF (lower_facts_proved g WF) st (Ok tt) st' st_inv E) as (_ & I & _ & _ & P & _).
    apply valid_req_local in Hv.
    exact (get_at_complete g policy WF (lower_facts_proved g WF) PR PT PN st' f rq t I Hv P Hc Ht).
  Qed.

  (* C14: the per-class statistics of the end state of the interleaving *)
  Lemma after_interleaving_tree_stats : exists ts, llfree_tree_stats g (us st) = Ok ts /\
    length (ts_classes ts) = 8%nat /\
    sumN (map cs_free (ts_classes ts)) = ts_free ts /\
    sumN (map (fun c => cs_free c + cs_alloc c) (ts_classes ts)) = ntrees (us st) * TF g.
  Proof.
    destruct (tree_stats_correct g policy WF (lower_facts_proved g WF) st st_inv) as (ts & A & _ & B & C & D).
    exists ts. repeat split; assumption.
  Qed.
End AfterInterleaving.

Theorem c10_after_every_interleaving : forall g policy u held0 n sch,
  wf_geom g -> pol_refl_match policy -> pol_demote_trans policy -> pol_never_invalid policy ->
  UpperInv g policy (ustate_new u) -> HeldInit g (low u) held0 -> sched_valid g u sch ->
  let x := UpperConcInv.grun g policy sch (uboot u held0 n, zeros u) in
  let st := {| us := m2_up (fst x); off := snd x |} in
  uquiescent (fst x) ->
  exists st', ghost_lift (llfree_drain g policy) st = (Ok tt, st') /\ UpperInv g policy st' /\
    low (us st') = low (us st) /\ present_slots (us st') = [] /\
    (* base order *)
    (forall rq st'', valid_req (us st') rq -> r_order rq = 0%nat -> frames (low (us st')) < W64 ->
       ghost_lift (fun v => llfree_get g policy v None rq) st' = (Err EMemory, st'') ->
       (forall i t, tree_at (us st') i = Some t -> t_free t = 0) /\ exact_free (abs g (low (us st'))) = sumN (off st')) /\
    (* targeted *)
    (forall f rq t, valid_req (us st') rq -> check g (us st') f rq = Ok tt -> tree_at (us st') (f / TF g) = Some t ->
       ((exists c st'', ghost_lift (fun v => llfree_get g policy v (Some f) rq) st' = (Ok (f, c), st'')) <->
        (pow2 (r_order rq) <= t_free t /\ spec_get_enabled (abs g (low (us st'))) f (r_order rq) = true))).
Proof.
  intros g policy u held0 n sch WF PR PT PN HU HH SV x st Q.
  destruct (after_interleaving_drain g policy u held0 n sch WF PR PT HU HH SV Q) as (st' & E & I & L & _ & P).
  exists st'. split; [exact E|]. split; [exact I|]. split; [exact L|]. split; [exact P|]. split.
  - intros rq st'' Hv Ho Hfr Hg. exact (after_interleaving_base_complete g policy u held0 n sch WF PR PT HU HH SV Q PN st' rq st'' E Hv Ho Hfr Hg).
  - intros f rq t Hv Hc Ht. exact (after_interleaving_at_complete g policy u held0 n sch WF PR PT HU HH SV Q PN st' f rq t E Hv Hc Ht).
Qed.


Theorem c14_after_every_interleaving : forall g policy u held0 n sch,
  wf_geom g -> pol_refl_match policy -> pol_demote_trans policy ->
  UpperInv g policy (ustate_new u) -> HeldInit g (low u) held0 -> sched_valid g u sch ->
  let x := UpperConcInv.grun g policy sch (uboot u held0 n, zeros u) in
  uquiescent (fst x) ->
  exists ts, llfree_tree_stats g (m2_up (fst x)) = Ok ts /\
    length (ts_classes ts) = 8%nat /\
    sumN (map cs_free (ts_classes ts)) = ts_free ts /\
    sumN (map (fun c => cs_free c + cs_alloc c) (ts_classes ts)) = ntrees (m2_up (fst x)) * TF g.
Proof.
  intros g policy u held0 n sch WF PR PT HU HH SV x Q.
  exact (after_interleaving_tree_stats g policy u held0 n sch WF PR PT HU HH SV Q).
Qed.

