(* Generic facts about the search loops of Upper.v (`sb_try`, `sb_loop`, `search_best`, `search_loop`),
   parameterised by the `access` function, and the index walk `walk_idx`.
   Two families:
   - "origin" lemmas (no invariant): an `Ok` result of a loop is an `Ok` result of some `access` call;
   - invariant lemmas: if `access` preserves `I` on `Err EMemory` and establishes `Post` on every other
     outcome, so does the loop. *)
From LLF Require Import Base Row Bitfield Lower Sorted SortedProofs Upper.
From Coq Require Import ZArith.

Lemma sb_add_In {K V} (le : K -> K -> bool) cap (buf : list (K * V)) x y :
  In y (sb_add le cap buf x) -> y = x \/ In y buf.
Proof.
  unfold sb_add. destruct (Nat.ltb (length buf) cap).
  - intros H. apply insert_at_in in H. exact H.
  - destruct (sb_pos le (fst x) buf); [auto|].
    intros H. apply insert_at_in in H. destruct H as [H|H]; [auto|].
    right. destruct buf; [destruct H|right; exact H].
Qed.

Lemma walk_idx_lt start n i : n <> 0 -> walk_idx start n i < n.
Proof. intros Hn. unfold walk_idx. destruct (N.even i); apply N.mod_lt; exact Hn. Qed.

Lemma tree_at_some_lt u i t : tree_at u i = Some t -> i < ntrees u.
Proof.
  unfold tree_at, ntrees, nn. intros H.
  assert (Hl : (N.to_nat i < length (trees u))%nat) by (apply nth_error_Some; congruence). lia.
Qed.

Lemma tree_at_lt_some u i : i < ntrees u -> exists t, tree_at u i = Some t.
Proof.
  unfold tree_at, ntrees, nn. intros H.
  destruct (nth_error (trees u) (N.to_nat i)) eqn:E; [eauto|].
  apply nth_error_None in E. lia.
Qed.

(* ---------------------------------------------------------------------------------------------- *)
(* origin of an Ok result *)
Section Origin.
  Variable g : geom.
  Context {A : Type}.
  Variable access : upper -> N -> res A * upper.
  Variable P : A -> Prop.
  Hypothesis Hacc : forall u i a u', access u i = (Ok a, u') -> P a.

  Lemma sb_try_origin cands : forall u a u', sb_try access u cands = (Ok a, u') -> P a.
  Proof.
    induction cands as [|[k i] r IH]; intros u a u' H; cbn [sb_try] in H.
    - discriminate.
    - destruct (access u i) as [ra u1] eqn:E.
      destruct ra as [x|e|s]; [inversion H; subst; eauto| |discriminate].
      destruct e; try discriminate. eauto.
  Qed.

  Lemma sb_loop_origin rate cap n : forall u start i best a u',
    sb_loop g access rate cap u start i n best = (Ok a, u') -> P a.
  Proof.
    induction n as [|n IH]; intros u start i best a u' H; cbn [sb_loop] in H.
    - eapply sb_try_origin; eauto.
    - destruct (tree_at u (walk_idx start (ntrees u) i)) as [t|]; [|discriminate].
      destruct (t_res t); [eauto|].
      destruct (rate (t_class t) (t_free t)) as [m| | |] eqn:Er; eauto.
      destruct m as [|p]; eauto.
      repeat (destruct p as [p|p|]; eauto).
      destruct (access u (walk_idx start (ntrees u) i)) as [ra u1] eqn:E.
      destruct ra as [x|e|s]; [inversion H; subst; eauto| |discriminate].
      destruct e; try discriminate. eauto.
  Qed.

  Lemma search_best_origin rate cap u start offset len a u' :
    search_best g access rate cap u start offset len = (Ok a, u') -> P a.
  Proof.
    unfold search_best. destruct ((0 <? len - offset) && (ntrees u =? 0)); [discriminate|].
    apply sb_loop_origin.
  Qed.

  Lemma search_loop_origin n : forall u start i a u',
    search_loop access u start i n = (Ok a, u') -> P a.
  Proof.
    induction n as [|n IH]; intros u start i a u' H; cbn [search_loop] in H; [discriminate|].
    destruct (access u (walk_idx start (ntrees u) i)) as [ra u1] eqn:E.
    destruct ra as [x|e|s]; [inversion H; subst; eauto| |discriminate].
    destruct e; try discriminate. eauto.
  Qed.
End Origin.

(* ---------------------------------------------------------------------------------------------- *)
(* invariant-preserving loops *)
Section Inv.
  Variable g : geom.
  Context {A : Type}.
  Variable access : upper -> N -> res A * upper.
  Variable n : N.                                  (* the (constant) number of trees *)
  Variable I : upper -> Prop.
  Variable Post : res A -> upper -> Prop.          (* for every outcome other than Err EMemory *)

  Definition outcome (r : res A) (u' : upper) : Prop :=
    match r with Err EMemory => I u' | _ => Post r u' end.

  Hypothesis HIn : forall u, I u -> ntrees u = n.
  Hypothesis Hacc : forall u i r u', I u -> i < n -> access u i = (r, u') -> outcome r u'.

  Lemma sb_try_inv cands : Forall (fun c => snd c < n) cands ->
    forall u r u', I u -> sb_try access u cands = (r, u') -> outcome r u'.
  Proof.
    induction cands as [|[k i] rest IH]; intros Hc u r u' HI H; cbn [sb_try] in H.
    - inversion H; subst. exact HI.
    - inversion Hc as [|? ? Hi Hrest]; subst. cbn [snd] in Hi.
      destruct (access u i) as [ra u1] eqn:E.
      pose proof (Hacc _ _ _ _ HI Hi E) as Ho.
      destruct ra as [x|e|s]; [inversion H; subst; exact Ho| |inversion H; subst; exact Ho].
      destruct e; try (inversion H; subst; exact Ho).
      cbn [outcome] in Ho. eauto.
  Qed.

  Lemma sb_loop_inv rate cap (Hn : n <> 0) k : forall u start i best r u',
    I u -> Forall (fun c => snd c < n) best ->
    sb_loop g access rate cap u start i k best = (r, u') -> outcome r u'.
  Proof.
    induction k as [|k IH]; intros u start i best r u' HI Hb H; cbn [sb_loop] in H.
    - eapply sb_try_inv; [|exact HI|exact H]. unfold sb_iter_rev.
      apply Forall_forall. intros x Hx. apply in_rev in Hx.
      rewrite Forall_forall in Hb. auto.
    - pose proof (HIn _ HI) as Hnt. rewrite Hnt in H.
      pose proof (walk_idx_lt start n i Hn) as Hlt.
      set (idx := walk_idx start n i) in *.
      destruct (tree_at_lt_some u idx) as [t Ht]; [rewrite Hnt; exact Hlt|].
      rewrite Ht in H.
      destruct (t_res t); [eauto|].
      assert (Hadd : forall key, Forall (fun c => snd c < n) (sb_add N.leb cap best (key, idx))).
      { intros key. apply Forall_forall. intros x Hx.
        apply sb_add_In in Hx. rewrite Forall_forall in Hb.
        destruct Hx as [->|Hx]; [exact Hlt|auto]. }
      destruct (rate (t_class t) (t_free t)) as [m| | |] eqn:Er; eauto.
      destruct m as [|p]; eauto.
      repeat (destruct p as [p|p|]; eauto).
      destruct (access u idx) as [ra u1] eqn:E.
      pose proof (Hacc _ _ _ _ HI Hlt E) as Ho.
      destruct ra as [x|e|s]; [inversion H; subst; exact Ho| |inversion H; subst; exact Ho].
      destruct e; try (inversion H; subst; exact Ho).
      cbn [outcome] in Ho. eauto.
  Qed.

  Lemma search_best_inv rate cap u start offset len r u' :
    I u -> (n = 0 -> len <= offset) ->
    search_best g access rate cap u start offset len = (r, u') -> outcome r u'.
  Proof.
    intros HI Hz H. unfold search_best in H. rewrite (HIn _ HI) in H.
    destruct (N.eq_dec n 0) as [Hn0|Hn0].
    - specialize (Hz Hn0). replace (len - offset) with 0 in H by lia.
      cbn in H. inversion H; subst. exact HI.
    - replace (n =? 0) with false in H by (symmetry; apply N.eqb_neq; exact Hn0).
      rewrite andb_false_r in H. eapply sb_loop_inv; eauto.
  Qed.

  Lemma search_loop_inv (Hn : n <> 0) k : forall u start i r u',
    I u -> search_loop access u start i k = (r, u') -> outcome r u'.
  Proof.
    induction k as [|k IH]; intros u start i r u' HI H; cbn [search_loop] in H.
    - inversion H; subst. exact HI.
    - rewrite (HIn _ HI) in H.
      pose proof (walk_idx_lt start n i Hn) as Hlt.
      destruct (access u (walk_idx start n i)) as [ra u1] eqn:E.
      pose proof (Hacc _ _ _ _ HI Hlt E) as Ho.
      destruct ra as [x|e|s]; [inversion H; subst; exact Ho| |inversion H; subst; exact Ho].
      destruct e; try (inversion H; subst; exact Ho).
      cbn [outcome] in Ho. eauto.
  Qed.
End Inv.

(* ---------------------------------------------------------------------------------------------- *)
(* the index walk of Upper.v is the walk of SearchBest.v; a full walk visits every tree *)
From LLF Require SearchBest SearchBestProofs.
From Coq Require Import Sorting.Permutation.
Notation walk_index := LLF.SearchBest.walk_index.
Notation W64z := LLF.SearchBest.W64z.

Lemma walk_idx_walk_index start n i :
  0 < n -> (i + 1) / 2 <= start + n + W64 -> walk_idx start n i = walk_index n start i.
Proof.
  intros Hn Hi. unfold walk_idx, SearchBest.walk_index, SearchBest.walk_off. apply N2Z.inj.
  rewrite Z2N.id by (apply Z.mod_pos_bound; lia).
  destruct (N.even i).
  - rewrite !N2Z.inj_mod. f_equal. f_equal. lia.
  - rewrite !N2Z.inj_mod. f_equal.
    change (Z.of_N W64) with W64z.
    replace (Z.of_N (start + n + W64 - (i + 1) / 2))
      with (Z.of_N (start + n) + - Z.of_N ((i + 1) / 2) + 1 * W64z)%Z
      by (unfold W64z; change W64 with 18446744073709551616 in *; lia).
    apply Z.mod_add. unfold W64z. lia.
Qed.

Lemma walk_idx_cover start n t :
  0 < n -> start + 2 * n < W64 -> t < n -> exists j, j < n /\ walk_idx start n j = t.
Proof.
  intros Hn Hb Ht.
  pose proof (SearchBestProofs.walk_all n start Hn Hb) as Hp.
  assert (Hin : In t (SearchBest.walk n start 0 n)).
  { eapply Permutation_in; [apply Permutation_sym; exact Hp|]. apply SearchBestProofs.in_nrange. lia. }
  unfold SearchBest.walk in Hin. apply in_map_iff in Hin. destruct Hin as (j & Hj & Hr).
  apply SearchBestProofs.in_nrange in Hr. exists j. split; [lia|].
  rewrite walk_idx_walk_index; auto.
  assert ((j + 1) / 2 <= j + 1) by (apply N.div_le_upper_bound; lia). lia.
Qed.

(* ---------------------------------------------------------------------------------------------- *)
(* completeness of search_best: if some visited index is "good" (its access cannot fail with
   Err EMemory, and it is rated as a candidate or a direct hit), the search does not end with Err EMemory *)
Lemma sb_add_nonempty {K V} (le : K -> K -> bool) cap (buf : list (K * V)) x :
  (0 < cap)%nat -> sb_add le cap buf x <> [].
Proof.
  intros Hc. unfold sb_add. destruct (Nat.ltb (length buf) cap) eqn:E.
  - destruct (sb_pos le (fst x) buf), buf; cbn [insert_at]; discriminate.
  - apply Nat.ltb_ge in E. destruct buf as [|a r]; [cbn [length] in E; lia|].
    destruct (sb_pos le (fst x) (a :: r)) as [|p]; [discriminate|].
    cbn [tl]. destruct p, r; cbn [insert_at]; discriminate.
Qed.

Section Complete.
  Variable g : geom.
  Context {A : Type}.
  Variable access : upper -> N -> res A * upper.
  Variable rate : N -> N -> pol.
  Variable n : N.
  Variable I : upper -> Prop.
  Variable G : N -> Prop.                    (* good indices (a property stable over I-states) *)

  Hypothesis HIn : forall u, I u -> ntrees u = n.
  Hypothesis Hacc : forall u i u', I u -> i < n -> access u i = (Err EMemory, u') -> I u'.
  (* whatever is rated is good *)
  Hypothesis Hrate : forall u i t, I u -> tree_at u i = Some t -> t_res t = false ->
                                   rate (t_class t) (t_free t) <> PInvalid -> G i.
  (* a good index is rated and its access does not fail with Err EMemory *)
  Hypothesis HG1 : forall u i t, I u -> G i -> tree_at u i = Some t ->
                                 t_res t = false /\ rate (t_class t) (t_free t) <> PInvalid.
  Hypothesis HG2 : forall u i u', I u -> G i -> access u i = (Err EMemory, u') -> False.

  Lemma sb_try_complete cands : Forall (fun c => snd c < n /\ G (snd c)) cands ->
    forall u u', I u -> sb_try access u cands = (Err EMemory, u') -> cands = [].
  Proof.
    destruct cands as [|[k i] rest]; intros Hc u u' HI H; [reflexivity|exfalso].
    cbn [sb_try] in H. inversion Hc as [|? ? [Hi HGi] Hrest]; subst. cbn [snd] in *.
    destruct (access u i) as [ra u1] eqn:E.
    destruct ra as [x|e|s]; try discriminate.
    destruct e; try discriminate.
    eapply HG2; eauto.
  Qed.

  Lemma sb_loop_complete cap (Hcap : (0 < cap)%nat) (Hn : n <> 0) k : forall u start i best u',
    I u -> Forall (fun c => snd c < n /\ G (snd c)) best ->
    sb_loop g access rate cap u start i k best = (Err EMemory, u') ->
    best = [] /\ forall j, i <= j < i + N.of_nat k -> ~ G (walk_idx start n j).
  Proof.
    induction k as [|k IH]; intros u start i best u' HI Hb H; cbn [sb_loop] in H.
    - split; [|intros; lia].
      assert (Hr : rev best = []).
      { eapply sb_try_complete; [|exact HI|exact H]. unfold sb_iter_rev.
        apply Forall_forall. intros x Hx. apply in_rev in Hx. rewrite Forall_forall in Hb. auto. }
      destruct best as [|a r]; [reflexivity|]. cbn [rev] in Hr. destruct (rev r); discriminate.
    - pose proof (HIn _ HI) as Hnt. rewrite Hnt in H.
      pose proof (walk_idx_lt start n i Hn) as Hlt.
      set (idx := walk_idx start n i) in *.
      destruct (tree_at_lt_some u idx) as [t Ht]; [rewrite Hnt; exact Hlt|].
      rewrite Ht in H.
      assert (Hstep : forall u1 best1, I u1 -> Forall (fun c => snd c < n /\ G (snd c)) best1 ->
                sb_loop g access rate cap u1 start (i + 1) k best1 = (Err EMemory, u') ->
                ~ G idx -> best1 = best ->
                best = [] /\ forall j, i <= j < i + N.of_nat (S k) -> ~ G (walk_idx start n j)).
      { intros u1 best1 HI1 Hb1 H1 Hng ->. destruct (IH _ _ _ _ _ HI1 Hb1 H1) as [He Hj].
        split; [exact He|]. intros j Hjr. destruct (N.eq_dec j i) as [->|Hne]; [exact Hng|].
        apply Hj. lia. }
      assert (Hbad : forall key, sb_loop g access rate cap u start (i + 1) k
                                   (sb_add N.leb cap best (key, idx)) = (Err EMemory, u') ->
                                 G idx -> False).
      { intros key H1 HG. 
        assert (Hb1 : Forall (fun c => snd c < n /\ G (snd c)) (sb_add N.leb cap best (key, idx))).
        { apply Forall_forall. intros x Hx. apply sb_add_In in Hx. rewrite Forall_forall in Hb.
          destruct Hx as [->|Hx]; [split; assumption|auto]. }
        destruct (IH _ _ _ _ _ HI Hb1 H1) as [He _].
        eapply sb_add_nonempty; [exact Hcap|exact He]. }
      destruct (t_res t) eqn:Eres.
      { eapply Hstep; eauto. intros HG. destruct (HG1 _ _ _ HI HG Ht). congruence. }
      assert (HGi : rate (t_class t) (t_free t) <> PInvalid -> G idx) by (eapply Hrate; eauto).
      destruct (rate (t_class t) (t_free t)) as [m| | |] eqn:Er.
      + assert (HG : G idx) by (apply HGi; discriminate).
        assert (Hdirect : match access u idx with
                          | (Err EMemory, u1) => sb_loop g access rate cap u1 start (i + 1) k best
                          | other => other end = (Err EMemory, u') -> False).
        { destruct (access u idx) as [ra u1] eqn:E.
          destruct ra as [x|e|s]; try discriminate. destruct e; try discriminate.
          intros _. eapply HG2; eauto. }
        destruct m as [|p]; [exfalso; eauto|].
        repeat (destruct p as [p|p|]; try (exfalso; eauto; fail)).
      + exfalso. eapply Hbad; eauto. apply HGi. discriminate.
      + exfalso. eapply Hbad; eauto. apply HGi. discriminate.
      + eapply Hstep; eauto. intros HG. destruct (HG1 _ _ _ HI HG Ht) as [_ Hx]. congruence.
  Qed.

  Lemma search_best_complete cap (Hcap : (0 < cap)%nat) u start u' :
    I u -> start + 2 * n < W64 ->
    search_best g access rate cap u start 0 (ntrees u) = (Err EMemory, u') ->
    forall t, t < n -> ~ G t.
  Proof.
    intros HI Hb H t Ht. unfold search_best in H. rewrite (HIn _ HI) in H.
    assert (Hn : n <> 0) by lia.
    replace (n =? 0) with false in H by (symmetry; apply N.eqb_neq; exact Hn).
    rewrite andb_false_r in H.
    destruct (sb_loop_complete cap Hcap Hn _ _ _ _ _ _ HI (Forall_nil _) H) as [_ Hj].
    destruct (walk_idx_cover start n t) as (j & Hjn & <-); try lia.
    apply Hj. rewrite N.sub_0_r. unfold nn. rewrite N2Nat.id. lia.
  Qed.
End Complete.

(* ---------------------------------------------------------------------------------------------- *)
(* relational (frame) version: every access is related by a preorder, so is the loop *)
Section Rel.
  Variable g : geom.
  Context {A : Type}.
  Variable access : upper -> N -> res A * upper.
  Variable R : upper -> upper -> Prop.
  Hypothesis Rrefl : forall u, R u u.
  Hypothesis Rtrans : forall u1 u2 u3, R u1 u2 -> R u2 u3 -> R u1 u3.
  Hypothesis Hacc : forall u i r u', access u i = (r, u') -> R u u'.

  Lemma sb_try_rel cands : forall u r u', sb_try access u cands = (r, u') -> R u u'.
  Proof.
    induction cands as [|[k i] rest IH]; intros u r u' H; cbn [sb_try] in H.
    - inversion H; subst. apply Rrefl.
    - destruct (access u i) as [ra u1] eqn:E. pose proof (Hacc _ _ _ _ E) as H1.
      destruct ra as [x|e|s]; [inversion H; subst; exact H1| |inversion H; subst; exact H1].
      destruct e; try (inversion H; subst; exact H1). eauto.
  Qed.

  Lemma sb_loop_rel rate cap k : forall u start i best r u',
    sb_loop g access rate cap u start i k best = (r, u') -> R u u'.
  Proof.
    induction k as [|k IH]; intros u start i best r u' H; cbn [sb_loop] in H.
    - eapply sb_try_rel; eauto.
    - destruct (tree_at u (walk_idx start (ntrees u) i)) as [t|]; [|inversion H; subst; apply Rrefl].
      destruct (t_res t); [eauto|].
      destruct (rate (t_class t) (t_free t)) as [m| | |] eqn:Er; eauto.
      destruct m as [|p]; eauto.
      repeat (destruct p as [p|p|]; eauto).
      destruct (access u (walk_idx start (ntrees u) i)) as [ra u1] eqn:E.
      pose proof (Hacc _ _ _ _ E) as H1.
      destruct ra as [x|e|s]; [inversion H; subst; exact H1| |inversion H; subst; exact H1].
      destruct e; try (inversion H; subst; exact H1). eauto.
  Qed.

  Lemma search_best_rel rate cap u start offset len r u' :
    search_best g access rate cap u start offset len = (r, u') -> R u u'.
  Proof.
    unfold search_best. destruct ((0 <? len - offset) && (ntrees u =? 0)).
    - intros H; inversion H; subst. apply Rrefl.
    - apply sb_loop_rel.
  Qed.

  Lemma search_loop_rel k : forall u start i r u',
    search_loop access u start i k = (r, u') -> R u u'.
  Proof.
    induction k as [|k IH]; intros u start i r u' H; cbn [search_loop] in H.
    - inversion H; subst. apply Rrefl.
    - destruct (access u (walk_idx start (ntrees u) i)) as [ra u1] eqn:E.
      pose proof (Hacc _ _ _ _ E) as H1.
      destruct ra as [x|e|s]; [inversion H; subst; exact H1| |inversion H; subst; exact H1].
      destruct e; try (inversion H; subst; exact H1). eauto.
  Qed.
End Rel.
