(* Generic facts about the search loops of Upper.v (`sb_try`, `sb_loop`, `search_best`, `search_loop`),
   parameterised by the `access` function, and the index walk `walk_idx`.
   Two families:
   - "origin" lemmas (no invariant): an `Ok` result of a loop is an `Ok` result of some `access` call;
   - invariant lemmas: if `access` preserves `I` on `Err EMemory` and establishes `Post` on every other
     outcome, so does the loop. *)
From LLF Require Import Base Row Bitfield Lower Sorted SortedProofs Upper.
From Coq Require Import ZArith.

Lemma sb_add_In {K V} (le : K -> K -> bool) cap (buf : list (K * V)) x y :
  In y (sb_add le cap buf x) -> y = x \/ In y buf.
Proof.
  unfold sb_add. destruct (Nat.ltb (length buf) cap).
  - intros H. apply insert_at_in in H. exact H.
  - destruct (sb_pos le (fst x) buf); [auto|].
    intros H. apply insert_at_in in H. destruct H as [H|H]; [auto|].
    right. destruct buf; [destruct H|right; exact H].
Qed.

Lemma walk_idx_lt start n i : n <> 0 -> walk_idx start n i < n.
Proof. intros Hn. unfold walk_idx. destruct (N.even i); apply N.mod_lt; exact Hn. Qed.

Lemma tree_at_some_lt u i t : tree_at u i = Some t -> i < ntrees u.
Proof.
  unfold tree_at, ntrees, nn. intros H.
  assert (Hl : (N.to_nat i < length (trees u))%nat) by (apply nth_error_Some; congruence). lia.
Qed.

Lemma tree_at_lt_some u i : i < ntrees u -> exists t, tree_at u i = Some t.
Proof.
  unfold tree_at, ntrees, nn. intros H.
  destruct (nth_error (trees u) (N.to_nat i)) eqn:E; [eauto|].
  apply nth_error_None in E. lia.
Qed.

(* ---------------------------------------------------------------------------------------------- *)
(* origin of an Ok result *)
Section Origin.
  Variable g : geom.
  Context {A : Type}.
  Variable access : upper -> N -> res A * upper.
  Variable P : A -> Prop.
  Hypothesis Hacc : forall u i a u', access u i = (Ok a, u') -> P a.

  Lemma sb_try_origin cands : forall u a u', sb_try access u cands = (Ok a, u') -> P a.
  Proof.
    induction cands as [|[k i] r IH]; intros u a u' H; cbn [sb_try] in H.
    - discriminate.
    - destruct (access u i) as [ra u1] eqn:E.
      destruct ra as [x|e|s]; [inversion H; subst; eauto| |discriminate].
      destruct e; try discriminate. eauto.
  Qed.

  Lemma sb_loop_origin rate cap n : forall u start i best a u',
    sb_loop g access rate cap u start i n best = (Ok a, u') -> P a.
  Proof.
    induction n as [|n IH]; intros u start i best a u' H; cbn [sb_loop] in H.
    - eapply sb_try_origin; eauto.
    - destruct (tree_at u (walk_idx start (ntrees u) i)) as [t|]; [|discriminate].
      destruct (t_res t); [eauto|].
      destruct (rate (t_class t) (t_free t)) as [m| | |] eqn:Er; eauto.
      destruct m as [|p]; eauto.
      repeat (destruct p as [p|p|]; eauto).
      destruct (access u (walk_idx start (ntrees u) i)) as [ra u1] eqn:E.
      destruct ra as [x|e|s]; [inversion H; subst; eauto| |discriminate].
      destruct e; try discriminate. eauto.
  Qed.

  Lemma search_best_origin rate cap u start offset len a u' :
    search_best g access rate cap u start offset len = (Ok a, u') -> P a.
  Proof.
    unfold search_best. destruct ((0 <? len - offset) && (ntrees u =? 0)); [discriminate|].
    apply sb_loop_origin.
  Qed.

  Lemma search_loop_origin n : forall u start i a u',
    search_loop access u start i n = (Ok a, u') -> P a.
  Proof.
    induction n as [|n IH]; intros u start i a u' H; cbn [search_loop] in H; [discriminate|].
    destruct (access u (walk_idx start (ntrees u) i)) as [ra u1] eqn:E.
    destruct ra as [x|e|s]; [inversion H; subst; eauto| |discriminate].
    destruct e; try discriminate. eauto.
  Qed.
End Origin.

(* ---------------------------------------------------------------------------------------------- *)
(* invariant-preserving loops *)
Section Inv.
  Variable g : geom.
  Context {A : Type}.
  Variable access : upper -> N -> res A * upper.
  Variable n : N.                                  (* the (constant) number of trees *)
  Variable I : upper -> Prop.
  Variable Post : res A -> upper -> Prop.          (* for every outcome other than Err EMemory *)

  Definition outcome (r : res A) (u' : upper) : Prop :=
    match r with Err EMemory => I u' | _ => Post r u' end.

  Hypothesis HIn : forall u, I u -> ntrees u = n.
  Hypothesis Hacc : forall u i r u', I u -> i < n -> access u i = (r, u') -> outcome r u'.

  Lemma sb_try_inv cands : Forall (fun c => snd c < n) cands ->
    forall u r u', I u -> sb_try access u cands = (r, u') -> outcome r u'.
  Proof.
    induction cands as [|[k i] rest IH]; intros Hc u r u' HI H; cbn [sb_try] in H.
    - inversion H; subst. exact HI.
    - inversion Hc as [|? ? Hi Hrest]; subst. cbn [snd] in Hi.
      destruct (access u i) as [ra u1] eqn:E.
      pose proof (Hacc _ _ _ _ HI Hi E) as Ho.
      destruct ra as [x|e|s]; [inversion H; subst; exact Ho| |inversion H; subst; exact Ho].
      destruct e; try (inversion H; subst; exact Ho).
      cbn [outcome] in Ho. eauto.
  Qed.

  Lemma sb_loop_inv rate cap (Hn : n <> 0) k : forall u start i best r u',
    I u -> Forall (fun c => snd c < n) best ->
    sb_loop g access rate cap u start i k best = (r, u') -> outcome r u'.
  Proof.
    induction k as [|k IH]; intros u start i best r u' HI Hb H; cbn [sb_loop] in H.
    - eapply sb_try_inv; [|exact HI|exact H]. unfold sb_iter_rev.
      apply Forall_forall. intros x Hx. apply in_rev in Hx.
      rewrite Forall_forall in Hb. auto.
    - pose proof (HIn _ HI) as Hnt. rewrite Hnt in H.
      pose proof (walk_idx_lt start n i Hn) as Hlt.
      set (idx := walk_idx start n i) in *.
      destruct (tree_at_lt_some u idx) as [t Ht]; [rewrite Hnt; exact Hlt|].
      rewrite Ht in H.
      destruct (t_res t); [eauto|].
      assert (Hadd : forall key, Forall (fun c => snd c < n) (sb_add N.leb cap best (key, idx))).
      { intros key. apply Forall_forall. intros x Hx.
        apply sb_add_In in Hx. rewrite Forall_forall in Hb.
        destruct Hx as [->|Hx]; [exact Hlt|auto]. }
      destruct (rate (t_class t) (t_free t)) as [m| | |] eqn:Er; eauto.
      destruct m as [|p]; eauto.
      repeat (destruct p as [p|p|]; eauto).
      destruct (access u idx) as [ra u1] eqn:E.
      pose proof (Hacc _ _ _ _ HI Hlt E) as Ho.
      destruct ra as [x|e|s]; [inversion H; subst; exact Ho| |inversion H; subst; exact Ho].
      destruct e; try (inversion H; subst; exact Ho).
      cbn [outcome] in Ho. eauto.
  Qed.

  Lemma search_best_inv rate cap u start offset len r u' :
    I u -> (n = 0 -> len <= offset) ->
    search_best g access rate cap u start offset len = (r, u') -> outcome r u'.
  Proof.
    intros HI Hz H. unfold search_best in H. rewrite (HIn _ HI) in H.
    destruct (N.eq_dec n 0) as [Hn0|Hn0].
    - specialize (Hz Hn0). replace (len - offset) with 0 in H by lia.
      cbn in H. inversion H; subst. exact HI.
    - replace (n =? 0) with false in H by (symmetry; apply N.eqb_neq; exact Hn0).
      rewrite andb_false_r in H. eapply sb_loop_inv; eauto.
  Qed.

  Lemma search_loop_inv (Hn : n <> 0) k : forall u start i r u',
    I u -> search_loop access u start i k = (r, u') -> outcome r u'.
  Proof.
    induction k as [|k IH]; intros u start i r u' HI H; cbn [search_loop] in H.
    - inversion H; subst. exact HI.
    - rewrite (HIn _ HI) in H.
      pose proof (walk_idx_lt start n i Hn) as Hlt.
      destruct (access u (walk_idx start n i)) as [ra u1] eqn:E.
      pose proof (Hacc _ _ _ _ HI Hlt E) as Ho.
      destruct ra as [x|e|s]; [inversion H; subst; exact Ho| |inversion H; subst; exact Ho].
      destruct e; try (inversion H; subst; exact Ho).
      cbn [outcome] in Ho. eauto.
  Qed.
End Inv.
