(* Proofs about the class-configuration model (EvalClasses.v): property C19. *)
From LLF Require Import Base EvalClasses.
Require Import ZArith ZifyN ZifyBool.
Ltac Zify.zify_post_hook ::= Z.div_mod_to_equations.

(* ---------- arithmetic ---------- *)
Lemma div_ceil2_pos n : 1 <= n -> 1 <= div_ceil2 n.
Proof.
  unfold div_ceil2; intros H.
  destruct (n mod 2 =? 0) eqn:E; lia.
Qed.

Lemma rem_ok a b : 1 <= b -> exists r, rem a b = Ok r /\ r < b.
Proof.
  intros H; unfold rem.
  destruct (b =? 0) eqn:E; [lia|].
  exists (a mod b); split; [reflexivity|]. apply N.mod_lt; lia.
Qed.

(* the repaired `to_local` stays below `to_count` *)
Lemma to_local_lt k core cores pid :
  1 <= cores ->
  exists l, to_local k core cores pid = Ok l /\
            match l with None => True | Some i => i < to_count k cores end.
Proof.
  intros H; unfold to_local, to_local_with; destruct k; cbn [to_count].
  - exists None; auto.
  - exists (Some 0); split; [reflexivity|lia].
  - destruct (rem_ok core cores H) as (r & -> & Hr). exists (Some r); cbn [bind]; auto.
  - destruct (rem_ok (div_ceil2 core) (div_ceil2 cores) (div_ceil2_pos _ H)) as (r & -> & Hr).
    exists (Some r); cbn [bind]; auto.
  - destruct (rem_ok pid cores H) as (r & -> & Hr). exists (Some r); cbn [bind]; auto.
Qed.

(* ---------- select ---------- *)
(* how a request's class configuration was chosen *)
Definition chosen (cfg : config) (order gfp : N) (c : class_config) : Prop :=
  (cfg_matches c order gfp = true /\ In c cfg)
  \/ ((forall c', In c' cfg -> cfg_matches c' order gfp = false) /\ hd_error cfg = Some c).

Lemma select_ok cfg order gfp :
  cfg <> [] -> exists c, select cfg order gfp = Ok c /\ In c cfg /\ chosen cfg order gfp c.
Proof.
  intros Hne; unfold select.
  destruct (find (fun c => cfg_matches c order gfp) cfg) as [c|] eqn:F.
  - apply find_some in F as [Hin Hm]. exists c; repeat split; auto. left; auto.
  - destruct cfg as [|c r]; [congruence|].
    exists c; repeat split; [left; reflexivity|].
    right; split; [|reflexivity].
    intros c' Hin. exact (find_none _ _ F c' Hin).
Qed.

(* ---------- C19, part 1: the request itself ---------- *)
Lemma request_valid cfg order core cores pid gfp :
  cfg <> [] -> 1 <= cores ->
  exists c r,
    request cfg order core cores pid gfp = Ok r
    /\ In c cfg /\ chosen cfg order gfp c
    /\ r_order r = order
    /\ r_class r = cc_id c
    /\ match r_local r with None => True | Some i => i < to_count (cc_count c) cores end.
Proof.
  intros Hne Hc.
  destruct (select_ok cfg order gfp Hne) as (c & Hs & Hin & Hch).
  destruct (to_local_lt (cc_count c) core cores pid Hc) as (l & Hl & Hlt).
  exists c, {| r_order := order; r_class := cc_id c; r_local := l |}.
  unfold request, request_gen, mk_request. rewrite Hs; cbn [bind]. rewrite Hl; cbn [bind].
  repeat split; auto.
Qed.

(* the hypotheses are necessary: the code panics without them *)
Lemma request_empty_panics order core cores pid gfp :
  request [] order core cores pid gfp = Panic (SIndex 0).
Proof. reflexivity. Qed.

Lemma request_cores0_panics c r order core pid gfp :
  cc_count c = CCores \/ cc_count c = CCoresHalf \/ cc_count c = CPids ->
  cfg_matches c order gfp = true ->
  request (c :: r) order core 0 pid gfp = Panic (SArith 0).
Proof.
  intros Hk Hm. unfold request, request_gen, select. cbn [find]. rewrite Hm. cbn [bind].
  unfold mk_request, to_local, to_local_with.
  destruct Hk as [-> | [-> | ->]]; reflexivity.
Qed.

(* ---------- C19, part 2: that is the slot count the allocator configures ---------- *)
Lemma nodup_ids_consistent cfg : NoDup (map cc_id cfg) -> ids_consistent cfg.
Proof.
  induction cfg as [|a r IH]; intros Hnd c1 c2 H1 H2 Hid; [destruct H1|].
  cbn [map] in Hnd. inversion Hnd as [|x l Hnotin Hnd']; subst.
  destruct H1 as [<-|H1], H2 as [<-|H2]; auto.
  - exfalso; apply Hnotin. rewrite Hid. apply in_map; auto.
  - exfalso; apply Hnotin. rewrite <- Hid. apply in_map; auto.
  - exact (IH Hnd' c1 c2 H1 H2 Hid).
Qed.

Lemma class_locals_upd_same arr id n :
  (nn id < length arr)%nat -> class_locals (upd arr (nn id) (Some n)) id = Some n.
Proof. intros H; unfold class_locals. rewrite nth_error_upd_same; auto. Qed.

Lemma class_locals_upd_other arr id id' n :
  id <> id' -> class_locals (upd arr (nn id') (Some n)) id = class_locals arr id.
Proof.
  intros H; unfold class_locals. rewrite nth_error_upd_other; auto.
  unfold nn; intros E; apply H. apply N2Nat.inj; auto.
Qed.

Lemma locals_fill_spec counts : forall arr,
  Forall (fun e => fst e < CLASS_LEN) counts -> length arr = 8%nat ->
  exists arr', locals_fill counts arr = Ok arr' /\ length arr' = 8%nat /\
    forall id n, id < CLASS_LEN ->
      (forall n', In (id, n') counts -> n' = n) ->
      ((exists n', In (id, n') counts) \/ class_locals arr id = Some n) ->
      class_locals arr' id = Some n.
Proof.
  induction counts as [|[i0 n0] r IH]; intros arr Hs Hlen.
  - exists arr; repeat split; auto. intros id n _ _ [[n' []]|H]; auto.
  - inversion Hs as [|x l Hi0 Hr]; subst. cbn [fst] in Hi0.
    cbn [locals_fill]. assert (E : (i0 <? CLASS_LEN) = true) by (apply N.ltb_lt; auto). rewrite E.
    destruct (IH (upd arr (nn i0) (Some n0)) Hr) as (arr' & Hf & Hl & Hsp).
    { rewrite upd_length; auto. }
    exists arr'; repeat split; auto.
    intros id n Hid Hall Hex. apply Hsp; auto.
    { intros n' Hin; apply Hall; right; auto. }
    assert (Hb : (nn i0 < length arr)%nat).
    { rewrite Hlen. unfold nn, CLASS_LEN in *. lia. }
    destruct (N.eq_dec id i0) as [->|Hne].
    + right. rewrite class_locals_upd_same; auto. f_equal. apply Hall; left; auto.
    + destruct Hex as [[n' [Hin|Hin]]|Hcl].
      * congruence.
      * left; exists n'; auto.
      * right. rewrite class_locals_upd_other; auto.
Qed.

Lemma allocator_slots_spec cfg cores c :
  (length cfg <= 8)%nat -> ids_small cfg -> ids_consistent cfg -> In c cfg ->
  allocator_slots cfg cores (cc_id c) = Ok (Some (to_count (cc_count c) cores)).
Proof.
  intros Hlen Hsm Hcons Hin. unfold allocator_slots, classing_new.
  assert (E : (N.of_nat (length (classing_counts cfg cores)) <=? CLASS_LEN) = true).
  { unfold classing_counts; rewrite map_length. apply N.leb_le. unfold CLASS_LEN; lia. }
  rewrite E; cbn [bind]. unfold locals_new.
  destruct (locals_fill_spec (classing_counts cfg cores) (repeat None 8)) as (arr & Hf & _ & Hsp).
  { unfold classing_counts. apply Forall_map. cbn [fst]. exact Hsm. }
  { reflexivity. }
  rewrite Hf; cbn [bind]. f_equal.
  apply Hsp.
  - unfold ids_small in Hsm. rewrite Forall_forall in Hsm. apply Hsm; auto.
  - intros n' Hin'. unfold classing_counts in Hin'. apply in_map_iff in Hin' as (c' & Heq & Hin').
    inversion Heq as [[Hid Hn]]. rewrite (Hcons c' c Hin' Hin Hid). reflexivity.
  - left. exists (to_count (cc_count c) cores). unfold classing_counts.
    apply in_map_iff. exists c; auto.
Qed.

Lemma request_slot_configured cfg order core cores pid gfp :
  cfg <> [] -> 1 <= cores ->
  (length cfg <= 8)%nat -> ids_small cfg -> ids_consistent cfg ->
  exists r n,
    request cfg order core cores pid gfp = Ok r
    /\ In (r_class r) (map cc_id cfg)
    /\ allocator_slots cfg cores (r_class r) = Ok (Some n)
    /\ match r_local r with None => True | Some i => i < n end.
Proof.
  intros Hne Hc Hlen Hsm Hcons.
  destruct (request_valid cfg order core cores pid gfp Hne Hc) as (c & r & Hr & Hin & _ & _ & Hcl & Hlt).
  exists r, (to_count (cc_count c) cores). repeat split; auto.
  - rewrite Hcl. apply in_map; auto.
  - rewrite Hcl. apply allocator_slots_spec; auto.
Qed.

Lemma request_slot_configured_nodup cfg order core cores pid gfp :
  cfg <> [] -> 1 <= cores ->
  (length cfg <= 8)%nat -> ids_small cfg -> NoDup (map cc_id cfg) ->
  exists r n,
    request cfg order core cores pid gfp = Ok r
    /\ In (r_class r) (map cc_id cfg)
    /\ allocator_slots cfg cores (r_class r) = Ok (Some n)
    /\ match r_local r with None => True | Some i => i < n end.
Proof.
  intros; apply request_slot_configured; auto using nodup_ids_consistent.
Qed.

(* ---------- the executable oracle agrees with the statement ---------- *)
Lemma request_oracle cfg order core cores pid gfp :
  cfg <> [] -> 1 <= cores -> ids_consistent cfg ->
  exists r, request cfg order core cores pid gfp = Ok r
            /\ req_valid_b (map cc_id cfg) (classing_counts cfg cores) r = true.
Proof.
  intros Hne Hc Hcons.
  destruct (request_valid cfg order core cores pid gfp Hne Hc) as (c & r & Hr & Hin & _ & _ & Hcl & Hlt).
  exists r; split; auto. unfold req_valid_b.
  apply andb_true_iff; split; [apply andb_true_iff; split|].
  - apply existsb_exists. exists (cc_id c); split; [apply in_map; auto|]. apply N.eqb_eq; auto.
  - apply existsb_exists. exists (cc_id c, to_count (cc_count c) cores); split.
    + unfold classing_counts. apply in_map_iff; exists c; auto.
    + cbn [fst]. apply N.eqb_eq; auto.
  - destruct (r_local r) as [i|]; auto.
    apply forallb_forall. intros [id n] Hin'. cbn [fst snd].
    destruct (id =? r_class r) eqn:E; cbn [negb orb]; auto.
    apply N.eqb_eq in E. unfold classing_counts in Hin'.
    apply in_map_iff in Hin' as (c' & Heq & Hin'). inversion Heq; subst.
    apply N.ltb_lt. rewrite (Hcons c' c Hin' Hin); auto. congruence.
Qed.

(* ---------- refutations ---------- *)
(* D10: with the pinned `One => Some(1)` the statement fails: one class, kind `one`, 1 core *)
Lemma old_refuted :
  exists cfg order core cores pid gfp r i,
    cfg <> [] /\ 1 <= cores /\ (length cfg <= 8)%nat /\ ids_small cfg /\ NoDup (map cc_id cfg)
    /\ old_request cfg order core cores pid gfp = Ok r
    /\ r_local r = Some i
    /\ allocator_slots cfg cores (r_class r) = Ok (Some 1)
    /\ 1 <= i
    /\ req_valid_b (map cc_id cfg) (classing_counts cfg cores) r = false.
Proof.
  exists ex_one, 0, 0, 1, 0, 0, {| r_order := 0; r_class := 0; r_local := Some 1 |}, 1.
  split; [discriminate|]. split; [discriminate|]. split; [cbv; lia|].
  split; [repeat constructor|]. split; [repeat constructor; intros []|].
  split; [reflexivity|]. split; [reflexivity|]. split; [reflexivity|].
  split; [discriminate|]. vm_compute; reflexivity.
Qed.

(* Duplicate ids with different kinds: without `ids_consistent` even the repaired `request`
   produces a slot index >= the slot count the allocator configures for that class. *)
Lemma dup_ids_refuted :
  exists cfg order core cores pid gfp r i,
    cfg <> [] /\ 1 <= cores /\ (length cfg <= 8)%nat /\ ids_small cfg
    /\ request cfg order core cores pid gfp = Ok r
    /\ r_local r = Some i
    /\ allocator_slots cfg cores (r_class r) = Ok (Some 1)
    /\ 1 <= i.
Proof.
  exists ex_dup, 0, 3, 4, 0, 0, {| r_order := 0; r_class := 0; r_local := Some 3 |}, 3.
  split; [discriminate|]. split; [discriminate|]. split; [cbv; lia|].
  split; [repeat constructor|].
  split; [reflexivity|]. split; [reflexivity|]. split; [reflexivity|]. discriminate.
Qed.

(* ---------- non-vacuity: results/classes.json ---------- *)
Lemma ex_classes_json_hyps :
  ex_classes_json <> [] /\ (length ex_classes_json <= 8)%nat /\ ids_small ex_classes_json
  /\ NoDup (map cc_id ex_classes_json).
Proof.
  split; [unfold ex_classes_json; congruence|]. split; [cbv; lia|]. split.
  - repeat constructor; cbv; reflexivity.
  - cbn. repeat constructor; cbn; intuition congruence.
Qed.

(* concrete requests against results/classes.json (cores = 4) *)
Lemma ex_classes_json_requests :
  (* immovable: class 0, slot = pid mod cores *)
  request ex_classes_json 0 5 4 7 0 = Ok {| r_order := 0; r_class := 0; r_local := Some 3 |}
  (* movable, easy (HIGHMEM and FS on): class 1 *)
  /\ request ex_classes_json 3 5 4 6 0x8a = Ok {| r_order := 3; r_class := 1; r_local := Some 2 |}
  (* movable page cache, easy: class 2 *)
  /\ request ex_classes_json 3 5 4 6 0x1000008a = Ok {| r_order := 3; r_class := 2; r_local := Some 2 |}
  (* movable only (HIGHMEM off => "hard"): class 3 *)
  /\ request ex_classes_json 3 5 4 9 0x08 = Ok {| r_order := 3; r_class := 3; r_local := Some 1 |}
  (* huge: class 4, kind cores_half: ceil(5/2) mod ceil(4/2) = 1 < 2 slots *)
  /\ request ex_classes_json 9 5 4 9 0x08 = Ok {| r_order := 9; r_class := 4; r_local := Some 1 |}
  /\ allocator_slots ex_classes_json 4 4 = Ok (Some 2)
  (* order 11 matches no entry: falls through to classes[0] *)
  /\ fell_through ex_classes_json 11 0x08 = true
  /\ request ex_classes_json 11 5 4 9 0x08 = Ok {| r_order := 11; r_class := 0; r_local := Some 1 |}
  /\ classing_counts ex_classes_json 5 = [(0, 5); (1, 5); (2, 5); (3, 5); (4, 3)].
Proof. repeat split; vm_compute; reflexivity. Qed.

(* the repaired `one` kind: slot 0 of 1 *)
Lemma ex_one_repaired :
  request ex_one 0 0 1 0 0 = Ok {| r_order := 0; r_class := 0; r_local := Some 0 |}
  /\ allocator_slots ex_one 1 0 = Ok (Some 1)
  /\ old_request ex_one 0 0 1 0 0 = Ok {| r_order := 0; r_class := 0; r_local := Some 1 |}.
Proof. repeat split; vm_compute; reflexivity. Qed.
