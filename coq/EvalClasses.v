(* Model of the benchmark class configuration of the evaluation crate:
   /repo/eval/src/classes.rs (`ClassingConfig::{classing,request}`, `Count::{to_count,to_local}`,
   `ClassConfig::matches`, `GfpMatch::matches`), /repo/eval/src/gfp.rs (`impl PartialEq<u32> for GFP`),
   and the two places of /repo/core that consume the result: `Classing::new` (lib.rs:252) and
   `Locals::new` / `Locals::class_locals` (local.rs:41,59).  Definitions only, no proofs.

   All numbers are N.  The Rust values are usize/u32/u8; the only arithmetic is `div_ceil(2)` and `%`
   on usize, neither of which can overflow, so no wrap-around is modelled.

   Panics are modelled with Base.res:
     Panic (SIndex 0)  `self.classes[0]` on an empty class list            (classes.rs:88)
     Panic (SArith 0)  `x % 0`, remainder by zero in `Count::to_local`     (classes.rs:122-124)
     Panic (SIndex 1)  `assert!(classes.len() <= 1 << Class::BITS)`         (core lib.rs:253)
     Panic (SIndex 2)  `classes[class.0 as usize] = ..` with class.0 >= 8   (core local.rs:53) *)
From LLF Require Import Base.

(* ---------- Count ---------- *)
Inductive count := CZero | COne | CCores | CCoresHalf | CPids.

(* usize::div_ceil(self, 2) *)
Definition div_ceil2 (n : N) : N := n / 2 + (if n mod 2 =? 0 then 0 else 1).

Definition to_count (k : count) (cores : N) : N :=
  match k with
  | CZero => 0
  | COne => 1
  | CCores => cores
  | CCoresHalf => div_ceil2 cores
  | CPids => cores
  end.

(* usize `%`: panics on a zero divisor *)
Definition rem (a b : N) : res N := if b =? 0 then Panic (SArith 0) else Ok (a mod b).

(* `Count::to_local`, parameterised by the slot index returned for `One`. *)
Definition to_local_with (one : N) (k : count) (core cores pid : N) : res (option N) :=
  match k with
  | CZero => Ok None
  | COne => Ok (Some one)
  | CCores => do r <- rem core cores; Ok (Some r)
  | CCoresHalf => do r <- rem (div_ceil2 core) (div_ceil2 cores); Ok (Some r)
  | CPids => do r <- rem pid cores; Ok (Some r)
  end.

(* REPAIRED behaviour (finding D10): `Self::One => Some(0)`. *)
Definition to_local : count -> N -> N -> N -> res (option N) := to_local_with 0.
(* The pinned code: `Self::One => Some(1)`, slot index 1 of a class with 1 slot. *)
Definition old_to_local : count -> N -> N -> N -> res (option N) := to_local_with 1.

(* ---------- GfpMatch ---------- *)
(* `GFP == u32` and `u32 == GFP` are NOT equality: gfp.rs:34-43 implement them as the bit test
   `(flag as u32) & gfp != 0`.  `f` is the u32 value of the GFP enum constant. *)
Definition gfp_has (f gfp : N) : bool := negb (N.land f gfp =? 0).

Inductive gfp_match :=
| On (f : N)
| Off (f : N)
| All (l : list gfp_match)
| Any (l : list gfp_match)
| Not (m : gfp_match).

Fixpoint gfp_matches (m : gfp_match) (gfp : N) : bool :=
  match m with
  | On f => gfp_has f gfp                                    (* *flag == gfp *)
  | Off f => negb (gfp_has f gfp)                            (* *flag != gfp *)
  | All l => forallb (fun x => gfp_matches x gfp) l          (* list.iter().all(..) *)
  | Any l => existsb (fun x => gfp_matches x gfp) l          (* list.iter().any(..) *)
  | Not m' => negb (gfp_matches m' gfp)
  end.

(* `GfpMatch::default()` = All([]) (used by facet when the "gfp" key is absent) *)
Definition gfp_default : gfp_match := All [].

(* ---------- ClassConfig / ClassingConfig ---------- *)
Record class_config := {
  cc_id : N;                     (* u8 *)
  cc_count : count;
  cc_order : option (N * N);     (* inclusive [min, max] *)
  cc_gfp : gfp_match
}.

(* Only the class list matters for `request` and for the slot counts of `classing`
   (`default`, `perfect`, `good` feed the policy). *)
Definition config := list class_config.

Definition cfg_matches (c : class_config) (order gfp : N) : bool :=
  match cc_order c with
  | Some (mn, mx) => (mn <=? order) && (order <=? mx)
  | None => true
  end && gfp_matches (cc_gfp c) gfp.

Record req := { r_order : N; r_class : N; r_local : option N }.

(* the class configuration a request is generated from: first match, else `classes[0]` *)
Definition select (cfg : config) (order gfp : N) : res class_config :=
  match find (fun c => cfg_matches c order gfp) cfg with
  | Some c => Ok c
  | None => match cfg with c :: _ => Ok c | [] => Panic (SIndex 0) end
  end.

(* did the request fall through to the default `classes[0]`? (evidence histogram only) *)
Definition fell_through (cfg : config) (order gfp : N) : bool :=
  match find (fun c => cfg_matches c order gfp) cfg with Some _ => false | None => true end.

Definition mk_request (tl : count -> N -> N -> N -> res (option N))
           (c : class_config) (order core cores pid : N) : res req :=
  do l <- tl (cc_count c) core cores pid;
  Ok {| r_order := order; r_class := cc_id c; r_local := l |}.

Definition request_gen (tl : count -> N -> N -> N -> res (option N))
           (cfg : config) (order core cores pid gfp : N) : res req :=
  do c <- select cfg order gfp; mk_request tl c order core cores pid.

(* `ClassingConfig::request` (repaired) and the pinned variant *)
Definition request : config -> N -> N -> N -> N -> N -> res req := request_gen to_local.
Definition old_request : config -> N -> N -> N -> N -> N -> res req := request_gen old_to_local.

(* ---------- ClassingConfig::classing -> Classing::new -> Locals::new ---------- *)
(* the (class id, slot count) list handed to `Classing::new`, = `classing.classes()` *)
Definition classing_counts (cfg : config) (cores : N) : list (N * N) :=
  map (fun c => (cc_id c, to_count (cc_count c) cores)) cfg.

Definition CLASS_LEN : N := 8.     (* 1 << Class::BITS *)

Definition classing_new (counts : list (N * N)) : res (list (N * N)) :=
  if N.of_nat (length counts) <=? CLASS_LEN then Ok counts else Panic (SIndex 1).

(* `Locals::new`: an array of 8 optional slices; a later entry with the same id OVERWRITES the
   earlier one.  Only the slice lengths are modelled. *)
Fixpoint locals_fill (counts : list (N * N)) (arr : list (option N)) : res (list (option N)) :=
  match counts with
  | [] => Ok arr
  | (id, n) :: r =>
      if id <? CLASS_LEN then locals_fill r (upd arr (nn id) (Some n)) else Panic (SIndex 2)
  end.
Definition locals_new (counts : list (N * N)) : res (list (option N)) :=
  locals_fill counts (repeat None 8).

(* `Locals::class_locals(class)`; (for class >= 8 the Rust code panics, the model says None) *)
Definition class_locals (arr : list (option N)) (id : N) : option N :=
  match nth_error arr (nn id) with Some (Some n) => Some n | _ => None end.

(* slot count of class `id` in the allocator built from `cfg`, through all three steps *)
Definition allocator_slots (cfg : config) (cores id : N) : res (option N) :=
  do counts <- classing_new (classing_counts cfg cores);
  do arr <- locals_new counts;
  Ok (class_locals arr id).

(* ---------- specification, executable (the driver's oracle) ---------- *)
(* `ids`: the configured class ids; `slots`: what `classing(cores).classes()` reported.
   Valid: the class is configured and has an entry in `slots`, and the local index is below the
   slot count of EVERY entry for that class id. *)
Definition req_valid_b (ids : list N) (slots : list (N * N)) (r : req) : bool :=
  existsb (N.eqb (r_class r)) ids
  && existsb (fun e => fst e =? r_class r) slots
  && match r_local r with
     | None => true
     | Some i => forallb (fun e => negb (fst e =? r_class r) || (i <? snd e)) slots
     end.

(* ---------- hypotheses on configurations ---------- *)
(* class ids fit the 3 class bits of the allocator (else `Locals::new` indexes out of bounds) *)
Definition ids_small (cfg : config) : Prop := Forall (fun c => cc_id c < CLASS_LEN) cfg.
(* entries sharing a class id have the same slot-count kind (weaker than NoDup ids; the shipped
   results/classes-ilong.json has two entries with id 0, both `cores`) *)
Definition ids_consistent (cfg : config) : Prop :=
  forall c1 c2, In c1 cfg -> In c2 cfg -> cc_id c1 = cc_id c2 -> cc_count c1 = cc_count c2.

(* ---------- example configurations ---------- *)
Definition GFP_HIGHMEM : N := 0x02.
Definition GFP_MOVABLE : N := 0x08.
Definition GFP_RECLAIMABLE : N := 0x10.
Definition GFP_FS : N := 0x80.
Definition GFP_NOFAIL : N := 0x8000.
Definition GFP_NORETRY : N := 0x10000.
Definition GFP_PAGE_CACHE : N := 0x10000000.

(* /repo/results/classes.json *)
Definition ex_hard : gfp_match :=
  Any [Off GFP_HIGHMEM; On GFP_NOFAIL; Off GFP_FS; On GFP_NORETRY].
Definition ex_classes_json : config :=
  [ {| cc_id := 0; cc_count := CPids; cc_order := Some (0, 8); cc_gfp := Off GFP_MOVABLE |};
    {| cc_id := 1; cc_count := CPids; cc_order := Some (0, 8);
       cc_gfp := All [On GFP_MOVABLE; Off GFP_PAGE_CACHE; Not ex_hard] |};
    {| cc_id := 2; cc_count := CPids; cc_order := Some (0, 8);
       cc_gfp := All [On GFP_MOVABLE; On GFP_PAGE_CACHE; Not ex_hard] |};
    {| cc_id := 3; cc_count := CPids; cc_order := Some (0, 8);
       cc_gfp := All [On GFP_MOVABLE; ex_hard] |};
    {| cc_id := 4; cc_count := CCoresHalf; cc_order := Some (9, 10); cc_gfp := gfp_default |} ].

(* minimal configuration exhibiting D10 *)
Definition ex_one : config :=
  [ {| cc_id := 0; cc_count := COne; cc_order := None; cc_gfp := gfp_default |} ].

(* duplicate id with different kinds: the allocator keeps the LAST entry's slot count (1),
   `request` uses the FIRST matching entry's kind (cores) *)
Definition ex_dup : config :=
  [ {| cc_id := 0; cc_count := CCores; cc_order := None; cc_gfp := gfp_default |};
    {| cc_id := 0; cc_count := COne; cc_order := None; cc_gfp := gfp_default |} ].
