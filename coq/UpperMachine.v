(* M2: small-step semantics of the whole allocator (llfree.rs + trees.rs + local.rs on top of M1 =
   LowerMachine.v): one transition per atomic access of an `Atom`, any number of threads, any schedule.
   Definitions only.  This is the machine of the code with the repairs applied (as Upper.v).

   Shared state: an `upper` record of the sequential model (Upper.v): lower memory (frames, bitfields,
   huge entries), tree entries, local slots, default class.  Pure parts of the code (the transition
   functions of a tree entry / a slot, the candidate buffer, the walk order, `check`) are the
   definitions of Upper.v, so that a call running alone computes the big-step function of Upper.v
   (`usolo_agrees`, tested at the end of this file).

   Accesses:
   - tree entry: `load`; `try_update f` / `update f` = a load, then a compare-exchange that on failure
     receives the current value and re-evaluates f (the loop of `fetch_update`);  f = `change` with
     Online on an entry with counter 0 evaluates `fetch_free` = TREE_HUGE loads of huge entries
     (`Lower::stats_at(.., TREE_ORDER)`) before every compare-exchange;
   - local slot: `try_update f` likewise, `swap`;
   - lower allocator: M1 is EMBEDDED: while an upper call is inside `Lower::get/put`, its primitive is
     `PLow th` with th the M1 thread state (`TRun call pc`); a step builds a one-thread `mstate` over the
     shared lower memory, calls `mstep g` and writes the memory back; M1's event is passed through.

   Control: a thread inside a call is `URun c p k`: the primitive p in progress (always at an access) and
   a continuation stack k of small frames.  A primitive that completes delivers a value to the top
   frame; `resume` maps (value, frame) to the next action: run a primitive (pushing frames), return a
   value further down, or panic.  `settle` follows return chains (bounded).  Functions of the code are
   the `enter_*` definitions, their program points after a call/primitive are the `K*` frames.

   Ghost: `m2_held` = blocks handed out and not yet freed (as in M1), written only. *)
From LLF Require Import Base Row Bitfield Lower Sorted Upper LowerMachine.

(* ---------- packed words (what the hooks of the compiled code see) ---------- *)
(* Tree (u32): bits 0..27 free, 28 reserved, 29..31 class *)
Definition enc_tree (t : tree) : N := t_free t + (if t_res t then 268435456 else 0) + t_class t * 536870912.
Definition dec_tree (w : N) : tree :=
  {| t_free := w mod 268435456; t_res := N.testbit w 28; t_class := (w / 536870912) mod 8 |}.
(* LocalTree (u64): bits 0..43 row, 44..62 free, 63 present *)
Definition enc_slot (s : slot) : N :=
  s_row s + s_free s * 17592186044416 + (if s_pres s then 9223372036854775808 else 0).
Definition dec_slot (w : N) : slot :=
  {| s_pres := N.testbit w 63; s_row := w mod 17592186044416; s_free := (w / 17592186044416) mod 524288 |}.

Definition tree_eqb (a b : tree) : bool :=
  (t_free a =? t_free b) && Bool.eqb (t_res a) (t_res b) && (t_class a =? t_class b).
Definition slot_eqb (a b : slot) : bool :=
  Bool.eqb (s_pres a) (s_pres b) && (s_row a =? s_row b) && (s_free a =? s_free b).

(* ---------- calls ---------- *)
Inductive ucall :=
| UGet (frame : option N) (r : request)
| UPut (frame : N) (r : request)
| UDrain
| UChange (m : tree_match) (c : tree_change).

(* ---------- events ---------- *)
Inductive loc := LTree (i : N) | LSlot (c idx : N) | LEnt (h : N) | LRow (h r : N).
Inductive ukind := UKLoad | UKCas | UKSwap.
Record uevent := {
  ue_loc : loc;
  ue_kind : ukind;
  ue_off : N;            (* bit offset of the accessed lane (rows only) *)
  ue_width : N;          (* 32 tree, 64 slot, 16 entry, 8..64 row *)
  ue_val : N;            (* value read / found / previous (packed word) *)
  ue_new : N;            (* CAS: value to be written; swap: value written; load: 0 *)
  ue_ok : bool
}.
Definition ev_of_m1 (e : event) : uevent :=
  {| ue_loc := if ev_ent e then LEnt (ev_h e) else LRow (ev_h e) (ev_r e);
     ue_kind := match ev_kind e with KLoad => UKLoad | KCas => UKCas end;
     ue_off := ev_off e; ue_width := ev_width e; ue_val := ev_val e; ue_new := ev_new e; ue_ok := ev_ok e |}.
Definition uev (l : loc) (k : ukind) (w v n : N) (ok : bool) : uevent :=
  {| ue_loc := l; ue_kind := k; ue_off := 0; ue_width := w; ue_val := v; ue_new := n; ue_ok := ok |}.

(* ---------- defunctionalised closures ---------- *)
(* the closure of a tree `try_update` / `update` *)
Inductive tfun :=
| FSync (min : N)                                     (* Trees::sync *)
| FSteal (class free : N)                             (* Trees::steal *)
| FRos (free class : N)                               (* Trees::reserve_or_steal *)
| FUnres (free class : N)                             (* Trees::unreserve *)
| FChange (class : option N) (free : N) (ch : tree_change)   (* Trees::change_at *)
| FPut (free : N).                                    (* Trees::put (`update`: never None) *)
(* the closure of a slot `try_update` *)
Inductive sfun :=
| SGet (tree : option N) (free : N)                   (* Locals::get *)
| SGetNone (tree : option N) (free : N)               (* demote_any: v.get(..).map(|_| none()) *)
| SPut (tree free : N)                                (* Locals::put *)
| SSetStart (row : N).                                (* Locals::set_start *)
(* the `access` closure of search_best / search *)
Inductive acc :=
| AcRos (order : nat) (class local : N)               (* |i| reserve_or_steal(i, order, class, local) *)
| AcSteal (class : N) (order : nat)                   (* |i| steal_global(i, class, order, None) *)
| AcChange (mclass : option N) (mfree : N) (ch : tree_change).   (* |i| change_at(i, ..) *)
(* the `rate` closure of search_best *)
Inductive ratek :=
| RReq (class frames_ : N)                            (* get: global search *)
| RNear (class frames_ : N)                           (* search_and_reserve: neighbourhood *)
| RGlob (class frames_ : N).                          (* search_and_reserve: global *)

Record sbst := {                                      (* locals of search_best *)
  sb_acc : acc; sb_rate : ratek; sb_cap : nat; sb_start : N;
  sb_i : N;                                           (* next loop index *)
  sb_n : nat;                                         (* remaining iterations *)
  sb_best : list (N * N)                              (* candidate buffer (key, tree) ascending *)
}.

(* ---------- primitives: the access in progress ---------- *)
Inductive prim :=
| PLd (i : N)                                         (* tree load (search_best) *)
| PTL (i : N) (f : tfun)                              (* try_update/update: load *)
| PTF (i : N) (f : tfun) (cur : tree) (j a : N)       (* fetch_free inside f: load huge entry j of tree i, sum so far a *)
| PTC (i : N) (f : tfun) (cur new : tree)             (* compare_exchange(cur, new) *)
| PSL (c idx : N) (f : sfun)                          (* slot try_update: load *)
| PSC (c idx : N) (f : sfun) (cur new : slot)         (* slot compare_exchange *)
| PSW (c idx : N) (new : slot)                        (* slot swap *)
| PLow (th : thr).                                    (* inside Lower::get/put: the M1 thread *)

(* values delivered to a continuation frame *)
Inductive val :=
| VT (ok : bool) (old new : tree)                     (* tree primitive: Ok(old)/Err(old), value written *)
| VS (ok : bool) (old new : slot)
| VL (r : res N)                                      (* lower call (Ok / Err; panics stop the thread) *)
| VR (r : res (N * N))                                (* result of a function of llfree.rs (unit = (0,0)) *)
| VG (r : glr).                                       (* result of get_local *)

Inductive kframe :=
(* get *)
| KGet1 (r : request) (start0 : N)                    (* after get_local *)
| KGet2 (r : request) (frame : option N)              (* after the search: Err(Memory) -> steal_local *)
| KOom1 (r : request) (frame : option N)              (* after steal_local: Err(Memory) -> demote_local *)
(* get_at *)
| KAt1 (f : N) (r : request)                          (* after get_local *)
(* get_local *)
| KGL1 (order : nat) (class local : N) (frame : option N) (sync : bool)   (* after locals.get *)
| KGL2 (order : nat) (class local : N) (row : N)      (* after lower.get *)
| KGL3 (f class : N)                                  (* after set_start *)
| KGL4 (e : error) (t : N)                            (* after trees.put (undo) *)
| KGL5 (order : nat) (class local : N) (frame : option N) (t : N)         (* after trees.sync *)
| KGL6 (order : nat) (class local : N) (frame : option N) (t fr : N)      (* after locals.put *)
(* search_and_reserve *)
| KSR1 (order : nat) (class local start : N)          (* after the neighbourhood search *)
(* search_best *)
| KSBL (sb : sbst)                                    (* after the load of the entry at index sb_i - 1 *)
| KSBA (sb : sbst)                                    (* after access() of a perfect match *)
| KSBT (sb : sbst) (cands : list (N * N))             (* after access() of a cached candidate *)
(* Trees::search *)
| KSe (a : acc) (i : N) (n : nat)
(* reserve_or_steal *)
| KRS1 (i : N) (order : nat) (class local : N)        (* after trees.reserve_or_steal *)
| KRS2 (i : N) (order : nat) (local : N) (reserved : bool) (free tc : N)  (* after lower.get *)
| KRS3 (f tc : N)                                     (* after locals.swap *)
| KUnres (r : res (N * N))                            (* after trees.unreserve (expect), then return r *)
| KRetR (r : res (N * N))                             (* after trees.put, then return r *)
(* steal_global *)
| KSG1 (i : N) (order : nat) (frame : option N)
| KSG2 (i : N) (order : nat) (c : N)
(* steal_local *)
| KSL1 (r : request) (frame : option N) (i j : N)     (* after locals.get of slot j of class index i *)
| KSL2 (r : request) (row tc : N)                     (* after lower.get *)
(* demote_local *)
| KDL1 (r : request) (frame : option N) (i j : N)     (* after the try_update of the target slot *)
| KDL2 (r : request) (frame : option N) (row : N)     (* after the swap of the own slot *)
| KDL3 (r : request) (frame : option N) (row : N)     (* after trees.unreserve *)
| KDL4 (r : request) (row : N)                        (* after lower.get *)
(* put *)
| KPut1 (frame : N) (r : request)                     (* after lower.put *)
| KPut2 (frame : N) (r : request)                     (* after locals.put *)
(* drain *)
| KDr1 (c j : N)                                      (* after the swap of slot j of class c *)
| KDr2 (c j : N)                                      (* after trees.unreserve *)
(* change_at *)
| KCh.

Inductive act :=
| ADo (p : prim) (k : list kframe)
| ARet (v : val) (k : list kframe)
| APanic (s : site).

Inductive uthr :=
| UIdle (last : option (res (N * N)))                 (* result of the last completed call (unit = (0,0)) *)
| URun (c : ucall) (p : prim) (k : list kframe)
| UPanic (s : site) (c : ucall).

Record m2state := {
  m2_up : upper;
  m2_pool : list uthr;
  m2_held : list (N * nat)
}.

Section Machine2.
  Variable g : geom.
  Variable policy : N -> N -> N -> pol.
  Notation HF := (HF g).
  Notation TF := (TF g).
  Notation THUGE := (THUGE g).

  (* ----- the closures ----- *)
  Definition change_cond (t : tree) (class : option N) (free : N) : bool :=
    negb (t_res t) && (match class with None => true | Some k => k =? t_class t end) && (free <=? t_free t).
  (* does evaluating f on `t` call fetch_free? *)
  Definition needs_fetch (f : tfun) (t : tree) : bool :=
    match f with
    | FChange class free ch =>
        change_cond t class free && (match c_op ch with Some OpOnline => t_free t =? 0 | _ => false end)
    | _ => false
    end.
  Definition tf_apply (d : N) (f : tfun) (t : tree) (fetch : N) : option (res tree) :=
    match f with
    | FSync min => option_map Ok (tree_sync_steal t min)
    | FSteal class free => option_map Ok (tree_steal policy t class free)
    | FRos free class => option_map Ok (tree_reserve_or_steal policy t free class)
    | FUnres free class => tree_unreserve_add g policy d t free class
    | FChange class free ch => option_map Ok (tree_apply_change t class free ch fetch)
    | FPut free => Some (tree_put g policy d t free)
    end.
  (* slice index of `self.entries[i.0]` out of range *)
  Definition tf_site (f : tfun) : N :=
    match f with FPut _ => 30 | FSync _ => 31 | FSteal _ _ => 32 | FRos _ _ => 33 | FUnres _ _ => 34 | FChange _ _ _ => 36 end.

  Definition sf_apply (f : sfun) (s : slot) : option (res slot) :=
    match f with
    | SGet tree free => option_map Ok (slot_get g s tree free)
    | SGetNone tree free => option_map (fun _ => Ok slot_none) (slot_get g s tree free)
    | SPut tree free => slot_put g s tree free
    | SSetStart row => option_map Ok (slot_set_start g s row)
    end.

  Definition rate_apply (r : ratek) (t f : N) : pol :=
    match r with
    | RReq class fr => rate_req policy class fr t f
    | RNear class fr => match rate_req policy class fr t f with
                        | PMatch n => PMatch n
                        | PDemote => if f =? TF then PDemote else PInvalid
                        | _ => PInvalid end
    | RGlob class fr => match rate_req policy class fr t f with
                        | PMatch _ => PMatch 255
                        | PDemote => if f =? TF then PMatch 255 else PDemote
                        | p => p end
    end.

  (* ----- reading the configuration ----- *)
  Definition tree_ok (u : upper) (i : N) : bool := i <? ntrees u.
  Definition slot_ok (u : upper) (c idx : N) : bool :=
    match class_locals u c with Some len => idx <? len | None => false end.
  Definition slot_at (u : upper) (c idx : N) : option slot :=
    match class_slots u c with Some l => nth_error l (nn idx) | None => None end.

  Definition low_get_call (row : N) (order : nat) (frame : option N) : call :=
    match frame with Some f => CGetAt f order | None => CGet row order end.
  Definition enter_low (c : call) (k : list kframe) : act := ADo (PLow (TRun c (entry_pc g c))) k.

  (* `self.entries[i].try_update(f)` / `.update(f)` *)
  Definition enter_tu (u : upper) (i : N) (f : tfun) (k : list kframe) : act :=
    if tree_ok u i then ADo (PTL i f) k else APanic (SIndex (tf_site f)).
  Definition enter_tput (u : upper) (i free : N) (k : list kframe) : act := enter_tu u i (FPut free) k.

  (* ----- get_local (llfree.rs:424) ----- *)
  Definition enter_get_local (u : upper) (order : nat) (class local : N) (frame : option N) (sync : bool)
             (k : list kframe) : act :=
    match class_locals u class with
    | None => ARet (VG (GErr EMemory None)) k
    | Some len =>
        if local <? len
        then ADo (PSL class local (SGet (option_map (fun f => f / TF) frame) (pow2 order)))
                 (KGL1 order class local frame sync :: k)
        else APanic (SIndex 40)
    end.

  (* ----- the access closures ----- *)
  Definition enter_access (u : upper) (a : acc) (i : N) (k : list kframe) : act :=
    match a with
    | AcRos order class local => enter_tu u i (FRos (pow2 order) class) (KRS1 i order class local :: k)
    | AcSteal class order => enter_tu u i (FSteal class (pow2 order)) (KSG1 i order None :: k)
    | AcChange mclass mfree ch =>
        if tree_ok u i then ADo (PTL i (FChange mclass mfree ch)) (KCh :: k) else ARet (VR (Err EArgument)) k
    end.
  Definition enter_steal_global (u : upper) (i class : N) (order : nat) (frame : option N) (k : list kframe) : act :=
    enter_tu u i (FSteal class (pow2 order)) (KSG1 i order frame :: k).

  (* ----- search_best (trees.rs:197) ----- *)
  Definition sb_adv (sb : sbst) (best : list (N * N)) : sbst :=
    {| sb_acc := sb_acc sb; sb_rate := sb_rate sb; sb_cap := sb_cap sb; sb_start := sb_start sb;
       sb_i := sb_i sb + 1; sb_n := pred (sb_n sb); sb_best := best |}.
  Definition sb_try (u : upper) (sb : sbst) (cands : list (N * N)) (k : list kframe) : act :=
    match cands with
    | [] => ARet (VR (Err EMemory)) k
    | (_, i) :: r => enter_access u (sb_acc sb) i (KSBT sb r :: k)
    end.
  (* head of the loop *)
  Definition sb_next (u : upper) (sb : sbst) (k : list kframe) : act :=
    match sb_n sb with
    | O => sb_try u sb (sb_iter_rev (sb_best sb)) k
    | S _ =>
        let idx := walk_idx (sb_start sb) (ntrees u) (sb_i sb) in
        if tree_ok u idx then ADo (PLd idx) (KSBL (sb_adv sb (sb_best sb)) :: k) else APanic (SIndex 35)
    end.
  Definition enter_sb (u : upper) (a : acc) (rt : ratek) (cap : nat) (start offset len : N) (k : list kframe) : act :=
    if (0 <? len - offset) && (ntrees u =? 0) then APanic (SArith 1)
    else sb_next u {| sb_acc := a; sb_rate := rt; sb_cap := cap; sb_start := start; sb_i := offset;
                      sb_n := nn (len - offset); sb_best := [] |} k.

  (* Trees::search (trees.rs:246) *)
  Definition se_next (u : upper) (a : acc) (i : N) (n : nat) (k : list kframe) : act :=
    match n with
    | O => ARet (VR (Err EMemory)) k
    | S n' => enter_access u a (walk_idx 0 (ntrees u) i) (KSe a (i + 1) n' :: k)
    end.

  (* ----- search_and_reserve (llfree.rs:472) ----- *)
  Definition sr_start (u : upper) (start : N) : N :=
    let near := N.max (ntrees u / 16) 4 in align_down start (next_pow2 (2 * near)).
  Definition enter_search_and_reserve (u : upper) (order : nat) (class local start : N) (k : list kframe) : act :=
    let near := N.max (ntrees u / 16) 4 in
    let start := sr_start u start in
    if Nat.ltb order (hord g)
    then enter_sb u (AcRos order class local) (RNear class (pow2 order)) 3%nat start 1 near (KSR1 order class local start :: k)
    else enter_sb u (AcRos order class local) (RGlob class (pow2 order)) 8%nat start 0 (ntrees u) k.

  (* ----- steal_local (llfree.rs:563) + Locals::steal_any (local.rs:84) ----- *)
  (* next slot to try from class index i, slot index j on: (i, j) *)
  Fixpoint steal_scan (u : upper) (class free : N) (i j : N) (n : nat) : option (N * N) :=
    match n with
    | O => None
    | S n' =>
        if 8 <=? i then None else
        let tc := (i + class) mod 8 in
        match class_slots u tc with
        | None => steal_scan u class free (i + 1) 0 n'
        | Some l =>
            match policy class tc free with
            | PSteal | PMatch _ => if j <? N.of_nat (length l) then Some (i, j) else steal_scan u class free (i + 1) 0 n'
            | _ => steal_scan u class free (i + 1) 0 n'
            end
        end
    end.
  Definition sl_next (u : upper) (r : request) (frame : option N) (i j : N) (k : list kframe) : act :=
    let class := r_class r in
    let free := pow2 (r_order r) in
    match steal_scan u class free i j 9%nat with
    | None => ARet (VR (Err EMemory)) k
    | Some (i', j') =>
        let tc := (i' + class) mod 8 in
        let len := match class_locals u tc with Some n => n | None => 1 end in
        let index := match r_local r with Some x => x | None => 0 end in
        ADo (PSL tc ((index + j') mod len) (SGet (option_map (fun f => f / TF) frame) free))
            (KSL1 r frame i' j' :: k)
    end.
  Definition enter_steal_local (u : upper) (r : request) (frame : option N) (k : list kframe) : act :=
    sl_next u r frame 0 0 k.

  (* ----- demote_local (llfree.rs:538) + Locals::demote_any (local.rs:119) ----- *)
  Fixpoint demote_scan (u : upper) (class free : N) (i j : N) (n : nat) : option (N * N) :=
    match n with
    | O => None
    | S n' =>
        if 8 <=? i then None else
        let tc := (i + class) mod 8 in
        match class_slots u tc with
        | None => demote_scan u class free (i + 1) 0 n'
        | Some l =>
            match policy class tc free with
            | PDemote => if j <? N.of_nat (length l) then Some (i, j) else demote_scan u class free (i + 1) 0 n'
            | _ => demote_scan u class free (i + 1) 0 n'
            end
        end
    end.
  Definition dl_next (u : upper) (r : request) (frame : option N) (i j : N) (k : list kframe) : act :=
    let class := r_class r in
    let free := pow2 (r_order r) in
    match demote_scan u class free i j 9%nat with
    | None => ARet (VR (Err EMemory)) k
    | Some (i', j') =>
        let tc := (i' + class) mod 8 in
        let len := match class_locals u tc with Some n => n | None => 1 end in
        let index := match r_local r with Some x => x | None => 0 end in
        ADo (PSL tc ((index + j') mod len) (SGetNone (option_map (fun f => f / TF) frame) free))
            (KDL1 r frame i' j' :: k)
    end.
  Definition enter_demote_local (u : upper) (r : request) (frame : option N) (k : list kframe) : act :=
    match class_slots u (r_class r) with
    | None => ARet (VR (Err EMemory)) k
    | Some _ => dl_next u r frame 1 0 k
    end.

  (* ----- get_at / get (llfree.rs:398, 128) ----- *)
  Definition after_local (u : upper) (f : N) (r : request) (k : list kframe) : act :=
    enter_steal_global u (f / TF) (r_class r) (r_order r) (Some f) (KGet2 r (Some f) :: k).
  Definition enter_get_at (u : upper) (f : N) (r : request) (k : list kframe) : act :=
    match r_local r with
    | Some local => enter_get_local u (r_order r) (r_class r) local (Some f) true (KAt1 f r :: k)
    | None => after_local u f r k
    end.
  Definition get_start0 (u : upper) (r : request) : N :=
    let len := match class_locals u (r_class r) with Some n => n | None => 0 end in
    let lidx := match r_local r with Some i => i | None => 0 end in
    (if len =? 0 then 0 else ntrees u / len) * lidx.
  Definition enter_global (u : upper) (r : request) (k : list kframe) : act :=
    enter_sb u (AcSteal (r_class r) (r_order r)) (RReq (r_class r) (pow2 (r_order r))) 8%nat (get_start0 u r) 0 (ntrees u)
             (KGet2 r None :: k).
  Definition enter_get (u : upper) (frame : option N) (r : request) (k : list kframe) : act :=
    match check g u (match frame with Some f => f | None => 0 end) r with
    | Err e => ARet (VR (Err e)) k
    | Panic s => APanic s
    | Ok _ =>
        match frame with
        | Some f => enter_get_at u f r k
        | None =>
            let len := match class_locals u (r_class r) with Some n => n | None => 0 end in
            match r_local r with
            | Some local =>
                if (0 <? len) && (len <? ntrees u)
                then enter_get_local u (r_order r) (r_class r) local None true (KGet1 r (get_start0 u r) :: k)
                else enter_global u r k
            | None => enter_global u r k
            end
        end
    end.

  (* ----- put (llfree.rs:196) ----- *)
  Definition enter_put (u : upper) (frame : N) (r : request) (k : list kframe) : act :=
    match check g u frame r with
    | Err e => ARet (VR (Err e)) k
    | Panic s => APanic s
    | Ok _ => enter_low (CPut frame (r_order r)) (KPut1 frame r :: k)
    end.

  (* ----- drain (llfree.rs:226, local.rs:192) ----- *)
  Fixpoint drain_scan (u : upper) (c j : N) (n : nat) : option (N * N) :=
    match n with
    | O => None
    | S n' =>
        if 8 <=? c then None else
        match class_locals u c with
        | Some len => if j <? len then Some (c, j) else drain_scan u (c + 1) 0 n'
        | None => drain_scan u (c + 1) 0 n'
        end
    end.
  Definition dr_next (u : upper) (c j : N) (k : list kframe) : act :=
    match drain_scan u c j 9%nat with
    | None => ARet (VR (Ok (0, 0))) k
    | Some (c', j') => ADo (PSW c' j' slot_none) (KDr1 c' j' :: k)
    end.

  (* ----- change_tree (llfree.rs:263, trees.rs:270) ----- *)
  Definition enter_change (u : upper) (m : tree_match) (ch : tree_change) (k : list kframe) : act :=
    let a := AcChange (m_class m) (m_free m) ch in
    match m_id m with
    | Some i => enter_access u a i k
    | None => if ntrees u =? 0 then ARet (VR (Err EMemory)) k else se_next u a 0 (length (trees u)) k
    end.

  Definition enter_call (u : upper) (c : ucall) : act :=
    match c with
    | UGet frame r => enter_get u frame r []
    | UPut frame r => enter_put u frame r []
    | UDrain => dr_next u 0 0 []
    | UChange m ch => enter_change u m ch []
    end.

  Definition ret_r (r : res (N * N)) (k : list kframe) : act :=
    match r with Panic s => APanic s | _ => ARet (VR r) k end.
  Definition bad : act := APanic (SArith 97).        (* a value of the wrong kind reached a frame: unreachable *)

  (* ----- the program points after a primitive / a call ----- *)
  Definition resume (u : upper) (v : val) (f : kframe) (k : list kframe) : act :=
    match f, v with
    (* --- get --- *)
    | KGet1 r start0, VG x =>
        match x with
        | GOk fr c => ARet (VR (Ok (fr, c))) k
        | GPanic s => APanic s
        | GErr EMemory t =>
            let start := match t with Some s => s | None => start0 end in
            match r_local r with
            | Some local => enter_search_and_reserve u (r_order r) (r_class r) local start (KGet2 r None :: k)
            | None => bad
            end
        | GErr e _ => ARet (VR (Err e)) k
        end
    | KGet2 r frame, VR x =>
        match x with
        | Err EMemory => enter_steal_local u r frame (KOom1 r frame :: k)
        | other => ret_r other k
        end
    | KOom1 r frame, VR x =>
        match x with
        | Err EMemory => enter_demote_local u r frame k
        | other => ret_r other k
        end
    (* --- get_at --- *)
    | KAt1 fr r, VG x =>
        match x with
        | GErr EMemory _ => after_local u fr r k
        | GOk f' c => ARet (VR (Ok (f', c))) k
        | GErr e _ => ARet (VR (Err e)) k
        | GPanic s => APanic s
        end
    (* --- get_local --- *)
    | KGL1 order class local frame sync, VS ok old _ =>
        if ok then enter_low (low_get_call (s_row old) order frame) (KGL2 order class local (s_row old) :: k)
        else if s_pres old then
          let t := row_tree g (s_row old) in
          if sync && (match frame with None => true | Some fr => fr / TF =? t end) then
            if pow2 order <? s_free old then APanic (SArith 2)
            else enter_tu u t (FSync (pow2 order - s_free old)) (KGL5 order class local frame t :: k)
          else ARet (VG (GErr EMemory (Some t))) k
        else ARet (VG (GErr EMemory None)) k
    | KGL2 order class local row, VL x =>
        match x with
        | Ok fr =>
            if row =? fr / 64 then ARet (VG (GOk fr class)) k
            else match class_locals u class with
                 | None => ARet (VG (GOk fr class)) k
                 | Some len => if local <? len then ADo (PSL class local (SSetStart (fr / 64))) (KGL3 fr class :: k)
                               else APanic (SIndex 43)
                 end
        | Err e => enter_tput u (row_tree g row) (pow2 order) (KGL4 e (row_tree g row) :: k)
        | Panic s => APanic s
        end
    | KGL3 fr class, VS _ _ _ => ARet (VG (GOk fr class)) k
    | KGL4 e t, VT _ _ _ => ARet (VG (GErr e (Some t))) k
    | KGL5 order class local frame t, VT ok old _ =>
        if ok then
          match class_locals u class with
          | None => enter_tput u t (t_free old) (KGL4 EMemory t :: k)
          | Some len => if local <? len then ADo (PSL class local (SPut t (t_free old))) (KGL6 order class local frame t (t_free old) :: k)
                        else APanic (SIndex 41)
          end
        else ARet (VG (GErr EMemory (Some t))) k
    | KGL6 order class local frame t fr, VS ok _ _ =>
        if ok then enter_get_local u order class local frame false k
        else enter_tput u t fr (KGL4 EMemory t :: k)
    (* --- search_and_reserve --- *)
    | KSR1 order class local start, VR x =>
        match x with
        | Err EMemory => enter_sb u (AcRos order class local) (RGlob class (pow2 order)) 8%nat start 0 (ntrees u) k
        | other => ret_r other k
        end
    (* --- search_best: sb is already advanced past the entry that was loaded --- *)
    | KSBL sb, VT _ t _ =>
        let idx := walk_idx (sb_start sb) (ntrees u) (sb_i sb - 1) in
        if t_res t then sb_next u sb k else
        match rate_apply (sb_rate sb) (t_class t) (t_free t) with
        | PMatch 255 => enter_access u (sb_acc sb) idx (KSBA sb :: k)
        | PInvalid => sb_next u sb k
        | p => sb_next u {| sb_acc := sb_acc sb; sb_rate := sb_rate sb; sb_cap := sb_cap sb; sb_start := sb_start sb;
                            sb_i := sb_i sb; sb_n := sb_n sb;
                            sb_best := sb_add N.leb (sb_cap sb) (sb_best sb) (cand_key p (t_free t =? TF), idx) |} k
        end
    | KSBA sb, VR x =>
        match x with
        | Err EMemory => sb_next u sb k
        | other => ret_r other k
        end
    | KSBT sb cands, VR x =>
        match x with
        | Err EMemory => sb_try u sb cands k
        | other => ret_r other k
        end
    | KSe a i n, VR x =>
        match x with
        | Err EMemory => se_next u a i n k
        | other => ret_r other k
        end
    (* --- reserve_or_steal --- *)
    | KRS1 i order class local, VT ok old new =>
        if ok then enter_low (CGet (tree_row g i) order) (KRS2 i order local (t_res new) (t_free old) (t_class new) :: k)
        else ARet (VR (Err EMemory)) k
    | KRS2 i order local reserved free tc, VL x =>
        match x with
        | Ok fr =>
            if reserved then
              match class_locals u tc with
              | Some len =>
                  if 0 <? len
                  then ADo (PSW tc (local mod len) {| s_pres := true; s_row := tree_row g (fr / TF); s_free := free - pow2 order |})
                           (KRS3 fr tc :: k)
                  else ARet (VR (Ok (fr, tc))) k
              | None => ARet (VR (Ok (fr, tc))) k
              end
            else ARet (VR (Ok (fr, tc))) k
        | Err e =>
            if reserved then enter_tu u i (FUnres free tc) (KUnres (Err e) :: k)
            else enter_tput u i (pow2 order) (KRetR (Err e) :: k)
        | Panic s => APanic s
        end
    | KRS3 fr tc, VS _ old _ =>
        if s_pres old then enter_tu u (row_tree g (s_row old)) (FUnres (s_free old) tc) (KUnres (Ok (fr, tc)) :: k)
        else ARet (VR (Ok (fr, tc))) k
    | KUnres r, VT ok _ _ => if ok then ret_r r k else APanic SUnreserveFailed
    | KRetR r, VT _ _ _ => ret_r r k
    (* --- steal_global --- *)
    | KSG1 i order frame, VT ok _ new =>
        if ok then enter_low (low_get_call (tree_row g i) order frame) (KSG2 i order (t_class new) :: k)
        else ARet (VR (Err EMemory)) k
    | KSG2 i order c, VL x =>
        match x with
        | Ok fr => ARet (VR (Ok (fr, c))) k
        | Err e => enter_tput u i (pow2 order) (KRetR (Err e) :: k)
        | Panic s => APanic s
        end
    (* --- steal_local --- *)
    | KSL1 r frame i j, VS ok old _ =>
        if ok then enter_low (low_get_call (s_row old) (r_order r) frame) (KSL2 r (s_row old) ((i + r_class r) mod 8) :: k)
        else sl_next u r frame i (j + 1) k
    | KSL2 r row tc, VL x =>
        match x with
        | Err EMemory => enter_tput u (row_tree g row) (pow2 (r_order r)) (KRetR (Err EMemory) :: k)
        | Ok fr => ARet (VR (Ok (fr, tc))) k
        | Err e => ARet (VR (Err e)) k
        | Panic s => APanic s
        end
    (* --- demote_local --- *)
    | KDL1 r frame i j, VS ok old _ =>
        if ok then
          match slot_get g old (option_map (fun f => f / TF) frame) (pow2 (r_order r)) with
          | None => APanic (SArith 3)                  (* `.unwrap()` of a get that just succeeded *)
          | Some new =>
              match r_local r with
              | Some lc =>
                  match class_locals u (r_class r) with
                  | None => APanic (SIndex 46)
                  | Some len => if lc <? len then ADo (PSW (r_class r) lc new) (KDL2 r frame (s_row new) :: k)
                                else APanic (SIndex 47)
                  end
              | None =>
                  enter_tu u (row_tree g (s_row new)) (FUnres (s_free new) (r_class r)) (KDL3 r frame (s_row new) :: k)
              end
          end
        else dl_next u r frame i (j + 1) k
    | KDL2 r frame row, VS _ old _ =>
        if s_pres old
        then enter_tu u (row_tree g (s_row old)) (FUnres (s_free old) (r_class r)) (KDL3 r frame row :: k)
        else enter_low (low_get_call row (r_order r) frame) (KDL4 r row :: k)
    | KDL3 r frame row, VT ok _ _ =>
        if ok then enter_low (low_get_call row (r_order r) frame) (KDL4 r row :: k) else APanic SUnreserveFailed
    | KDL4 r row, VL x =>
        match x with
        | Err EMemory => enter_tput u (row_tree g row) (pow2 (r_order r)) (KRetR (Err EMemory) :: k)
        | Ok fr => ARet (VR (Ok (fr, r_class r))) k
        | Err e => ARet (VR (Err e)) k
        | Panic s => APanic s
        end
    (* --- put --- *)
    | KPut1 frame r, VL x =>
        match x with
        | Ok _ =>
            match r_local r with
            | Some local =>
                match class_locals u (r_class r) with
                | None => enter_tput u (frame / TF) (pow2 (r_order r)) (KRetR (Ok (0, 0)) :: k)
                | Some len =>
                    if local <? len then ADo (PSL (r_class r) local (SPut (frame / TF) (pow2 (r_order r)))) (KPut2 frame r :: k)
                    else APanic (SIndex 41)
                end
            | None => enter_tput u (frame / TF) (pow2 (r_order r)) (KRetR (Ok (0, 0)) :: k)
            end
        | Err e => ARet (VR (Err e)) k
        | Panic s => APanic s
        end
    | KPut2 frame r, VS ok _ _ =>
        if ok then ARet (VR (Ok (0, 0))) k
        else enter_tput u (frame / TF) (pow2 (r_order r)) (KRetR (Ok (0, 0)) :: k)
    (* --- drain --- *)
    | KDr1 c j, VS _ old _ =>
        if s_pres old then enter_tu u (row_tree g (s_row old)) (FUnres (s_free old) c) (KDr2 c j :: k)
        else dr_next u c (j + 1) k
    | KDr2 c j, VT ok _ _ => if ok then dr_next u c (j + 1) k else APanic SUnreserveFailed
    (* --- change_at --- *)
    | KCh, VT ok _ _ => ARet (VR (if ok then Ok (0, 0) else Err EMemory)) k
    | _, _ => bad
    end.

  (* ----- one step ----- *)
  Inductive outcome :=
  | OStay (p : prim)                (* the primitive continues *)
  | OVal (v : val)                  (* it completed with a value *)
  | OCrash (s : site).

  (* after reading `cur` (load or failed compare-exchange): evaluate the closure *)
  Definition tu_eval (u : upper) (i : N) (f : tfun) (cur : tree) : outcome :=
    if needs_fetch f cur then OStay (PTF i f cur 0 0) else
    match tf_apply (dflt u) f cur 0 with
    | None => OVal (VT false cur cur)
    | Some (Ok new) => OStay (PTC i f cur new)
    | Some (Panic s) => OCrash s
    | Some (Err _) => OCrash (SArith 96)
    end.
  Definition tu_eval_fetched (u : upper) (i : N) (f : tfun) (cur : tree) (fetch : N) : outcome :=
    match tf_apply (dflt u) f cur fetch with
    | None => OVal (VT false cur cur)
    | Some (Ok new) => OStay (PTC i f cur new)
    | Some (Panic s) => OCrash s
    | Some (Err _) => OCrash (SArith 96)
    end.
  Definition su_eval (c idx : N) (f : sfun) (cur : slot) : outcome :=
    match sf_apply f cur with
    | None => OVal (VS false cur cur)
    | Some (Ok new) => OStay (PSC c idx f cur new)
    | Some (Panic s) => OCrash s
    | Some (Err _) => OCrash (SArith 96)
    end.

  Definition m1_view (u : upper) (th : thr) : mstate :=
    {| ms_frames := frames (low u); ms_ents := ents (low u); ms_bfs := bfs (low u); ms_pool := [th]; ms_held := [] |}.

  (* the access of primitive p on the shared state *)
  Definition prim_step (u : upper) (p : prim) : upper * option uevent * outcome :=
    match p with
    | PLd i =>
        match tree_at u i with
        | None => (u, None, OCrash (SIndex 35))
        | Some t => (u, Some (uev (LTree i) UKLoad 32 (enc_tree t) 0 true), OVal (VT true t t))
        end
    | PTL i f =>
        match tree_at u i with
        | None => (u, None, OCrash (SIndex (tf_site f)))
        | Some t => (u, Some (uev (LTree i) UKLoad 32 (enc_tree t) 0 true), tu_eval u i f t)
        end
    | PTF i f cur j a =>
        let h := i * THUGE + j in
        match nth_error (ents (low u)) (nn h) with
        | None => (u, None, OCrash (SIndex 36))
        | Some e =>
            let a' := a + e_free e in
            (u, Some (uev (LEnt h) UKLoad 16 e 0 true),
             if j + 1 <? THUGE then OStay (PTF i f cur (j + 1) a') else tu_eval_fetched u i f cur a')
        end
    | PTC i f cur new =>
        match tree_at u i with
        | None => (u, None, OCrash (SIndex (tf_site f)))
        | Some t =>
            if tree_eqb t cur
            then (set_tree u i new, Some (uev (LTree i) UKCas 32 (enc_tree t) (enc_tree new) true), OVal (VT true cur new))
            else (u, Some (uev (LTree i) UKCas 32 (enc_tree t) (enc_tree new) false), tu_eval u i f t)
        end
    | PSL c idx f =>
        match slot_at u c idx with
        | None => (u, None, OCrash (SIndex 40))
        | Some s => (u, Some (uev (LSlot c idx) UKLoad 64 (enc_slot s) 0 true), su_eval c idx f s)
        end
    | PSC c idx f cur new =>
        match slot_at u c idx with
        | None => (u, None, OCrash (SIndex 40))
        | Some s =>
            if slot_eqb s cur
            then (set_slot u c idx new, Some (uev (LSlot c idx) UKCas 64 (enc_slot s) (enc_slot new) true), OVal (VS true cur new))
            else (u, Some (uev (LSlot c idx) UKCas 64 (enc_slot s) (enc_slot new) false), su_eval c idx f s)
        end
    | PSW c idx new =>
        match slot_at u c idx with
        | None => (u, None, OCrash (SIndex 42))
        | Some s => (set_slot u c idx new, Some (uev (LSlot c idx) UKSwap 64 (enc_slot s) (enc_slot new) true), OVal (VS true s new))
        end
    | PLow th =>
        match th with
        | TRun c _ =>
            let '(ms', ev) := mstep g (m1_view u th) O c in
            let u' := with_low u {| frames := ms_frames ms'; bfs := ms_bfs ms'; ents := ms_ents ms' |} in
            let ev' := option_map ev_of_m1 ev in
            match nth_error (ms_pool ms') O with
            | Some (TRun c' p') => (u', ev', OStay (PLow (TRun c' p')))
            | Some (TIdle (Some (Ok x))) => (u', ev', OVal (VL (Ok x)))
            | Some (TIdle (Some (Err e))) => (u', ev', OVal (VL (Err e)))
            | Some (TIdle (Some (Panic s))) => (u', ev', OCrash s)
            | Some (TPanic s _) => (u', ev', OCrash s)
            | _ => (u', ev', OCrash (SArith 95))
            end
        | _ => (u, None, OCrash (SArith 95))
        end
    end.

  (* follow return chains until a primitive is reached or the call is over *)
  Inductive settled :=
  | SRun (p : prim) (k : list kframe)
  | SDone (r : res (N * N))
  | SCrash (s : site).
  Fixpoint settle (fuel : nat) (u : upper) (a : act) : settled :=
    match a with
    | ADo p k => SRun p k
    | APanic s => SCrash s
    | ARet v [] => match v with
                   | VR (Panic s) => SCrash s
                   | VR r => SDone r
                   | _ => SCrash (SArith 97)
                   end
    | ARet v (f :: k) =>
        match fuel with
        | O => SCrash (SArith 98)
        | S fuel' => settle fuel' u (resume u v f k)
        end
    end.
  Definition SETTLE : nat := 64%nat.

  Definition set_uthr (s : m2state) (t : nat) (x : uthr) : m2state :=
    {| m2_up := m2_up s; m2_pool := upd (m2_pool s) t x; m2_held := m2_held s |}.
  Definition with_up (s : m2state) (u : upper) : m2state :=
    {| m2_up := u; m2_pool := m2_pool s; m2_held := m2_held s |}.
  Definition with_held (s : m2state) (h : list (N * nat)) : m2state :=
    {| m2_up := m2_up s; m2_pool := m2_pool s; m2_held := h |}.

  (* the call is over *)
  Definition ufinish (s : m2state) (t : nat) (c : ucall) (r : res (N * N)) : m2state :=
    let s1 := set_uthr s t (UIdle (Some r)) in
    match c, r with
    | UGet _ rq, Ok (f, _) => with_held s1 ((f, r_order rq) :: m2_held s1)
    | _, _ => s1
    end.
  Definition apply_settled (s : m2state) (t : nat) (c : ucall) (x : settled) : m2state :=
    match x with
    | SRun p k => set_uthr s t (URun c p k)
    | SDone r => ufinish s t c r
    | SCrash x => set_uthr s t (UPanic x c)
    end.

  (* one step of thread t; `c0` is the call to start if the thread is idle (no access, no event) *)
  Definition ustep (s : m2state) (t : nat) (c0 : ucall) : m2state * option uevent :=
    match nth_error (m2_pool s) t with
    | None => (s, None)
    | Some (UPanic _ _) => (s, None)
    | Some (UIdle _) =>
        let start (s1 : m2state) := apply_settled s1 t c0 (settle SETTLE (m2_up s1) (enter_call (m2_up s1) c0)) in
        match c0 with
        | UPut f rq =>
            (* the client frees blocks it holds (or aligned parts of them) *)
            match client_take (m2_held s) f (r_order rq) with
            | Some h' => (start (with_held s h'), None)
            | None => (s, None)
            end
        | _ => (start s, None)
        end
    | Some (URun c p k) =>
        let '(u', ev, o) := prim_step (m2_up s) p in
        let s1 := with_up s u' in
        (match o with
         | OStay p' => set_uthr s1 t (URun c p' k)
         | OVal v => apply_settled s1 t c (settle SETTLE u' (ARet v k))
         | OCrash x => set_uthr s1 t (UPanic x c)
         end, ev)
    end.

  Definition urun (sch : list (nat * ucall)) (s : m2state) : m2state :=
    fold_left (fun s tc => fst (ustep s (fst tc) (snd tc))) sch s.

  Definition uboot (u : upper) (held0 : list (N * nat)) (n : nat) : m2state :=
    {| m2_up := u; m2_pool := repeat (UIdle None) n; m2_held := held0 |}.

  Definition upanicked (s : m2state) : list site :=
    flat_map (fun x => match x with UPanic p _ => [p] | _ => [] end) (m2_pool s).

  (* C01's predicate on the ghost (as M1's `held_ok`) *)
  Definition uheld_ok (s : m2state) : bool :=
    forallb (blk_ok (frames (low (m2_up s)))) (m2_held s) && pairwise_disjoint (m2_held s).

  (* ================= a call running alone = the big-step function of Upper.v ================= *)
  (* run thread 0 of a one-thread machine until it settles *)
  Fixpoint usolo (fuel : nat) (s : m2state) (c : ucall) : m2state :=
    match fuel with
    | O => s
    | S fuel' =>
        match nth_error (m2_pool s) O with
        | Some (URun _ _ _) => usolo fuel' (fst (ustep s O c)) c
        | _ => s
        end
    end.

  Definition ubig (u : upper) (c : ucall) : res (N * N) * upper :=
    match c with
    | UGet frame r => llfree_get g policy u frame r
    | UPut frame r => match llfree_put g policy u frame r with
                      | (Ok _, u') => (Ok (0, 0), u') | (Err e, u') => (Err e, u') | (Panic x, u') => (Panic x, u') end
    | UDrain => match llfree_drain g policy u with
                | (Ok _, u') => (Ok (0, 0), u') | (Err e, u') => (Err e, u') | (Panic x, u') => (Panic x, u') end
    | UChange m ch => match llfree_change_tree g u m ch with
                      | (Ok _, u') => (Ok (0, 0), u') | (Err e, u') => (Err e, u') | (Panic x, u') => (Panic x, u') end
    end.

  Definition list_eqb {A} (eq : A -> A -> bool) (a b : list A) : bool :=
    Nat.eqb (length a) (length b) && forallb (fun p => eq (fst p) (snd p)) (combine a b).
  Definition lower_eqb (a b : lower) : bool :=
    (frames a =? frames b) && list_eqb (list_eqb N.eqb) (bfs a) (bfs b) && list_eqb N.eqb (ents a) (ents b).
  Definition oslots_eqb (a b : option (list slot)) : bool :=
    match a, b with
    | Some x, Some y => list_eqb slot_eqb x y
    | None, None => true
    | _, _ => false
    end.
  Definition upper_eqb (a b : upper) : bool :=
    lower_eqb (low a) (low b) && list_eqb tree_eqb (trees a) (trees b) &&
    list_eqb oslots_eqb (locals a) (locals b) && (dflt a =? dflt b).
  Definition error_eqb (a b : error) : bool :=
    match a, b with EMemory, EMemory | EArgument, EArgument | EInit, EInit => true | _, _ => false end.

  (* held blocks that make the call startable: a put needs its block *)
  Definition solo_held (c : ucall) : list (N * nat) :=
    match c with UPut f r => [(f, r_order r)] | _ => [] end.

  (* Ok / Err: same result and same final state; Panic: the thread stops in some panic state
     (the sites agree for the tested sequences, see `usolo_site_agrees`) *)
  Definition usolo_agrees (u : upper) (c : ucall) (fuel : nat) : bool :=
    let s := usolo fuel (fst (ustep (uboot u (solo_held c) 1%nat) O c)) c in
    match ubig u c, nth_error (m2_pool s) 0 with
    | (Ok (a, b), u'), Some (UIdle (Some (Ok (a', b')))) => (a =? a') && (b =? b') && upper_eqb u' (m2_up s)
    | (Err e, u'), Some (UIdle (Some (Err e'))) => error_eqb e e' && upper_eqb u' (m2_up s)
    | (Panic _, _), Some (UPanic _ _) => true
    | _, _ => false
    end.
End Machine2.
