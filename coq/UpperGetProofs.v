(* Proofs about `llfree_get` of the sequential upper-allocator model (Upper.v).
   Contents:
   - Section C13: `llfree_get_class` (class of a successful get; any policy, no invariant)
   - Section LgetLow: `lget_low_spec` (the lower attempt through the `lower_facts` interface)
   - `ordered_policy` and its policy facts; `upper_inv_needs_demote_trans` (why `pol_demote_trans`)
   - Section Frame: `*_frame` / `*_low` (configuration of locals, default class, number of trees, `low`)
   - Section AnyStruct: structure of steal_any / demote_any results
   - Section GetInv: the postcondition `get_post` / `GP` of every allocation attempt and the helper lemmas
     `steal_global_G`, `get_local_G`, `reserve_or_steal_G`, `steal_local_G`, `demote_local_G`,
     `search_best_GP`, `search_and_reserve_GP`, `get_at_GP`, `llfree_get_GP`
   - Section GetTheorems: `llfree_get_inv` (C09), `llfree_get_spec` (C02), `llfree_get_visible`,
     `llfree_get_not_hidden` (C15), `llfree_get_frame`
   - Module GetExamples: non-vacuity by vm_compute.
   Hypotheses: wf_geom g, lower_facts g, pol_refl_match policy, pol_demote_trans policy. *)
From LLF Require Import Base Row Bitfield Lower Spec Sorted Upper UpperInvDef LowerFacts UpperPrims UpperGetLoops.
From Coq Require Import Permutation PeanoNat.

Ltac inv H := inversion H; subst; clear H.

(* keep the kernel from unrolling the fuel-driven loops when it checks conversions at Qed *)
Local Strategy 900 [locals_steal_any locals_demote_any search_best].
Local Strategy 1000 [steal_any_loop demote_any_loop steal_slots demote_slots
  get_local sb_loop sb_try search_loop lower_get_opt lower_get lower_get_at lget_low
  trees_put trees_sync trees_steal trees_reserve_or_steal trees_unreserve
  locals_get locals_put locals_swap locals_set_start].
Local Strategy 500 [steal_global reserve_or_steal steal_local demote_local].
Local Strategy 400 [search_and_reserve].
Local Strategy 300 [get_at].

(* ============================================================================================== *)
(* C13: the class returned by a successful get is the requested class, or a class for which the
   policy (evaluated in the same call) said Match or Steal.  Path-local: holds for any policy and
   any state. *)
Section C13.
  Variable g : geom.
  Variable policy : N -> N -> N -> pol.

  Definition class_ok (rc c' : N) : Prop :=
    c' = rc \/ exists t fr, c' = t /\ (pol_is_match (policy rc t fr) = true \/ policy rc t fr = PSteal).

  Lemma class_ok_refl rc : class_ok rc rc.
  Proof. left; reflexivity. Qed.

  Lemma trees_steal_class u i class free c u' :
    trees_steal policy u i class free = (Ok (Some c), u') -> class_ok class c.
  Proof.
    unfold trees_steal. destruct (tree_at u i) as [t|]; [|discriminate].
    unfold tree_steal. destruct ((free <=? t_free t) && negb (t_res t)); [|discriminate].
    destruct (policy class (t_class t) free) eqn:Ep; intros H; inv H; cbn [t_class].
    - left; reflexivity.
    - left; reflexivity.
    - right. exists (t_class t), free. split; [reflexivity|right; exact Ep].
  Qed.

  Lemma trees_reserve_or_steal_class u i class free rsv fr tc u' :
    trees_reserve_or_steal policy u i class free = (Ok (Some (rsv, fr, tc)), u') -> class_ok class tc.
  Proof.
    unfold trees_reserve_or_steal. destruct (tree_at u i) as [t|]; [|discriminate].
    unfold tree_reserve_or_steal. destruct ((free <=? t_free t) && negb (t_res t)); [|discriminate].
    destruct (policy class (t_class t) free) eqn:Ep; intros H; inv H; cbn [t_class].
    - left; reflexivity.
    - left; reflexivity.
    - right. exists (t_class t), free. split; [reflexivity|right; exact Ep].
  Qed.

  Lemma steal_global_class u i class order frame f c u' :
    steal_global g policy u i class order frame = (Ok (f, c), u') -> class_ok class c.
  Proof.
    unfold steal_global, lift.
    destruct (trees_steal policy u i class (pow2 order)) as [[[c0|]|e|s] u1] eqn:E; try discriminate.
    destruct (lget_low g u1 (tree_row g i) order frame) as [[f1|e|s] u2].
    - intros H; inv H. eapply trees_steal_class; eauto.
    - destruct (trees_put g policy u2 i (pow2 order)) as [[[]|?|?] ?]; discriminate.
    - discriminate.
  Qed.

  Lemma reserve_or_steal_class u i order class local f c u' :
    reserve_or_steal g policy u i order class local = (Ok (f, c), u') -> class_ok class c.
  Proof.
    unfold reserve_or_steal, lift.
    destruct (trees_reserve_or_steal policy u i class (pow2 order)) as [[[[[rsv fr] tc]|]|e|s] u1] eqn:E;
      try discriminate.
    pose proof (trees_reserve_or_steal_class _ _ _ _ _ _ _ _ E) as Hc.
    destruct (lget_low g u1 (tree_row g i) order None) as [[f1|e|s] u2].
    - destruct rsv; [|intros H; inv H; exact Hc].
      destruct (class_locals u2 tc) as [len|]; [|intros H; inv H; exact Hc].
      destruct (0 <? len); [|intros H; inv H; exact Hc].
      destruct (locals_swap g u2 tc (local mod len) (f1 / TF g) (fr - pow2 order)) as [[[rv|]|?|?] u3];
        try discriminate; [|intros H; inv H; exact Hc].
      destruct (trees_unreserve g policy u3 (row_tree g (rv_row rv)) (rv_free rv) tc) as [[[]|?|?] u4];
        try discriminate.
      intros H; inv H; exact Hc.
    - destruct rsv.
      + destruct (trees_unreserve g policy u2 i fr tc) as [[[]|?|?] ?]; discriminate.
      + destruct (trees_put g policy u2 i (pow2 order)) as [[[]|?|?] ?]; discriminate.
    - discriminate.
  Qed.

  Lemma get_local_class fuel : forall u order class local frame sync f c u',
    get_local g policy fuel u order class local frame sync = (GOk f c, u') -> c = class.
  Proof.
    induction fuel as [|fuel IH]; intros u order class local frame sync f c u' H; cbn [get_local] in H;
      [discriminate|].
    destruct (locals_get g u class local (option_map (fun f0 => f0 / TF g) frame) (pow2 order))
      as [[row|rv| |s] u1]; try discriminate.
    - destruct (lget_low g u1 row order frame) as [[f1|e|s] u2]; try discriminate.
      + destruct (negb (row =? f1 / 64)).
        * destruct (locals_set_start g u2 class local (f1 / 64)) as [[[]|?|?] u3]; try discriminate;
            inv H; reflexivity.
        * inv H; reflexivity.
      + destruct (trees_put g policy u2 (row_tree g row) (pow2 order)) as [[[]|?|?] ?]; discriminate.
    - destruct (sync && _); [|discriminate].
      destruct (pow2 order <? rv_free rv); [discriminate|].
      destruct (trees_sync u1 (row_tree g (rv_row rv)) (pow2 order - rv_free rv)) as [[[fr|]|?|?] u2];
        try discriminate.
      destruct (locals_put g u2 class local (row_tree g (rv_row rv)) fr) as [[[|]|?|?] u3];
        try discriminate.
      + eauto.
      + destruct (trees_put g policy u3 (row_tree g (rv_row rv)) fr) as [[[]|?|?] ?]; discriminate.
  Qed.

  Lemma steal_any_loop_class n : forall u class index tree free i rv u',
    steal_any_loop g policy u class index tree free i n = (Ok (Some rv), u') ->
    class_ok class (rv_class rv).
  Proof.
    induction n as [|n IH]; intros u class index tree free i rv u' H; cbn [steal_any_loop] in H;
      [discriminate|].
    destruct (class_slots u ((i + class) mod 8)) as [l|]; [|eauto].
    destruct (policy class ((i + class) mod 8) free) eqn:Ep; eauto.
    - destruct (steal_slots g u ((i + class) mod 8) index (N.of_nat (length l)) tree free 0 (length l))
        as [[[row|?| |?] ?]|]; eauto; try discriminate.
      inv H. cbn [rv_class]. right. exists ((i + class) mod 8), free. split; [reflexivity|].
      left. rewrite Ep. reflexivity.
    - destruct (steal_slots g u ((i + class) mod 8) index (N.of_nat (length l)) tree free 0 (length l))
        as [[[row|?| |?] ?]|]; eauto; try discriminate.
      inv H. cbn [rv_class]. right. exists ((i + class) mod 8), free. split; [reflexivity|].
      right. exact Ep.
  Qed.

  Lemma steal_local_class u r frame f c u' :
    steal_local g policy u r frame = (Ok (f, c), u') -> class_ok (r_class r) c.
  Proof.
    unfold steal_local, lift, locals_steal_any.
    destruct (steal_any_loop g policy u (r_class r) _ _ _ 0 8) as [[[rv|]|?|?] u1] eqn:E; try discriminate.
    apply steal_any_loop_class in E.
    destruct (lget_low g u1 (rv_row rv) (r_order r) frame) as [[f1|[]|s] u2]; try discriminate.
    - intros H; inv H. exact E.
    - destruct (trees_put g policy u2 _ _) as [[[]|?|?] ?]; discriminate.
  Qed.

  Lemma demote_local_class u r frame f c u' :
    demote_local g policy u r frame = (Ok (f, c), u') -> c = r_class r.
  Proof.
    unfold demote_local, lift.
    destruct (locals_demote_any g policy u (r_class r) (r_local r) _ _) as [[[[row old]|]|?|?] u1];
      try discriminate.
    destruct (match old with Some rv => _ | None => _ end) as [[[]|?|?] u2]; try discriminate.
    destruct (lget_low g u2 row (r_order r) frame) as [[f1|[]|s] u3]; try discriminate.
    - intros H; inv H. reflexivity.
    - destruct (trees_put g policy u3 _ _) as [[[]|?|?] ?]; discriminate.
  Qed.

  Lemma search_and_reserve_class u order class local start f c u' :
    search_and_reserve g policy u order class local start = (Ok (f, c), u') -> class_ok class c.
  Proof.
    unfold search_and_reserve.
    set (acc := fun u i => reserve_or_steal g policy u i order class local).
    assert (Hacc : forall u i a u', acc u i = (Ok a, u') -> class_ok class (snd a)).
    { intros u0 i [f0 c0] u0' H. eapply reserve_or_steal_class; exact H. }
    match goal with |- (match ?first with _ => _ end) = _ -> _ => destruct first as [[[f1 c1]|[]|s] u1] eqn:E1 end;
      try discriminate.
    - intros H; inv H. destruct (Nat.ltb order (hord g)); [|discriminate].
      apply (search_best_origin g acc (fun a => class_ok class (snd a)) Hacc) in E1. exact E1.
    - intros H.
      apply (search_best_origin g acc (fun a => class_ok class (snd a)) Hacc) in H. exact H.
  Qed.

  Lemma oom_class u r frame f c u' :
    match steal_local g policy u r frame with
    | (Err EMemory, u2) => demote_local g policy u2 r frame
    | other => other
    end = (Ok (f, c), u') -> class_ok (r_class r) c.
  Proof.
    destruct (steal_local g policy u r frame) as [[[f1 c1]|[]|s] u1] eqn:E; try discriminate.
    - intros H; inv H. eapply steal_local_class; eauto.
    - intros H. apply demote_local_class in H. subst. apply class_ok_refl.
  Qed.

  Lemma get_at_class u frame r f c u' :
    get_at g policy u frame r = (Ok (f, c), u') -> class_ok (r_class r) c.
  Proof.
    unfold get_at.
    assert (Hafter : forall u1,
      match steal_global g policy u1 (frame / TF g) (r_class r) (r_order r) (Some frame) with
      | (Err EMemory, u2) =>
          match steal_local g policy u2 r (Some frame) with
          | (Err EMemory, u3) => demote_local g policy u3 r (Some frame)
          | other => other
          end
      | other => other
      end = (Ok (f, c), u') -> class_ok (r_class r) c).
    { intros u1.
      destruct (steal_global g policy u1 (frame / TF g) (r_class r) (r_order r) (Some frame))
        as [[[f1 c1]|[]|s] u2] eqn:E; try discriminate.
      - intros H; inv H. eapply steal_global_class; eauto.
      - apply oom_class. }
    destruct (r_local r) as [local|]; [|apply Hafter].
    destruct (get_local g policy 2 u (r_order r) (r_class r) local (Some frame) true)
      as [[f1 c1|e t|s] u1] eqn:E.
    - cbn [of_glr]. intros H; inv H. apply get_local_class in E. subst. apply class_ok_refl.
    - destruct e; cbn [of_glr]; try discriminate. apply Hafter.
    - cbn [of_glr]. discriminate.
  Qed.

  Theorem llfree_get_class u frame r f c u' :
    llfree_get g policy u frame r = (Ok (f, c), u') -> class_ok (r_class r) c.
  Proof.
    unfold llfree_get.
    destruct (check g u _ r) as [[]|?|?]; try discriminate.
    destruct frame as [fr|]; [apply get_at_class|].
    set (len := match class_locals u (r_class r) with Some n => n | None => 0 end).
    set (start0 := (if len =? 0 then 0 else ntrees u / len) * match r_local r with Some i => i | None => 0 end).
    assert (Hoom : forall u1,
      match steal_local g policy u1 r None with
      | (Err EMemory, u2) =>
          match demote_local g policy u2 r None with
          | (Err EMemory, u3) => (Err EMemory, u3)
          | other => other
          end
      | other => other
      end = (Ok (f, c), u') -> class_ok (r_class r) c).
    { intros u1.
      destruct (steal_local g policy u1 r None) as [[[f1 c1]|[]|s] u2] eqn:E; try discriminate.
      - intros H; inv H. eapply steal_local_class; eauto.
      - destruct (demote_local g policy u2 r None) as [[[f1 c1]|[]|s] u3] eqn:E2; try discriminate.
        intros H; inv H. apply demote_local_class in E2. subst. apply class_ok_refl. }
    assert (Hsb : forall u0,
      match search_best g (fun u i => steal_global g policy u i (r_class r) (r_order r) None)
              (rate_req policy (r_class r) (pow2 (r_order r))) 8 u0 start0 0 (ntrees u0) with
      | (Err EMemory, u1) =>
          match steal_local g policy u1 r None with
          | (Err EMemory, u2) =>
              match demote_local g policy u2 r None with
              | (Err EMemory, u3) => (Err EMemory, u3)
              | other => other
              end
          | other => other
          end
      | other => other
      end = (Ok (f, c), u') -> class_ok (r_class r) c).
    { intros u0.
      destruct (search_best g _ _ 8 u0 start0 0 (ntrees u0)) as [[[f1 c1]|[]|s] u1] eqn:E; try discriminate.
      - intros H; inv H.
        apply (search_best_origin g _ (fun a => class_ok (r_class r) (snd a))) in E; [exact E|].
        intros u2 i [f2 c2] u2' H2. eapply steal_global_class; exact H2.
      - apply Hoom. }
    destruct (r_local r) as [local|]; [|apply Hsb].
    destruct ((0 <? len) && (len <? ntrees u)); [|apply Hsb].
    destruct (get_local g policy 2 u (r_order r) (r_class r) local None true) as [[f1 c1|e t|s] u1] eqn:E.
    - intros H; inv H. apply get_local_class in E. subst. apply class_ok_refl.
    - destruct e; try discriminate.
      destruct (search_and_reserve g policy u1 (r_order r) (r_class r) local _) as [[[f1 c1]|[]|s] u2] eqn:E2;
        try discriminate.
      + intros H; inv H. eapply search_and_reserve_class; eauto.
      + apply Hoom.
    - discriminate.
  Qed.
End C13.

(* ============================================================================================== *)
(* the lower `get` attempt of the upper allocator, through the interface record *)
Section LgetLow.
  Variable g : geom.
  Hypothesis LF : lower_facts g.
  Notation TF := (TF g).

  Lemma with_low_same u : with_low u (low u) = u.
  Proof. destruct u; reflexivity. Qed.

  Lemma lget_low_spec u row k frame r u' :
    LowerInv g (low u) -> (k <= tord g)%nat ->
    match frame with
    | None => row_tree g row < ntab g (frames (low u))
    | Some f => aligned f k = true /\ f + pow2 k <= frames (low u)
    end ->
    lget_low g u row k frame = (r, u') ->
    u' = with_low u (low u') /\
    match r with
    | Ok f =>
        match frame with Some f0 => f = f0 | None => f / TF = row_tree g row end /\
        spec_get_enabled (abs g (low u)) f k = true /\
        abs g (low u') = spec_get g (abs g (low u)) f k /\
        LowerInv g (low u') /\ frames (low u') = frames (low u) /\
        (forall t, tree_free g (low u') t + delta t (f / TF) (pow2 k) = tree_free g (low u) t)
    | Err e =>
        e = EMemory /\ u' = u /\
        match frame with
        | Some f0 => spec_get_enabled (abs g (low u)) f0 k = false
        | None => forall f, f / TF = row_tree g row -> spec_get_enabled (abs g (low u)) f k = false
        end
    | Panic _ => False
    end.
  Proof.
    intros HL Hk Hpre H. unfold lget_low in H.
    destruct (lower_get_opt g (low u) row k frame) as [r0 l'] eqn:E. inv H.
    cbn [with_low trees locals dflt low]. split; [reflexivity|].
    unfold lower_get_opt in E. destruct frame as [f0|].
    - destruct Hpre as [Ha Hb].
      destruct (lower_get_at g (low u) f0 k) as [r1 l1] eqn:E1.
      pose proof (lf_get_at g LF _ _ _ _ _ HL Hk Ha Hb E1) as Hs.
      destruct r1 as [[]|e|s]; inv E.
      + destruct Hs as (H1 & H2 & H3 & H4 & H5). splits; auto.
      + destruct Hs as (H1 & H2 & H3). subst. rewrite with_low_same. splits; auto.
      + exact Hs.
    - pose proof (lf_get g LF _ _ _ _ _ HL Hk Hpre E) as Hs.
      destruct r as [f|e|s].
      + destruct Hs as (H0 & H1 & H2 & H3 & H4 & H5). splits; auto.
      + destruct Hs as (H1 & H2 & H3). subst. rewrite with_low_same. splits; auto.
      + exact Hs.
  Qed.
End LgetLow.

(* ============================================================================================== *)
(* policy hypotheses: pol_refl_match, pol_kind_indep, pol_demote_trans, pol_never_invalid are defined in UpperPrims.v *)

(* the ordered policies of the repository (simple / movable / zeroed): requested > target: Steal,
   requested < target: Demote, equal: Match(m free) *)
Definition ordered_policy (m : N -> N) (r t f : N) : pol :=
  if t <? r then PSteal else if r <? t then PDemote else PMatch (m f).

Lemma ordered_refl_match m : pol_refl_match (ordered_policy m).
Proof. intros c f. unfold ordered_policy. rewrite N.ltb_irrefl. reflexivity. Qed.
Lemma ordered_kind_indep m : pol_kind_indep (ordered_policy m).
Proof. intros r t f f'. unfold ordered_policy. destruct (t <? r), (r <? t); reflexivity. Qed.
Lemma ordered_never_invalid m : pol_never_invalid (ordered_policy m).
Proof. intros r t f. unfold ordered_policy. destruct (t <? r), (r <? t); reflexivity. Qed.
Lemma ordered_demote_trans m : pol_demote_trans (ordered_policy m).
Proof.
  intros a b c f f'. unfold ordered_policy.
  destruct (N.ltb_spec b a); [discriminate|]. destruct (N.ltb_spec a b); [|discriminate]. intros _.
  destruct (N.ltb_spec c b); [discriminate|]. intros _.
  destruct (N.ltb_spec c a); [lia|]. destruct (N.ltb_spec a c); reflexivity.
Qed.

(* ============================================================================================== *)
(* Why `pol_demote_trans` is needed: a policy that is reflexive-Match, kind-independent of `free`
   and never Invalid, but not transitive (0 -> 1 Demote, 1 -> 2 Demote, 0 -> 2 Steal).  Two demotes
   in a row leave a class-0 slot on a tree whose class is still 2; the invariant (U4) fails after
   the get and a following drain panics at "unreserve invalid class" (trees.rs:392). *)
Module DemoteTransCex.
  Definition g := {| hord := 9; tlog := 2 |}.
  Definition pol3 (r t f : N) : pol :=
    if r =? t then PMatch 1
    else if r <? t then (if (r =? 0) && (t =? 2) then PSteal else PDemote) else PSteal.
  Definition lower0 := {| frames := 0; bfs := []; ents := [] |}.
  Definition u0 := match llfree_new g 4096 IFreeAll [(0,1);(1,1);(2,1)] 2 lower0 [] (repeat slot_none 3) with
                   | Ok u => u
                   | _ => {| low := lower0; trees := []; locals := []; dflt := 0 |}
                   end.
  Definition rq o c l := {| r_order := o; r_class := c; r_local := l |}.
  Definition step (x : ustate) (r : request) := ghost_lift (fun u => llfree_get g pol3 u None r) x.
  Definition x3 := snd (step (snd (step (snd (step (ustate_new u0) (rq 11 2 None))) (rq 0 2 (Some 0)))) (rq 0 1 (Some 0))).
End DemoteTransCex.

Lemma upper_inv_needs_demote_trans :
  let pol3 := DemoteTransCex.pol3 in
  pol_refl_match pol3 /\ pol_kind_indep pol3 /\ pol_never_invalid pol3 /\
  upper_invb DemoteTransCex.g pol3 DemoteTransCex.x3 = true /\
  exists f c x4,
    DemoteTransCex.step DemoteTransCex.x3 (DemoteTransCex.rq 0 0 (Some 0)) = (Ok (f, c), x4) /\
    upper_invb DemoteTransCex.g pol3 x4 = false /\
    fst (llfree_drain DemoteTransCex.g pol3 (us x4)) = Panic SUnreserveClass.
Proof.
  cbv zeta. split; [|split; [|split; [|split]]].
  - intros c f. unfold DemoteTransCex.pol3. rewrite N.eqb_refl. reflexivity.
  - intros r t f f'. reflexivity.
  - intros r t f. unfold DemoteTransCex.pol3.
    destruct (r =? t), (r <? t), ((r =? 0) && (t =? 2)); reflexivity.
  - vm_compute. reflexivity.
  - eexists _, _, _. split; [vm_compute; reflexivity|]. split; vm_compute; reflexivity.
Qed.

(* ============================================================================================== *)
(* Frame facts (no invariant needed): the configuration of the locals (which classes exist, how many
   slots), the default class and the number of trees never change; only `lget_low` touches `low`. *)
Lemma map_upd {A B} (f : A -> B) l i x : map f (upd l i x) = upd (map f l) i (f x).
Proof. revert i; induction l; destruct i; cbn; auto. f_equal; auto. Qed.
Lemma upd_same {A} (l : list A) i x : nth_error l i = Some x -> upd l i x = l.
Proof. revert i; induction l; destruct i; cbn; intros H; try discriminate; [inv H; auto|f_equal; auto]. Qed.

Section Frame.
  Variable g : geom.
  Variable policy : N -> N -> N -> pol.

  Definition shape (u : upper) : list (option nat) := map (option_map (@length slot)) (locals u).
  Definition frame_rel (u u' : upper) : Prop :=
    shape u' = shape u /\ dflt u' = dflt u /\ length (trees u') = length (trees u).

  Lemma frame_refl u : frame_rel u u.
  Proof. unfold frame_rel; auto. Qed.
  Lemma frame_trans u1 u2 u3 : frame_rel u1 u2 -> frame_rel u2 u3 -> frame_rel u1 u3.
  Proof. unfold frame_rel. intuition congruence. Qed.

  Lemma shape_class_locals u u' c : shape u' = shape u -> class_locals u' c = class_locals u c.
  Proof.
    unfold shape, class_locals, class_slots. intros H.
    assert (E : nth_error (map (option_map (@length slot)) (locals u')) (nn c)
              = nth_error (map (option_map (@length slot)) (locals u)) (nn c)) by (rewrite H; reflexivity).
    rewrite !nth_error_map in E.
    destruct (nth_error (locals u') (nn c)) as [[l'|]|], (nth_error (locals u) (nn c)) as [[l|]|];
      cbn in *; try congruence.
  Qed.

  Lemma frame_ntrees u u' : frame_rel u u' -> ntrees u' = ntrees u.
  Proof. unfold frame_rel, ntrees. intros (_ & _ & ->). reflexivity. Qed.

  Lemma set_slot_frame u c j s : frame_rel u (set_slot u c j s).
  Proof.
    unfold frame_rel, set_slot. destruct (class_slots u c) as [l|] eqn:E; auto.
    unfold with_locals. cbn [locals dflt trees]. split; auto. unfold shape. cbn [locals].
    rewrite map_upd. cbn [option_map]. rewrite upd_length. apply upd_same.
    rewrite nth_error_map. unfold class_slots in E.
    destruct (nth_error (locals u) (nn c)) as [[l0|]|]; inv E. reflexivity.
  Qed.
  Lemma set_tree_frame u i t : frame_rel u (set_tree u i t).
  Proof. unfold frame_rel, set_tree. cbn. rewrite upd_length. auto. Qed.
  Lemma with_low_frame u l : frame_rel u (with_low u l).
  Proof. unfold frame_rel. cbn. auto. Qed.

  Ltac t_prim := repeat match goal with
    | H : (_, _) = (_, _) |- _ => inv H
    | |- frame_rel ?u ?u => apply frame_refl
    | |- frame_rel ?u (set_tree ?u _ _) => apply set_tree_frame
    | |- frame_rel ?u (set_slot ?u _ _ _) => apply set_slot_frame
    | H : match ?x with _ => _ end = _ |- _ => destruct x eqn:?
    end.

  Lemma trees_put_frame u i n r u' : trees_put g policy u i n = (r, u') -> frame_rel u u'.
  Proof. unfold trees_put. intros; t_prim. Qed.
  Lemma trees_sync_frame u i n r u' : trees_sync u i n = (r, u') -> frame_rel u u'.
  Proof. unfold trees_sync. intros; t_prim. Qed.
  Lemma trees_steal_frame u i c n r u' : trees_steal policy u i c n = (r, u') -> frame_rel u u'.
  Proof. unfold trees_steal. intros; t_prim. Qed.
  Lemma trees_reserve_or_steal_frame u i c n r u' : trees_reserve_or_steal policy u i c n = (r, u') -> frame_rel u u'.
  Proof. unfold trees_reserve_or_steal. intros; t_prim. Qed.
  Lemma trees_unreserve_frame u i n c r u' : trees_unreserve g policy u i n c = (r, u') -> frame_rel u u'.
  Proof. unfold trees_unreserve. intros; t_prim. Qed.
  Lemma locals_get_frame u c j t n r u' : locals_get g u c j t n = (r, u') -> frame_rel u u'.
  Proof. unfold locals_get. intros; t_prim. Qed.
  Lemma locals_put_frame u c j t n r u' : locals_put g u c j t n = (r, u') -> frame_rel u u'.
  Proof. unfold locals_put. intros; t_prim. Qed.
  Lemma locals_swap_frame u c j t n r u' : locals_swap g u c j t n = (r, u') -> frame_rel u u'.
  Proof. unfold locals_swap. intros; t_prim. Qed.
  Lemma locals_set_start_frame u c j row r u' : locals_set_start g u c j row = (r, u') -> frame_rel u u'.
  Proof. unfold locals_set_start. intros; t_prim. Qed.
  Lemma lget_low_frame u row k fr r u' : lget_low g u row k fr = (r, u') -> frame_rel u u'.
  Proof. unfold lget_low. destruct (lower_get_opt g (low u) row k fr). intros H; inv H. apply with_low_frame. Qed.

  Lemma steal_slots_frame n : forall u tc index len tree free j r u',
    steal_slots g u tc index len tree free j n = Some (r, u') -> frame_rel u u'.
  Proof.
    induction n as [|n IH]; intros u tc index len tree free j r u' H; cbn [steal_slots] in H; [discriminate|].
    destruct (locals_get g u tc ((index + j) mod len) tree free) as [[row|rv| |s] u1] eqn:E;
      try (inv H; eapply locals_get_frame; eauto; fail); eauto.
  Qed.

  Lemma steal_any_loop_frame n : forall u class index tree free i r u',
    steal_any_loop g policy u class index tree free i n = (r, u') -> frame_rel u u'.
  Proof.
    induction n as [|n IH]; intros u class index tree free i r u' H; cbn [steal_any_loop] in H.
    - inv H. apply frame_refl.
    - destruct (class_slots u ((i + class) mod 8)) as [l|]; [|eauto].
      destruct (policy class ((i + class) mod 8) free); eauto;
      destruct (steal_slots g u ((i + class) mod 8) index (N.of_nat (length l)) tree free 0 (length l))
        as [[[row|?| |?] u1]|] eqn:E; eauto; inv H; eapply steal_slots_frame; eauto.
  Qed.

  Lemma demote_slots_frame n : forall u class tc local len tree free j r u',
    demote_slots g u class tc local len tree free j n = Some (r, u') -> frame_rel u u'.
  Proof.
    induction n as [|n IH]; intros u class tc local len tree free j r u' H; cbn [demote_slots] in H; [discriminate|].
    destruct (class_slots u tc) as [l|]; [|discriminate].
    destruct (nth_error l _) as [old|]; [|inv H; apply frame_refl].
    destruct (slot_get g old tree free) as [new|]; [|eauto].
    destruct local as [lc|].
    - destruct (class_slots (set_slot u tc _ slot_none) class) as [ml|]; [|inv H; apply set_slot_frame].
      destruct (nth_error ml (nn lc)); inv H; [|apply set_slot_frame].
      eapply frame_trans; apply set_slot_frame.
    - inv H. apply set_slot_frame.
  Qed.

  Lemma demote_any_loop_frame n : forall u class local tree free i r u',
    demote_any_loop g policy u class local tree free i n = (r, u') -> frame_rel u u'.
  Proof.
    induction n as [|n IH]; intros u class local tree free i r u' H; cbn [demote_any_loop] in H.
    - inv H. apply frame_refl.
    - destruct (class_slots u ((i + class) mod 8)) as [l|]; [|eauto].
      destruct (policy class ((i + class) mod 8) free); eauto.
      destruct (demote_slots g u class ((i + class) mod 8) local (N.of_nat (length l)) tree free 0 (length l))
        as [[[x|?|?] u1]|] eqn:E; eauto; inv H; eapply demote_slots_frame; eauto.
  Qed.

  Lemma locals_steal_any_frame u c idx t n r u' : locals_steal_any g policy u c idx t n = (r, u') -> frame_rel u u'.
  Proof. apply steal_any_loop_frame. Qed.
  Lemma locals_demote_any_frame u c l t n r u' : locals_demote_any g policy u c l t n = (r, u') -> frame_rel u u'.
  Proof.
    unfold locals_demote_any. destruct (class_slots u c); [apply demote_any_loop_frame|].
    intros H; inv H. apply frame_refl.
  Qed.

  (* consume an equation about a primitive / helper into a frame fact *)
  Ltac fr_of E :=
    first [ apply trees_put_frame in E | apply trees_sync_frame in E | apply trees_steal_frame in E
          | apply trees_reserve_or_steal_frame in E | apply trees_unreserve_frame in E
          | apply locals_get_frame in E | apply locals_put_frame in E | apply locals_swap_frame in E
          | apply locals_set_start_frame in E | apply lget_low_frame in E
          | apply locals_steal_any_frame in E | apply locals_demote_any_frame in E ].
  Ltac fr_done :=
    repeat match goal with E : _ = (_, _) |- _ => fr_of E end;
    repeat match goal with H : (_, _) = (_, _) |- _ => inv H end;
    repeat match goal with H : frame_rel _ _ |- _ => unfold frame_rel in H end;
    unfold frame_rel; intuition congruence.
  Ltac fr_step :=
    match goal with
    | H : match ?x with _ => _ end = (_, _) |- _ =>
        let E := fresh "E" in destruct x eqn:E; try (fr_of E)
    | H : lift ?x _ = (_, _) |- _ => unfold lift in H
    end.

  Lemma steal_global_frame u i c k fr r u' : steal_global g policy u i c k fr = (r, u') -> frame_rel u u'.
  Proof. unfold steal_global. intros H. repeat fr_step; fr_done. Qed.

  Lemma reserve_or_steal_frame u i k c l r u' : reserve_or_steal g policy u i k c l = (r, u') -> frame_rel u u'.
  Proof. unfold reserve_or_steal. intros H. repeat fr_step; fr_done. Qed.

  Lemma steal_local_frame u rq fr r u' : steal_local g policy u rq fr = (r, u') -> frame_rel u u'.
  Proof. unfold steal_local. intros H. repeat fr_step; fr_done. Qed.

  Lemma demote_local_frame u rq fr r u' : demote_local g policy u rq fr = (r, u') -> frame_rel u u'.
  Proof. unfold demote_local. intros H. repeat fr_step; fr_done. Qed.

  Lemma get_local_frame fuel : forall u k c l fr sync r u',
    get_local g policy fuel u k c l fr sync = (r, u') -> frame_rel u u'.
  Proof.
    induction fuel as [|fuel IH]; intros u k c l fr sync r u' H; cbn [get_local] in H.
    - inv H. apply frame_refl.
    - repeat fr_step; try fr_done.
      apply IH in H. fr_done.
  Qed.

  (* ----- nothing but lget_low touches `low` ----- *)
  Ltac l_prim := repeat match goal with
    | H : (_, _) = (_, _) |- _ => inv H
    | |- low ?u = low ?u => reflexivity
    | |- low (set_tree ?u _ _) = low ?u => reflexivity
    | |- low (set_slot ?u ?c ?j ?s) = low ?u => unfold set_slot; destruct (class_slots u c); reflexivity
    | H : match ?x with _ => _ end = _ |- _ => destruct x eqn:?
    end.
  Lemma set_slot_low' u c j s : low (set_slot u c j s) = low u.
  Proof. unfold set_slot; destruct (class_slots u c); reflexivity. Qed.
  Lemma trees_put_low u i n r u' : trees_put g policy u i n = (r, u') -> low u' = low u.
  Proof. unfold trees_put. intros; l_prim. Qed.
  Lemma trees_sync_low u i n r u' : trees_sync u i n = (r, u') -> low u' = low u.
  Proof. unfold trees_sync. intros; l_prim. Qed.
  Lemma trees_steal_low u i c n r u' : trees_steal policy u i c n = (r, u') -> low u' = low u.
  Proof. unfold trees_steal. intros; l_prim. Qed.
  Lemma trees_reserve_or_steal_low u i c n r u' : trees_reserve_or_steal policy u i c n = (r, u') -> low u' = low u.
  Proof. unfold trees_reserve_or_steal. intros; l_prim. Qed.
  Lemma trees_unreserve_low u i n c r u' : trees_unreserve g policy u i n c = (r, u') -> low u' = low u.
  Proof. unfold trees_unreserve. intros; l_prim. Qed.
  Lemma locals_get_low u c j t n r u' : locals_get g u c j t n = (r, u') -> low u' = low u.
  Proof. unfold locals_get. intros; l_prim. Qed.
  Lemma locals_put_low u c j t n r u' : locals_put g u c j t n = (r, u') -> low u' = low u.
  Proof. unfold locals_put. intros; l_prim. Qed.
  Lemma locals_swap_low u c j t n r u' : locals_swap g u c j t n = (r, u') -> low u' = low u.
  Proof. unfold locals_swap. intros; l_prim. Qed.
  Lemma locals_set_start_low u c j row r u' : locals_set_start g u c j row = (r, u') -> low u' = low u.
  Proof. unfold locals_set_start. intros; l_prim. Qed.
End Frame.

(* ============================================================================================== *)
(* structure of steal_any / demote_any (no invariant): what a result means in terms of one
   `locals_get` / `slot_get` on the unchanged initial state *)
Section AnyStruct.
  Variable g : geom.
  Variable policy : N -> N -> N -> pol.

  Lemma steal_slots_inv n : forall u tc index len tree free j lr u',
    0 < len ->
    steal_slots g u tc index len tree free j n = Some (lr, u') ->
    exists jj, jj < len /\ locals_get g u tc jj tree free = (lr, u') /\
               ((exists row, lr = LRow row) \/ (exists s, lr = LPanic s)).
  Proof.
    induction n as [|n IH]; intros u tc index len tree free j lr u' Hlen H; cbn [steal_slots] in H;
      [discriminate|].
    destruct (locals_get g u tc ((index + j) mod len) tree free) as [[row|rv| |s] u1] eqn:E; eauto.
    - inv H. exists ((index + j) mod len). split; [apply N.mod_lt; lia|]. split; eauto.
    - inv H. exists ((index + j) mod len). split; [apply N.mod_lt; lia|]. split; eauto.
  Qed.

  Lemma steal_any_loop_inv n : forall u class index tree free i r u',
    steal_any_loop g policy u class index tree free i n = (r, u') ->
    (r = Ok None /\ u' = u) \/
    exists tc jj l lr, class_slots u tc = Some l /\ jj < N.of_nat (length l) /\
      (pol_is_match (policy class tc free) = true \/ policy class tc free = PSteal) /\
      locals_get g u tc jj tree free = (lr, u') /\
      ((exists row, lr = LRow row /\ r = Ok (Some {| rv_row := row; rv_class := tc; rv_free := 0 |})) \/
       (exists s, lr = LPanic s /\ r = Panic s)).
  Proof.
    induction n as [|n IH]; intros u class index tree free i r u' H; cbn [steal_any_loop] in H.
    - inv H. auto.
    - destruct (class_slots u ((i + class) mod 8)) as [l|] eqn:EC; [|eauto].
      assert (Hgo : forall (Hp : pol_is_match (policy class ((i + class) mod 8) free) = true \/
                                 policy class ((i + class) mod 8) free = PSteal),
        match steal_slots g u ((i + class) mod 8) index (N.of_nat (length l)) tree free 0 (length l) with
        | Some (LRow row, u'0) =>
            (Ok (Some {| rv_row := row; rv_class := (i + class) mod 8; rv_free := 0 |}), u'0)
        | Some (LPanic s, u'0) => (Panic s, u'0)
        | _ => steal_any_loop g policy u class index tree free (i + 1) n
        end = (r, u') ->
        (r = Ok None /\ u' = u) \/
        exists tc jj l lr, class_slots u tc = Some l /\ jj < N.of_nat (length l) /\
          (pol_is_match (policy class tc free) = true \/ policy class tc free = PSteal) /\
          locals_get g u tc jj tree free = (lr, u') /\
          ((exists row, lr = LRow row /\ r = Ok (Some {| rv_row := row; rv_class := tc; rv_free := 0 |})) \/
           (exists s, lr = LPanic s /\ r = Panic s))).
      { intros Hp H0.
        destruct (steal_slots g u ((i + class) mod 8) index (N.of_nat (length l)) tree free 0 (length l))
          as [[lr u1]|] eqn:ES; [|eauto].
        destruct l as [|s0 l0]; [cbn [length steal_slots] in ES; discriminate|].
        apply steal_slots_inv in ES; [|cbn [length]; lia].
        destruct ES as (jj & Hjj & Hget & Hk).
        destruct Hk as [[row ->]|[s ->]]; inv H0; right;
          exists ((i + class) mod 8), jj, (s0 :: l0); eexists; splits; eauto. }
      destruct (policy class ((i + class) mod 8) free) eqn:Ep; eauto.
  Qed.

  (* the first slot of class tc (in search order) that can serve the request is emptied ... *)
  Definition demote_result (u : upper) (class tc : N) (local : option N) (idx : N) (new : slot)
             (r : res (N * option reservation)) (u' : upper) : Prop :=
    let u1 := set_slot u tc idx slot_none in
    match local with
    | Some lc =>
        match slot_at u1 class lc with
        | Some o2 => r = Ok (s_row new, if s_pres o2 then Some (slot_resv o2 class) else None) /\
                     u' = set_slot u1 class lc new
        | None => exists s, r = Panic s
        end
    | None => r = Ok (s_row new, Some (slot_resv new class)) /\ u' = u1
    end.

  Lemma demote_slots_inv n : forall u class tc local l tree free j r u',
    class_slots u tc = Some l -> (0 < length l)%nat ->
    demote_slots g u class tc local (N.of_nat (length l)) tree free j n = Some (r, u') ->
    exists idx old new, slot_at u tc idx = Some old /\ slot_get g old tree free = Some new /\
                        demote_result u class tc local idx new r u'.
  Proof.
    induction n as [|n IH]; intros u class tc local l tree free j r u' HC Hl H; cbn [demote_slots] in H;
      [discriminate|].
    rewrite HC in H.
    set (idx := (match local with Some i => i | None => 0 end + j) mod N.of_nat (length l)) in *.
    assert (Hidx : idx < N.of_nat (length l)) by (apply N.mod_lt; lia).
    destruct (nth_error l (nn idx)) as [old|] eqn:En.
    2:{ apply nth_error_None in En. unfold nn in En. lia. }
    destruct (slot_get g old tree free) as [new|] eqn:Eg; [|eauto].
    exists idx, old, new. split; [unfold slot_at; rewrite HC; exact En|]. split; [exact Eg|].
    unfold demote_result. cbv zeta. destruct local as [lc|].
    - unfold slot_at. destruct (class_slots (set_slot u tc idx slot_none) class) as [ml|]; [|inv H; eauto].
      destruct (nth_error ml (nn lc)) as [o2|]; inv H; eauto.
    - inv H. auto.
  Qed.

  Lemma demote_any_loop_inv n : forall u class local tree free i r u',
    demote_any_loop g policy u class local tree free i n = (r, u') ->
    (r = Ok None /\ u' = u) \/
    exists tc idx old new r0, policy class tc free = PDemote /\
      slot_at u tc idx = Some old /\ slot_get g old tree free = Some new /\
      demote_result u class tc local idx new r0 u' /\
      r = match r0 with Ok a => Ok (Some a) | Err e => Err e | Panic s => Panic s end.
  Proof.
    induction n as [|n IH]; intros u class local tree free i r u' H; cbn [demote_any_loop] in H.
    - inv H. auto.
    - destruct (class_slots u ((i + class) mod 8)) as [l|] eqn:EC; [|eauto].
      destruct (policy class ((i + class) mod 8) free) eqn:Ep; eauto.
      destruct (demote_slots g u class ((i + class) mod 8) local (N.of_nat (length l)) tree free 0 (length l))
        as [[r0 u1]|] eqn:ES; [|eauto].
      destruct l as [|s0 l0]; [cbn [length demote_slots] in ES; discriminate|].
      apply demote_slots_inv in ES; [|exact EC|cbn [length]; lia].
      destruct ES as (idx & old & new & H1 & H2 & H3).
      right. exists ((i + class) mod 8), idx, old, new, r0.
      destruct r0; inv H; splits; auto.
  Qed.

  Lemma locals_demote_any_inv u class local tree free r u' :
    locals_demote_any g policy u class local tree free = (r, u') ->
    (r = Ok None /\ u' = u) \/
    (class_slots u class <> None /\
     exists tc idx old new r0, policy class tc free = PDemote /\
      slot_at u tc idx = Some old /\ slot_get g old tree free = Some new /\
      demote_result u class tc local idx new r0 u' /\
      r = match r0 with Ok a => Ok (Some a) | Err e => Err e | Panic s => Panic s end).
  Proof.
    unfold locals_demote_any. destruct (class_slots u class) eqn:E.
    - intros H. apply demote_any_loop_inv in H. destruct H as [H|H]; [auto|right]. split; [congruence|exact H].
    - intros H; inv H. auto.
  Qed.
End AnyStruct.

(* ============================================================================================== *)
(* The invariant through `llfree_get` (C09), the lift of the lower allocator's specification (C02)
   and the "visible frames" bound (C15), all carried by one postcondition `get_post` / `GP` that every
   allocation attempt of the cascade satisfies:
     Ok (f, c): UpperInv again, (f, order) was enabled in the ownership state and is now allocated,
                a targeted request got its frame, and the tree of f had 2^order visible free frames;
     Err e    : e = EMemory, UpperInv again, and `low` is unchanged (so the next attempt starts from the
                same ownership state);
     Panic    : impossible. *)
Section GetInv.
  Variable g : geom.
  Variable policy : N -> N -> N -> pol.
  Hypothesis WF : wf_geom g.
  Hypothesis LF : lower_facts g.
  Hypothesis PR : pol_refl_match policy.
  Hypothesis PT : pol_demote_trans policy.
  Notation TF := (TF g).
  Notation UIC := (UpperInvC g policy).
  Notation Inv := (UpperInv g policy).

  Definition cr0 : N -> N := fun _ => 0.
  Definition crd (t n : N) : N -> N := fun j => delta j t n.

  Lemma Inv_UIC x : Inv x <-> UIC cr0 [] x.
  Proof. apply UpperInv_C0. Qed.

  Lemma mk_mk x u1 u2 : mk (mk x u1) u2 = mk x u2.
  Proof. reflexivity. Qed.
  Lemma us_mk x u : us (mk x u) = u.
  Proof. reflexivity. Qed.
  Lemma off_mk x u : off (mk x u) = off x.
  Proof. reflexivity. Qed.

  (* ----- frame facts on the configuration ----- *)
  Lemma frame_class_slots u u' c : frame_rel u u' -> (class_slots u' c <> None <-> class_slots u c <> None).
  Proof.
    intros (Hs & _). pose proof (shape_class_locals u u' c Hs) as E. unfold class_locals in E.
    destruct (class_slots u' c), (class_slots u c); cbn in E; try discriminate; split; congruence.
  Qed.
  Lemma frame_idx_ok u u' c j : frame_rel u u' -> idx_ok u c j -> idx_ok u' c j.
  Proof.
    intros (Hs & _) H l' Hl'. pose proof (shape_class_locals u u' c Hs) as E. unfold class_locals in E.
    rewrite Hl' in E. destruct (class_slots u c) as [l|] eqn:El; cbn in E; [|discriminate].
    inv E. specialize (H l El). lia.
  Qed.
  Lemma frame_class_locals u u' c : frame_rel u u' -> class_locals u' c = class_locals u c.
  Proof. intros (Hs & _). apply shape_class_locals. exact Hs. Qed.

  (* ----- the class of an in-hand reservation may be replaced by any class that keeps the tree ----- *)
  Lemma UIC_ih_class cr t c c' f ih x :
    UIC cr ((t, c, f) :: ih) x -> class_slots (us x) c' <> None ->
    (forall tr, tree_at (us x) t = Some tr -> forall f', pol_keeps (policy c' (t_class tr) f') = true) ->
    UIC cr ((t, c', f) :: ih) x.
  Proof.
    intros (H1 & H2 & H3 & H4 & H5 & H6 & H7 & H8) Hc Hk.
    unfold UpperInvC. cbv zeta. splits; auto.
    - intros i tr Hi. destruct (H6 i tr Hi) as (A & B & C & D & F). unfold tree_okC. cbv zeta.
      rewrite ih_of_cons in *. destruct (t =? N.of_nat i) eqn:Et; cbn [length ih_sum fold_right snd] in *;
        splits; auto.
      + intros c0 f0 [Q|Q] f'.
        * inv Q. apply Hk. unfold tree_at, nn. rewrite Nat2N.id. exact Hi.
        * eapply F. right. exact Q.
      + intros c0 f0 [Q|Q] f'.
        * inv Q. rewrite N.eqb_refl in Et. discriminate.
        * eapply F. right. exact Q.
    - intros t0 c0 f0 [Q|Q].
      + inv Q. split; [|exact Hc]. eapply (H8 t0 c f0). left. reflexivity.
      + eapply H8. right. exact Q.
  Qed.

  (* ----- one lower attempt that is paid for by a credit on tree T ----- *)
  Lemma attempt_G ih x1 T k row frame r u2 :
    UIC (crd T (pow2 k)) ih x1 -> T < ntrees (us x1) -> (k <= tord g)%nat ->
    match frame with
    | None => row_tree g row = T
    | Some f => f / TF = T /\ aligned f k = true /\ f + pow2 k <= frames (low (us x1))
    end ->
    lget_low g (us x1) row k frame = (r, u2) ->
    pow2 k + nth (nn T) (off x1) 0 <= tree_free g (low (us x1)) T /\
    match r with
    | Ok f => UIC cr0 ih (mk x1 u2) /\ f / TF = T /\
              spec_get_enabled (abs g (low (us x1))) f k = true /\
              abs g (low u2) = spec_get g (abs g (low (us x1))) f k /\
              (forall f0, frame = Some f0 -> f = f0)
    | Err e => e = EMemory /\ u2 = us x1 /\
               forall rp u3, trees_put g policy u2 T (pow2 k) = (rp, u3) ->
                             rp = Ok tt /\ UIC cr0 ih (mk x1 u3) /\ low u3 = low (us x1)
    | Panic _ => False
    end.
  Proof.
    intros H HT Hk Hfr Hg.
    destruct (tree_at_some _ _ HT) as (tr & Htr).
    pose proof (UIC_tree g policy WF LF _ _ _ _ _ H Htr) as Hok.
    apply (tree_okC_nn g policy WF LF) in Hok. destruct Hok as (_ & B & _).
    split.
    { unfold crd, delta in B. rewrite N.eqb_refl in B. lia. }
    pose proof (UIC_lower g policy WF LF _ _ _ H) as HL.
    pose proof (UIC_ntrees g policy WF LF _ _ _ H) as Hnt.
    assert (Hpre : match frame with
                   | None => row_tree g row < ntab g (frames (low (us x1)))
                   | Some f => aligned f k = true /\ f + pow2 k <= frames (low (us x1)) end).
    { destruct frame as [f|]; [tauto|]. rewrite Hfr, <- Hnt. exact HT. }
    pose proof (lget_low_spec g LF _ _ _ _ _ _ HL Hk Hpre Hg) as (Hu2 & Hs).
    destruct r as [f|e|s]; [| |exact Hs].
    - destruct Hs as (H0 & H1 & H2 & H3 & H4 & H5).
      assert (HfT : f / TF = T).
      { destruct frame as [f0|]; [subst f; tauto|]. rewrite H0. exact Hfr. }
      splits; auto.
      + rewrite Hu2. apply UIC_with_low with (cr := crd T (pow2 k)); auto.
        intros t _. specialize (H5 t). rewrite HfT in H5. unfold crd, cr0. lia.
      + intros f0 Ef. subst frame. exact H0.
    - destruct Hs as (-> & -> & _). splits; auto.
      intros rp u3 Hp.
      assert (Hc1 : pow2 k <= crd T (pow2 k) T) by (unfold crd, delta; rewrite N.eqb_refl; lia).
      assert (Hc2 : forall j, cr0 j + delta j T (pow2 k) = crd T (pow2 k) j) by (intros j; unfold crd, cr0; lia).
      destruct (trees_put_C g policy WF LF (crd T (pow2 k)) cr0 ih x1 T (pow2 k) rp u3 H HT Hc1 Hc2 Hp)
        as (Hr & Hi & Hex).
      splits; auto.
      destruct Hex as (t & t' & _ & _ & _ & _ & ->). reflexivity.
  Qed.

  (* ----- the common postcondition of every allocation attempt made for one request ----- *)
  Definition get_post (x : ustate) (k : nat) (frame : option N) (r : res (N * N)) (u' : upper) : Prop :=
    match r with
    | Ok (f, _) => Inv (mk x u') /\ spec_get_enabled (abs g (low (us x))) f k = true /\
                   abs g (low u') = spec_get g (abs g (low (us x))) f k /\
                   (forall f0, frame = Some f0 -> f = f0) /\
                   pow2 k + nth (nn (f / TF)) (off x) 0 <= tree_free g (low (us x)) (f / TF)
    | Err e => e = EMemory /\ Inv (mk x u') /\ low u' = low (us x)
    | Panic _ => False
    end.

  Lemma get_post_chain x k frame u1 r u' :
    low u1 = low (us x) -> get_post (mk x u1) k frame r u' -> get_post x k frame r u'.
  Proof.
    intros Hl. unfold get_post. destruct r as [[f c]|e|s]; cbn [us off mk]; rewrite ?Hl; auto.
  Qed.

  Lemma get_post_err x k frame : Inv x -> get_post x k frame (Err EMemory) (us x).
  Proof. intros H. unfold get_post. rewrite mk_id. auto. Qed.

  Definition frame_in (u : upper) (k : nat) (frame : option N) (T : N) : Prop :=
    forall f, frame = Some f -> f / TF = T /\ aligned f k = true /\ f + pow2 k <= frames (low u).

  Lemma frame_in_attempt u k frame T row :
    frame_in u k frame T -> (frame = None -> row_tree g row = T) ->
    match frame with
    | None => row_tree g row = T
    | Some f => f / TF = T /\ aligned f k = true /\ f + pow2 k <= frames (low u)
    end.
  Proof. intros H1 H2. destruct frame; auto. Qed.

  (* after a credit of 2^k on tree T has been obtained: the lower attempt and, if it fails, the refund *)
  Lemma pay_G x u1 T k row frame c :
    UIC (crd T (pow2 k)) [] (mk x u1) -> low u1 = low (us x) -> T < ntrees u1 -> (k <= tord g)%nat ->
    frame_in (us x) k frame T -> (frame = None -> row_tree g row = T) ->
    forall r u',
    match lget_low g u1 row k frame with
    | (Ok f, u2) => (Ok (f, c), u2)
    | (Err e, u2) => lift (trees_put g policy u2 T (pow2 k)) (fun _ u3 => (Err e, u3))
    | (Panic s, u2) => (Panic s, u2)
    end = (r, u') -> get_post x k frame r u'.
  Proof.
    intros H Hl HT Hk Hfr Hrow r u' Hr.
    destruct (lget_low g u1 row k frame) as [r2 u2] eqn:Eg.
    assert (Hfr' : frame_in (us (mk x u1)) k frame T) by (unfold frame_in in *; cbn [us mk]; rewrite Hl; exact Hfr).
    pose proof (attempt_G [] (mk x u1) T k row frame r2 u2 H HT Hk (frame_in_attempt _ _ _ _ _ Hfr' Hrow) Eg)
      as (Hb & Hs).
    cbn [us mk off] in Hb, Hs. rewrite Hl in Hb, Hs.
    destruct r2 as [f|e|s]; [| |destruct Hs].
    - inv Hr. destruct Hs as (A & B & C & D & E). apply Inv_UIC in A. unfold get_post. rewrite B. splits; auto.
    - destruct Hs as (-> & -> & Hput). unfold lift in Hr.
      destruct (trees_put g policy u1 T (pow2 k)) as [rp u3] eqn:Ep.
      destruct (Hput _ _ eq_refl) as (-> & Hi & Hl3). apply Inv_UIC in Hi. inv Hr. unfold get_post. splits; auto.
  Qed.

  Lemma steal_global_G x i class k frame r u' :
    Inv x -> i < ntrees (us x) -> class_slots (us x) class <> None -> (k <= tord g)%nat ->
    frame_in (us x) k frame i ->
    steal_global g policy (us x) i class k frame = (r, u') -> get_post x k frame r u'.
  Proof.
    intros HI Hi Hc Hk Hfr. unfold steal_global. unfold lift at 1.
    destruct (trees_steal policy (us x) i class (pow2 k)) as [ro u1] eqn:Es.
    apply Inv_UIC in HI.
    destruct (trees_steal_C g policy WF LF _ _ _ _ _ _ _ _ HI Hi Hc Es) as [(-> & ->)|Hs].
    - intros H; inv H. apply get_post_err. apply Inv_UIC; exact HI.
    - destruct Hs as (t & t' & Ht & Hres & Hle & Hst & Hf' & Hr' & Hcl & -> & Hu1 & Hcr).
      specialize (Hcr (crd i (pow2 k)) (fun j => eq_refl)).
      apply pay_G; auto.
      + subst u1. reflexivity.
      + subst u1. rewrite ntrees_set_tree. exact Hi.
      + intros _. apply (row_tree_tree_row g WF).
  Qed.

  (* ----- get_local ----- *)
  Definition glr_post (x : ustate) (k : nat) (frame : option N) (r : glr) (u' : upper) : Prop :=
    match r with
    | GOk f c => get_post x k frame (Ok (f, c)) u'
    | GErr e t => get_post x k frame (Err e) u' /\ (forall t0, t = Some t0 -> t0 < ntrees (us x))
    | GPanic _ => False
    end.

  Definition frame_al (u : upper) (k : nat) (frame : option N) : Prop :=
    forall f, frame = Some f -> aligned f k = true /\ f + pow2 k <= frames (low u).

  Lemma abs_frames_eq l l' f k : abs g l' = spec_get g (abs g l) f k -> frames l' = frames l.
  Proof. intros H. apply (f_equal o_frames) in H. exact H. Qed.

  Lemma enabled_lt_frames l f k : spec_get_enabled (abs g l) f k = true -> (f / 64) * 64 < frames l.
  Proof.
    unfold spec_get_enabled, in_range. intros H. apply andb_true_iff in H. destruct H as (H & _).
    apply andb_true_iff in H. destruct H as (_ & H). apply N.leb_le in H. cbn [o_frames abs] in H.
    assert (0 < pow2 k) by (unfold pow2; apply N.neq_0_lt_0, N.pow_nonzero; lia).
    pose proof (N.mul_div_le f 64). lia.
  Qed.

  Lemma get_local_step fuel' sync x k class local frame r u' :
    (sync = true -> forall x3, Inv x3 -> idx_ok (us x3) class local -> frame_al (us x3) k frame ->
       forall r3 u3, get_local g policy fuel' (us x3) k class local frame false = (r3, u3) ->
                     glr_post x3 k frame r3 u3) ->
    Inv x -> idx_ok (us x) class local -> (k <= tord g)%nat -> frame_al (us x) k frame ->
    get_local g policy (S fuel') (us x) k class local frame sync = (r, u') ->
    glr_post x k frame r u'.
  Proof.
    intros IH HI Hidx Hk Hal Hg. cbn [get_local] in Hg.
    pose proof HI as HC. apply Inv_UIC in HC.
    destruct (locals_get g (us x) class local (option_map (fun f => f / TF) frame) (pow2 k)) as [lr u1] eqn:El.
    pose proof (locals_get_frame g _ _ _ _ _ _ _ El) as Fr1.
    pose proof (locals_get_C g policy WF LF _ _ _ _ _ _ _ _ _ HC Hidx El) as Hl.
    destruct lr as [row|rv| |s]; [| | |destruct Hl].
    - (* the slot had enough frames *)
      destruct Hl as (s & Hat & Hp & Hrow & Hn & Htree & Hlt & Hfrm & Hu1 & Hcr).
      specialize (Hcr (crd (row_tree g row) (pow2 k)) (fun j => eq_refl)).
      assert (Hl1 : low u1 = low (us x)) by (subst u1; apply set_slot_low).
      assert (Hn1 : ntrees u1 = ntrees (us x)) by (subst u1; apply ntrees_set_slot).
      destruct (lget_low g u1 row k frame) as [r2 u2] eqn:Eg.
      pose proof (lget_low_frame g _ _ _ _ _ _ Eg) as Fr2.
      assert (Hatt : match frame with
                     | None => row_tree g row = row_tree g row
                     | Some f => f / TF = row_tree g row /\ aligned f k = true /\
                                 f + pow2 k <= frames (low (us (mk x u1))) end).
      { destruct frame as [f|]; [|reflexivity]. cbn [us mk]. rewrite Hl1.
        destruct (Hal f eq_refl). splits; auto. symmetry. apply Htree. reflexivity. }
      assert (HT1 : row_tree g row < ntrees (us (mk x u1))) by (cbn [us mk]; rewrite Hn1; exact Hlt).
      pose proof (attempt_G [] (mk x u1) _ k row frame r2 u2 Hcr HT1 Hk Hatt Eg) as (Hb & Hs).
      cbn [us mk off] in Hb, Hs. rewrite Hl1 in Hb, Hs.
      destruct r2 as [f|e|s2]; [| |destruct Hs].
      + destruct Hs as (A & B & C & D & E). apply Inv_UIC in A.
        assert (Hpost : forall u3, Inv (mk x u3) -> low u3 = low u2 -> glr_post x k frame (GOk f class) u3).
        { intros u3 Hi3 Hl3. cbn [glr_post get_post]. rewrite Hl3, B. splits; auto. }
        destruct (negb (row =? f / 64)).
        * destruct (locals_set_start g u2 class local (f / 64)) as [rs u3] eqn:Ess.
          assert (Hidx2 : idx_ok (us (mk x u2)) class local).
          { cbn [us mk]. eapply frame_idx_ok; [|exact Hidx]. eapply frame_trans; eauto. }
          assert (Hf64 : f / 64 * 64 < frames (low (us (mk x u2)))).
          { cbn [us mk]. rewrite (abs_frames_eq _ _ _ _ D). apply (enabled_lt_frames _ _ k). exact C. }
          apply Inv_UIC in A.
          destruct (locals_set_start_C g policy WF LF _ _ _ _ _ _ _ _ A Hidx2 Hf64 Ess) as (-> & Hi3 & Hu3).
          inv Hg. apply Hpost; [apply Inv_UIC; exact Hi3|].
          destruct Hu3 as [->|(s3 & _ & _ & _ & ->)]; [reflexivity|apply set_slot_low].
        * inv Hg. apply Hpost; auto.
      + destruct Hs as (-> & -> & Hput).
        destruct (trees_put g policy u1 (row_tree g row) (pow2 k)) as [rp u3] eqn:Ep.
        destruct (Hput _ _ eq_refl) as (-> & Hi3 & Hl3). apply Inv_UIC in Hi3. inv Hg.
        cbn [glr_post get_post]. splits; auto. intros t0 Et. inv Et. exact Hlt.
    - (* present but not enough frames, or another tree *)
      destruct Hl as (-> & s & Hat & Hp & -> & Hwhy).
      destruct (UIC_slot g policy WF LF _ _ _ _ _ _ HC Hat Hp) as (Ht & _ & _).
      cbn [slot_resv rv_row rv_free] in Hg.
      set (t := row_tree g (s_row s)) in *.
      assert (Hfail : forall u3, Inv (mk x u3) -> low u3 = low (us x) ->
                                 glr_post x k frame (GErr EMemory (Some t)) u3).
      { intros u3 Hi3 Hl3. cbn [glr_post get_post]. splits; auto. intros t0 Et. inv Et. exact Ht. }
      destruct (sync && match frame with Some f => f / TF =? t | None => true end) eqn:Esync.
      2:{ inv Hg. apply Hfail; [rewrite mk_id; exact HI|reflexivity]. }
      apply andb_true_iff in Esync. destruct Esync as (-> & Ecase).
      specialize (IH eq_refl).
      assert (Hlt : s_free s < pow2 k).
      { destruct Hwhy as [(t1 & Et1 & Hne)|Hlt]; [|exact Hlt]. exfalso.
        destruct frame as [f|]; [|discriminate]. cbn [option_map] in Et1. inv Et1.
        apply N.eqb_eq in Ecase. apply Hne. symmetry. exact Ecase. }
      replace (pow2 k <? s_free s) with false in Hg by (symmetry; apply N.ltb_ge; lia).
      destruct (trees_sync (us x) t (pow2 k - s_free s)) as [rs u2] eqn:Esy.
      pose proof (trees_sync_frame _ _ _ _ _ Esy) as Fr2.
      destruct (trees_sync_C g policy WF LF _ _ _ _ _ _ _ HC Ht Esy) as [(-> & ->)|Hsy].
      { inv Hg. apply Hfail; [rewrite mk_id; exact HI|reflexivity]. }
      destruct Hsy as (tr & Htr & Hres & Hmin & -> & Hu2 & Hcr).
      specialize (Hcr (crd t (t_free tr)) (fun j => eq_refl)).
      assert (Hl2 : low u2 = low (us x)) by (subst u2; reflexivity).
      assert (Hn2 : ntrees u2 = ntrees (us x)) by (subst u2; apply ntrees_set_tree).
      destruct (locals_put g u2 class local t (t_free tr)) as [rp u3] eqn:Epu.
      pose proof (locals_put_frame g _ _ _ _ _ _ _ Epu) as Fr3.
      assert (Hidx2 : idx_ok (us (mk x u2)) class local) by (cbn [us mk]; eapply frame_idx_ok; eauto).
      assert (Hc2 : t_free tr <= crd t (t_free tr) t) by (unfold crd, delta; rewrite N.eqb_refl; lia).
      destruct (locals_put_C g policy WF LF _ _ _ _ _ _ _ _ _ Hcr Hidx2 Hc2 Epu) as [(-> & Hu3 & _)|(-> & Hput)].
      + (* not put (cannot happen sequentially): refund to the tree *)
        cbn [us mk] in Hu3. subst u3.
        destruct (trees_put g policy u2 t (t_free tr)) as [rq u4] eqn:Ep.
        assert (Ht2 : t < ntrees (us (mk x u2))) by (cbn [us mk]; rewrite Hn2; exact Ht).
        assert (Hc3 : forall j, cr0 j + delta j t (t_free tr) = crd t (t_free tr) j)
          by (intros j; unfold crd, cr0; lia).
        destruct (trees_put_C g policy WF LF _ cr0 _ _ _ _ _ _ Hcr Ht2 Hc2 Hc3 Ep) as (-> & Hi4 & Hex).
        inv Hg. apply Hfail; [apply Inv_UIC; exact Hi4|].
        destruct Hex as (t1 & t1' & _ & _ & _ & _ & ->). cbn [us mk]. rewrite <- Hl2. reflexivity.
      + destruct Hput as (s3 & Hat3 & Hp3 & Hrt3 & Hu3 & Hcr3).
        assert (Hc3 : forall j, cr0 j + delta j t (t_free tr) = crd t (t_free tr) j)
          by (intros j; unfold crd, cr0; lia).
        specialize (Hcr3 cr0 Hc3). cbn [us mk] in Hu3.
        assert (Hl3 : low u3 = low (us x)) by (subst u3; rewrite set_slot_low; exact Hl2).
        assert (Hn3 : ntrees u3 = ntrees (us x)) by (subst u3; rewrite ntrees_set_slot; exact Hn2).
        assert (Hidx3 : idx_ok (us (mk x u3)) class local).
        { cbn [us mk]. eapply frame_idx_ok; [|exact Hidx]. eapply frame_trans; eauto. }
        assert (Hal3 : frame_al (us (mk x u3)) k frame).
        { cbn [us mk]. unfold frame_al. rewrite Hl3. exact Hal. }
        apply Inv_UIC in Hcr3.
        pose proof (IH (mk x u3) Hcr3 Hidx3 Hal3 _ _ Hg) as Hp3'.
        destruct r as [f c|e t0|s4]; cbn [glr_post] in *.
        * eapply get_post_chain; eauto.
        * destruct Hp3' as (Hq & Hq2). split; [eapply get_post_chain; eauto|].
          cbn [us mk] in Hq2. rewrite Hn3 in Hq2. exact Hq2.
        * exact Hp3'.
    - (* no reservation *)
      destruct Hl as (-> & _). inv Hg. cbn [glr_post]. split; [apply get_post_err; exact HI|].
      intros t0 Et; discriminate.
  Qed.

  Lemma get_local_G x k class local frame r u' :
    Inv x -> idx_ok (us x) class local -> (k <= tord g)%nat -> frame_al (us x) k frame ->
    get_local g policy 2 (us x) k class local frame true = (r, u') ->
    glr_post x k frame r u'.
  Proof.
    intros HI Hidx Hk Hal. apply get_local_step; auto.
    intros _ x3 HI3 Hidx3 Hal3 r3 u3. apply get_local_step; auto. discriminate.
  Qed.

  (* ----- reserve_or_steal ----- *)
  Lemma class_locals_idx u c len j :
    class_locals u c = Some len -> 0 < len -> idx_ok u c (j mod len).
  Proof.
    unfold class_locals. intros H Hl l El. rewrite El in H. cbn in H. inv H. apply N.mod_lt. lia.
  Qed.

  Lemma reserve_or_steal_G x i k class local len r u' :
    Inv x -> i < ntrees (us x) -> class_locals (us x) class = Some len -> 0 < len -> (k <= tord g)%nat ->
    reserve_or_steal g policy (us x) i k class local = (r, u') -> get_post x k None r u'.
  Proof.
    intros HI Hi Hcl Hlen Hk. unfold reserve_or_steal. unfold lift at 1.
    assert (Hc : class_slots (us x) class <> None).
    { intros E. unfold class_locals in Hcl. rewrite E in Hcl. discriminate. }
    destruct (trees_reserve_or_steal policy (us x) i class (pow2 k)) as [ro u1] eqn:Es.
    pose proof (trees_reserve_or_steal_frame _ _ _ _ _ _ _ Es) as Fr1.
    pose proof (trees_reserve_or_steal_low _ _ _ _ _ _ _ Es) as Hl1.
    pose proof HI as HC. apply Inv_UIC in HC.
    destruct (trees_reserve_or_steal_C g policy WF LF _ _ _ _ _ _ _ _ PR HC Hi Hc Es) as [(-> & ->)|Hs].
    { intros H; inv H. apply get_post_err. exact HI. }
    destruct Hs as (t & Ht & Hres & Hle & [(Hkeep & -> & Hu1 & Hih)|(Hst & -> & Hu1 & Hcr)]).
    - (* reserved: the whole counter is in hand *)
      cbv beta iota.
      assert (Hih2 : UIC (crd i (pow2 k)) [(i, class, t_free t - pow2 k)] (mk x u1)).
      { eapply UIC_ih_credit; [exact Hih|]. intros j. unfold crd, cr0, delta. destruct (j =? i); lia. }
      assert (Hi1 : i < ntrees (us (mk x u1))) by (cbn [us mk]; rewrite (frame_ntrees _ _ Fr1); exact Hi).
      destruct (lget_low g u1 (tree_row g i) k None) as [r2 u2] eqn:Eg.
      pose proof (lget_low_frame g _ _ _ _ _ _ Eg) as Fr2.
      pose proof (attempt_G _ (mk x u1) i k (tree_row g i) None r2 u2 Hih2 Hi1 Hk (row_tree_tree_row g WF i) Eg)
        as (Hb & Hs).
      cbn [us mk off] in Hb, Hs. rewrite Hl1 in Hb, Hs.
      destruct r2 as [f|e|s2]; [| |intros; destruct Hs].
      + destruct Hs as (A & B & C & D & E).
        assert (Hpost : forall u3, UIC cr0 [] (mk x u3) -> low u3 = low u2 -> get_post x k None (Ok (f, class)) u3).
        { intros u3 Hi3 Hl3. cbn [get_post]. rewrite Hl3, B. apply Inv_UIC in Hi3. splits; auto; discriminate. }
        assert (Hcl2 : class_locals u2 class = Some len).
        { rewrite (frame_class_locals (us x) u2); [exact Hcl|]. eapply frame_trans; eauto. }
        rewrite Hcl2. replace (0 <? len) with true by (symmetry; apply N.ltb_lt; exact Hlen).
        unfold lift at 1.
        destruct (locals_swap g u2 class (local mod len) (f / TF) (t_free t - pow2 k)) as [rs u3] eqn:Esw.
        pose proof (locals_swap_low g _ _ _ _ _ _ _ Esw) as Hl3.
        rewrite B in Esw.
        destruct (locals_swap_C g policy WF LF _ _ (mk x u2) _ _ _ _ _ _ A (class_locals_idx _ _ _ _ Hcl2 Hlen) Esw)
          as (s & Hat & -> & Hu3 & Hx).
        cbn [us mk] in Hu3.
        destruct (s_pres s) eqn:Hp.
        * unfold resv_of in Hx. rewrite Hp in Hx. cbn [app] in Hx.
          unfold lift. cbn [slot_resv rv_row rv_free].
          destruct (trees_unreserve g policy u3 (row_tree g (s_row s)) (s_free s) class) as [ru u4] eqn:Eu.
          pose proof (trees_unreserve_low g policy _ _ _ _ _ _ Eu) as Hl4.
          destruct (trees_unreserve_C g policy WF LF _ _ (mk x u3) _ _ _ _ _ Hx Eu) as (-> & Hi4 & _).
          intros H; inv H. apply Hpost; [exact Hi4|congruence].
        * unfold resv_of in Hx. rewrite Hp in Hx. cbn [app] in Hx.
          intros H; inv H. apply Hpost; [exact Hx|congruence].
      + destruct Hs as (-> & -> & _). unfold lift.
        destruct (trees_unreserve g policy u1 i (t_free t) class) as [ru u3] eqn:Eu.
        pose proof (trees_unreserve_low g policy _ _ _ _ _ _ Eu) as Hl3.
        destruct (trees_unreserve_C g policy WF LF _ _ (mk x u1) _ _ _ _ _ Hih Eu) as (-> & Hi3 & _).
        intros H; inv H. cbn [get_post]. apply Inv_UIC in Hi3. splits; auto; congruence.
    - (* steal: 2^k frames of credit *)
      cbv beta iota.
      specialize (Hcr (crd i (pow2 k)) (fun j => eq_refl)).
      apply pay_G; auto.
      + rewrite (frame_ntrees _ _ Fr1). exact Hi.
      + intros f Hf. discriminate.
      + intros _. apply (row_tree_tree_row g WF).
  Qed.

  (* ----- steal_local / demote_local ----- *)
  Lemma pay_G2 x u1 T k row frame c :
    UIC (crd T (pow2 k)) [] (mk x u1) -> low u1 = low (us x) -> T < ntrees u1 -> (k <= tord g)%nat ->
    frame_in (us x) k frame T -> (frame = None -> row_tree g row = T) ->
    forall r u',
    match lget_low g u1 row k frame with
    | (Err EMemory, u2) => lift (trees_put g policy u2 T (pow2 k)) (fun _ u3 => (Err EMemory, u3))
    | (Ok f, u2) => (Ok (f, c), u2)
    | (Err e, u2) => (Err e, u2)
    | (Panic s, u2) => (Panic s, u2)
    end = (r, u') -> get_post x k frame r u'.
  Proof.
    intros H Hl HT Hk Hfr Hrow r u' Hr.
    destruct (lget_low g u1 row k frame) as [r2 u2] eqn:Eg.
    assert (Hfr' : frame_in (us (mk x u1)) k frame T) by (unfold frame_in in *; cbn [us mk]; rewrite Hl; exact Hfr).
    pose proof (attempt_G [] (mk x u1) T k row frame r2 u2 H HT Hk (frame_in_attempt _ _ _ _ _ Hfr' Hrow) Eg)
      as (Hb & Hs).
    cbn [us mk off] in Hb, Hs. rewrite Hl in Hb, Hs.
    destruct r2 as [f|e|s]; [| |destruct Hs].
    - inv Hr. destruct Hs as (A & B & C & D & E). apply Inv_UIC in A. unfold get_post. rewrite B. splits; auto.
    - destruct Hs as (-> & -> & Hput). unfold lift in Hr.
      destruct (trees_put g policy u1 T (pow2 k)) as [rp u3] eqn:Ep.
      destruct (Hput _ _ eq_refl) as (-> & Hi & Hl3). apply Inv_UIC in Hi. inv Hr. unfold get_post. splits; auto.
  Qed.

  Lemma frame_al_in u k frame T :
    frame_al u k frame -> (forall f, frame = Some f -> f / TF = T) -> frame_in u k frame T.
  Proof. intros H1 H2 f Hf. destruct (H1 f Hf). splits; auto. Qed.

  Lemma steal_local_G x rq frame r u' :
    Inv x -> (r_order rq <= tord g)%nat -> frame_al (us x) (r_order rq) frame ->
    steal_local g policy (us x) rq frame = (r, u') -> get_post x (r_order rq) frame r u'.
  Proof.
    intros HI Hk Hal. unfold steal_local. unfold lift at 1.
    destruct (locals_steal_any g policy (us x) (r_class rq) (r_local rq) (option_map (fun f => f / TF) frame)
                (pow2 (r_order rq))) as [ro u1] eqn:Es.
    pose proof HI as HC. apply Inv_UIC in HC.
    destruct (steal_any_loop_inv g policy _ _ _ _ _ _ _ _ _ Es) as [(-> & ->)|Hs].
    { intros H; inv H. apply get_post_err. exact HI. }
    destruct Hs as (tc & jj & l & lr & Hcs & Hjj & _ & Hget & Hk2).
    assert (Hidx : idx_ok (us x) tc jj) by (intros l' Hl'; rewrite Hcs in Hl'; inv Hl'; exact Hjj).
    pose proof (locals_get_C g policy WF LF _ _ _ _ _ _ _ _ _ HC Hidx Hget) as Hl.
    destruct Hk2 as [(row & -> & ->)|(s & -> & ->)]; [|destruct Hl].
    destruct Hl as (s & Hat & Hp & Hrow & Hn & Htree & Hlt & Hfrm & Hu1 & Hcr).
    specialize (Hcr (crd (row_tree g row) (pow2 (r_order rq))) (fun j => eq_refl)).
    cbv beta iota. cbn [rv_row rv_class].
    apply pay_G2; auto.
    - subst u1. apply set_slot_low.
    - subst u1. rewrite ntrees_set_slot. exact Hlt.
    - apply frame_al_in; auto. intros f ->. symmetry. apply Htree. reflexivity.
  Qed.

  Lemma slot_get_inv old tree free new :
    slot_get g old tree free = Some new ->
    s_pres old = true /\ (forall t, tree = Some t -> row_tree g (s_row old) = t) /\ free <= s_free old /\
    new = {| s_pres := true; s_row := s_row old; s_free := s_free old - free |}.
  Proof.
    unfold slot_get. destruct (s_pres old); [|discriminate]. cbn [andb].
    destruct (match tree with Some i => row_tree g (s_row old) =? i | None => true end) eqn:Et; [|discriminate].
    destruct (free <=? s_free old) eqn:Ef; [|discriminate]. intros H; inv H.
    apply N.leb_le in Ef. splits; auto. intros t ->. apply N.eqb_eq. exact Et.
  Qed.

  Lemma demote_local_G x rq frame r u' :
    Inv x -> (r_order rq <= tord g)%nat -> frame_al (us x) (r_order rq) frame ->
    (forall lc, r_local rq = Some lc -> idx_ok (us x) (r_class rq) lc) ->
    demote_local g policy (us x) rq frame = (r, u') -> get_post x (r_order rq) frame r u'.
  Proof.
    intros HI Hk Hal Hidx. unfold demote_local. unfold lift at 1.
    set (k := r_order rq) in *. set (class := r_class rq) in *.
    destruct (locals_demote_any g policy (us x) class (r_local rq) (option_map (fun f => f / TF) frame) (pow2 k))
      as [ro u1] eqn:Es.
    pose proof HI as HC. apply Inv_UIC in HC.
    destruct (locals_demote_any_inv g policy _ _ _ _ _ _ _ Es) as [(-> & ->)|(Hcls & Hs)].
    { intros H; inv H. apply get_post_err. exact HI. }
    destruct Hs as (tc & idx & old & new & r0 & Hpol & Hat & Hsg & Hres & ->).
    destruct (slot_get_inv _ _ _ _ Hsg) as (Hp & Htree & Hfree & Hnew).
    destruct (UIC_slot g policy WF LF _ _ _ _ _ _ HC Hat Hp) as (HT & Hrow64 & Hsf).
    set (T := row_tree g (s_row old)) in *.
    set (ua := set_slot (us x) tc idx slot_none) in *.
    (* the emptied slot's reservation is in hand, as a reservation of the requesting class, and 2^k of it as credit *)
    assert (Ha : UIC cr0 [(T, tc, s_free old)] (mk x ua)).
    { pose proof (UIC_slot_xchg g policy cr0 [] x tc idx old slot_none Hat) as Hx.
      unfold resv_of in Hx. rewrite Hp in Hx. cbn [s_pres slot_none app] in Hx.
      apply Hx; [discriminate|exact HC]. }
    assert (Hla : low ua = low (us x)) by apply set_slot_low.
    assert (Hna : ntrees ua = ntrees (us x)) by apply ntrees_set_slot.
    assert (Hclsa : class_slots ua class <> None) by (subst ua; rewrite class_slots_set_slot_none; exact Hcls).
    assert (Hb : UIC cr0 [(T, class, s_free old)] (mk x ua)).
    { eapply UIC_ih_class; [exact Ha|exact Hclsa|].
      intros tr Htr f'. cbn [us mk] in Htr.
      pose proof (UIC_tree g policy WF LF _ _ _ _ _ Ha Htr) as Hok.
      apply (tree_okC_nn g policy WF LF) in Hok. destruct Hok as (_ & _ & _ & _ & F).
      eapply PT; [exact Hpol|]. eapply F. left. reflexivity. }
    assert (Hc : UIC (crd T (pow2 k)) [(T, class, s_free old - pow2 k)] (mk x ua)).
    { eapply UIC_ih_credit; [exact Hb|]. intros j. unfold crd, cr0, delta. destruct (j =? T); lia. }
    assert (Hfin : forall u2, UIC (crd T (pow2 k)) [] (mk x u2) -> low u2 = low (us x) -> ntrees u2 = ntrees (us x) ->
              forall r u',
              match lget_low g u2 (s_row new) k frame with
              | (Err EMemory, u3) => lift (trees_put g policy u3 (row_tree g (s_row new)) (pow2 k))
                                          (fun _ u4 => (Err EMemory, u4))
              | (Ok f, u3) => (Ok (f, class), u3)
              | (Err e, u3) => (Err e, u3)
              | (Panic s, u3) => (Panic s, u3)
              end = (r, u') -> get_post x k frame r u').
    { intros u2 H2 Hl2 Hn2 r1 u1' Hr. rewrite Hnew in Hr. cbn [s_row] in Hr. fold T in Hr.
      eapply pay_G2; eauto.
      - rewrite Hn2. exact HT.
      - apply frame_al_in; auto. intros f ->. symmetry. apply Htree. reflexivity.
      - intros _. reflexivity. }
    unfold demote_result in Hres. cbv zeta in Hres. fold ua in Hres.
    destruct (r_local rq) as [lc|] eqn:Eloc.
    - (* the demoted reservation replaces slot lc of the requesting class *)
      assert (Hidxa : idx_ok ua class lc).
      { eapply frame_idx_ok; [apply set_slot_frame|]. apply Hidx. reflexivity. }
      destruct (slot_at ua class lc) as [o2|] eqn:Eo2.
      2:{ exfalso. unfold slot_at in Eo2. destruct (class_slots ua class) as [ml|] eqn:Eml; [|congruence].
          destruct (idx_ok_slot _ _ _ _ Hidxa Eml) as (s2 & Hs2). congruence. }
      destruct Hres as (-> & ->).
      assert (Hd : UIC (crd T (pow2 k)) (resv_of g class o2 ++ []) (mk x (set_slot ua class lc new))).
      { apply (UIC_slot_xchg g policy _ [] (mk x ua) class lc o2 new Eo2).
        - intros _. cbn [us mk]. rewrite Hla, Hnew. cbn [s_row s_free]. split; [exact Hrow64|lia].
        - unfold resv_of. rewrite Hnew. cbn [s_pres s_row s_free app]. exact Hc. }
      set (ub := set_slot ua class lc new) in *.
      assert (Hlb : low ub = low (us x)) by (subst ub; rewrite set_slot_low; exact Hla).
      assert (Hnb : ntrees ub = ntrees (us x)) by (subst ub; rewrite ntrees_set_slot; exact Hna).
      cbv beta iota. destruct (s_pres o2) eqn:Hp2.
      + unfold resv_of in Hd. rewrite Hp2 in Hd. cbn [app] in Hd.
        cbn [slot_resv rv_row rv_free rv_class]. unfold lift at 1.
        destruct (trees_unreserve g policy ub (row_tree g (s_row o2)) (s_free o2) class) as [ru uc] eqn:Eu.
        pose proof (trees_unreserve_low g policy _ _ _ _ _ _ Eu) as Hlc.
        pose proof (trees_unreserve_frame g policy _ _ _ _ _ _ Eu) as Frc.
        destruct (trees_unreserve_C g policy WF LF _ _ (mk x ub) _ _ _ _ _ Hd Eu) as (-> & He & _).
        apply Hfin; auto; [congruence|]. rewrite (frame_ntrees _ _ Frc). exact Hnb.
      + unfold resv_of in Hd. rewrite Hp2 in Hd. cbn [app] in Hd.
        unfold lift at 1. apply Hfin; auto.
    - (* no slot to put it in: the demoted reservation is returned to its tree *)
      destruct Hres as (-> & ->). cbv beta iota.
      cbn [slot_resv rv_row rv_free rv_class]. unfold lift at 1.
      rewrite Hnew at 1 2. cbn [s_row s_free]. fold T.
      destruct (trees_unreserve g policy ua T (s_free old - pow2 k) class) as [ru uc] eqn:Eu.
      pose proof (trees_unreserve_low g policy _ _ _ _ _ _ Eu) as Hlc.
      pose proof (trees_unreserve_frame g policy _ _ _ _ _ _ Eu) as Frc.
      destruct (trees_unreserve_C g policy WF LF _ _ (mk x ua) _ _ _ _ _ Hc Eu) as (-> & He & _).
      apply Hfin; auto; [congruence|]. rewrite (frame_ntrees _ _ Frc). exact Hna.
  Qed.

  (* ============================ composition ============================ *)
  Definition GP (x : ustate) (k : nat) (frame : option N) (r : res (N * N)) (u' : upper) : Prop :=
    get_post x k frame r u' /\ frame_rel (us x) u'.

  Definition req_ok (u : upper) (rq : request) (frame : option N) : Prop :=
    class_slots u (r_class rq) <> None /\ (r_order rq <= tord g)%nat /\
    (forall lc, r_local rq = Some lc -> idx_ok u (r_class rq) lc) /\
    frame_al u (r_order rq) frame.

  Lemma req_ok_frame u u1 rq frame :
    frame_rel u u1 -> low u1 = low u -> req_ok u rq frame -> req_ok u1 rq frame.
  Proof.
    intros Fr Hl (A & B & C & D). unfold req_ok. splits; auto.
    - apply (frame_class_slots u u1); auto.
    - intros lc Hlc. eapply frame_idx_ok; eauto.
    - unfold frame_al. rewrite Hl. exact D.
  Qed.

  Lemma GP_err_inv x k frame u1 : GP x k frame (Err EMemory) u1 ->
    Inv (mk x u1) /\ low u1 = low (us x) /\ frame_rel (us x) u1.
  Proof. intros ((_ & A & B) & C). auto. Qed.

  Lemma GP_chain x k frame u1 r u' :
    GP x k frame (Err EMemory) u1 -> GP (mk x u1) k frame r u' -> GP x k frame r u'.
  Proof.
    intros H1 (H2 & H3). destruct (GP_err_inv _ _ _ _ H1) as (A & B & C). split.
    - eapply get_post_chain; eauto.
    - cbn [us mk] in H3. eapply frame_trans; eauto.
  Qed.

  Lemma GP_refl x k frame : Inv x -> GP x k frame (Err EMemory) (us x).
  Proof. intros H. split; [apply get_post_err; exact H|apply frame_refl]. Qed.

  Lemma GP_no_other_err x k frame e u' : GP x k frame (Err e) u' -> e = EMemory.
  Proof. intros ((A & _) & _). exact A. Qed.

  (* ----- the search loops ----- *)
  Lemma search_best_GP x k (acc : upper -> N -> res (N * N) * upper) rate cap start offset len r u' :
    Inv x ->
    (forall u1 i r1 u2, GP x k None (Err EMemory) u1 -> i < ntrees (us x) -> acc u1 i = (r1, u2) ->
                        GP (mk x u1) k None r1 u2) ->
    (ntrees (us x) = 0 -> len <= offset) ->
    search_best g acc rate cap (us x) start offset len = (r, u') -> GP x k None r u'.
  Proof.
    intros HI Hacc Hz Hs.
    pose proof (search_best_inv g acc (ntrees (us x)) (fun u1 => GP x k None (Err EMemory) u1)
                  (fun r u' => GP x k None r u')) as L.
    assert (Hout : forall r u', outcome (fun u1 => GP x k None (Err EMemory) u1) (fun r u' => GP x k None r u') r u'
                                -> GP x k None r u').
    { intros r0 u0. unfold outcome. destruct r0 as [a|[]|s]; auto. }
    apply Hout. eapply L; [| |apply GP_refl; exact HI|exact Hz|exact Hs].
    - intros u1 H1. destruct (GP_err_inv _ _ _ _ H1) as (_ & _ & Fr). apply frame_ntrees. exact Fr.
    - intros u1 i r1 u2 H1 Hi Ha. pose proof (GP_chain _ _ _ _ _ _ H1 (Hacc _ _ _ _ H1 Hi Ha)) as H2.
      unfold outcome. destruct r1 as [a|[]|s]; auto.
  Qed.

  Lemma steal_global_GP x rq u1 i r1 u2 :
    req_ok (us x) rq None -> GP x (r_order rq) None (Err EMemory) u1 -> i < ntrees (us x) ->
    steal_global g policy u1 i (r_class rq) (r_order rq) None = (r1, u2) ->
    GP (mk x u1) (r_order rq) None r1 u2.
  Proof.
    intros Hok H1 Hi Ha. destruct (GP_err_inv _ _ _ _ H1) as (A & B & C).
    destruct (req_ok_frame _ _ _ _ C B Hok) as (Q1 & Q2 & Q3 & Q4).
    split; [|cbn [us mk]; eapply steal_global_frame; eauto].
    eapply steal_global_G; cbn [us mk]; eauto.
    - rewrite (frame_ntrees _ _ C). exact Hi.
    - intros f Hf; discriminate.
  Qed.

  Lemma reserve_or_steal_GP x rq local len u1 i r1 u2 :
    req_ok (us x) rq None -> class_locals (us x) (r_class rq) = Some len -> 0 < len ->
    GP x (r_order rq) None (Err EMemory) u1 -> i < ntrees (us x) ->
    reserve_or_steal g policy u1 i (r_order rq) (r_class rq) local = (r1, u2) ->
    GP (mk x u1) (r_order rq) None r1 u2.
  Proof.
    intros Hok Hcl Hlen H1 Hi Ha. destruct (GP_err_inv _ _ _ _ H1) as (A & B & C).
    destruct (req_ok_frame _ _ _ _ C B Hok) as (Q1 & Q2 & Q3 & Q4).
    split; [|cbn [us mk]; eapply reserve_or_steal_frame; eauto].
    eapply reserve_or_steal_G; cbn [us mk]; eauto.
    - rewrite (frame_ntrees _ _ C). exact Hi.
    - rewrite (frame_class_locals _ _ _ C). exact Hcl.
  Qed.

  Lemma search_and_reserve_GP x rq local len start r u' :
    Inv x -> req_ok (us x) rq None -> class_locals (us x) (r_class rq) = Some len -> 0 < len ->
    ntrees (us x) <> 0 ->
    search_and_reserve g policy (us x) (r_order rq) (r_class rq) local start = (r, u') ->
    GP x (r_order rq) None r u'.
  Proof.
    intros HI Hok Hcl Hlen Hn. unfold search_and_reserve.
    set (acc := fun u i => reserve_or_steal g policy u i (r_order rq) (r_class rq) local).
    assert (Hacc : forall x0, Inv x0 -> req_ok (us x0) rq None -> class_locals (us x0) (r_class rq) = Some len ->
              forall u1 i r1 u2, GP x0 (r_order rq) None (Err EMemory) u1 -> i < ntrees (us x0) ->
                                 acc u1 i = (r1, u2) -> GP (mk x0 u1) (r_order rq) None r1 u2).
    { intros x0 HI0 Hok0 Hcl0 u1 i r1 u2 H1 Hi Ha. eapply reserve_or_steal_GP; eauto. }
    match goal with |- match ?first with _ => _ end = _ -> _ => destruct first as [r1 u1] eqn:E1 end.
    assert (H1 : GP x (r_order rq) None r1 u1).
    { destruct (Nat.ltb (r_order rq) (hord g)).
      - eapply search_best_GP; [exact HI|apply Hacc; auto| |exact E1]. intros; contradiction.
      - inv E1. apply GP_refl. exact HI. }
    destruct r1 as [a|e|s]; [intros H; inv H; exact H1| |intros H; inv H; exact H1].
    pose proof (GP_no_other_err _ _ _ _ _ H1). subst e.
    destruct (GP_err_inv _ _ _ _ H1) as (A & B & C).
    intros H2. eapply GP_chain; [exact H1|].
    eapply search_best_GP; [exact A| | |exact H2].
    - apply Hacc; auto; cbn [us mk].
      + eapply req_ok_frame; eauto.
      + rewrite (frame_class_locals _ _ _ C). exact Hcl.
    - cbn [us mk]. rewrite (frame_ntrees _ _ C). intros; contradiction.
  Qed.

  (* ----- last resorts ----- *)
  Lemma steal_local_GP x rq frame r u' :
    Inv x -> req_ok (us x) rq frame ->
    steal_local g policy (us x) rq frame = (r, u') -> GP x (r_order rq) frame r u'.
  Proof.
    intros HI (Q1 & Q2 & Q3 & Q4) H. split; [eapply steal_local_G; eauto|eapply steal_local_frame; eauto].
  Qed.
  Lemma demote_local_GP x rq frame r u' :
    Inv x -> req_ok (us x) rq frame ->
    demote_local g policy (us x) rq frame = (r, u') -> GP x (r_order rq) frame r u'.
  Proof.
    intros HI (Q1 & Q2 & Q3 & Q4) H. split; [eapply demote_local_G; eauto|eapply demote_local_frame; eauto].
  Qed.

  Lemma oom_GP x rq frame r u' :
    Inv x -> req_ok (us x) rq frame ->
    match steal_local g policy (us x) rq frame with
    | (Err EMemory, u2) => demote_local g policy u2 rq frame
    | other => other
    end = (r, u') -> GP x (r_order rq) frame r u'.
  Proof.
    intros HI Hok. destruct (steal_local g policy (us x) rq frame) as [r1 u1] eqn:E1.
    pose proof (steal_local_GP _ _ _ _ _ HI Hok E1) as H1.
    destruct r1 as [a|e|s]; [intros H; inv H; exact H1| |intros H; inv H; exact H1].
    pose proof (GP_no_other_err _ _ _ _ _ H1). subst e.
    destruct (GP_err_inv _ _ _ _ H1) as (A & B & C).
    intros H2. eapply GP_chain; [exact H1|].
    eapply demote_local_GP; eauto. cbn [us mk]. eapply req_ok_frame; eauto.
  Qed.

  Lemma oom_GP' x rq r u' :
    Inv x -> req_ok (us x) rq None ->
    match steal_local g policy (us x) rq None with
    | (Err EMemory, u2) =>
        match demote_local g policy u2 rq None with
        | (Err EMemory, u3) => (Err EMemory, u3)
        | other => other
        end
    | other => other
    end = (r, u') -> GP x (r_order rq) None r u'.
  Proof.
    intros HI Hok H. apply oom_GP; auto.
    destruct (steal_local g policy (us x) rq None) as [[a|[]|s] u1]; auto.
    destruct (demote_local g policy u1 rq None) as [[a|[]|s] u2]; auto.
  Qed.

  (* ----- check ----- *)
  Lemma check_cases u f rq : check g u f rq = Ok tt \/ check g u f rq = Err EArgument.
  Proof.
    unfold check. destruct (negb (Nat.leb (r_order rq) (tord g))); auto.
    destruct (negb _); auto. destruct (negb _); auto. destruct (class_locals u (r_class rq)); auto.
  Qed.

  Lemma check_ok u f rq : check g u f rq = Ok tt ->
    (r_order rq <= tord g)%nat /\ f + pow2 (r_order rq) <= frames (low u) /\
    aligned f (r_order rq) = true /\ class_slots u (r_class rq) <> None.
  Proof.
    unfold check. destruct (Nat.leb (r_order rq) (tord g)) eqn:E1; cbn [negb]; [|discriminate].
    destruct ((f + pow2 (r_order rq) <? W64) && (f + pow2 (r_order rq) <=? frames (low u))) eqn:E2;
      cbn [negb]; [|discriminate].
    destruct (f mod pow2 (r_order rq) =? 0) eqn:E3; cbn [negb]; [|discriminate].
    destruct (class_locals u (r_class rq)) eqn:E4; [|discriminate]. intros _.
    apply Nat.leb_le in E1. apply andb_true_iff in E2. destruct E2 as (_ & E2). apply N.leb_le in E2.
    splits; auto. unfold class_locals in E4. intros E; rewrite E in E4; discriminate.
  Qed.

  Lemma get_local_GP x rq local frame r u' :
    Inv x -> req_ok (us x) rq frame -> r_local rq = Some local ->
    get_local g policy 2 (us x) (r_order rq) (r_class rq) local frame true = (r, u') ->
    glr_post x (r_order rq) frame r u' /\ frame_rel (us x) u'.
  Proof.
    intros HI (Q1 & Q2 & Q3 & Q4) Hloc H. split; [eapply get_local_G; eauto|eapply get_local_frame; eauto].
  Qed.

  Lemma get_at_GP x f rq r u' :
    Inv x -> req_ok (us x) rq (Some f) ->
    get_at g policy (us x) f rq = (r, u') -> GP x (r_order rq) (Some f) r u'.
  Proof.
    intros HI Hok. unfold get_at.
    assert (Hafter : forall x1, Inv x1 -> req_ok (us x1) rq (Some f) -> forall r u',
      match steal_global g policy (us x1) (f / TF) (r_class rq) (r_order rq) (Some f) with
      | (Err EMemory, u2) =>
          match steal_local g policy u2 rq (Some f) with
          | (Err EMemory, u3) => demote_local g policy u3 rq (Some f)
          | other => other
          end
      | other => other
      end = (r, u') -> GP x1 (r_order rq) (Some f) r u').
    { intros x1 HI1 Hok1 r1 u1'. pose proof Hok1 as (Q1 & Q2 & Q3 & Q4).
      destruct (Q4 f eq_refl) as (Ha & Hb).
      destruct (steal_global g policy (us x1) (f / TF) (r_class rq) (r_order rq) (Some f)) as [r2 u2] eqn:E2.
      assert (H2 : GP x1 (r_order rq) (Some f) r2 u2).
      { split; [|eapply steal_global_frame; eauto].
        eapply steal_global_G; eauto.
        - pose proof HI1 as HC. apply Inv_UIC in HC. rewrite (UIC_ntrees g policy WF LF _ _ _ HC).
          apply div_lt_ntab.
          assert (0 < pow2 (r_order rq)) by (unfold pow2; apply N.neq_0_lt_0, N.pow_nonzero; lia). lia.
        - intros f0 Hf0. inv Hf0. splits; auto. }
      destruct r2 as [a|e|s]; [intros H; inv H; exact H2| |intros H; inv H; exact H2].
      pose proof (GP_no_other_err _ _ _ _ _ H2). subst e.
      destruct (GP_err_inv _ _ _ _ H2) as (A & B & C).
      intros H3. eapply GP_chain; [exact H2|].
      apply oom_GP; [exact A| |exact H3]. cbn [us mk]. eapply req_ok_frame; eauto. }
    destruct (r_local rq) as [local|] eqn:Eloc; [|apply Hafter; auto].
    destruct (get_local g policy 2 (us x) (r_order rq) (r_class rq) local (Some f) true) as [rl u1] eqn:El.
    destruct (get_local_GP _ _ _ _ _ _ HI Hok Eloc El) as (Hp & Fr).
    destruct rl as [f1 c1|e t|s]; cbn [glr_post] in Hp.
    - cbn [of_glr]. intros H; inv H. split; auto.
    - destruct Hp as (Hp & _). pose proof Hp as (He & A & B). subst e.
      intros H. eapply GP_chain; [split; eauto|].
      apply Hafter; [exact A| |exact H]. cbn [us mk]. eapply req_ok_frame; eauto.
    - destruct Hp.
  Qed.

  Theorem llfree_get_GP x frame rq r u' :
    Inv x -> (forall lc, r_local rq = Some lc -> idx_ok (us x) (r_class rq) lc) ->
    llfree_get g policy (us x) frame rq = (r, u') ->
    let f0 := match frame with Some f => f | None => 0 end in
    (check g (us x) f0 rq = Err EArgument /\ r = Err EArgument /\ u' = us x) \/
    (check g (us x) f0 rq = Ok tt /\ GP x (r_order rq) frame r u').
  Proof.
    intros HI Hidx. unfold llfree_get. cbv zeta.
    destruct (check_cases (us x) (match frame with Some f => f | None => 0 end) rq) as [Ec|Ec]; rewrite Ec.
    2:{ intros H; inv H. left. auto. }
    right. split; [reflexivity|]. revert H.
    destruct (check_ok _ _ _ Ec) as (Hk & Hfr & Hal & Hcls).
    destruct frame as [f|].
    { apply get_at_GP; auto. unfold req_ok. splits; auto. intros f1 Hf1. inv Hf1. auto. }
    assert (Hok : req_ok (us x) rq None).
    { unfold req_ok. splits; auto. intros f1 Hf1. discriminate. }
    set (len := match class_locals (us x) (r_class rq) with Some n => n | None => 0 end).
    set (start0 := (if len =? 0 then 0 else ntrees (us x) / len) * match r_local rq with Some i => i | None => 0 end).
    assert (Hsb : forall r u',
      match search_best g (fun u i => steal_global g policy u i (r_class rq) (r_order rq) None)
              (rate_req policy (r_class rq) (pow2 (r_order rq))) 8 (us x) start0 0 (ntrees (us x)) with
      | (Err EMemory, u1) =>
          match steal_local g policy u1 rq None with
          | (Err EMemory, u2) =>
              match demote_local g policy u2 rq None with
              | (Err EMemory, u3) => (Err EMemory, u3)
              | other => other
              end
          | other => other
          end
      | other => other
      end = (r, u') -> GP x (r_order rq) None r u').
    { intros r0 u0.
      destruct (search_best g _ _ 8 (us x) start0 0 (ntrees (us x))) as [r1 u1] eqn:E1.
      assert (H1 : GP x (r_order rq) None r1 u1).
      { apply (fun Hacc Hz => search_best_GP x (r_order rq) _ _ _ _ _ _ _ _ HI Hacc Hz E1).
        - intros u2 i r2 u3 H2 Hi Ha. eapply steal_global_GP; eauto.
        - intros Hn. rewrite Hn. lia. }
      destruct r1 as [a|e|s]; [intros H; inv H; exact H1| |intros H; inv H; exact H1].
      pose proof (GP_no_other_err _ _ _ _ _ H1). subst e.
      destruct (GP_err_inv _ _ _ _ H1) as (A & B & C).
      intros H2. eapply GP_chain; [exact H1|].
      apply oom_GP'; [exact A| |exact H2]. cbn [us mk]. eapply req_ok_frame; eauto. }
    destruct (r_local rq) as [local|] eqn:Eloc; [|apply Hsb].
    destruct ((0 <? len) && (len <? ntrees (us x))) eqn:Econd; [|apply Hsb].
    apply andb_true_iff in Econd. destruct Econd as (Hl0 & Hln). apply N.ltb_lt in Hl0, Hln.
    assert (Hcl : class_locals (us x) (r_class rq) = Some len).
    { subst len. destruct (class_locals (us x) (r_class rq)); [reflexivity|lia]. }
    destruct (get_local g policy 2 (us x) (r_order rq) (r_class rq) local None true) as [rl u1] eqn:El.
    destruct (get_local_GP _ _ _ _ _ _ HI Hok Eloc El) as (Hp & Fr).
    destruct rl as [f1 c1|e t|s]; cbn [glr_post] in Hp.
    - intros H; inv H. split; auto.
    - destruct Hp as (Hp & _). pose proof Hp as (He & A & B). subst e.
      assert (H1 : GP x (r_order rq) None (Err EMemory) u1) by (split; auto).
      assert (Hok1 : req_ok (us (mk x u1)) rq None) by (cbn [us mk]; eapply req_ok_frame; eauto).
      destruct (search_and_reserve g policy u1 (r_order rq) (r_class rq) local
                  match t with Some s => s | None => start0 end) as [r2 u2] eqn:E2.
      assert (H2 : GP (mk x u1) (r_order rq) None r2 u2).
      { eapply search_and_reserve_GP; eauto; cbn [us mk].
        - rewrite (frame_class_locals _ _ _ Fr). exact Hcl.
        - rewrite (frame_ntrees _ _ Fr). lia. }
      pose proof (GP_chain _ _ _ _ _ _ H1 H2) as H12.
      destruct r2 as [a|e|s]; [intros H; inv H; exact H12| |intros H; inv H; exact H12].
      pose proof (GP_no_other_err _ _ _ _ _ H12). subst e.
      destruct (GP_err_inv _ _ _ _ H12) as (A2 & B2 & C2).
      intros H3. eapply GP_chain; [exact H12|].
      apply oom_GP'; [exact A2| |exact H3]. cbn [us mk]. eapply req_ok_frame; eauto.
    - destruct Hp.
  Qed.
End GetInv.

(* ============================================================================================== *)
(* The property theorems for `llfree_get` *)
Section GetTheorems.
  Variable g : geom.
  Variable policy : N -> N -> N -> pol.
  Hypothesis WF : wf_geom g.
  Hypothesis LF : lower_facts g.
  Hypothesis PR : pol_refl_match policy.
  Hypothesis PT : pol_demote_trans policy.
  Notation TF := (TF g).

  (* a slot index, if given, exists *)
  Definition valid_local (u : upper) (rq : request) : Prop :=
    forall lc, r_local rq = Some lc -> idx_ok u (r_class rq) lc.

  Definition get_frame0 (frame : option N) : N := match frame with Some f => f | None => 0 end.

  Lemma ghost_lift_get x frame rq r x' :
    ghost_lift (fun u => llfree_get g policy u frame rq) x = (r, x') ->
    exists u', llfree_get g policy (us x) frame rq = (r, u') /\ x' = mk x u'.
  Proof.
    unfold ghost_lift. destruct (llfree_get g policy (us x) frame rq) as [r0 u0]. intros H; inv H.
    eexists; split; reflexivity.
  Qed.

  (* C09 for get: no panic, the invariant is preserved in every outcome, Err EArgument exactly when
     `check` rejects (and then nothing changed); the only other error is EMemory *)
  Theorem llfree_get_inv x frame rq r x' :
    UpperInv g policy x -> valid_local (us x) rq ->
    ghost_lift (fun u => llfree_get g policy u frame rq) x = (r, x') ->
    (forall s, r <> Panic s) /\
    UpperInv g policy x' /\
    (r = Err EArgument <-> check g (us x) (get_frame0 frame) rq = Err EArgument) /\
    (r = Err EArgument -> x' = x) /\
    (forall e, r = Err e -> e = EMemory \/ e = EArgument).
  Proof.
    intros HI Hv H. destruct (ghost_lift_get _ _ _ _ _ H) as (u' & Hg & ->).
    destruct (llfree_get_GP g policy WF LF PR PT x frame rq r u' HI Hv Hg) as [(Hc & -> & ->)|(Hc & Hp & Fr)].
    - splits; try discriminate.
      + rewrite mk_id. exact HI.
      + tauto.
      + intros _. apply mk_id.
      + intros e He. inv He. auto.
    - unfold get_frame0. rewrite Hc. unfold get_post in Hp.
      destruct r as [[f c]|e|s]; [| |destruct Hp].
      + destruct Hp as (A & _). splits; try discriminate; auto. split; discriminate.
      + destruct Hp as (-> & A & _). splits; try discriminate; auto.
        * split; discriminate.
        * intros e He. inv He. auto.
  Qed.

  (* C02 lift: a successful get is a `spec_get` step of the ownership state on an enabled block (the
     requested one for a targeted get); a failing get leaves the lower allocator untouched *)
  Theorem llfree_get_spec x frame rq r x' :
    UpperInv g policy x -> valid_local (us x) rq ->
    ghost_lift (fun u => llfree_get g policy u frame rq) x = (r, x') ->
    match r with
    | Ok (f, c) =>
        spec_get_enabled (abs g (low (us x))) f (r_order rq) = true /\
        abs g (low (us x')) = spec_get g (abs g (low (us x))) f (r_order rq) /\
        (forall f0, frame = Some f0 -> f = f0)
    | Err _ => low (us x') = low (us x) /\ abs g (low (us x')) = abs g (low (us x))
    | Panic _ => False
    end.
  Proof.
    intros HI Hv H. destruct (ghost_lift_get _ _ _ _ _ H) as (u' & Hg & ->). cbn [us mk].
    destruct (llfree_get_GP g policy WF LF PR PT x frame rq r u' HI Hv Hg) as [(Hc & -> & ->)|(Hc & Hp & Fr)].
    - auto.
    - unfold get_post in Hp. destruct r as [[f c]|e|s]; [| |exact Hp].
      + destruct Hp as (_ & A & B & C & _). auto.
      + destruct Hp as (_ & _ & A). rewrite A. auto.
  Qed.

  (* C15 (part): the tree of an allocated frame had at least 2^order visible free frames, i.e. free
     frames not hidden by an offline operation (tree_free - off, which by U3 is the tree counter plus
     the reservations on the tree) *)
  Theorem llfree_get_visible x frame rq f c x' :
    UpperInv g policy x -> valid_local (us x) rq ->
    ghost_lift (fun u => llfree_get g policy u frame rq) x = (Ok (f, c), x') ->
    pow2 (r_order rq) + nth (nn (f / TF)) (off x) 0 <= tree_free g (low (us x)) (f / TF).
  Proof.
    intros HI Hv H. destruct (ghost_lift_get _ _ _ _ _ H) as (u' & Hg & ->).
    destruct (llfree_get_GP g policy WF LF PR PT x frame rq _ u' HI Hv Hg) as [(Hc & Hr & _)|(Hc & Hp & Fr)].
    - discriminate.
    - destruct Hp as (_ & _ & _ & _ & A). exact A.
  Qed.

  (* ... in particular nothing is allocated in a tree whose free frames are all hidden *)
  Corollary llfree_get_not_hidden x frame rq f c x' t :
    UpperInv g policy x -> valid_local (us x) rq ->
    nth (nn t) (off x) 0 = tree_free g (low (us x)) t ->
    ghost_lift (fun u => llfree_get g policy u frame rq) x = (Ok (f, c), x') ->
    f / TF <> t.
  Proof.
    intros HI Hv Hoff H Ef. pose proof (llfree_get_visible _ _ _ _ _ _ HI Hv H) as Hb.
    rewrite Ef, Hoff in Hb.
    assert (0 < pow2 (r_order rq)) by (unfold pow2; apply N.neq_0_lt_0, N.pow_nonzero; lia). lia.
  Qed.

  (* the configuration is untouched: a valid request stays valid *)
  Theorem llfree_get_frame x frame rq r x' :
    ghost_lift (fun u => llfree_get g policy u frame rq) x = (r, x') ->
    UpperInv g policy x -> valid_local (us x) rq ->
    frame_rel (us x) (us x') /\ valid_local (us x') rq.
  Proof.
    intros H HI Hv. destruct (ghost_lift_get _ _ _ _ _ H) as (u' & Hg & ->). cbn [us mk].
    assert (Fr : frame_rel (us x) u').
    { destruct (llfree_get_GP g policy WF LF PR PT x frame rq r u' HI Hv Hg) as [(_ & _ & ->)|(_ & _ & Fr)];
        [apply frame_refl|exact Fr]. }
    split; [exact Fr|]. intros lc Hlc. eapply frame_idx_ok; eauto.
  Qed.
End GetTheorems.

(* ============================================================================================== *)
(* Non-vacuity: the model evaluated on a concrete allocator (geometry 9/2, 5000 frames = 3 trees, the
   simple ordered policy, classes 0 and 1 with two slots each, default class 1).  `upper_invb` is the
   executable twin of `UpperInv`. *)
Module GetExamples.
  Definition g := {| hord := 9; tlog := 2 |}.
  Definition pol := ordered_policy (fun _ => 1).
  Definition lower0 := {| frames := 0; bfs := []; ents := [] |}.
  Definition u0 := match llfree_new g 5000 IFreeAll [(0,2);(1,2)] 1 lower0 [] (repeat slot_none 4) with
                   | Ok u => u
                   | _ => {| low := lower0; trees := []; locals := []; dflt := 0 |}
                   end.
  Definition x0 := ustate_new u0.
  Definition rq o c l := {| r_order := o; r_class := c; r_local := l |}.
  Definition get (x : ustate) (frame : option N) (r : request) :=
    ghost_lift (fun u => llfree_get g pol u frame r) x.
  Definition idx_okb (u : upper) (r : request) : bool :=
    match r_local r, class_slots u (r_class r) with
    | Some i, Some l => i <? N.of_nat (length l)
    | _, _ => true
    end.

  (* hypotheses hold on the concrete instance *)
  Example ex_hyps :
    wf_geom g /\ pol_refl_match pol /\ pol_demote_trans pol /\
    upper_invb g pol x0 = true /\ idx_okb u0 (rq 0 0 (Some 0)) = true.
  Proof.
    split; [unfold wf_geom, g; cbn; lia|]. split; [apply ordered_refl_match|].
    split; [apply ordered_demote_trans|]. split; vm_compute; reflexivity.
  Qed.

  (* Ok outcome through a local slot (reserves a tree): C09 (invariant after), C02 (enabled, spec_get),
     C13 (class), C15 (visible frames) *)
  Example ex_get_ok :
    exists f c x1, get x0 None (rq 0 0 (Some 0)) = (Ok (f, c), x1) /\
      upper_invb g pol x1 = true /\
      spec_get_enabled (abs g (low (us x0))) f 0 = true /\
      abs g (low (us x1)) = spec_get g (abs g (low (us x0))) f 0 /\
      c = 0 /\
      (1 + nth (nn (f / TF g)) (off x0) 0 <=? tree_free g (low (us x0)) (f / TF g)) = true /\
      present_slots (us x1) <> [].
  Proof.
    eexists _, _, _. split; [vm_compute; reflexivity|].
    repeat split; try (vm_compute; reflexivity). vm_compute. discriminate.
  Qed.

  (* targeted get: the requested frame *)
  Example ex_get_at :
    exists c x1, get x0 (Some 100) (rq 2 1 None) = (Ok (100, c), x1) /\
      upper_invb g pol x1 = true /\
      abs g (low (us x1)) = spec_get g (abs g (low (us x0))) 100 2.
  Proof. eexists _, _. split; [vm_compute; reflexivity|]. split; vm_compute; reflexivity. Qed.

  (* rejected by `check`: Err EArgument, nothing changes *)
  Example ex_get_earg :
    get x0 None (rq 12 0 None) = (Err EArgument, x0) /\
    check g (us x0) 0 (rq 12 0 None) = Err EArgument /\
    get x0 (Some 3) (rq 1 0 None) = (Err EArgument, x0) /\
    get x0 None (rq 0 5 None) = (Err EArgument, x0).
  Proof. repeat split; vm_compute; reflexivity. Qed.

  (* out of memory: two whole trees are taken, the third tree is partial (904 frames) *)
  Definition x2 := snd (get (snd (get x0 None (rq 11 1 None))) None (rq 11 1 None)).
  Example ex_get_emem :
    exists x3, get x2 None (rq 11 1 (Some 1)) = (Err EMemory, x3) /\
      upper_invb g pol x2 = true /\ upper_invb g pol x3 = true /\ low (us x3) = low (us x2).
  Proof. eexists. split; [vm_compute; reflexivity|]. repeat split; vm_compute; reflexivity. Qed.

  (* a tree taken offline hides its frames: nothing is allocated there although the lower allocator
     has them free *)
  Definition xoff := snd (ghost_change g x0 {| m_id := Some 1; m_class := None; m_free := 0 |}
                                       {| c_class := None; c_op := Some OpOffline |}).
  Example ex_get_hidden :
    upper_invb g pol xoff = true /\
    nth 1 (off xoff) 0 = tree_free g (low (us xoff)) 1 /\ tree_free g (low (us xoff)) 1 = 2048 /\
    (exists x1, get xoff (Some 2048) (rq 0 1 None) = (Err EMemory, x1)) /\
    (exists f c x1, get xoff None (rq 11 1 None) = (Ok (f, c), x1) /\ f / TF g = 0) /\
    (exists x1, get (snd (get xoff None (rq 11 1 None))) None (rq 10 1 None) = (Err EMemory, x1)).
  Proof.
    split; [vm_compute; reflexivity|]. split; [vm_compute; reflexivity|]. split; [vm_compute; reflexivity|].
    split; [eexists; vm_compute; reflexivity|].
    split; [eexists _, _, _; split; vm_compute; reflexivity|].
    eexists; vm_compute; reflexivity.
  Qed.
End GetExamples.
