(* Proofs about `llfree_get` of the sequential upper-allocator model (Upper.v). *)
From LLF Require Import Base Row Bitfield Lower Spec Sorted Upper UpperInvDef LowerFacts UpperPrims UpperGetLoops.

Ltac inv H := inversion H; subst; clear H.

(* keep the kernel from unrolling the fuel-driven loops when it checks conversions at Qed *)
Local Strategy 1000 [locals_steal_any locals_demote_any steal_any_loop demote_any_loop steal_slots demote_slots
  get_local search_best sb_loop sb_try search_loop lower_get_opt lower_get lower_get_at lget_low
  trees_put trees_sync trees_steal trees_reserve_or_steal trees_unreserve
  locals_get locals_put locals_swap locals_set_start].
Local Strategy 500 [steal_global reserve_or_steal steal_local demote_local].
Local Strategy 400 [search_and_reserve].
Local Strategy 300 [get_at].

(* ============================================================================================== *)
(* C13: the class returned by a successful get is the requested class, or a class for which the
   policy (evaluated in the same call) said Match or Steal.  Path-local: holds for any policy and
   any state. *)
Section C13.
  Variable g : geom.
  Variable policy : N -> N -> N -> pol.

  Definition class_ok (rc c' : N) : Prop :=
    c' = rc \/ exists t fr, c' = t /\ (pol_is_match (policy rc t fr) = true \/ policy rc t fr = PSteal).

  Lemma class_ok_refl rc : class_ok rc rc.
  Proof. left; reflexivity. Qed.

  Lemma trees_steal_class u i class free c u' :
    trees_steal policy u i class free = (Ok (Some c), u') -> class_ok class c.
  Proof.
    unfold trees_steal. destruct (tree_at u i) as [t|]; [|discriminate].
    unfold tree_steal. destruct ((free <=? t_free t) && negb (t_res t)); [|discriminate].
    destruct (policy class (t_class t) free) eqn:Ep; intros H; inv H; cbn [t_class].
    - left; reflexivity.
    - left; reflexivity.
    - right. exists (t_class t), free. split; [reflexivity|right; exact Ep].
  Qed.

  Lemma trees_reserve_or_steal_class u i class free rsv fr tc u' :
    trees_reserve_or_steal policy u i class free = (Ok (Some (rsv, fr, tc)), u') -> class_ok class tc.
  Proof.
    unfold trees_reserve_or_steal. destruct (tree_at u i) as [t|]; [|discriminate].
    unfold tree_reserve_or_steal. destruct ((free <=? t_free t) && negb (t_res t)); [|discriminate].
    destruct (policy class (t_class t) free) eqn:Ep; intros H; inv H; cbn [t_class].
    - left; reflexivity.
    - left; reflexivity.
    - right. exists (t_class t), free. split; [reflexivity|right; exact Ep].
  Qed.

  Lemma steal_global_class u i class order frame f c u' :
    steal_global g policy u i class order frame = (Ok (f, c), u') -> class_ok class c.
  Proof.
    unfold steal_global, lift.
    destruct (trees_steal policy u i class (pow2 order)) as [[[c0|]|e|s] u1] eqn:E; try discriminate.
    destruct (lget_low g u1 (tree_row g i) order frame) as [[f1|e|s] u2].
    - intros H; inv H. eapply trees_steal_class; eauto.
    - destruct (trees_put g policy u2 i (pow2 order)) as [[[]|?|?] ?]; discriminate.
    - discriminate.
  Qed.

  Lemma reserve_or_steal_class u i order class local f c u' :
    reserve_or_steal g policy u i order class local = (Ok (f, c), u') -> class_ok class c.
  Proof.
    unfold reserve_or_steal, lift.
    destruct (trees_reserve_or_steal policy u i class (pow2 order)) as [[[[[rsv fr] tc]|]|e|s] u1] eqn:E;
      try discriminate.
    pose proof (trees_reserve_or_steal_class _ _ _ _ _ _ _ _ E) as Hc.
    destruct (lget_low g u1 (tree_row g i) order None) as [[f1|e|s] u2].
    - destruct rsv; [|intros H; inv H; exact Hc].
      destruct (class_locals u2 tc) as [len|]; [|intros H; inv H; exact Hc].
      destruct (0 <? len); [|intros H; inv H; exact Hc].
      destruct (locals_swap g u2 tc (local mod len) (f1 / TF g) (fr - pow2 order)) as [[[rv|]|?|?] u3];
        try discriminate; [|intros H; inv H; exact Hc].
      destruct (trees_unreserve g policy u3 (row_tree g (rv_row rv)) (rv_free rv) tc) as [[[]|?|?] u4];
        try discriminate.
      intros H; inv H; exact Hc.
    - destruct rsv.
      + destruct (trees_unreserve g policy u2 i fr tc) as [[[]|?|?] ?]; discriminate.
      + destruct (trees_put g policy u2 i (pow2 order)) as [[[]|?|?] ?]; discriminate.
    - discriminate.
  Qed.

  Lemma get_local_class fuel : forall u order class local frame sync f c u',
    get_local g policy fuel u order class local frame sync = (GOk f c, u') -> c = class.
  Proof.
    induction fuel as [|fuel IH]; intros u order class local frame sync f c u' H; cbn [get_local] in H;
      [discriminate|].
    destruct (locals_get g u class local (option_map (fun f0 => f0 / TF g) frame) (pow2 order))
      as [[row|rv| |s] u1]; try discriminate.
    - destruct (lget_low g u1 row order frame) as [[f1|e|s] u2]; try discriminate.
      + destruct (negb (row =? f1 / 64)).
        * destruct (locals_set_start g u2 class local (f1 / 64)) as [[[]|?|?] u3]; try discriminate;
            inv H; reflexivity.
        * inv H; reflexivity.
      + destruct (trees_put g policy u2 (row_tree g row) (pow2 order)) as [[[]|?|?] ?]; discriminate.
    - destruct (sync && _); [|discriminate].
      destruct (pow2 order <? rv_free rv); [discriminate|].
      destruct (trees_sync u1 (row_tree g (rv_row rv)) (pow2 order - rv_free rv)) as [[[fr|]|?|?] u2];
        try discriminate.
      destruct (locals_put g u2 class local (row_tree g (rv_row rv)) fr) as [[[|]|?|?] u3];
        try discriminate.
      + eauto.
      + destruct (trees_put g policy u3 (row_tree g (rv_row rv)) fr) as [[[]|?|?] ?]; discriminate.
  Qed.

  Lemma steal_any_loop_class n : forall u class index tree free i rv u',
    steal_any_loop g policy u class index tree free i n = (Ok (Some rv), u') ->
    class_ok class (rv_class rv).
  Proof.
    induction n as [|n IH]; intros u class index tree free i rv u' H; cbn [steal_any_loop] in H;
      [discriminate|].
    destruct (class_slots u ((i + class) mod 8)) as [l|]; [|eauto].
    destruct (policy class ((i + class) mod 8) free) eqn:Ep; eauto.
    - destruct (steal_slots g u ((i + class) mod 8) index (N.of_nat (length l)) tree free 0 (length l))
        as [[[row|?| |?] ?]|]; eauto; try discriminate.
      inv H. cbn [rv_class]. right. exists ((i + class) mod 8), free. split; [reflexivity|].
      left. rewrite Ep. reflexivity.
    - destruct (steal_slots g u ((i + class) mod 8) index (N.of_nat (length l)) tree free 0 (length l))
        as [[[row|?| |?] ?]|]; eauto; try discriminate.
      inv H. cbn [rv_class]. right. exists ((i + class) mod 8), free. split; [reflexivity|].
      right. exact Ep.
  Qed.

  Lemma steal_local_class u r frame f c u' :
    steal_local g policy u r frame = (Ok (f, c), u') -> class_ok (r_class r) c.
  Proof.
    unfold steal_local, lift, locals_steal_any.
    destruct (steal_any_loop g policy u (r_class r) _ _ _ 0 8) as [[[rv|]|?|?] u1] eqn:E; try discriminate.
    apply steal_any_loop_class in E.
    destruct (lget_low g u1 (rv_row rv) (r_order r) frame) as [[f1|[]|s] u2]; try discriminate.
    - intros H; inv H. exact E.
    - destruct (trees_put g policy u2 _ _) as [[[]|?|?] ?]; discriminate.
  Qed.

  Lemma demote_local_class u r frame f c u' :
    demote_local g policy u r frame = (Ok (f, c), u') -> c = r_class r.
  Proof.
    unfold demote_local, lift.
    destruct (locals_demote_any g policy u (r_class r) (r_local r) _ _) as [[[[row old]|]|?|?] u1];
      try discriminate.
    destruct (match old with Some rv => _ | None => _ end) as [[[]|?|?] u2]; try discriminate.
    destruct (lget_low g u2 row (r_order r) frame) as [[f1|[]|s] u3]; try discriminate.
    - intros H; inv H. reflexivity.
    - destruct (trees_put g policy u3 _ _) as [[[]|?|?] ?]; discriminate.
  Qed.

  Lemma search_and_reserve_class u order class local start f c u' :
    search_and_reserve g policy u order class local start = (Ok (f, c), u') -> class_ok class c.
  Proof.
    unfold search_and_reserve.
    set (acc := fun u i => reserve_or_steal g policy u i order class local).
    assert (Hacc : forall u i a u', acc u i = (Ok a, u') -> class_ok class (snd a)).
    { intros u0 i [f0 c0] u0' H. eapply reserve_or_steal_class; exact H. }
    match goal with |- (match ?first with _ => _ end) = _ -> _ => destruct first as [[[f1 c1]|[]|s] u1] eqn:E1 end;
      try discriminate.
    - intros H; inv H. destruct (Nat.ltb order (hord g)); [|discriminate].
      apply (search_best_origin g acc (fun a => class_ok class (snd a)) Hacc) in E1. exact E1.
    - intros H.
      apply (search_best_origin g acc (fun a => class_ok class (snd a)) Hacc) in H. exact H.
  Qed.

  Lemma oom_class u r frame f c u' :
    match steal_local g policy u r frame with
    | (Err EMemory, u2) => demote_local g policy u2 r frame
    | other => other
    end = (Ok (f, c), u') -> class_ok (r_class r) c.
  Proof.
    destruct (steal_local g policy u r frame) as [[[f1 c1]|[]|s] u1] eqn:E; try discriminate.
    - intros H; inv H. eapply steal_local_class; eauto.
    - intros H. apply demote_local_class in H. subst. apply class_ok_refl.
  Qed.

  Lemma get_at_class u frame r f c u' :
    get_at g policy u frame r = (Ok (f, c), u') -> class_ok (r_class r) c.
  Proof.
    unfold get_at.
    assert (Hafter : forall u1,
      match steal_global g policy u1 (frame / TF g) (r_class r) (r_order r) (Some frame) with
      | (Err EMemory, u2) =>
          match steal_local g policy u2 r (Some frame) with
          | (Err EMemory, u3) => demote_local g policy u3 r (Some frame)
          | other => other
          end
      | other => other
      end = (Ok (f, c), u') -> class_ok (r_class r) c).
    { intros u1.
      destruct (steal_global g policy u1 (frame / TF g) (r_class r) (r_order r) (Some frame))
        as [[[f1 c1]|[]|s] u2] eqn:E; try discriminate.
      - intros H; inv H. eapply steal_global_class; eauto.
      - apply oom_class. }
    destruct (r_local r) as [local|]; [|apply Hafter].
    destruct (get_local g policy 2 u (r_order r) (r_class r) local (Some frame) true)
      as [[f1 c1|e t|s] u1] eqn:E.
    - cbn [of_glr]. intros H; inv H. apply get_local_class in E. subst. apply class_ok_refl.
    - destruct e; cbn [of_glr]; try discriminate. apply Hafter.
    - cbn [of_glr]. discriminate.
  Qed.

  Theorem llfree_get_class u frame r f c u' :
    llfree_get g policy u frame r = (Ok (f, c), u') -> class_ok (r_class r) c.
  Proof.
    unfold llfree_get.
    destruct (check g u _ r) as [[]|?|?]; try discriminate.
    destruct frame as [fr|]; [apply get_at_class|].
    set (len := match class_locals u (r_class r) with Some n => n | None => 0 end).
    set (start0 := (if len =? 0 then 0 else ntrees u / len) * match r_local r with Some i => i | None => 0 end).
    assert (Hoom : forall u1,
      match steal_local g policy u1 r None with
      | (Err EMemory, u2) =>
          match demote_local g policy u2 r None with
          | (Err EMemory, u3) => (Err EMemory, u3)
          | other => other
          end
      | other => other
      end = (Ok (f, c), u') -> class_ok (r_class r) c).
    { intros u1.
      destruct (steal_local g policy u1 r None) as [[[f1 c1]|[]|s] u2] eqn:E; try discriminate.
      - intros H; inv H. eapply steal_local_class; eauto.
      - destruct (demote_local g policy u2 r None) as [[[f1 c1]|[]|s] u3] eqn:E2; try discriminate.
        intros H; inv H. apply demote_local_class in E2. subst. apply class_ok_refl. }
    assert (Hsb : forall u0,
      match search_best g (fun u i => steal_global g policy u i (r_class r) (r_order r) None)
              (rate_req policy (r_class r) (pow2 (r_order r))) 8 u0 start0 0 (ntrees u0) with
      | (Err EMemory, u1) =>
          match steal_local g policy u1 r None with
          | (Err EMemory, u2) =>
              match demote_local g policy u2 r None with
              | (Err EMemory, u3) => (Err EMemory, u3)
              | other => other
              end
          | other => other
          end
      | other => other
      end = (Ok (f, c), u') -> class_ok (r_class r) c).
    { intros u0.
      destruct (search_best g _ _ 8 u0 start0 0 (ntrees u0)) as [[[f1 c1]|[]|s] u1] eqn:E; try discriminate.
      - intros H; inv H.
        apply (search_best_origin g _ (fun a => class_ok (r_class r) (snd a))) in E; [exact E|].
        intros u2 i [f2 c2] u2' H2. eapply steal_global_class; exact H2.
      - apply Hoom. }
    destruct (r_local r) as [local|]; [|apply Hsb].
    destruct ((0 <? len) && (len <? ntrees u)); [|apply Hsb].
    destruct (get_local g policy 2 u (r_order r) (r_class r) local None true) as [[f1 c1|e t|s] u1] eqn:E.
    - intros H; inv H. apply get_local_class in E. subst. apply class_ok_refl.
    - destruct e; try discriminate.
      destruct (search_and_reserve g policy u1 (r_order r) (r_class r) local _) as [[[f1 c1]|[]|s] u2] eqn:E2;
        try discriminate.
      + intros H; inv H. eapply search_and_reserve_class; eauto.
      + apply Hoom.
    - discriminate.
  Qed.
End C13.

(* ============================================================================================== *)
(* the lower `get` attempt of the upper allocator, through the interface record *)
Section LgetLow.
  Variable g : geom.
  Hypothesis LF : lower_facts g.
  Notation TF := (TF g).

  Lemma with_low_same u : with_low u (low u) = u.
  Proof. destruct u; reflexivity. Qed.

  Lemma lget_low_spec u row k frame r u' :
    LowerInv g (low u) -> (k <= tord g)%nat ->
    match frame with
    | None => row_tree g row < ntab g (frames (low u))
    | Some f => aligned f k = true /\ f + pow2 k <= frames (low u)
    end ->
    lget_low g u row k frame = (r, u') ->
    u' = with_low u (low u') /\
    match r with
    | Ok f =>
        match frame with Some f0 => f = f0 | None => f / TF = row_tree g row end /\
        spec_get_enabled (abs g (low u)) f k = true /\
        abs g (low u') = spec_get g (abs g (low u)) f k /\
        LowerInv g (low u') /\ frames (low u') = frames (low u) /\
        (forall t, tree_free g (low u') t + delta t (f / TF) (pow2 k) = tree_free g (low u) t)
    | Err e =>
        e = EMemory /\ u' = u /\
        match frame with
        | Some f0 => spec_get_enabled (abs g (low u)) f0 k = false
        | None => forall f, f / TF = row_tree g row -> spec_get_enabled (abs g (low u)) f k = false
        end
    | Panic _ => False
    end.
  Proof.
    intros HL Hk Hpre H. unfold lget_low in H.
    destruct (lower_get_opt g (low u) row k frame) as [r0 l'] eqn:E. inv H.
    cbn [with_low trees locals dflt low]. split; [reflexivity|].
    unfold lower_get_opt in E. destruct frame as [f0|].
    - destruct Hpre as [Ha Hb].
      destruct (lower_get_at g (low u) f0 k) as [r1 l1] eqn:E1.
      pose proof (lf_get_at g LF _ _ _ _ _ HL Hk Ha Hb E1) as Hs.
      destruct r1 as [[]|e|s]; inv E.
      + destruct Hs as (H1 & H2 & H3 & H4 & H5). splits; auto.
      + destruct Hs as (H1 & H2 & H3). subst. rewrite with_low_same. splits; auto.
      + exact Hs.
    - pose proof (lf_get g LF _ _ _ _ _ HL Hk Hpre E) as Hs.
      destruct r as [f|e|s].
      + destruct Hs as (H0 & H1 & H2 & H3 & H4 & H5). splits; auto.
      + destruct Hs as (H1 & H2 & H3). subst. rewrite with_low_same. splits; auto.
      + exact Hs.
  Qed.
End LgetLow.

(* ============================================================================================== *)
(* policy hypotheses: pol_refl_match, pol_kind_indep, pol_demote_trans, pol_never_invalid are defined in UpperPrims.v *)

(* the ordered policies of the repository (simple / movable / zeroed): requested > target: Steal,
   requested < target: Demote, equal: Match(m free) *)
Definition ordered_policy (m : N -> N) (r t f : N) : pol :=
  if t <? r then PSteal else if r <? t then PDemote else PMatch (m f).

Lemma ordered_refl_match m : pol_refl_match (ordered_policy m).
Proof. intros c f. unfold ordered_policy. rewrite N.ltb_irrefl. reflexivity. Qed.
Lemma ordered_kind_indep m : pol_kind_indep (ordered_policy m).
Proof. intros r t f f'. unfold ordered_policy. destruct (t <? r), (r <? t); reflexivity. Qed.
Lemma ordered_never_invalid m : pol_never_invalid (ordered_policy m).
Proof. intros r t f. unfold ordered_policy. destruct (t <? r), (r <? t); reflexivity. Qed.
Lemma ordered_demote_trans m : pol_demote_trans (ordered_policy m).
Proof.
  intros a b c f f'. unfold ordered_policy.
  destruct (N.ltb_spec b a); [discriminate|]. destruct (N.ltb_spec a b); [|discriminate]. intros _.
  destruct (N.ltb_spec c b); [discriminate|]. intros _.
  destruct (N.ltb_spec c a); [lia|]. destruct (N.ltb_spec a c); reflexivity.
Qed.

(* ============================================================================================== *)
(* Why `pol_demote_trans` is needed: a policy that is reflexive-Match, kind-independent of `free`
   and never Invalid, but not transitive (0 -> 1 Demote, 1 -> 2 Demote, 0 -> 2 Steal).  Two demotes
   in a row leave a class-0 slot on a tree whose class is still 2; the invariant (U4) fails after
   the get and a following drain panics at "unreserve invalid class" (trees.rs:392). *)
Module DemoteTransCex.
  Definition g := {| hord := 9; tlog := 2 |}.
  Definition pol3 (r t f : N) : pol :=
    if r =? t then PMatch 1
    else if r <? t then (if (r =? 0) && (t =? 2) then PSteal else PDemote) else PSteal.
  Definition lower0 := {| frames := 0; bfs := []; ents := [] |}.
  Definition u0 := match llfree_new g 4096 IFreeAll [(0,1);(1,1);(2,1)] 2 lower0 [] (repeat slot_none 3) with
                   | Ok u => u
                   | _ => {| low := lower0; trees := []; locals := []; dflt := 0 |}
                   end.
  Definition rq o c l := {| r_order := o; r_class := c; r_local := l |}.
  Definition step (x : ustate) (r : request) := ghost_lift (fun u => llfree_get g pol3 u None r) x.
  Definition x3 := snd (step (snd (step (snd (step (ustate_new u0) (rq 11 2 None))) (rq 0 2 (Some 0)))) (rq 0 1 (Some 0))).
End DemoteTransCex.

Lemma upper_inv_needs_demote_trans :
  let pol3 := DemoteTransCex.pol3 in
  pol_refl_match pol3 /\ pol_kind_indep pol3 /\ pol_never_invalid pol3 /\
  upper_invb DemoteTransCex.g pol3 DemoteTransCex.x3 = true /\
  exists f c x4,
    DemoteTransCex.step DemoteTransCex.x3 (DemoteTransCex.rq 0 0 (Some 0)) = (Ok (f, c), x4) /\
    upper_invb DemoteTransCex.g pol3 x4 = false /\
    fst (llfree_drain DemoteTransCex.g pol3 (us x4)) = Panic SUnreserveClass.
Proof.
  cbv zeta. split; [|split; [|split; [|split]]].
  - intros c f. unfold DemoteTransCex.pol3. rewrite N.eqb_refl. reflexivity.
  - intros r t f f'. reflexivity.
  - intros r t f. unfold DemoteTransCex.pol3.
    destruct (r =? t), (r <? t), ((r =? 0) && (t =? 2)); reflexivity.
  - vm_compute. reflexivity.
  - eexists _, _, _. split; [vm_compute; reflexivity|]. split; vm_compute; reflexivity.
Qed.
