(* Facts about single steps of the lower machine M1 (LowerMachine.v) that the invariant proof of the upper
   machine M2 uses: the one-thread view of a step, the accounting of the entry writes against `lhold`
   (UpperConcInvDef.v), the shape of the results, the bound on the per-tree counter sum, and the insensitivity
   of `Inv` to the results stored in idle threads and to the order of the held list. *)
From Coq Require Import PeanoNat Permutation.
From LLF Require Import Base BitLemmas Row RowProofs Bitfield Lower Spec LowerMachine LowerFacts
  ConcBase ConcInvDef ConcInvGeom ConcInvStep ConcInvTac ConcInvGet ConcInvAt ConcInvPut ConcInvHuge ConcInvIdle ConcInv UpperConcInvDef.

(* ---------- lists: a window of an updated list ---------- *)
Lemma skipn_upd {A} (l : list A) m k v :
  skipn m (upd l k v) = if (k <? m)%nat then skipn m l else upd (skipn m l) (k - m) v.
Proof.
  revert l k; induction m as [|m IH]; intros l k.
  - cbn [skipn]. rewrite Nat.sub_0_r. reflexivity.
  - destruct l as [|a r]; [cbn [upd skipn]; destruct (k <? S m)%nat; reflexivity|].
    destruct k as [|k]; [reflexivity|]. cbn [upd skipn]. rewrite IH. reflexivity.
Qed.
Lemma firstn_upd {A} (l : list A) n k v :
  firstn n (upd l k v) = if (k <? n)%nat then upd (firstn n l) k v else firstn n l.
Proof.
  revert l k; induction n as [|n IH]; intros l k.
  - reflexivity.
  - destruct l as [|a r]; [cbn [upd firstn]; destruct (k <? S n)%nat; reflexivity|].
    destruct k as [|k]; [reflexivity|]. cbn [upd firstn]. rewrite IH.
    change (S k <? S n)%nat with (k <? n)%nat. destruct (k <? n)%nat; reflexivity.
Qed.
Lemma nth_error_skipn' {A} (l : list A) m j : nth_error (skipn m l) j = nth_error l (m + j).
Proof. revert l; induction m; intros l; [reflexivity|]. destruct l; [destruct j; reflexivity|]. cbn. apply IHm. Qed.
Lemma nth_error_firstn' {A} (l : list A) n j : (j < n)%nat -> nth_error (firstn n l) j = nth_error l j.
Proof. revert l j; induction n; intros l j H; [lia|]. destruct l; [destruct j; reflexivity|]. destruct j; [reflexivity|]. cbn. apply IHn. lia. Qed.

Lemma sumf_window_upd {A} (f : A -> N) l m n k v cur : nth_error l k = Some cur ->
  let w := ((m <=? k) && (k <? m + n))%nat in
  sumf f (firstn n (skipn m (upd l k v))) + (if w then f cur else 0)
  = sumf f (firstn n (skipn m l)) + (if w then f v else 0).
Proof.
  intros H w. subst w. rewrite skipn_upd.
  destruct (Nat.ltb_spec k m) as [Hlt|Hge].
  - destruct (Nat.leb_spec m k); [lia|]. reflexivity.
  - destruct (Nat.leb_spec m k); [|lia]. cbn [andb]. rewrite firstn_upd.
    destruct (Nat.ltb_spec (k - m) n) as [H1|H1]; destruct (Nat.ltb_spec k (m + n)); try lia.
    apply sumf_upd. rewrite nth_error_firstn' by exact H1. rewrite nth_error_skipn'.
    replace (m + (k - m))%nat with k by lia. exact H.
Qed.

Lemma upd_same_inv' {A} (l : list A) t x y : nth_error (upd l t x) t = Some y -> y = x.
Proof. rewrite nth_error_upd, Nat.eqb_refl. destruct (Nat.ltb t (length l)); congruence. Qed.

Ltac psplit :=
  repeat match goal with
  | |- _ (fst (_, _)) => cbn [fst]
  | |- _ (fst (match ?x with _ => _ end)) => destruct x eqn:?
  | |- _ (fst (if ?x then _ else _)) => destruct x eqn:?
  | |- _ (match ?x with _ => _ end) => destruct x eqn:?
  | |- _ (if ?x then _ else _) => destruct x eqn:?
  | |- _ (goto _ _ _ (if ?x then _ else _)) => destruct x eqn:?
  | |- _ (finish _ _ _ (match ?x with _ => _ end)) => destruct x eqn:?
  end.

Section M1.
  Variable g : geom.
  Hypothesis wf : wf_geom g.
  (* the required lemmas all take (g, wf) after the section, also where wf is not used: `Proof using wf` *)
  Notation HF := (HF g).
  Notation TF := (TF g).
  Notation THUGE := (THUGE g).
  Notation ROWS := (ROWS g).

  (* ---------- one-thread view ---------- *)
  Definition view (s : mstate) (th : thr) : mstate :=
    {| ms_frames := ms_frames s; ms_ents := ms_ents s; ms_bfs := ms_bfs s; ms_pool := [th]; ms_held := [] |}.

  Section View.
    Variable s : mstate.
    Variable t : nat.

    (* intermediate states: the memory of the view follows the memory of the full state *)
    Definition VR (s1 v1 : mstate) : Prop :=
      ms_frames s1 = ms_frames s /\ ms_frames v1 = ms_frames s /\ ms_ents v1 = ms_ents s1 /\ ms_bfs v1 = ms_bfs s1 /\
      ms_pool s1 = ms_pool s /\ ms_held s1 = ms_held s /\ ms_held v1 = [] /\ exists th, ms_pool v1 = [th].
    (* final states *)
    Definition VG (s' v' : mstate) : Prop :=
      ms_frames v' = ms_frames s /\
      exists x', nth_error (ms_pool v') 0 = Some x' /\
        s' = {| ms_frames := ms_frames s; ms_ents := ms_ents v'; ms_bfs := ms_bfs v';
                ms_pool := upd (ms_pool s) t x'; ms_held := ms_held v' ++ ms_held s |}.
    Definition VS (a b : mstate * option event) : Prop := VG (fst a) (fst b) /\ snd a = snd b.

    Lemma VR_refl th : VR s (view s th).
    Proof. unfold VR, view. cbn. repeat split; eauto. Qed.
    Lemma VR_wr_ent s1 v1 h v : VR s1 v1 -> VR (wr_ent s1 h v) (wr_ent v1 h v).
    Proof. intros (A & B & C & D & E & F & G & H). unfold VR, wr_ent, set_ents. cbn. rewrite C. repeat split; auto. Qed.
    Lemma VR_wr_row s1 v1 h r v : VR s1 v1 -> VR (wr_row s1 h r v) (wr_row v1 h r v).
    Proof. intros (A & B & C & D & E & F & G & H). unfold VR, wr_row. rewrite D.
      destruct (nth_error (ms_bfs s1) (nn h)); unfold set_bfs; cbn; repeat split; auto. Qed.

    Lemma VG_set_thr s1 v1 x : VR s1 v1 -> VG (set_thr s1 t x) (set_thr v1 0 x).
    Proof. intros (A & B & C & D & E & F & G & th & H). unfold VG, set_thr. cbn. rewrite H. cbn. split; [exact B|].
      exists x. split; [reflexivity|]. rewrite A, C, D, E, F, G. reflexivity. Qed.
    Lemma VG_goto s1 v1 c p : VR s1 v1 -> VG (goto s1 t c p) (goto v1 0 c p).
    Proof. apply VG_set_thr. Qed.
    Lemma VG_crash s1 v1 c x : VR s1 v1 -> VG (crash s1 t c x) (crash v1 0 c x).
    Proof. apply VG_set_thr. Qed.
    Lemma VG_finish s1 v1 c r : VR s1 v1 -> VG (finish s1 t c r) (finish v1 0 c r).
    Proof. intros V. pose proof (VG_set_thr s1 v1 (TIdle (Some r)) V) as W.
      destruct V as (A & B & C & D & E & F & G & th & H).
      unfold finish. destruct c, r; try exact W; unfold VG, set_held, set_thr; cbn; rewrite H; cbn; (split; [exact B|]);
        eexists; (split; [reflexivity|]); rewrite A, C, D, E, F, G; reflexivity. Qed.
    Lemma VG_toggle_ok s1 v1 c x : VR s1 v1 -> VG (toggle_ok s1 t c x) (toggle_ok v1 0 c x).
    Proof. intros V. destruct x; cbn [toggle_ok]; [apply VG_finish|apply VG_goto|apply VG_goto]; exact V. Qed.
    Lemma VG_toggle_fail s1 v1 c x : VR s1 v1 -> VG (toggle_fail s1 t c x) (toggle_fail v1 0 c x).
    Proof. intros V. destruct x; cbn [toggle_fail]; [apply VG_goto|apply VG_finish|apply VG_goto]; exact V. Qed.
    Lemma VG_next_child s1 v1 c j : VR s1 v1 -> VG (next_child g s1 t c j) (next_child g v1 0 c j).
    Proof. intros V. unfold next_child. destruct (j + 1 <? THUGE); [apply VG_goto|apply VG_finish]; exact V. Qed.
    Lemma VG_next_row s1 v1 c j i : VR s1 v1 -> VG (next_row g s1 t c j i) (next_row g v1 0 c j i).
    Proof. intros V. unfold next_row. destruct (i + 1 <? ROWS); apply VG_goto; exact V. Qed.
    Lemma VG_next_chunk s1 v1 c j ch : VR s1 v1 -> VG (next_chunk g s1 t c j ch) (next_chunk g v1 0 c j ch).
    Proof. intros V. unfold next_chunk. destruct (ch + 1 <? c_chunks g c); apply VG_goto; exact V. Qed.
    Lemma VG_next_group s1 v1 c gi : VR s1 v1 -> VG (next_group g s1 t c gi) (next_group g v1 0 c gi).
    Proof. intros V. unfold next_group. destruct (gi + 1 <? group_cnt g c); [apply VG_goto|apply VG_finish]; exact V. Qed.

    Lemma VS_pair a b e : VG a b -> VS (a, e) (b, e).
    Proof. intros H. split; [exact H|reflexivity]. Qed.
  End View.

  Ltac vr_tac := repeat first [apply VR_wr_ent | apply VR_wr_row]; apply VR_refl.
  Ltac vleaf :=
    first [ apply VG_goto | apply VG_crash | apply VG_finish | apply VG_toggle_ok | apply VG_toggle_fail
          | apply VG_next_child | apply VG_next_row | apply VG_next_chunk | apply VG_next_group ]; vr_tac.
  Ltac vsplit :=
    repeat match goal with
    | |- VS _ _ (_, _) (_, _) => apply VS_pair
    | |- VS _ _ (match ?x with _ => _ end) _ => destruct x eqn:?
    | |- VS _ _ (if ?x then _ else _) _ => destruct x eqn:?
    | |- VG _ _ (match ?x with _ => _ end) _ => destruct x eqn:?
    | |- VG _ _ (if ?x then _ else _) _ => destruct x eqn:?
    end.

  Lemma view_step s t c p c0 c1 :
    nth_error (ms_pool s) t = Some (TRun c p) ->
    let r := mstep g (view s (TRun c p)) 0 c1 in
    ms_frames (fst r) = ms_frames s /\
    exists x', nth_error (ms_pool (fst r)) 0 = Some x' /\
      mstep g s t c0 = ({| ms_frames := ms_frames s; ms_ents := ms_ents (fst r); ms_bfs := ms_bfs (fst r);
                           ms_pool := upd (ms_pool s) t x'; ms_held := ms_held (fst r) ++ ms_held s |}, snd r).
  Proof using wf.
    intros Ht r.
    assert (H : VS s t (mstep g s t c0) r).
    { subst r. unfold mstep. rewrite Ht. cbn [view ms_pool nth_error].
      destruct p; cbv beta iota zeta; unfold rd_ent, rd_row; cbn [view ms_ents ms_bfs].
      all: vsplit.
      all: vleaf. }
    destruct H as [(Hf & x' & Hx & E) Hs]. split; [exact Hf|]. exists x'. split; [exact Hx|].
    rewrite <- E, <- Hs. destruct (mstep g s t c0); reflexivity.
  Qed.

  Lemma THUGE_nat' : THUGE = N.of_nat (thuge_nat g).
  Proof. unfold Bitfield.THUGE, thuge_nat. rewrite Nat2N.inj_pow. reflexivity. Qed.
  Lemma TF_eq : TF = HF * THUGE. Proof. unfold Bitfield.TF. lia. Qed.

  Lemma tree_free_sumf l i :
    tree_free g l i = sumf e_free (firstn (thuge_nat g) (skipn (nn (i * THUGE)) (ents l))).
  Proof. reflexivity. Qed.

  (* a write to entry h changes the sum of the tree of h only *)
  Lemma tree_free_wr_ent s h v cur i : rd_ent s h = Some cur ->
    tree_free g (lower_of (wr_ent s h v)) i + delta i (h / THUGE) (e_free cur)
    = tree_free g (lower_of s) i + delta i (h / THUGE) (e_free v).
  Proof.
    intros H. rewrite !tree_free_sumf. cbn [lower_of ents wr_ent set_ents ms_ents].
    pose proof (sumf_window_upd e_free (ms_ents s) (nn (i * THUGE)) (thuge_nat g) (nn h) v cur H) as W. cbv zeta in W.
    pose proof (THUGE_pos g) as PT. pose proof THUGE_nat' as EN.
    assert (E : ((nn (i * THUGE) <=? nn h) && (nn h <? nn (i * THUGE) + thuge_nat g))%nat = (i =? h / THUGE)).
    { pose proof (N.div_mod h THUGE ltac:(lia)) as D. pose proof (N.mod_lt h THUGE ltac:(lia)) as M.
      unfold nn. destruct (N.eqb_spec i (h / THUGE)) as [->|Hne].
      - apply andb_true_iff. split; [apply Nat.leb_le|apply Nat.ltb_lt]; nia.
      - apply andb_false_iff. destruct (N.lt_gt_cases i (h / THUGE)) as [Hc _]. destruct (Hc Hne) as [Hlt|Hgt].
        + right. apply Nat.ltb_ge. nia.
        + left. apply Nat.leb_gt. nia. }
    rewrite E in W. unfold delta. exact W.
  Qed.
  Lemma tree_free_wr_row s h r v i : tree_free g (lower_of (wr_row s h r v)) i = tree_free g (lower_of s) i.
  Proof. rewrite !tree_free_sumf. cbn [lower_of ents]. rewrite ents_wr_row. reflexivity. Qed.

  (* ----- the huge frames a call touches lie in the tree of its frame / hint ----- *)
  Lemma tree_child c j : child_h g c j / THUGE = c_frame c / TF.
  Proof.
    pose proof (THUGE_pos g) as PT. unfold child_h, c_tbase.
    rewrite N.div_add_l by lia. rewrite (N.div_small (_ mod _)) by (apply N.mod_lt; lia). lia.
  Qed.
  Lemma tree_huge c : c_huge g c / THUGE = c_frame c / TF.
  Proof. pose proof (THUGE_pos g). pose proof (HF_pos g). unfold c_huge. rewrite N.div_div, TF_eq by lia. reflexivity. Qed.
  Lemma tree_group fr c gi q : cwf g fr c = true -> (hord g <= c_order c)%nat -> q < c_hnum g c ->
    (group_h g c gi + q) / THUGE = c_frame c / TF.
  Proof.
    intros Hc Hk Hq. pose proof (HF_pos g) as PH. pose proof (THUGE_pos g) as PT.
    assert (Hn : c_hnum g c <> 0) by apply pow2_nz.
    assert (Hto : (c_order c <= tord g)%nat) by (unfold cwf in Hc; lia).
    pose proof (hnum_divides g c Hk Hto) as ET. set (m := pow2 (tlog g - (c_order c - hord g))) in *.
    assert (Hm : m <> 0) by apply pow2_nz.
    assert (Hnp : forall c', is_get c' = false -> cwf g fr c' = true -> (hord g <= c_order c')%nat -> c_hnum g c' = c_hnum g c -> q < c_hnum g c' ->
              (c_huge g c' + q) / THUGE = c_frame c' / TF).
    { intros c' Hg Hc' Hk' En Hq'. rewrite <- tree_huge.
      destruct (huge_call_aligned_geom g fr c' Hc' Hk' Hg) as [E1 E2].
      assert (Hal : c_frame c' mod pow2 (c_order c') = 0) by (unfold cwf in Hc'; destruct c'; try discriminate; cbn [c_frame c_order] in *; lia).
      assert (Ek : pow2 (c_order c') = HF * c_hnum g c') by (unfold c_hnum; rewrite HF_pow2, N.mul_comm; apply pow2_split; exact Hk').
      rewrite Ek in Hal. pose proof (div_of_aligned (c_frame c') HF (c_hnum g c') ltac:(lia) ltac:(rewrite En; exact Hn) Hal) as Hd.
      fold (c_huge g c') in Hd. rewrite En in *.
      pose proof (N.div_mod (c_huge g c') (c_hnum g c) Hn) as D. rewrite Hd, N.add_0_r in D.
      set (a := c_huge g c' / c_hnum g c) in *. rewrite D, ET, (N.mul_comm m), (N.mul_comm (c_hnum g c) a).
      rewrite <- !N.div_div by lia. rewrite N.div_add_l, (N.div_small q), N.add_0_r by lia.
      rewrite N.div_mul by lia. reflexivity. }
    destruct c as [st o|f o|f o].
    - cbn [group_h]. set (c := CGet st o) in *. set (A := c_choff g c / c_hnum g c).
      assert (EX : (A * c_hnum g c + gi * c_hnum g c) mod THUGE = c_hnum g c * ((A + gi) mod m)).
      { rewrite ET. replace (A * c_hnum g c + gi * c_hnum g c) with (c_hnum g c * (A + gi)) by lia.
        rewrite (N.mul_comm m). apply mod_mul_l; assumption. }
      rewrite EX. pose proof (N.mod_lt (A + gi) m Hm) as Hlt.
      assert (Hfit : c_hnum g c * ((A + gi) mod m) + q < THUGE) by (rewrite ET; nia).
      unfold c_tbase. rewrite <- N.add_assoc, N.div_add_l by lia. rewrite (N.div_small _ THUGE) by exact Hfit. lia.
    - cbn [group_h]. apply Hnp; auto.
    - cbn [group_h]. apply Hnp; auto.
  Qed.
  (* a frame inside huge frame h *)
  Lemma tree_of_frame h b : b < HF -> (h * HF + b) / TF = h / THUGE.
  Proof.
    intros Hb. pose proof (HF_pos g). pose proof (THUGE_pos g). rewrite TF_eq, <- N.div_div by lia.
    rewrite N.div_add_l, (N.div_small b) by lia. rewrite N.add_0_r. reflexivity.
  Qed.

  (* ----- bounds on entries ----- *)
  Lemma ent_le s h cur : Inv g s -> rd_ent s h = Some cur -> cur <> MARK -> cur <= HF.
  Proof.
    intros I H Hm. pose proof (entv_rd s h cur H) as E.
    destruct (N.lt_ge_cases h (nbf g (ms_frames s))) as [Hh|Hh].
    - pose proof (K1 g wf s h I Hh ltac:(rewrite E; exact Hm)) as K. rewrite E in K. lia.
    - pose proof (I_nobf g s I h Hh). lia.
  Qed.
  Lemma e_free_le s h cur : Inv g s -> rd_ent s h = Some cur -> e_free cur <= HF.
  Proof.
    intros I H. unfold e_free, e_huge. destruct (N.eqb_spec cur MARK); [lia|]. eapply ent_le; eauto.
  Qed.
  Lemma e_free_id x : x <> MARK -> e_free x = x.
  Proof. intros H. unfold e_free, e_huge. destruct (N.eqb_spec x MARK); [contradiction|reflexivity]. Qed.
  Lemma dec_free s h cur n v' : Inv g s -> rd_ent s h = Some cur -> e_dec cur n = Some v' -> e_free cur = e_free v' + n.
  Proof.
    intros I H E. destruct (e_dec_some cur n v' E) as (Hm & Hle & ->).
    pose proof (ent_le s h cur I H Hm). pose proof (HF_lt_MARK g wf). rewrite !e_free_id by lia. lia.
  Qed.
  Lemma inc_free cur n v' : e_inc g cur n = Some v' -> e_free v' = e_free cur + n.
  Proof.
    intros E. destruct (e_inc_some g cur n v' E) as (Hm & Hle & ->).
    pose proof (HF_lt_MARK g wf). rewrite !e_free_id by lia. lia.
  Qed.

  (* ---------- accounting of the entry writes ---------- *)
  (* `lhold` of the successor thread of a step of call c, also when the call has completed *)
  Definition fin_hold (c : call) (x' : thr) : N :=
    match x' with
    | TRun _ _ => lhold g x'
    | TIdle (Some (Ok _)) => if is_put c then c_n c else 0
    | TIdle (Some (Err _)) => if is_put c then 0 else c_n c
    | _ => 0
    end.

  Definition HoldP (s : mstate) (t : nat) (c : call) (p : pc) (s' : mstate) : Prop :=
    Inv g s' -> forall x', nth_error (ms_pool s') t = Some x' ->
    forall i, tree_free g (lower_of s') i + delta i (c_frame c / TF) (lhold g (TRun c p))
            = tree_free g (lower_of s) i + delta i (c_frame c / TF) (fin_hold c x').

  (* the memory effect of a step: `a` frames leave the tree of the call, `b` frames enter it *)
  Definition mem_eff (s s1 : mstate) (c : call) (a b : N) : Prop :=
    ms_pool s1 = ms_pool s /\ ms_frames s1 = ms_frames s /\
    forall i, tree_free g (lower_of s1) i + delta i (c_frame c / TF) a = tree_free g (lower_of s) i + delta i (c_frame c / TF) b.

  Lemma mem_same s c : mem_eff s s c 0 0.
  Proof. repeat split. Qed.
  Lemma mem_row s c h r v : mem_eff s (wr_row s h r v) c 0 0.
  Proof. split; [apply pool_wr_row|]. split; [apply frames_wr_row|]. intros i. rewrite tree_free_wr_row. reflexivity. Qed.
  Lemma mem_ent s c h v cur : rd_ent s h = Some cur -> h / THUGE = c_frame c / TF ->
    mem_eff s (wr_ent s h v) c (e_free cur) (e_free v).
  Proof. intros H E. split; [reflexivity|]. split; [reflexivity|]. intros i. rewrite <- E. apply tree_free_wr_ent. exact H. Qed.

  Lemma hold_leaf s t c p s1 x hl a b :
    nth_error (ms_pool s) t = Some (TRun c p) -> mem_eff s s1 c a b ->
    (local_b g (ms_frames s) x = true -> isBad x = 0 -> fin_hold c x + a = lhold g (TRun c p) + b) ->
    HoldP s t c p (set_held (set_thr s1 t x) hl).
  Proof.
    intros Ht (Ep & Ef & Hm) Har I' x' Hx' i.
    cbn [ms_pool set_held set_thr] in Hx'. apply upd_same_inv' in Hx'. subst x'.
    assert (Hin : nth_error (ms_pool (set_held (set_thr s1 t x) hl)) t = Some x).
    { cbn [ms_pool set_held set_thr]. apply nth_error_upd_same. rewrite Ep. apply nth_error_Some. congruence. }
    pose proof (Forall_nth_error _ _ _ _ (I_L g _ I') Hin) as L'. cbn [ms_frames set_held set_thr] in L'. rewrite Ef in L'.
    pose proof (sumf_ge isBad _ _ _ Hin) as B. rewrite (I_E g _ I') in B.
    specialize (Har L' ltac:(lia)). specialize (Hm i).
    change (lower_of (set_held (set_thr s1 t x) hl)) with (lower_of s1).
    unfold delta in *. destruct (i =? c_frame c / TF); lia.
  Qed.
  Lemma hold_goto s t c p s1 p' a b :
    nth_error (ms_pool s) t = Some (TRun c p) -> mem_eff s s1 c a b ->
    (local_b g (ms_frames s) (TRun c p') = true -> lhold g (TRun c p') + a = lhold g (TRun c p) + b) ->
    HoldP s t c p (goto s1 t c p').
  Proof. intros Ht Hm Har. apply (hold_leaf s t c p s1 (TRun c p') (ms_held s1) a b Ht Hm). intros L _. apply Har, L. Qed.
  Lemma hold_crash s t c p s1 z a b :
    nth_error (ms_pool s) t = Some (TRun c p) -> mem_eff s s1 c a b ->
    (z = SExceedingRetries -> a = lhold g (TRun c p) + b) ->
    HoldP s t c p (crash s1 t c z).
  Proof. intros Ht Hm Har. apply (hold_leaf s t c p s1 (TPanic z c) (ms_held s1) a b Ht Hm). intros _ B. cbn [fin_hold].
    rewrite N.add_0_l. apply Har. destruct z; try discriminate B. reflexivity. Qed.
  Lemma hold_finish s t c p s1 r a b :
    nth_error (ms_pool s) t = Some (TRun c p) -> mem_eff s s1 c a b ->
    (fin_hold c (TIdle (Some r)) + a = lhold g (TRun c p) + b) ->
    HoldP s t c p (finish s1 t c r).
  Proof.
    intros Ht Hm Har. unfold finish.
    destruct c, r; first [ apply (hold_leaf s t _ p s1 _ (ms_held s1) a b Ht Hm); intros _ _; exact Har
                         | apply (hold_leaf s t _ p s1 _ _ a b Ht Hm); intros _ _; exact Har ].
  Qed.

  Ltac arith0 c :=
    intros; rewrite ?N.add_0_r; try discriminate;
    destruct c; cbn [local_b lpc fin_hold lhold is_put is_get is_getat ctx_ok not_xput andb negb] in *;
    try reflexivity; try lia;
    try (match goal with |- context [(?q - 1 + 1) * _] => replace (q - 1 + 1) with q by lia end; reflexivity).
  Ltac hleaf0 c :=
    lazymatch goal with
    | |- _ (_ (wr_ent _ _ _) _ _ _) => fail
    | |- _ (goto (wr_row _ _ _ _) _ _ _) => eapply (hold_goto _ _ _ _ _ _ 0 0); [eassumption | apply mem_row | arith0 c]
    | |- _ (finish (wr_row _ _ _ _) _ _ _) => eapply (hold_finish _ _ _ _ _ _ 0 0); [eassumption | apply mem_row | arith0 c]
    | |- _ (goto _ _ _ _) => eapply (hold_goto _ _ _ _ _ _ 0 0); [eassumption | apply mem_same | arith0 c]
    | |- _ (finish _ _ _ _) => eapply (hold_finish _ _ _ _ _ _ 0 0); [eassumption | apply mem_same | arith0 c]
    | |- _ (crash _ _ _ _) => eapply (hold_crash _ _ _ _ _ _ 0 0); [eassumption | apply mem_same | arith0 c]
    end.

  Lemma hc_arith c q : (hord g <= c_order c)%nat -> q < c_hnum g c ->
    (q + 1) * HF <= c_n c /\ (q + 1 = c_hnum g c -> c_n c = (q + 1) * HF).
  Proof.
    intros Hk Hq. assert (E : c_n c = c_hnum g c * HF) by (unfold c_n, c_hnum; rewrite HF_pow2; apply pow2_split; exact Hk).
    rewrite E. split; [apply N.mul_le_mono_r; lia|]. intros ->. reflexivity.
  Qed.

  Lemma step_hold_P s t c p c0 :
    Inv g s -> nth_error (ms_pool s) t = Some (TRun c p) -> HoldP s t c p (fst (mstep g s t c0)).
  Proof.
    intros I Ht. pose proof (local_of' g s t _ I Ht) as L. cbn [local_b] in L.
    unfold mstep. rewrite Ht.
    destruct p; cbv beta iota zeta.
    all: try (destruct x).
    all: psplit; unfold next_child, next_row, next_chunk, next_group, toggle_ok, toggle_fail, toggle_entry; psplit.
    all: try (hleaf0 c).
    all: cbn [lpc] in L.
    all: repeat match goal with H : (_ =? _) = true |- _ => apply N.eqb_eq in H; try subst end.
    all: try match goal with HI : Inv g ?s, Hd : e_dec ?v ?n = Some ?v', Hr : rd_ent ?s ?h = Some ?v |- _ => pose proof (dec_free s h v n v' HI Hr Hd) end.
    all: try match goal with Hi : e_inc g ?v ?n = Some ?v' |- _ => pose proof (inc_free v n v' Hi) end.
    all: assert (EM : e_free MARK = 0) by reflexivity.
    all: assert (EH : e_free HF = HF) by (apply e_free_id; pose proof (HF_lt_MARK g wf); lia).
    all: match goal with
         | Hrd : rd_ent ?s ?h = Some ?cur |- _ (goto (wr_ent _ ?h ?v) _ _ _) =>
             eapply (hold_goto _ _ _ _ _ _ (e_free cur) (e_free v)); [eassumption | apply (mem_ent s _ h v cur Hrd) | ]
         | Hrd : rd_ent ?s ?h = Some ?cur |- _ (finish (wr_ent _ ?h ?v) _ _ _) =>
             eapply (hold_finish _ _ _ _ _ _ (e_free cur) (e_free v)); [eassumption | apply (mem_ent s _ h v cur Hrd) | ]
         end.
    all: try apply tree_child; try apply tree_huge.
    all: try (match goal with HI : Inv g ?s |- _ / _ = _ => apply (tree_group (ms_frames s)) end).
    all: try lia.
    all: try match type of L with context [?q <? c_hnum g ?c] =>
           let A := fresh "A" in let B := fresh "B" in
           destruct (hc_arith c q ltac:(lia) ltac:(lia)) as [A B]; try (specialize (B ltac:(lia))) end.
    all: try match type of L with context [?old =? MARK] => assert (old = MARK) by lia; subst old end.
    all: intros.
    all: try (match goal with |- context [(?q - 1 + 1) * _] => replace (q - 1 + 1) with q by lia end).
    all: change (e_free 0) with 0.
    all: try destruct c.
    all: try (cbn [local_b lpc fin_hold lhold is_put is_get is_getat ctx_ok not_xput andb negb cas_cur cas_new] in *;
              rewrite ?EM, ?EH in *; try lia).
    all: match goal with |- context [(?q - 1 + 1) * _] => replace (q - 1 + 1) with q by lia end; lia.
  Qed.

  (* Accounting of the entry writes.  NOTE the sides: `lhold` of the predecessor stands with the successor's
     memory.  A get that still has n frames to take (lhold = n) and takes them lowers tree_free by n and
     ends with lhold = 0, a put raises tree_free and `lhold`: tree_free - hold is what a step preserves
     (this is the credit equation of UpperConcInvDef.tree_ok2: counters + credit = tree_free).  The equation
     with the two `delta` terms exchanged is false: geometry hord = 9, tlog = 2, frames = 1024, all free,
     one thread in `CGetAt 3 0` at pc `A1C 512` (entry 0 = 512): the step writes 511 and goes to `TL XGetAt`;
     tree_free 0 is 1024 before and 1023 after, lhold 1 before and 0 after: 1023 + 0 <> 1024 + 1. *)
  Lemma step_hold s t c p c0 x' :
    Inv g s -> nth_error (ms_pool s) t = Some (TRun c p) ->
    nth_error (ms_pool (fst (mstep g s t c0))) t = Some x' ->
    forall i, tree_free g (lower_of (fst (mstep g s t c0))) i + delta i (c_frame c / TF) (lhold g (TRun c p))
            = tree_free g (lower_of s) i + delta i (c_frame c / TF) (fin_hold c x').
  Proof. intros I Ht Hx. exact (step_hold_P s t c p c0 I Ht (step_inv g wf s t c0 I) x' Hx). Qed.

  (* ---------- results of a step ---------- *)
  Definition res_ok (s : mstate) (c : call) (x' : thr) : Prop :=
    match x' with
    | TRun c' _ => c' = c
    | TIdle (Some (Ok f)) => is_put c = false ->
        f / TF = c_frame c / TF /\ f mod pow2 (c_order c) = 0 /\ f + pow2 (c_order c) <= ms_frames s
    | TIdle (Some (Err e)) => e = EMemory
    | TIdle (Some (Panic _)) => False
    | TIdle None => False
    | TPanic z c' => z = SExceedingRetries /\ c' = c /\ is_put c = true
    end.
  Definition ResP (s : mstate) (t : nat) (c : call) (s' : mstate) : Prop :=
    Inv g s' -> forall x', nth_error (ms_pool s') t = Some x' -> res_ok s c x'.

  Lemma res_goto s t c s1 p' : ResP s t c (goto s1 t c p').
  Proof. intros _ x' Hx. cbn [ms_pool goto set_thr] in Hx. apply upd_same_inv' in Hx. subst x'. reflexivity. Qed.
  Lemma res_crash s t c s1 z : ms_pool s1 = ms_pool s -> (t < length (ms_pool s))%nat -> ResP s t c (crash s1 t c z).
  Proof.
    intros Ep Hlt I' x' Hx. pose proof Hx as Hx0. cbn [ms_pool crash set_thr] in Hx. apply upd_same_inv' in Hx. subst x'.
    pose proof (Forall_nth_error _ _ _ _ (I_L g _ I') Hx0) as L'.
    pose proof (sumf_ge isBad _ _ _ Hx0) as B. rewrite (I_E g _ I') in B.
    cbn [res_ok]. destruct z; cbn [isBad] in B; try lia. cbn [local_b] in L'. repeat split. lia.
  Qed.
  Lemma res_err s t c s1 : ResP s t c (finish s1 t c (Err EMemory)).
  Proof. intros _ x' Hx. rewrite finish_err' in Hx. cbn [ms_pool set_thr] in Hx. apply upd_same_inv' in Hx. subst x'. reflexivity. Qed.
  Lemma res_ok_fin s t c s1 f : ms_frames s1 = ms_frames s ->
    (is_put c = false -> f / TF = c_frame c / TF) -> ResP s t c (finish s1 t c (Ok f)).
  Proof.
    intros Ef Hg I' x' Hx.
    assert (E : x' = TIdle (Some (Ok f))).
    { unfold finish in Hx. destruct c; cbn [ms_pool set_held set_thr] in Hx; apply upd_same_inv' in Hx; exact Hx. }
    subst x'. cbn [res_ok]. intros Hp. split; [apply Hg, Hp|].
    pose proof (I_H g _ I') as H.
    assert (Hb : blk_ok (ms_frames s) (f, c_order c) = true).
    { unfold finish in H. destruct c; try discriminate Hp; cbn [ms_held ms_frames set_held set_thr c_order] in H |- *;
        inversion H; subst; rewrite <- Ef; assumption. }
    unfold blk_ok in Hb. cbn [fst snd] in Hb. lia.
  Qed.

  Lemma nth_lt' {A} (l : list A) t x : nth_error l t = Some x -> (t < length l)%nat.
  Proof. intros H. apply nth_error_Some. congruence. Qed.

  Ltac rleaf :=
    lazymatch goal with
    | |- _ (goto _ _ _ _) => apply res_goto
    | |- _ (crash (wr_row _ _ _ _) _ _ _) => apply res_crash; [apply pool_wr_row | eapply nth_lt'; eassumption]
    | |- _ (crash _ _ _ _) => apply res_crash; [reflexivity | eapply nth_lt'; eassumption]
    | |- _ (finish _ _ _ (Err EMemory)) => apply res_err
    | |- _ (finish (wr_row _ _ _ _) _ _ (Ok _)) => apply res_ok_fin; [apply frames_wr_row | ]
    | |- _ (finish _ _ _ (Ok _)) => apply res_ok_fin; [reflexivity | ]
    end.

  Lemma step_result_P s t c p c0 :
    Inv g s -> nth_error (ms_pool s) t = Some (TRun c p) -> ResP s t c (fst (mstep g s t c0)).
  Proof.
    intros I Ht. pose proof (local_of' g s t _ I Ht) as L. cbn [local_b] in L.
    unfold mstep. rewrite Ht.
    destruct p; cbv beta iota zeta.
    all: try (destruct x).
    all: psplit; unfold next_child, next_row, next_chunk, next_group, toggle_ok, toggle_fail, toggle_entry; psplit.
    all: rleaf.
    all: cbn [lpc] in L.
    all: try reflexivity.
    all: try (intros Hp; exfalso; destruct c; cbn [is_put is_get is_getat ctx_ok andb] in *; lia).
    - (* G2C: the block found by fza lies in row r of the child *)
      intros _. pose proof (ROWS_pos g wf) as PR.
      match goal with H : (_ =? _) = true |- _ => apply N.eqb_eq in H; subst end.
      set (r := (i + c_start c mod ROWS) mod ROWS) in *.
      assert (Hr : r < ROWS) by (apply N.mod_lt; lia).
      destruct (has_row g wf s (child_h g c j) r I ltac:(lia) Hr) as (v & Ev & Hv).
      match goal with H : fza ?x ?o = Some (?a, ?b) |- _ =>
        assert (Hx : x < W64) by congruence; assert (Ho : (o <= 6)%nat) by lia;
        destruct (fza_some x o a b Hx Ho H) as (_ & Hfit & _) end.
      pose proof (pow2_pos (c_order c)) as Pk. unfold pow2 in Pk.
      rewrite <- N.add_assoc, tree_of_frame by (apply (rowbit_lt g wf); lia). apply tree_child.
    - (* G2W: the chunk lies in the child *)
      intros _. pose proof (lo_row_lt g c c1 q ltac:(lia) ltac:(lia) ltac:(lia)) as Hlo.
      rewrite tree_of_frame by (pose proof (rowbit_lt g wf (c1 * c_nr c) 0 ltac:(lia) ltac:(lia)); lia). apply tree_child.
    - intros _. replace (group_h g (CGet start order) gi * HF) with (group_h g (CGet start order) gi * HF + 0) by lia.
      rewrite tree_of_frame by apply (HF_pos g).
      rewrite <- (N.add_0_r (group_h g (CGet start order) gi)). apply (tree_group (ms_frames s)); lia.
    - intros _. replace (group_h g (CGetAt frame order) gi * HF) with (group_h g (CGetAt frame order) gi * HF + 0) by lia.
      rewrite tree_of_frame by apply (HF_pos g).
      rewrite <- (N.add_0_r (group_h g (CGetAt frame order) gi)). apply (tree_group (ms_frames s)); lia.
  Qed.

  Lemma step_result s t c p c0 x' :
    Inv g s -> nth_error (ms_pool s) t = Some (TRun c p) ->
    nth_error (ms_pool (fst (mstep g s t c0))) t = Some x' ->
    match x' with
    | TRun c' _ => c' = c
    | TIdle (Some (Ok f)) => is_put c = false ->
        f / TF = c_frame c / TF /\ f mod pow2 (c_order c) = 0 /\ f + pow2 (c_order c) <= ms_frames s
    | TIdle (Some (Err e)) => e = EMemory
    | TIdle (Some (Panic _)) => False
    | TIdle None => False
    | TPanic z c' => z = SExceedingRetries /\ c' = c /\ is_put c = true
    end.
  Proof. intros I Ht Hx. exact (step_result_P s t c p c0 I Ht (step_inv g wf s t c0 I) x' Hx). Qed.

  Lemma lhold_le s t c p : Inv g s -> nth_error (ms_pool s) t = Some (TRun c p) -> lhold g (TRun c p) <= c_n c.
  Proof using wf.
    intros I Ht. pose proof (local_of' g s t _ I Ht) as L. cbn [local_b] in L.
    destruct c; cbn [lhold]; destruct p; try lia.
    cbn [lpc] in L. destruct (hc_arith (CPut frame order) q ltac:(lia) ltac:(lia)) as [A _]. lia.
  Qed.

  (* ----- the counter sum of a tree never exceeds TREE_FRAMES ----- *)
  Lemma sumf_window_le {A} (f : A -> N) (B : N) l m n : Forall (fun x => f x <= B) l ->
    sumf f (firstn n (skipn m l)) <= N.of_nat n * B.
  Proof.
    intros H. assert (H' : Forall (fun x => f x <= B) (skipn m l)).
    { apply Forall_forall. intros x Hx. rewrite <- (firstn_skipn m l) in H. apply Forall_app in H. exact (proj1 (Forall_forall _ _) (proj2 H) x Hx). }
    clear H. revert n. induction H' as [|a r Ha Hr IH]; intros n.
    - rewrite firstn_nil. cbn. lia.
    - destruct n; [cbn; lia|]. cbn [firstn]. rewrite sumf_cons. specialize (IH n). lia.
  Qed.
  Lemma inv_tree_free_le s i : Inv g s -> i < ntab g (ms_frames s) -> tree_free g (lower_of s) i <= TF.
  Proof.
    intros I _. rewrite tree_free_sumf. cbn [lower_of ents].
    unfold Bitfield.TF. rewrite THUGE_nat'. apply sumf_window_le.
    apply Forall_forall. intros e He. apply In_nth_error in He. destruct He as (k & Hk).
    apply (e_free_le s (N.of_nat k)); [exact I|]. unfold rd_ent, nn. rewrite Nat2N.id. exact Hk.
  Qed.

  (* ----- the invariant does not read the result of an idle thread nor the order of the held list ----- *)
  Lemma Inv_idle_irrel s t l l' : Inv g s -> nth_error (ms_pool s) t = Some (TIdle l) -> Inv g (set_thr s t (TIdle l')).
  Proof using wf.
    intros I Ht. apply (inv_plain g s t (TIdle l) (TIdle l') I Ht); try reflexivity.
    intros h. constructor; intros; try reflexivity; lia.
  Qed.

  Lemma sumf_perm {A} (f : A -> N) l l' : Permutation l l' -> sumf f l = sumf f l'.
  Proof. induction 1; rewrite ?sumf_cons in *; lia. Qed.

  Lemma Inv_held_perm s h : Inv g s -> Permutation (ms_held s) h -> Inv g (set_held s h).
  Proof using wf.
    intros I P.
    assert (Hc : forall x, heldc x h = heldc x (ms_held s)) by (intros x; symmetry; apply sumf_perm, P).
    assert (Hh : forall x, hugec g x h = hugec g x (ms_held s)) by (intros x; symmetry; apply sumf_perm, P).
    destruct I. constructor; cbn [ms_frames ms_ents ms_bfs ms_pool ms_held set_held]; try assumption.
    - intros h0 r i Hh0 Hr Hi. rewrite Hc. exact (I_A h0 r i Hh0 Hr Hi).
    - intros h0 Hh0 He r i Hr Hi. rewrite Hc. exact (I_B h0 Hh0 He r i Hr Hi).
    - intros h0 He. rewrite Hh. exact (I_F h0 He).
    - exact (Permutation_Forall P I_H).
  Qed.
  (* ---------- the ghost `held` list, the frame of a step ---------- *)
  Definition HeldP (s : mstate) (t : nat) (c : call) (s' : mstate) : Prop :=
    forall x', nth_error (ms_pool s') t = Some x' ->
    ms_held s' = match x' with
                 | TIdle (Some (Ok f)) => if is_put c then ms_held s else (f, c_order c) :: ms_held s
                 | _ => ms_held s
                 end.
  Lemma held_goto s t c s1 p' : ms_held s1 = ms_held s -> HeldP s t c (goto s1 t c p').
  Proof. intros E x' Hx. cbn [ms_pool goto set_thr] in Hx. apply upd_same_inv' in Hx. subst x'. exact E. Qed.
  Lemma held_crash s t c s1 z : ms_held s1 = ms_held s -> HeldP s t c (crash s1 t c z).
  Proof. intros E x' Hx. cbn [ms_pool crash set_thr] in Hx. apply upd_same_inv' in Hx. subst x'. exact E. Qed.
  Lemma held_finish s t c s1 r : ms_held s1 = ms_held s -> HeldP s t c (finish s1 t c r).
  Proof.
    intros E x' Hx. unfold finish in *.
    destruct c, r; cbn [ms_pool ms_held set_held set_thr] in *; apply upd_same_inv' in Hx; subst x';
      cbn [is_put c_order]; rewrite ?E; reflexivity.
  Qed.
  Ltac held_mem := first [reflexivity | apply held_wr_row].
  Ltac held_leaf :=
    lazymatch goal with
    | |- _ (goto _ _ _ _) => apply held_goto; held_mem
    | |- _ (crash _ _ _ _) => apply held_crash; held_mem
    | |- _ (finish _ _ _ _) => apply held_finish; held_mem
    end.

  Lemma step_held s t c p c0 x' :
    nth_error (ms_pool s) t = Some (TRun c p) ->
    nth_error (ms_pool (fst (mstep g s t c0))) t = Some x' ->
    ms_held (fst (mstep g s t c0)) =
      match x' with
      | TIdle (Some (Ok f)) => if is_put c then ms_held s else (f, c_order c) :: ms_held s
      | _ => ms_held s
      end.
  Proof using wf.
    intros Ht. revert x'. change (HeldP s t c (fst (mstep g s t c0))).
    unfold mstep. rewrite Ht.
    destruct p; cbv beta iota zeta.
    all: try (destruct x).
    all: psplit; unfold next_child, next_row, next_chunk, next_group, toggle_ok, toggle_fail, toggle_entry; psplit.
    all: held_leaf.
  Qed.

  (* what every step leaves alone: `frames`, the length of the pool, the other threads *)
  Definition FrameP (s : mstate) (t : nat) (s' : mstate) : Prop :=
    ms_frames s' = ms_frames s /\ length (ms_pool s') = length (ms_pool s) /\
    forall t', t' <> t -> nth_error (ms_pool s') t' = nth_error (ms_pool s) t'.
  Lemma frame_refl s t : FrameP s t s.
  Proof. repeat split. Qed.
  Lemma frame_set_thr s t s1 x : ms_frames s1 = ms_frames s -> ms_pool s1 = ms_pool s -> FrameP s t (set_thr s1 t x).
  Proof.
    intros Ef Ep. unfold FrameP. cbn [ms_frames ms_pool set_thr]. rewrite Ep, upd_length. repeat split; [exact Ef|].
    intros t' Hne. apply nth_error_upd_other. congruence.
  Qed.
  Lemma frame_finish s t s1 c r : ms_frames s1 = ms_frames s -> ms_pool s1 = ms_pool s -> FrameP s t (finish s1 t c r).
  Proof. intros Ef Ep. unfold finish. destruct c, r; apply (frame_set_thr s t s1 _ Ef Ep). Qed.
  Ltac frame_leaf :=
    lazymatch goal with
    | |- _ (goto (wr_row _ _ _ _) _ _ _) => apply frame_set_thr; [apply frames_wr_row | apply pool_wr_row]
    | |- _ (crash (wr_row _ _ _ _) _ _ _) => apply frame_set_thr; [apply frames_wr_row | apply pool_wr_row]
    | |- _ (finish (wr_row _ _ _ _) _ _ _) => apply frame_finish; [apply frames_wr_row | apply pool_wr_row]
    | |- _ (goto _ _ _ _) => apply frame_set_thr; reflexivity
    | |- _ (crash _ _ _ _) => apply frame_set_thr; reflexivity
    | |- _ (finish _ _ _ _) => apply frame_finish; reflexivity
    | |- _ => apply frame_refl
    end.
  Lemma step_frame s t c0 : FrameP s t (fst (mstep g s t c0)).
  Proof using wf.
    unfold mstep. destruct (nth_error (ms_pool s) t) as [[l|c p|z c]|] eqn:Ht; cbv beta iota zeta; cbn [fst]; try apply frame_refl.
    - psplit; frame_leaf.
    - destruct p.
      all: try (destruct x).
      all: psplit; unfold next_child, next_row, next_chunk, next_group, toggle_ok, toggle_fail, toggle_entry; psplit.
      all: frame_leaf.
  Qed.

  Lemma step_frames s t c0 : ms_frames (fst (mstep g s t c0)) = ms_frames s.
  Proof using wf. exact (proj1 (step_frame s t c0)). Qed.
  Lemma step_pool_other s t c0 t' : t' <> t -> nth_error (ms_pool (fst (mstep g s t c0))) t' = nth_error (ms_pool s) t'.
  Proof using wf. exact (proj2 (proj2 (step_frame s t c0)) t'). Qed.
  Lemma step_pool_len s t c0 : length (ms_pool (fst (mstep g s t c0))) = length (ms_pool s).
  Proof using wf. exact (proj1 (proj2 (step_frame s t c0))). Qed.
  (* ---------- the counter sum of a tree plus what the in-flight gets have taken from it ---------- *)
  (* frames a lower get / get_at has already subtracted from the huge entries of its tree *)
  Definition taken (x : thr) : N :=
    match x with TRun c _ => if is_put c then 0 else c_n c - lhold g x | _ => 0 end.
  Definition taken_in (i : N) (x : thr) : N :=
    match x with TRun c _ => if c_frame c / TF =? i then taken x else 0 | _ => 0 end.

  (* the share of thread x in huge frame h: what it has pending under the counter, a whole entry it claimed *)
  Definition tkw (fm h : N) (x : thr) : N := (if h <? nbf g fm then pend g h x else 0) + HF * hfr g h x.

  Lemma tkw_bound s h : Inv g s -> e_free (entv s h) + sumf (tkw (ms_frames s) h) (ms_pool s) <= HF.
  Proof using wf.
    intros I. unfold tkw. rewrite sumf_add, sumf_mulc. pose proof (HF_lt_MARK g wf) as HM. pose proof (ROWS_pos g wf) as PR.
    destruct (N.eq_dec (entv s h) MARK) as [He|He].
    - rewrite He. change (e_free MARK) with 0.
      assert (Hh : h < nbf g (ms_frames s)) by (apply (ent_nz_lt g s h I); rewrite He; discriminate).
      destruct (N.ltb_spec h (nbf g (ms_frames s))); [|lia].
      destruct (K2 g wf s h I Hh He) as [Kp _]. change (sumf (fun x => pend g h x) (ms_pool s)) with (sumf (pend g h) (ms_pool s)).
      rewrite Kp. pose proof (I_B g s I h Hh He 0 0 PR ltac:(lia)) as B.
      assert (Hle : sumf (hfr g h) (ms_pool s) <= sumf (fr g h 0 0) (ms_pool s)).
      { apply sumf_le_in. intros x Hx. apply (hfr_le_fr g wf (ms_frames s)); [|exact PR|lia].
        exact (proj1 (Forall_forall _ _) (I_L g s I) x Hx). }
      change (sumf (fun x => hfr g h x) (ms_pool s)) with (sumf (hfr g h) (ms_pool s)). nia.
    - rewrite (e_free_id _ He). pose proof (I_F g s I h He) as F.
      change (sumf (fun x => hfr g h x) (ms_pool s)) with (sumf (hfr g h) (ms_pool s)).
      assert (E0 : sumf (hfr g h) (ms_pool s) = 0) by lia. rewrite E0, N.mul_0_r, N.add_0_r.
      destruct (N.ltb_spec h (nbf g (ms_frames s))) as [Hh|Hh].
      + pose proof (K1 g wf s h I Hh He) as K. change (sumf (fun x => pend g h x) (ms_pool s)) with (sumf (pend g h) (ms_pool s)). lia.
      + rewrite (I_nobf g s I h Hh). rewrite sumf_all_zero by reflexivity. lia.
  Qed.

  Lemma tree_free_ssum s i : Inv g s -> i < ntab g (ms_frames s) ->
    tree_free g (lower_of s) i = ssum THUGE (fun k => e_free (entv s (i * THUGE + k))).
  Proof using wf.
    intros I Hi. rewrite tree_free_sumf. cbn [lower_of ents]. rewrite sumf_nth_error.
    pose proof THUGE_nat' as EN. pose proof (I_len2 g s I) as Hl.
    assert (Hlen : length (firstn (thuge_nat g) (skipn (nn (i * THUGE)) (ms_ents s))) = thuge_nat g).
    { rewrite firstn_length, skipn_length, Hl. unfold nn. nia. }
    rewrite Hlen, <- EN. apply ssum_ext. intros k Hk.
    rewrite nth_error_firstn' by (unfold nn; lia). rewrite nth_error_skipn'.
    unfold entv, rd_ent. replace (nn (i * THUGE + k)) with (nn (i * THUGE) + nn k)%nat by (unfold nn; lia).
    destruct (nth_error (ms_ents s) (nn (i * THUGE) + nn k)); reflexivity.
  Qed.

  Lemma in_tree_term (f : N -> N) h0 T : h0 / THUGE = T -> f h0 <= ssum THUGE (fun k => f (T * THUGE + k)).
  Proof.
    intros E. pose proof (THUGE_pos g) as PT. pose proof (N.div_mod h0 THUGE ltac:(lia)) as D.
    pose proof (N.mod_lt h0 THUGE ltac:(lia)) as M.
    replace h0 with (T * THUGE + h0 mod THUGE) at 1 by (subst T; lia).
    apply (ssum_ge THUGE (fun k => f (T * THUGE + k)) (h0 mod THUGE) M).
  Qed.
  Lemma small_taken fm x h0 T n : h0 < nbf g fm -> h0 / THUGE = T -> pend g h0 x = n ->
    n <= ssum THUGE (fun k => tkw fm (T * THUGE + k) x).
  Proof.
    intros Hh E Hp. etransitivity; [|apply (in_tree_term (fun h => tkw fm h x) h0 T E)].
    cbv beta. unfold tkw. destruct (N.ltb_spec h0 (nbf g fm)); lia.
  Qed.
  Lemma huge_taken fm x a cnt T : ent_own g x a cnt -> (forall r, r < cnt -> (a + r) / THUGE = T) ->
    cnt * HF <= ssum THUGE (fun k => tkw fm (T * THUGE + k) x).
  Proof.
    intros O Hin. pose proof (THUGE_pos g) as PT.
    destruct (N.eq_dec cnt 0) as [->|Hc]; [lia|].
    pose proof (Hin 0 ltac:(lia)) as E0. rewrite N.add_0_r in E0. pose proof (Hin (cnt - 1) ltac:(lia)) as E1.
    pose proof (N.div_mod a THUGE ltac:(lia)) as D0. pose proof (N.mod_lt a THUGE ltac:(lia)) as M0.
    pose proof (N.div_mod (a + (cnt - 1)) THUGE ltac:(lia)) as D1. pose proof (N.mod_lt (a + (cnt - 1)) THUGE ltac:(lia)) as M1.
    rewrite E0 in D0. rewrite E1 in D1. set (k0 := a mod THUGE) in *.
    assert (Hfit : k0 + cnt <= THUGE) by lia.
    rewrite <- (ssum_inb_in THUGE k0 cnt Hfit), N.mul_comm, <- ssum_mulc.
    apply ssum_le. intros k Hk. unfold tkw. rewrite (EO_hfr g x a cnt O).
    replace (inb a cnt (T * THUGE + k)) with (inb k0 cnt k) by (unfold inb; lia). lia.
  Qed.

  Lemma taken_le_tkw s t x i : Inv g s -> nth_error (ms_pool s) t = Some x ->
    taken_in i x <= ssum THUGE (fun k => tkw (ms_frames s) (i * THUGE + k) x).
  Proof using wf.
    intros I Ht. pose proof (local_of' g s t _ I Ht) as L.
    destruct x as [l|c p|z c]; cbn [taken_in]; try lia.
    destruct (N.eqb_spec (c_frame c / TF) i) as [<-|]; [|lia].
    unfold taken. destruct (is_put c) eqn:Hp; [lia|].
    cbn [local_b] in L. apply andb_true_iff in L. destruct L as [Hc L].
    assert (Hsm : forall h0, h0 < nbf g (ms_frames s) -> h0 / THUGE = c_frame c / TF -> pend g h0 (TRun c p) = c_n c ->
              c_n c - lhold g (TRun c p) <= ssum THUGE (fun k => tkw (ms_frames s) (c_frame c / TF * THUGE + k) (TRun c p))).
    { intros h0 H1 H2 H3. etransitivity; [|apply (small_taken _ _ h0 _ (c_n c) H1 H2 H3)]. lia. }
    assert (Hat : is_getat c = true -> small g c = true -> c_huge g c < nbf g (ms_frames s)).
    { intros Ha Hs. apply (small_call_decomp g wf (ms_frames s) c Hc Hs). apply is_getat_not_get, Ha. }
    destruct p; cbn [lpc] in L;
      try (destruct x; cbn [ctx_ok] in L);
      try (exfalso; rewrite Hp in L; cbn [andb] in L; rewrite ?andb_false_r in L; discriminate L).
    all: try (destruct c; try discriminate Hp; cbn [lhold]; lia).
    all: try (apply (Hsm (child_h g c j)); [lia | apply tree_child | gsimp; rewrite N.eqb_refl; reflexivity]).
    all: try (apply (Hsm (c_huge g c)); [apply Hat; lia | apply tree_huge | gsimp; rewrite N.eqb_refl; reflexivity]).
    - (* HC *) destruct (hc_arith c q ltac:(lia) ltac:(lia)) as [A _].
      etransitivity; [|apply (huge_taken (ms_frames s) _ (group_h g c gi) q _ (own_get_HC g wf c gi q Hp))].
      + destruct c; try discriminate Hp; cbn [lhold]; lia.
      + intros r Hr. apply (tree_group (ms_frames s)); lia.
    - (* HU *) destruct (hc_arith c q ltac:(lia) ltac:(lia)) as [A _].
      etransitivity; [|apply (huge_taken (ms_frames s) _ (group_h g c gi) (q + 1) _ (own_get_HU g wf c gi q Hp))].
      + destruct c; try discriminate Hp; cbn [lhold]; lia.
      + intros r Hr. apply (tree_group (ms_frames s)); lia.
  Qed.

  Lemma inv_tree_free_taken s i :
    Inv g s -> i < ntab g (ms_frames s) ->
    tree_free g (lower_of s) i + sumf (taken_in i) (ms_pool s) <= TF.
  Proof using wf.
    intros I Hi. rewrite (tree_free_ssum s i I Hi).
    assert (H1 : sumf (taken_in i) (ms_pool s)
                 <= sumf (fun x => ssum THUGE (fun k => tkw (ms_frames s) (i * THUGE + k) x)) (ms_pool s)).
    { apply sumf_le_in. intros x Hx. apply In_nth_error in Hx. destruct Hx as (t & Ht). exact (taken_le_tkw s t x i I Ht). }
    rewrite <- (ssum_sumf THUGE (fun k x => tkw (ms_frames s) (i * THUGE + k) x)) in H1.
    etransitivity; [apply N.add_le_mono_l, H1|]. rewrite <- ssum_add.
    etransitivity; [apply (ssum_le _ _ (fun _ => HF)); intros k _; apply (tkw_bound s (i * THUGE + k) I)|].
    rewrite ssum_const. unfold Bitfield.TF. lia.
  Qed.
  (* ---------- a tree that contains a held block is not entirely free ---------- *)
  Lemma ssum_lt_one n (f : N -> N) B k0 : (forall k, k < n -> f k <= B) -> k0 < n -> f k0 < B -> ssum n f < n * B.
  Proof.
    intros Hle Hk Hlt.
    assert (H : ssum n (fun k => f k + b2n (k =? k0)) <= ssum n (fun _ => B)).
    { apply ssum_le. intros k Hkn. specialize (Hle k Hkn). destruct (N.eqb_spec k k0) as [->|]; cbn [b2n]; lia. }
    rewrite ssum_add, ssum_eqb, ssum_const in H. destruct (N.ltb_spec k0 n); cbn [b2n] in H; lia.
  Qed.
  Lemma lt_ntab fm f : f < fm -> f / TF < ntab g fm.
  Proof using wf.
    intros H. pose proof (TF_pos g) as PT. destruct (div_ceil_spec fm TF ltac:(lia)) as [H1 _].
    unfold ntab. apply N.div_lt_upper_bound; [lia|]. lia.
  Qed.

  Lemma inv_held_tree_free s F K :
    Inv g s -> In (F, K) (ms_held s) -> tree_free g (lower_of s) (F / TF) < TF.
  Proof using wf.
    intros I Hin. pose proof (HF_pos g) as PH. pose proof (THUGE_pos g) as PT.
    pose proof (proj1 (Forall_forall _ _) (I_H g s I) _ Hin) as Hok. unfold blk_ok in Hok. cbn [fst snd] in Hok.
    pose proof (pow2_pos K) as PK. assert (HF0 : F < ms_frames s) by lia.
    destruct (small_decomp g wf F 0 (N.mod_1_r F)) as (E & Hr & Hi); [destruct wf; lia|].
    set (h := F / HF) in *. set (r := (F / 64) mod ROWS) in *. set (b := F mod 64) in *.
    assert (Hh : h < nbf g (ms_frames s)) by (apply lt_nbf; exact HF0).
    assert (Ht : h / THUGE = F / TF) by (unfold h; rewrite N.div_div, TF_eq by lia; reflexivity).
    (* the entry of the huge frame of F is not completely free *)
    assert (Hlt : e_free (entv s h) < HF).
    { destruct (N.eq_dec (entv s h) MARK) as [He|He]; [rewrite He; exact PH|].
      rewrite (e_free_id _ He). pose proof (K1 g wf s h I Hh He) as Kq.
      assert (1 <= gheld g s h); [|lia].
      etransitivity; [|apply (gsum_ge g (fun r i => heldc (fidx g h r i) (ms_held s)) r b Hr Hi)].
      cbv beta. rewrite <- E.
      etransitivity; [|apply (sumf_ge_in (fun b0 => b2n (cover b0 F)) (ms_held s) (F, K) Hin)].
      cbv beta. unfold cover, inb. cbn [fst snd]. lia. }
    rewrite (tree_free_ssum s (F / TF) I (lt_ntab _ _ HF0)).
    pose proof (N.div_mod h THUGE ltac:(lia)) as D. pose proof (N.mod_lt h THUGE ltac:(lia)) as M. rewrite Ht in D.
    apply (ssum_lt_one THUGE _ HF (h mod THUGE)); [|exact M|].
    - intros k _. pose proof (tkw_bound s (F / TF * THUGE + k) I). lia.
    - replace (F / TF * THUGE + h mod THUGE) with h by lia. exact Hlt.
  Qed.
End M1.

Print Assumptions view_step.
Print Assumptions step_hold.
Print Assumptions step_result.
Print Assumptions lhold_le.
Print Assumptions inv_tree_free_le.
Print Assumptions Inv_idle_irrel.
Print Assumptions Inv_held_perm.
Print Assumptions step_held.
Print Assumptions step_frames.
Print Assumptions step_pool_other.
Print Assumptions step_pool_len.
Print Assumptions inv_tree_free_taken.
Print Assumptions inv_held_tree_free.
