(* Preservation of the invariant: put at small orders (P1, the split protocol PP2 / PP3, PS2x). *)
From Coq Require Import PeanoNat.
From LLF Require Import Base BitLemmas Row RowProofs Bitfield Lower Spec LowerMachine
  ConcBase ConcInvDef ConcInvGeom ConcInvStep ConcInvTac ConcInvAt.

Section Put.
  Variable g : geom.
  Hypothesis wf : wf_geom g.
  Notation HF := (HF g).
  Notation THUGE := (THUGE g).
  Notation ROWS := (ROWS g).

  Lemma step_P1 s t c c0 : Inv g s -> nth_error (ms_pool s) t = Some (TRun c P1) ->
    Inv g (fst (mstep g s t c0)).
  Proof.
    intros I Ht. pose proof (local_of' g s t _ I Ht) as L. cbn [local_b lpc] in L.
    unfold mstep. rewrite Ht. cbv beta iota zeta.
    assert (Hg : is_get c = false) by (apply is_put_not_get; lia).
    destruct (small_call g wf s c) as (Hh & He & Hk & Hr & Ho & Hn); try lia; [exact I|].
    destruct (has_ent g s (c_huge g c) I He) as [old Ev]. rewrite Ev. cbn [fst].
    pose proof (entv_rd s _ old Ev) as Ec.
    unfold e_free, e_huge. destruct (N.eqb_spec old MARK) as [->|Hm].
    - (* marker: start the split *)
      apply (inv_plain g s t _ _ I Ht); [| reflexivity |].
      + intros h. constructor; intros; unfold fr, tr, pend, trcount, needsC, hfr; cbn [ghost_of]; rewrite toggle_entry_ghost; gsimp;
          unfold inb; try lia; destr_if; lia.
      + cbn [local_b]. rewrite toggle_entry_local by (cbn [ctx_ok]; rewrite ?N.eqb_refl; lia). lia.
    - pose proof (counter_bound g wf s t _ (c_huge g c) I Ht Hh ltac:(rewrite Ec; exact Hm)) as Kb.
      rewrite (gfr_small g wf (ms_frames s) c) in Kb; try lia; try reflexivity. rewrite Ec in Kb.
      destruct (N.leb_spec (old + c_n c) HF) as [Hle|Hgt]; [|exfalso; lia].
      apply (inv_plain g s t _ _ I Ht); [| reflexivity |].
      + intros h. constructor; intros; unfold fr, tr, pend, trcount, needsC, hfr; cbn [ghost_of]; rewrite toggle_entry_ghost; gsimp;
          unfold inb; try lia; try (destr_if; lia).
        destruct (N.eqb_spec h (c_huge g c)) as [->|]; [exfalso; congruence|cbn; lia].
      + cbn [local_b]. rewrite toggle_entry_local by (cbn [ctx_ok]; lia). lia.
  Qed.

  Lemma step_PP3 s t c i c0 : Inv g s -> nth_error (ms_pool s) t = Some (TRun c (PP3 i)) ->
    Inv g (fst (mstep g s t c0)).
  Proof.
    intros I Ht. pose proof (local_of' g s t _ I Ht) as L. cbn [local_b lpc] in L.
    unfold mstep. rewrite Ht. cbv beta iota zeta.
    assert (Hg : is_get c = false) by (apply is_put_not_get; lia).
    destruct (small_call g wf s c) as (Hh & He & Hk & Hr & Ho & Hn); try lia; [exact I|].
    destruct (has_ent g s (c_huge g c) I He) as [cur Ev]. rewrite Ev. cbn [fst].
    pose proof (entv_rd s _ cur Ev) as Ec.
    unfold e_huge. destruct (N.eqb_spec cur MARK) as [->|Hm]; cbn [negb].
    - destruct (i + 1 <? RETRIES).
      + apply (inv_plain g s t _ _ I Ht); [intros h; gsame_tac|reflexivity|]. cbn [local_b lpc]. lia.
      + apply (inv_plain g s t _ _ I Ht); [intros h; gsame_tac|reflexivity|]. cbn [local_b]. lia.
    - apply (inv_plain g s t _ _ I Ht); [| reflexivity |].
      + intros h. constructor; intros; unfold fr, tr, pend, trcount, needsC, hfr; cbn [ghost_of]; rewrite toggle_entry_ghost; gsimp;
          unfold inb; try lia; try (destr_if; lia).
        destruct (N.eqb_spec h (c_huge g c)) as [->|]; [exfalso; congruence|cbn; lia].
      + cbn [local_b]. rewrite toggle_entry_local by (cbn [ctx_ok]; lia). lia.
  Qed.

  Lemma step_PS2L s t c c0 : Inv g s -> nth_error (ms_pool s) t = Some (TRun c PS2L) ->
    Inv g (fst (mstep g s t c0)).
  Proof.
    intros I Ht. pose proof (local_of' g s t _ I Ht) as L. cbn [local_b lpc] in L.
    unfold mstep. rewrite Ht. cbv beta iota zeta.
    assert (Hg : is_get c = false) by (apply is_put_not_get; lia).
    destruct (small_call g wf s c) as (Hh & He & _); try lia; [exact I|].
    set (h := c_huge g c) in *.
    destruct (has_ent g s h I He) as [v Ev]. rewrite Ev. cbn [fst].
    destruct (inc_possible g wf s t _ h (c_n c) v I Ht Hh) as (Ei & _); try exact Ev;
      try (gsimp; fold h; rewrite N.eqb_refl; reflexivity).
    rewrite Ei. apply (inv_plain g s t _ _ I Ht); [intros h'; gsame_tac|reflexivity|].
    cbn [local_b lpc]. rewrite Ei. cbn [isSome]. lia.
  Qed.

  Lemma step_PS2C s t c v c0 : Inv g s -> nth_error (ms_pool s) t = Some (TRun c (PS2C v)) ->
    Inv g (fst (mstep g s t c0)).
  Proof.
    intros I Ht. pose proof (local_of' g s t _ I Ht) as L. cbn [local_b lpc] in L.
    unfold mstep. rewrite Ht. cbv beta iota zeta.
    assert (Hg : is_get c = false) by (apply is_put_not_get; lia).
    destruct (small_call g wf s c) as (Hh & He & _); try lia; [exact I|].
    set (h := c_huge g c) in *.
    destruct (has_ent g s h I He) as [cur Ev]. rewrite Ev.
    destruct (e_inc g v (c_n c)) as [v'|] eqn:Ed; [|cbn [isSome] in L; lia].
    destruct (inc_possible g wf s t _ h (c_n c) cur I Ht Hh) as (Ei & Hm & Hle); try exact Ev;
      try (gsimp; fold h; rewrite N.eqb_refl; reflexivity).
    destruct (N.eqb_spec cur v) as [->|Hne]; cbn [fst].
    - rewrite Ei in Ed. inversion Ed; subst v'. pose proof (HF_lt_MARK g wf).
      rewrite finish_put by lia. change (Inv g (mk_ent s h (v + c_n c) t (TIdle (Some (Ok 0))) (ms_held s))).
      apply (inv_counter g s t _ _ h v (v + c_n c) I Ht Ev Hh Hm); try lia;
        try (intros; gsimp; fold h; rewrite ?N.eqb_refl; unfold inb; try lia; destr_if; lia).
      + intros h' Hh'. constructor; intros; gsimp; fold h; unfold inb; try lia; destr_if; lia.
      + reflexivity.
      + reflexivity.
    - rewrite Ei. apply (inv_plain g s t _ _ I Ht); [intros h'; gsame_tac|reflexivity|].
      cbn [local_b lpc]. rewrite Ei. cbn [isSome]. lia.
  Qed.

  Lemma step_PP2 s t c old c0 : Inv g s -> nth_error (ms_pool s) t = Some (TRun c (PP2 old)) ->
    Inv g (fst (mstep g s t c0)).
  Proof.
    intros I Ht. pose proof (local_of' g s t _ I Ht) as L. pose proof L as L0. cbn [local_b lpc] in L.
    unfold mstep. rewrite Ht. cbv beta iota zeta.
    assert (Hg : is_get c = false) by (apply is_put_not_get; lia).
    destruct (small_call g wf s c) as (Hh & He & Hk & Hr & Ho & Hn); try lia; [exact I|].
    destruct (small_call_decomp g wf (ms_frames s) c) as (Ed & _); try lia.
    destruct (has_ent g s (c_huge g c) I He) as [cur Ev]. rewrite Ev. pose proof (entv_rd s _ cur Ev) as Ec.
    assert (Hold : old = MARK) by lia. subst old.
    pose proof (ROWS_pos g wf) as PR.
    assert (Hfr0 : fr g (c_huge g c) (t_row g XPut c) (t_off XPut c) (TRun c (PP2 MARK)) = 1).
    { gsimp. rewrite <- Ed. unfold inb. lia. }
    assert (Htr0 : forall r, r < ROWS -> tr g (c_huge g c) r (TRun c (PP2 MARK)) = 1).
    { intros r Hr'. gsimp. rewrite N.eqb_refl. unfold inb. lia. }
    assert (Hcur : cur = MARK).
    { pose proof (I_A g s I (c_huge g c) (t_row g XPut c) (t_off XPut c) Hh Hr Ho) as A. rewrite Ec in A.
      pose proof (sumf_ge (fr g (c_huge g c) (t_row g XPut c) (t_off XPut c)) _ _ _ Ht). pose proof (sumf_ge (tr g (c_huge g c) (t_row g XPut c)) _ _ _ Ht). rewrite Hfr0 in *. rewrite (Htr0 (t_row g XPut c) Hr) in *.
      unfold isMark in A. destruct (N.eqb_spec cur MARK); [assumption|]. cbn [b2n] in A. lia. }
    rewrite Hcur in *. clear Hcur. rewrite N.eqb_refl. cbn [fst].
    destruct (K2 g wf s (c_huge g c) I Hh Ec) as [Kp Kz].
    pose proof (I_B g s I (c_huge g c) Hh Ec (t_row g XPut c) (t_off XPut c) Hr Ho) as B.
    pose proof (sumf_ge (fr g (c_huge g c) (t_row g XPut c) (t_off XPut c)) _ _ _ Ht) as Gf. rewrite Hfr0 in Gf.
    change (Inv g (mk_ent s (c_huge g c) 0 t (TRun c (toggle_entry g XPut c)) (ms_held s))).
    assert (Gx : gpc g c (toggle_entry g XPut c) = gput (c_huge g c) (c_frame c) (c_n c) 0) by apply toggle_entry_ghost.
    apply (inv_ent g s t _ _ (c_huge g c) MARK 0 (ms_held s) I Ht Ev).
    - intros h' Hne. apply gsame_H. constructor; intros; unfold fr, tr, pend, trcount, needsC, hfr; cbn [ghost_of]; rewrite Gx; gsimp;
        unfold inb; try lia; destr_if; lia.
    - constructor; intros; rewrite ?(mk_ent_entv _ _ _ _ _ _ _ _ Ev), ?N.eqb_refl, ?mk_ent_bit, ?mk_ent_zeros in *;
        try (exfalso; unfold MARK in *; lia); try lia.
      + cbn [ms_held mk_ent set_held]. rewrite Ec. rewrite (Htr0 r H0).
        unfold fr, tr. cbn [ghost_of]. rewrite Gx. gsimp. unfold isMark, inb, MARK. lia.
      + assert (P1 : pend g (c_huge g c) (TRun c (toggle_entry g XPut c)) = 0)
          by (unfold pend; cbn [ghost_of]; rewrite Gx; gsimp; rewrite N.eqb_refl; lia).
        assert (T1 : trcount g (c_huge g c) (TRun c (toggle_entry g XPut c)) = 0)
          by (unfold trcount; cbn [ghost_of]; rewrite Gx; gsimp; rewrite N.eqb_refl; lia).
        assert (P0 : pend g (c_huge g c) (TRun c (PP2 MARK)) = 0) by (gsimp; rewrite N.eqb_refl; lia).
        assert (T0 : trcount g (c_huge g c) (TRun c (PP2 MARK)) = ROWS) by (gsimp; rewrite N.eqb_refl; lia).
        rewrite P1, T1, P0, T0. pose proof (HF_64 g wf). lia.
      + cbn [ms_held mk_ent set_held].
        assert (F1 : hfr g (c_huge g c) (TRun c (toggle_entry g XPut c)) = 0)
          by (unfold hfr; cbn [ghost_of]; rewrite Gx; gsimp; reflexivity).
        rewrite F1.
        pose proof (hugec_le_heldc g wf (ms_frames s) (ms_held s) (c_huge g c) (t_row g XPut c) (t_off XPut c) (I_H g s I) Hr Ho).
        pose proof (hfr_others g wf s t _ (c_huge g c) (t_row g XPut c) (t_off XPut c) I Ht Hr Ho) as Ho'. rewrite Hfr0 in Ho'.
        assert (hfr g (c_huge g c) (TRun c (PP2 MARK)) = 0) by (gsimp; reflexivity). lia.
    - reflexivity.
    - cbn [local_b]. rewrite toggle_entry_local by (cbn [ctx_ok]; lia). lia.
    - apply I.
  Qed.
End Put.
