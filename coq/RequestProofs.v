(* Facts about Requests.v: the requests built by the closures of `Classing::simple` / `Classing::movable` are
   valid for the class tables of the same call (class configured, slot index below its slot count), the
   tables satisfy the construction hypotheses of C09 (`init_inv`: ids < 8, default configured), and the JSON
   policy is an ordered policy (PolicyFacts.v), hence has the four named policy properties. *)
From Coq Require Import List NArith Bool Lia.
From LLF Require Import Base Upper UpperPrims Policies PolicyFacts Requests.
Import ListNotations.

(* ---------- requests ---------- *)
Lemma mod_lt_cores core cores : 1 <= cores -> core mod cores < cores.
Proof. intros H. apply N.mod_lt. lia. Qed.

Lemma simple_request_valid hord order core cores : 1 <= cores ->
  let r := simple_request hord order core cores in
  exists n, In (r_class r, n) (fst (simple_classing cores)) /\
            match r_local r with Some j => j < n | None => True end.
Proof.
  intros H r. exists cores. subst r. unfold simple_request, simple_classing. cbn [r_class r_local fst].
  split; [|apply mod_lt_cores; exact H].
  destruct (N.of_nat hord <=? order); cbn [In]; auto.
Qed.

Lemma movable_request_valid hord order core cores movable : 1 <= cores ->
  let r := movable_request hord order core cores movable in
  exists n, In (r_class r, n) (fst (movable_classing cores)) /\
            match r_local r with Some j => j < n | None => True end.
Proof.
  intros H r. exists cores. subst r. unfold movable_request, movable_classing. cbn [r_class r_local fst].
  split; [|apply mod_lt_cores; exact H].
  destruct (N.of_nat hord <=? order); [|destruct movable]; cbn [In]; auto.
Qed.

(* the executable form evaluated by the driver's oracle *)
Lemma simple_request_valid_b hord order core cores : 1 <= cores ->
  request_valid_b (fst (simple_classing cores)) (simple_request hord order core cores) = true.
Proof.
  intros H. pose proof (mod_lt_cores core cores H) as L. apply N.ltb_lt in L.
  unfold request_valid_b, simple_request, simple_classing. cbn [r_class r_local fst].
  destruct (N.of_nat hord <=? order); cbn [slots_of N.eqb Pos.eqb]; exact L.
Qed.

Lemma movable_request_valid_b hord order core cores movable : 1 <= cores ->
  request_valid_b (fst (movable_classing cores)) (movable_request hord order core cores movable) = true.
Proof.
  intros H. pose proof (mod_lt_cores core cores H) as L. apply N.ltb_lt in L.
  unfold request_valid_b, movable_request, movable_classing. cbn [r_class r_local fst].
  destruct (N.of_nat hord <=? order); [|destruct movable]; cbn [slots_of N.eqb Pos.eqb]; exact L.
Qed.

(* `request_valid_b` means what it should: some entry (the first with that id) has the request's class and
   the slot index is below its count *)
Lemma slots_of_in classes c n : slots_of classes c = Some n -> In (c, n) classes.
Proof.
  induction classes as [|[c' k] rest IH]; cbn [slots_of]; [discriminate|].
  destruct (N.eqb_spec c' c) as [->|_]; intros E.
  - injection E as ->. left. reflexivity.
  - right. apply IH, E.
Qed.

Lemma request_valid_b_sound classes r : request_valid_b classes r = true ->
  exists n, In (r_class r, n) classes /\ match r_local r with Some j => j < n | None => True end.
Proof.
  unfold request_valid_b. destruct (slots_of classes (r_class r)) as [n|] eqn:E; [|discriminate].
  intros H. exists n. split; [apply slots_of_in, E|].
  destruct (r_local r); [apply N.ltb_lt, H|exact I].
Qed.

(* the order is passed through and the classes are those of the tables *)
Lemma simple_request_order hord order core cores :
  r_order (simple_request hord order core cores) = N.to_nat order.
Proof. reflexivity. Qed.

Lemma movable_request_order hord order core cores movable :
  r_order (movable_request hord order core cores movable) = N.to_nat order.
Proof. reflexivity. Qed.

(* huge requests get the huge class, which is the default class of the table *)
Lemma simple_request_class hord order core cores :
  r_class (simple_request hord order core cores) =
  if Nat.leb hord (N.to_nat order) then snd (simple_classing cores) else 0.
Proof.
  unfold simple_request, simple_classing. cbn [r_class snd].
  destruct (N.leb_spec (N.of_nat hord) order), (PeanoNat.Nat.leb_spec hord (N.to_nat order)); try reflexivity; lia.
Qed.

Lemma movable_request_class hord order core cores movable :
  r_class (movable_request hord order core cores movable) =
  if Nat.leb hord (N.to_nat order) then snd (movable_classing cores) else if movable then 1 else 0.
Proof.
  unfold movable_request, movable_classing. cbn [r_class snd].
  destruct (N.leb_spec (N.of_nat hord) order), (PeanoNat.Nat.leb_spec hord (N.to_nat order)); try reflexivity; lia.
Qed.

Lemma simple_request_order_class hord order core cores :
  r_order (simple_request hord order core cores) = N.to_nat order /\
  r_class (simple_request hord order core cores) =
    if Nat.leb hord (N.to_nat order) then snd (simple_classing cores) else 0.
Proof. split; [apply simple_request_order | apply simple_request_class]. Qed.

Lemma movable_request_order_class hord order core cores movable :
  r_order (movable_request hord order core cores movable) = N.to_nat order /\
  r_class (movable_request hord order core cores movable) =
    if Nat.leb hord (N.to_nat order) then snd (movable_classing cores) else if movable then 1 else 0.
Proof. split; [apply movable_request_order | apply movable_request_class]. Qed.

(* ---------- the class tables satisfy the construction hypotheses of C09 (C09_new_ok / init_inv) ---------- *)
Lemma simple_classing_wf cores :
  (forall c k, In (c, k) (fst (simple_classing cores)) -> c < 8) /\
  (exists k, In (snd (simple_classing cores), k) (fst (simple_classing cores))).
Proof.
  unfold simple_classing. cbn [fst snd]. split.
  - intros c k [E|[E|[]]]; injection E as <- _; lia.
  - exists cores. cbn [In]. auto.
Qed.

Lemma movable_classing_wf cores :
  (forall c k, In (c, k) (fst (movable_classing cores)) -> c < 8) /\
  (exists k, In (snd (movable_classing cores), k) (fst (movable_classing cores))).
Proof.
  unfold movable_classing. cbn [fst snd]. split.
  - intros c k [E|[E|[E|[]]]]; injection E as <- _; lia.
  - exists cores. cbn [In]. auto.
Qed.

(* ---------- the JSON policy is an ordered policy ---------- *)
Definition json_rank (plo phi glo ghi free : N) : N :=
  if range_contains plo phi free then 255 else if range_contains glo ghi free then 2 else 1.

Lemma pol_json_ordered plo phi glo ghi r t f :
  pol_json plo phi glo ghi r t f = ordered_policy (json_rank plo phi glo ghi) r t f.
Proof.
  unfold pol_json, ordered_policy, json_rank.
  destruct (t <? r); [reflexivity|]. destruct (r <? t); [reflexivity|].
  destruct (range_contains plo phi f); [reflexivity|]. destruct (range_contains glo ghi f); reflexivity.
Qed.

Lemma pol_json_facts plo phi glo ghi :
  pol_refl_match (pol_json plo phi glo ghi) /\ pol_kind_indep (pol_json plo phi glo ghi) /\
  pol_demote_trans (pol_json plo phi glo ghi) /\ pol_never_invalid (pol_json plo phi glo ghi).
Proof. eapply pol_facts_ext; [apply pol_json_ordered | apply ordered_facts]. Qed.

Lemma pol_json_refl_match plo phi glo ghi : pol_refl_match (pol_json plo phi glo ghi).
Proof. apply pol_json_facts. Qed.
Lemma pol_json_kind_indep plo phi glo ghi : pol_kind_indep (pol_json plo phi glo ghi).
Proof. apply pol_json_facts. Qed.
Lemma pol_json_demote_trans plo phi glo ghi : pol_demote_trans (pol_json plo phi glo ghi).
Proof. apply pol_json_facts. Qed.
Lemma pol_json_never_invalid plo phi glo ghi : pol_never_invalid (pol_json plo phi glo ghi).
Proof. apply pol_json_facts. Qed.

(* the rating is one of the three values of the code *)
Lemma pol_json_match plo phi glo ghi c f :
  pol_json plo phi glo ghi c c f = PMatch 255 \/ pol_json plo phi glo ghi c c f = PMatch 2 \/
  pol_json plo phi glo ghi c c f = PMatch 1.
Proof.
  unfold pol_json. rewrite N.ltb_irrefl.
  destruct (range_contains plo phi f); [auto|]. destruct (range_contains glo ghi f); auto.
Qed.
