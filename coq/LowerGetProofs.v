(* Allocation side of the lower allocator model: `lower_get`, `lower_get_at`, `lower_get_opt`
   refine the frame-ownership specification (`spec_get_enabled` / `spec_get`) through `abs`,
   preserve `LowerInv`, never panic, and the search is complete within the tree (C12). *)
From Coq Require Import PeanoNat ZArith ZifyN ZifyBool.
From LLF Require Import Base BitLemmas Row RowProofs Bitfield Lower Spec LowerFacts AbsLemmas BitfieldProofs.
Local Open Scope N_scope.

Ltac bsolve :=
  repeat match goal with
         | |- context [N.leb ?a ?b] => destruct (N.leb_spec a b)
         | |- context [N.ltb ?a ?b] => destruct (N.ltb_spec a b)
         end; cbn [andb orb negb]; try reflexivity; try lia.

Lemma cas_all_someN es h n cur new es' :
  cas_all es (nn h) (nn n) cur new = Some es' ->
  length es' = length es /\
  (forall j, h <= j < h + n -> nth_error es (nn j) = Some cur) /\
  (forall j, nth_error es' (nn j) = if (h <=? j) && (j <? h + n) then Some new else nth_error es (nn j)).
Proof.
  intros H. apply cas_all_some in H. destruct H as (Hl & Hc & Hn). split; [exact Hl|]. split.
  - intros j Hj. apply Hc. unfold nn. lia.
  - intros j. rewrite Hn. unfold nn. clear.
    destruct (Nat.leb_spec (N.to_nat h) (N.to_nat j)), (Nat.ltb_spec (N.to_nat j) (N.to_nat h + N.to_nat n));
      bsolve.
Qed.

Section Get.
  Variable g : geom.
  Hypothesis WF : wf_geom g.

  (* ---------- huge entries ---------- *)
  Lemma e_huge_false e : e <> MARK -> e_huge e = false.
  Proof. intros H. unfold e_huge. apply N.eqb_neq, H. Qed.

  Lemma e_huge_MARK : e_huge MARK = true.
  Proof. reflexivity. Qed.

  Lemma e_dec_some e n e' : e_dec e n = Some e' -> e <> MARK /\ n <= e /\ e' = e - n.
  Proof.
    unfold e_dec, e_free, e_huge. destruct (N.eqb_spec e MARK); cbn [negb andb]; [discriminate|].
    destruct (N.leb_spec n e); [|discriminate]. intros [= <-]. auto.
  Qed.

  Lemma e_dec_none e n : e_dec e n = None -> e = MARK \/ e < n.
  Proof.
    unfold e_dec, e_free, e_huge. destruct (N.eqb_spec e MARK); cbn [negb andb]; [auto|].
    destruct (N.leb_spec n e); [discriminate|auto].
  Qed.

  Lemma e_dec_complete e n : e <> MARK -> n <= e -> e_dec e n = Some (e - n).
  Proof.
    intros H1 H2. unfold e_dec, e_free, e_huge. destruct (N.eqb_spec e MARK); [contradiction|].
    cbn [negb andb]. destruct (N.leb_spec n e); [reflexivity|lia].
  Qed.

  Lemma e_inc_undo e n : n <= e -> e <= HF g -> e_inc g (e - n) n <> None.
  Proof.
    intros H1 H2. pose proof (HF_lt_MARK g WF). unfold e_inc, e_free, e_huge.
    destruct (N.eqb_spec (e - n) MARK); [lia|]. cbn [negb andb].
    destruct (N.leb_spec (e - n + n) (HF g)); [discriminate|lia].
  Qed.

  (* ---------- positions ---------- *)
  Lemma in_huge_divmod h i : h * HF g <= i < h * HF g + HF g -> i / HF g = h /\ i mod HF g = i - h * HF g.
  Proof.
    intros Hi. pose proof (HF_nz g) as Hnz. split.
    - symmetry. apply (N.div_unique i (HF g) h (i - h * HF g)); lia.
    - symmetry. apply (N.mod_unique i (HF g) h (i - h * HF g)); lia.
  Qed.

  Lemma huge_of_frame i : (i / HF g) * HF g <= i < (i / HF g) * HF g + HF g.
  Proof.
    pose proof (HF_nz g) as Hnz.
    pose proof (N.div_mod i (HF g) Hnz). pose proof (N.mod_lt i (HF g) Hnz). lia.
  Qed.

  Lemma alloc_at_eq l i e rows : ent l (i / HF g) = Some e -> bf l (i / HF g) = Some rows ->
    alloc_at g l i = (i <? frames l) && (e_huge e || N.testbit (rows_bits rows) (i mod HF g)).
  Proof. intros He Hb. unfold alloc_at. rewrite He, Hb. reflexivity. Qed.

  Lemma mul_add_mod_pow2 h off k : (k <= hord g)%nat -> (h * HF g + off) mod pow2 k = off mod pow2 k.
  Proof.
    intros Hk. rewrite HF_pow2, (pow2_split k (hord g) Hk), N.mul_assoc, N.add_comm.
    apply N.mod_add, pow2_nz.
  Qed.

  (* ====================================================================== *)
  (* one small allocation in huge frame h                                    *)
  (* ====================================================================== *)
  Lemma small_step l h e rows rows' off k :
    LowerInv g l -> (k < hord g)%nat ->
    ent l h = Some e -> bf l h = Some rows -> e <> MARK -> pow2 k <= e ->
    off mod pow2 k = 0 -> off + pow2 k <= HF g -> rows_ok g rows' ->
    N.land (rows_bits rows) (blk off (pow2 k)) = 0 ->
    rows_bits rows' = N.lor (rows_bits rows) (blk off (pow2 k)) ->
    spec_get_enabled (abs g l) (h * HF g + off) k = true /\
    abs g (set_bf (set_ent l h (e - pow2 k)) h rows') = spec_get g (abs g l) (h * HF g + off) k /\
    LowerInv g (set_bf (set_ent l h (e - pow2 k)) h rows').
  Proof.
    intros Inv Hk He Hb Hne Hle Hal Hfit Hok' Hz Hbits.
    destruct (LowerInv_huge_ok g l h e rows Inv He Hb) as (Hok & _ & Hcnt & Hhi).
    destruct (Hcnt Hne) as (Ecnt & EleHF).
    pose proof (pow2_pos k) as Hp. pose proof (HF_lt_MARK g WF) as HM.
    set (f := h * HF g + off). set (l' := set_bf (set_ent l h (e - pow2 k)) h rows').
    assert (Hzb : forall i, off <= i < off + pow2 k -> N.testbit (rows_bits rows) i = false)
      by (apply land_blk_zero; exact Hz).
    assert (Hrange : f + pow2 k <= frames l).
    { destruct (N.le_gt_cases (f + pow2 k) (frames l)) as [|Hgt]; [assumption|]. exfalso.
      assert (T : N.testbit (rows_bits rows) (off + pow2 k - 1) = true) by (apply Hhi; subst f; lia).
      rewrite Hzb in T by lia. discriminate. }
    assert (Inv' : LowerInv g l').
    { apply LowerInv_set; [exact Inv|congruence|congruence|].
      split; [exact Hok'|]. split; [|split].
      - intros E. lia.
      - intros _. split; [|lia].
        pose proof (count_zeros_set_block g WF rows rows' _ _ Hok Hok' Hz Hbits). lia.
      - intros i Hi Hfr. rewrite Hbits, N.lor_spec, (Hhi i Hi Hfr). reflexivity. }
    assert (He' : ent l' h = Some (e - pow2 k)).
    { subst l'. rewrite ent_set_bf. apply ent_set_ent_same. congruence. }
    assert (Hb' : bf l' h = Some rows').
    { subst l'. apply bf_set_bf_same. rewrite bf_set_ent. congruence. }
    assert (Hne' : e - pow2 k <> MARK) by lia.
    split; [|split; [|exact Inv']].
    - apply spec_get_enabled_spec. rewrite abs_frames. split; [|split; [exact Hrange|]].
      + subst f. rewrite mul_add_mod_pow2 by lia. exact Hal.
      + intros i Hi. rewrite (abs_alloc_testbit g WF l Inv).
        destruct (in_huge_divmod h i) as (Ed & Em); [subst f; lia|].
        rewrite (alloc_at_eq l i e rows) by (rewrite Ed; assumption).
        rewrite (e_huge_false e Hne), Em, Hzb by (subst f; lia). apply andb_false_r.
    - apply ospec_ext.
      + reflexivity.
      + intros i. rewrite spec_get_alloc_testbit.
        rewrite (abs_alloc_testbit g WF l' Inv'), (abs_alloc_testbit g WF l Inv).
        destruct (N.eq_dec (i / HF g) h) as [Ed|Ed].
        * pose proof (huge_of_frame i) as Hi. rewrite Ed in Hi.
          destruct (in_huge_divmod h i Hi) as (_ & Em).
          rewrite (alloc_at_eq l' i (e - pow2 k) rows') by (rewrite Ed; assumption).
          rewrite (alloc_at_eq l i e rows) by (rewrite Ed; assumption).
          rewrite (e_huge_false e Hne), (e_huge_false _ Hne'), Em, Hbits, lor_blk_testbit.
          change (frames l') with (frames l). fold f.
          destruct (N.testbit (rows_bits rows) (i - h * HF g)); subst f; clear - Hi Hrange Hfit Hp; bsolve.
        * assert (Hout : (f <=? i) && (i <? f + pow2 k) = false).
          { destruct (N.leb_spec f i); [|reflexivity]. destruct (N.ltb_spec i (f + pow2 k)); [|reflexivity].
            exfalso. apply Ed. apply (in_huge_divmod h i). subst f. lia. }
          rewrite Hout, orb_false_r. unfold alloc_at. subst l'.
          rewrite ent_set_bf, ent_set_ent_other, bf_set_bf_other, bf_set_ent by exact Ed. reflexivity.
      + intros h'. rewrite spec_get_whole_testbit, !abs_whole_testbit_gen.
        replace (Nat.leb (hord g) k) with false by (symmetry; apply Nat.leb_gt; lia).
        cbn [andb]. rewrite orb_false_r. unfold whole_at.
        destruct (N.eq_dec h' h) as [->|Ed].
        * rewrite He', Hb', He, Hb. rewrite (e_huge_false e Hne), (e_huge_false _ Hne'). reflexivity.
        * subst l'. rewrite ent_set_bf, ent_set_ent_other, bf_set_bf_other, bf_set_ent by exact Ed. reflexivity.
  Qed.

  (* ====================================================================== *)
  (* one huge allocation: 2^(k-hord) entries starting at h                   *)
  (* ====================================================================== *)
  Lemma div_range_in h n i : h * HF g <= i < (h + n) * HF g -> h <= i / HF g < h + n.
  Proof.
    intros Hi. pose proof (HF_pos g) as Hp. split.
    - apply N.div_le_lower_bound; lia.
    - apply N.div_lt_upper_bound; lia.
  Qed.

  Lemma div_range_out h n i : h <= i / HF g < h + n -> h * HF g <= i < (h + n) * HF g.
  Proof. intros Hi. pose proof (huge_of_frame i). nia. Qed.

  (* what an entry equal to HF says under the invariant *)
  Lemma entry_full_free l h : LowerInv g l -> ent l h = Some (HF g) ->
    exists rows, bf l h = Some rows /\ rows_ok g rows /\ rows_bits rows = 0 /\ (h + 1) * HF g <= frames l.
  Proof.
    intros Inv He. pose proof (HF_pos g) as Hp. pose proof (HF_lt_MARK g WF) as HM.
    destruct (bf l h) as [rows|] eqn:Eb.
    - destruct (LowerInv_huge_ok g l h _ rows Inv He Eb) as (Hok & _ & Hcnt & Hhi).
      destruct Hcnt as (Ecnt & _); [lia|].
      assert (Z : rows_bits rows = 0).
      { apply rows_zero_bits, (count_zeros_full_zero g WF rows Hok). congruence. }
      exists rows. split; [reflexivity|]. split; [exact Hok|]. split; [exact Z|].
      destruct (N.le_gt_cases ((h + 1) * HF g) (frames l)) as [|Hgt]; [assumption|]. exfalso.
      assert (T : N.testbit (rows_bits rows) (HF g - 1) = true) by (apply Hhi; lia).
      rewrite Z, N.bits_0 in T. discriminate.
    - pose proof (LowerInv_no_bf g l h _ Inv He Eb). lia.
  Qed.

  Lemma free_huge_entry l h : LowerInv g l -> (h + 1) * HF g <= frames l ->
    (forall i, h * HF g <= i < h * HF g + HF g -> alloc_at g l i = false) -> ent l h = Some (HF g).
  Proof.
    intros Inv Hfr Hfree. pose proof (HF_pos g) as Hp.
    destruct (LowerInv_frame g l (h * HF g) Inv) as (e & rows & He & Hb); [lia|].
    rewrite N.div_mul in He, Hb by apply HF_nz.
    destruct (LowerInv_huge_ok g l h e rows Inv He Hb) as (Hok & _ & Hcnt & _).
    assert (Hbit : forall i, h * HF g <= i < h * HF g + HF g ->
                             e_huge e || N.testbit (rows_bits rows) (i - h * HF g) = false).
    { intros i Hi. specialize (Hfree i Hi). destruct (in_huge_divmod h i Hi) as (Ed & Em).
      rewrite (alloc_at_eq l i e rows) in Hfree by (rewrite Ed; assumption).
      rewrite Em in Hfree. destruct (N.ltb_spec i (frames l)); [exact Hfree|lia]. }
    assert (Hne : e <> MARK).
    { intros ->. specialize (Hbit (h * HF g)). rewrite e_huge_MARK in Hbit. cbn [orb] in Hbit.
      assert (true = false) by (apply Hbit; lia). discriminate. }
    assert (Z : rows_bits rows = 0).
    { apply N.bits_inj. intros i. rewrite N.bits_0. destruct (N.lt_ge_cases i (HF g)) as [Hi|Hi].
      - specialize (Hbit (h * HF g + i)). rewrite (e_huge_false e Hne) in Hbit. cbn [orb] in Hbit.
        replace (h * HF g + i - h * HF g) with i in Hbit by lia. apply Hbit. lia.
      - apply (rows_bits_high g WF rows i Hok Hi). }
    destruct (Hcnt Hne) as (Ecnt & _). pose proof (bf_count_zeros_sum g WF rows Hok) as S.
    rewrite Z in S. cbn [popcount] in S. rewrite He. f_equal. lia.
  Qed.

  Lemma huge_step l h es k :
    LowerInv g l -> (hord g <= k)%nat -> h mod pow2 (k - hord g) = 0 ->
    cas_all (ents l) (nn h) (nn (pow2 (k - hord g))) (HF g) MARK = Some es ->
    spec_get_enabled (abs g l) (h * HF g) k = true /\
    abs g {| frames := frames l; bfs := bfs l; ents := es |} = spec_get g (abs g l) (h * HF g) k /\
    LowerInv g {| frames := frames l; bfs := bfs l; ents := es |}.
  Proof.
    intros Inv Hk Hal H. set (n := pow2 (k - hord g)) in *.
    pose proof (HF_pos g) as Hp. pose proof (HF_lt_MARK g WF) as HM.
    assert (Hn1 : 0 < n) by apply pow2_pos.
    assert (Epow : pow2 k = n * HF g) by (rewrite HF_pow2; apply pow2_split, Hk).
    apply cas_all_someN in H. destruct H as (Hl & Hc & Hn).
    assert (Hfull : forall h', h <= h' < h + n ->
      exists rows, bf l h' = Some rows /\ rows_ok g rows /\ rows_bits rows = 0 /\ (h' + 1) * HF g <= frames l).
    { intros h' Hh'. apply (entry_full_free l h' Inv). apply Hc, Hh'. }
    assert (Hrange : (h + n) * HF g <= frames l).
    { destruct (Hfull (h + n - 1)) as (_ & _ & _ & _ & R); [lia|].
      replace (h + n - 1 + 1) with (h + n) in R by lia. exact R. }
    set (l' := {| frames := frames l; bfs := bfs l; ents := es |}).
    assert (Hent' : forall x, ent l' x = if (h <=? x) && (x <? h + n) then Some MARK else ent l x).
    { intros x. apply Hn. }
    assert (Inv' : LowerInv g l').
    { apply LowerInv_set_ents; [exact Inv|exact Hl| |].
      - intros h' e' rows He' Hb. change (nth_error es (nn h')) with (ent l' h') in He'.
        rewrite Hent' in He'.
        destruct ((h <=? h') && (h' <? h + n)) eqn:R.
        + injection He' as <-. apply andb_true_iff in R. destruct R as (R1 & R2).
          apply N.leb_le in R1. apply N.ltb_lt in R2.
          destruct (Hfull h' (conj R1 R2)) as (rows0 & Hb0 & Hok & Z & Hr). rewrite Hb in Hb0.
          injection Hb0 as <-.
          destruct (LowerInv_huge_ok g l h' _ rows Inv (Hc h' (conj R1 R2)) Hb) as (_ & _ & _ & Hhi).
          split; [exact Hok|]. split; [|split; [|exact Hhi]].
          * intros _. split; [apply rows_bits_zero_inv, Z|exact Hr].
          * intros C. contradiction.
        + apply (LowerInv_huge_ok g l h' e' rows Inv He' Hb).
      - intros h' e' He' Hb. change (nth_error es (nn h')) with (ent l' h') in He'.
        rewrite Hent' in He'.
        destruct ((h <=? h') && (h' <? h + n)) eqn:R.
        + apply andb_true_iff in R. destruct R as (R1 & R2).
          apply N.leb_le in R1. apply N.ltb_lt in R2.
          destruct (Hfull h' (conj R1 R2)) as (rows0 & Hb0 & _). congruence.
        + apply (LowerInv_no_bf g l h' e' Inv He' Hb). }
    split; [|split; [|exact Inv']].
    - apply spec_get_enabled_spec. rewrite abs_frames. split; [|split].
      + rewrite (aligned_mul h n) by (try exact Hal; lia).
        replace (h / n * n * HF g) with (h / n * pow2 k) by (rewrite Epow; lia).
        apply N.mod_mul, pow2_nz.
      + rewrite Epow. lia.
      + intros i Hi. rewrite (abs_alloc_testbit g WF l Inv).
        assert (Hd : h <= i / HF g < h + n) by (apply div_range_in; rewrite Epow in Hi; lia).
        destruct (Hfull _ Hd) as (rows & Hb & Hok & Z & _).
        rewrite (alloc_at_eq l i (HF g) rows (Hc _ Hd) Hb), Z, N.bits_0.
        rewrite e_huge_false by lia. apply andb_false_r.
    - apply ospec_ext.
      + reflexivity.
      + intros i. rewrite spec_get_alloc_testbit.
        rewrite (abs_alloc_testbit g WF l' Inv'), (abs_alloc_testbit g WF l Inv).
        destruct ((h <=? i / HF g) && (i / HF g <? h + n)) eqn:R.
        * apply andb_true_iff in R. destruct R as (R1 & R2).
          apply N.leb_le in R1. apply N.ltb_lt in R2.
          destruct (Hfull _ (conj R1 R2)) as (rows & Hb & Hok & Z & Hr).
          assert (He' : ent l' (i / HF g) = Some MARK).
          { rewrite Hent'. destruct (N.leb_spec h (i / HF g)); [|lia].
            destruct (N.ltb_spec (i / HF g) (h + n)); [reflexivity|lia]. }
          rewrite (alloc_at_eq l' i MARK rows He' Hb), e_huge_MARK. cbn [orb].
          pose proof (huge_of_frame i) as Hi. pose proof (div_range_out h n i (conj R1 R2)) as Hio.
          change (frames l') with (frames l). rewrite Epow.
          destruct (N.ltb_spec i (frames l)); [|lia]. cbn [andb].
          destruct (N.leb_spec (h * HF g) i); [|lia].
          destruct (N.ltb_spec i (h * HF g + n * HF g)); [|lia]. cbn [andb]. rewrite orb_true_r. reflexivity.
        * assert (Hout : (h * HF g <=? i) && (i <? h * HF g + pow2 k) = false).
          { destruct (N.leb_spec (h * HF g) i); [|reflexivity].
            destruct (N.ltb_spec i (h * HF g + pow2 k)); [|reflexivity]. exfalso.
            destruct (div_range_in h n i) as (D1 & D2); [rewrite Epow in *; lia|].
            destruct (N.leb_spec h (i / HF g)); [|lia].
            destruct (N.ltb_spec (i / HF g) (h + n)); [discriminate|lia]. }
          rewrite Hout, orb_false_r. unfold alloc_at. rewrite Hent', R. reflexivity.
      + intros h'. rewrite spec_get_whole_testbit, !abs_whole_testbit_gen.
        replace (Nat.leb (hord g) k) with true by (symmetry; apply Nat.leb_le; lia).
        rewrite N.div_mul by apply HF_nz. cbn [andb]. fold n. unfold whole_at. rewrite Hent'.
        destruct ((h <=? h') && (h' <? h + n)) eqn:R.
        * apply andb_true_iff in R. destruct R as (R1 & R2).
          apply N.leb_le in R1. apply N.ltb_lt in R2.
          destruct (Hfull _ (conj R1 R2)) as (rows & Hb & _).
          change (bf l' h') with (bf l h'). rewrite Hb, e_huge_MARK, orb_true_r. reflexivity.
        * rewrite orb_false_r. reflexivity.
  Qed.

  (* ====================================================================== *)
  (* what an enabled small block says about its huge frame                   *)
  (* ====================================================================== *)
  Lemma enabled_small_block l f k :
    LowerInv g l -> (k < hord g)%nat -> spec_get_enabled (abs g l) f k = true ->
    exists e rows, ent l (f / HF g) = Some e /\ bf l (f / HF g) = Some rows /\
                   e <> MARK /\ pow2 k <= e /\ rows_ok g rows /\
                   N.land (rows_bits rows) (blk (f mod HF g) (pow2 k)) = 0.
  Proof.
    intros Inv Hk En. apply spec_get_enabled_spec in En. rewrite abs_frames in En.
    destruct En as (Hal & Hr & Hfree). pose proof (pow2_pos k) as Hp.
    destruct (LowerInv_frame g l f Inv) as (e & rows & He & Hb); [lia|].
    destruct (LowerInv_huge_ok g l _ e rows Inv He Hb) as (Hok & _ & Hcnt & _).
    pose proof (aligned_in_huge g f k) as Hfit. specialize (Hfit ltac:(lia) Hal).
    pose proof (huge_of_frame f) as Hf. set (h := f / HF g) in *.
    destruct (in_huge_divmod h f Hf) as (_ & Emf).
    assert (Hbit : forall i, f <= i < f + pow2 k ->
                             e_huge e || N.testbit (rows_bits rows) (i - h * HF g) = false).
    { intros i Hi. specialize (Hfree i Hi). rewrite (abs_alloc_testbit g WF l Inv) in Hfree.
      destruct (in_huge_divmod h i) as (Ed & Em); [lia|].
      rewrite (alloc_at_eq l i e rows) in Hfree by (rewrite Ed; assumption).
      rewrite Em in Hfree. destruct (N.ltb_spec i (frames l)) as [|Hge]; [exact Hfree|].
      exfalso. clear - Hge Hi Hr. lia. }
    assert (Hne : e <> MARK).
    { intros ->. specialize (Hbit f). rewrite e_huge_MARK in Hbit. cbn [orb] in Hbit.
      assert (true = false) by (apply Hbit; lia). discriminate. }
    assert (Z : N.land (rows_bits rows) (blk (f mod HF g) (pow2 k)) = 0).
    { apply land_blk_zero. intros i Hi. specialize (Hbit (h * HF g + i)).
      rewrite (e_huge_false e Hne) in Hbit. cbn [orb] in Hbit.
      replace (h * HF g + i - h * HF g) with i in Hbit by lia. apply Hbit. lia. }
    exists e, rows. repeat (split; [assumption|]). split; [|split; [exact Hok|exact Z]].
    destruct (Hcnt Hne) as (-> & _). apply (count_zeros_ge_block g WF rows _ _ Hok Hfit Z).
  Qed.

  (* ====================================================================== *)
  (* the small-order search loop                                             *)
  (* ====================================================================== *)
  (* child h cannot serve the request *)
  Definition child_fail (l : lower) (h start : N) (k : nat) : Prop :=
    exists e, ent l h = Some e /\
      (e_dec e (pow2 k) = None \/
       exists rows, bf l h = Some rows /\ bf_set_first_zeros g rows start k = None).

  Lemma child_fail_no_block l h start k f :
    LowerInv g l -> (k < hord g)%nat -> child_fail l h start k -> f / HF g = h ->
    spec_get_enabled (abs g l) f k = false.
  Proof.
    intros Inv Hk (e & He & Hc) Hf.
    destruct (spec_get_enabled (abs g l) f k) eqn:En; [exfalso|reflexivity].
    pose proof En as En'. apply spec_get_enabled_spec in En'. destruct En' as (Hal & _).
    destruct (enabled_small_block l f k Inv Hk En) as (e0 & rows & He0 & Hb & Hne & Hle & Hok & Z).
    rewrite Hf in He0, Hb. rewrite He in He0. injection He0 as <-.
    destruct Hc as [Hd|(rows0 & Hb0 & Hs)].
    - apply e_dec_none in Hd. lia.
    - rewrite Hb in Hb0. injection Hb0 as <-.
      apply (bf_sfz_none g WF rows start k Hok ltac:(lia) Hs (f mod HF g)).
      + apply aligned_mod_HF; [lia|exact Hal].
      + apply aligned_in_huge; [lia|exact Hal].
      + exact Z.
  Qed.

  Lemma get_small_loop_spec l ts co start k :
    LowerInv g l -> (k < hord g)%nat ->
    (forall h, ts <= h < ts + THUGE g -> ent l h <> None) ->
    forall n j r l', get_small_loop g l ts co start k j n = (r, l') ->
    (r = Err EMemory /\ l' = l /\
     forall j', j <= j' < j + N.of_nat n -> child_fail l (ts + (co + j') mod THUGE g) start k) \/
    (exists h e rows rows' off,
        ts <= h < ts + THUGE g /\ ent l h = Some e /\ e <> MARK /\ pow2 k <= e /\
        bf l h = Some rows /\ bf_set_first_zeros g rows start k = Some (rows', off) /\
        r = Ok (h * HF g + off) /\ l' = set_bf (set_ent l h (e - pow2 k)) h rows').
  Proof.
    intros Inv Hk Hent. pose proof (THUGE_pos g) as HT. pose proof (pow2_pos k) as Hp.
    induction n as [|n IH]; intros j r l' H; cbn [get_small_loop] in H.
    - injection H as <- <-. left. repeat split. intros j' Hj'. lia.
    - cbv zeta in H. set (h := ts + (co + j) mod THUGE g) in *.
      assert (Hh : ts <= h < ts + THUGE g).
      { subst h. pose proof (N.mod_lt (co + j) (THUGE g) ltac:(lia)). lia. }
      destruct (ent l h) as [e|] eqn:He; [|exfalso; apply (Hent h Hh He)].
      assert (Hnext : forall (F : child_fail l h start k),
                 get_small_loop g l ts co start k (j + 1) n = (r, l') ->
                 (r = Err EMemory /\ l' = l /\
                  forall j', j <= j' < j + N.of_nat (S n) ->
                             child_fail l (ts + (co + j') mod THUGE g) start k) \/
                 (exists h e rows rows' off,
                     ts <= h < ts + THUGE g /\ ent l h = Some e /\ e <> MARK /\ pow2 k <= e /\
                     bf l h = Some rows /\ bf_set_first_zeros g rows start k = Some (rows', off) /\
                     r = Ok (h * HF g + off) /\ l' = set_bf (set_ent l h (e - pow2 k)) h rows')).
      { intros F H'. destruct (IH _ _ _ H') as [(-> & -> & Hall)|Hex]; [left|right; exact Hex].
        repeat split. intros j' Hj'. destruct (N.eq_dec j' j) as [->|Hne]; [exact F|].
        apply Hall. lia. }
      destruct (e_dec e (pow2 k)) as [e'|] eqn:Hd.
      + destruct (e_dec_some e _ e' Hd) as (Hne & Hle & ->).
        destruct (bf l h) as [rows|] eqn:Hb.
        * destruct (LowerInv_huge_ok g l h e rows Inv He Hb) as (Hok & _ & Hcnt & _).
          destruct (Hcnt Hne) as (_ & HleHF).
          destruct (bf_set_first_zeros g rows start k) as [[rows' off]|] eqn:Hs.
          -- injection H as <- <-. right. exists h, e, rows, rows', off. repeat split; try assumption; lia.
          -- destruct (e_inc g (e - pow2 k) (pow2 k)) eqn:Hi;
               [|exfalso; apply (e_inc_undo e (pow2 k) Hle HleHF Hi)].
             apply Hnext; [|exact H]. exists e. split; [exact He|]. right. exists rows. split; assumption.
        * exfalso. pose proof (LowerInv_no_bf g l h e Inv He Hb). lia.
      + apply Hnext; [|exact H]. exists e. split; [exact He|]. left. exact Hd.
  Qed.

  (* ====================================================================== *)
  (* the huge-order search loop                                              *)
  (* ====================================================================== *)
  Lemma get_huge_loop_spec l ts co hn :
    forall n kk r l', get_huge_loop g l ts co hn kk n = (r, l') ->
    (r = Err EMemory /\ l' = l /\
     forall k', kk <= k' < kk + N.of_nat n ->
                cas_all (ents l) (nn (ts + (co + k' * hn) mod THUGE g)) (nn hn) (HF g) MARK = None) \/
    (exists k' es, kk <= k' < kk + N.of_nat n /\
        cas_all (ents l) (nn (ts + (co + k' * hn) mod THUGE g)) (nn hn) (HF g) MARK = Some es /\
        r = Ok ((ts + (co + k' * hn) mod THUGE g) * HF g) /\
        l' = {| frames := frames l; bfs := bfs l; ents := es |}).
  Proof.
    induction n as [|n IH]; intros kk r l' H; cbn [get_huge_loop] in H.
    - injection H as <- <-. left. repeat split. intros k' Hk'. lia.
    - cbv zeta in H.
      destruct (cas_all (ents l) (nn (ts + (co + kk * hn) mod THUGE g)) (nn hn) (HF g) MARK) as [es|] eqn:C.
      + injection H as <- <-. right. exists kk, es. repeat split; try assumption; lia.
      + destruct (IH _ _ _ H) as [(-> & -> & Hall)|(k' & es & Hk' & Hex)].
        * left. repeat split. intros k' Hk'. destruct (N.eq_dec k' kk) as [->|Hne]; [exact C|].
          apply Hall. lia.
        * right. exists k', es. split; [lia|exact Hex].
  Qed.

  (* ====================================================================== *)
  (* trees                                                                   *)
  (* ====================================================================== *)
  Lemma tree_of_huge h t : h / THUGE g = t <-> t * THUGE g <= h < t * THUGE g + THUGE g.
  Proof.
    pose proof (THUGE_nz g) as Hnz. split.
    - intros <-. pose proof (N.div_mod h (THUGE g) Hnz). pose proof (N.mod_lt h (THUGE g) Hnz). lia.
    - intros Hh. symmetry. apply (N.div_unique h (THUGE g) t (h - t * THUGE g)); lia.
  Qed.

  Lemma tree_ents l t : LowerInv g l -> t < ntab g (frames l) ->
    forall h, t * THUGE g <= h < t * THUGE g + THUGE g -> ent l h <> None.
  Proof.
    intros Inv Ht h Hh. destruct (LowerInv_ent_some g l h Inv) as (e & He); [|congruence].
    pose proof (THUGE_pos g). nia.
  Qed.

  Lemma has_tree_true l t : LowerInv g l -> t < ntab g (frames l) -> has_tree g l t = true.
  Proof. intros Inv Ht. apply (has_tree_spec g l t Inv), Ht. Qed.

  (* alignment of a huge-order block *)
  Lemma aligned_huge f k : (hord g <= k)%nat -> f mod pow2 k = 0 ->
    f = (f / HF g) * HF g /\ (f / HF g) mod pow2 (k - hord g) = 0.
  Proof.
    intros Hk Hal. assert (Epow : pow2 k = pow2 (k - hord g) * HF g) by (rewrite HF_pow2; apply pow2_split, Hk).
    pose proof (aligned_mul f (pow2 k) (pow2_nz k) Hal) as Ef. rewrite Epow in Ef at 2.
    rewrite N.mul_assoc in Ef.
    assert (Eh : f / HF g = f / pow2 k * pow2 (k - hord g)).
    { rewrite Ef at 1. apply N.div_mul, HF_nz. }
    split; [rewrite Eh; exact Ef|]. rewrite Eh. apply N.mod_mul, pow2_nz.
  Qed.

  Lemma enabled_huge_block l f k :
    LowerInv g l -> (hord g <= k)%nat -> spec_get_enabled (abs g l) f k = true ->
    f = (f / HF g) * HF g /\ (f / HF g) mod pow2 (k - hord g) = 0 /\
    forall h', f / HF g <= h' < f / HF g + pow2 (k - hord g) -> ent l h' = Some (HF g).
  Proof.
    intros Inv Hk En. apply spec_get_enabled_spec in En. rewrite abs_frames in En.
    destruct En as (Hal & Hr & Hfree).
    destruct (aligned_huge f k Hk Hal) as (Ef & Ehm). split; [exact Ef|]. split; [exact Ehm|].
    assert (Epow : pow2 k = pow2 (k - hord g) * HF g) by (rewrite HF_pow2; apply pow2_split, Hk).
    set (h := f / HF g) in *. set (hn := pow2 (k - hord g)) in *.
    intros h' Hh'.
    assert (M1 : h * HF g <= h' * HF g) by (apply N.mul_le_mono_r; lia).
    assert (M2 : (h' + 1) * HF g <= (h + hn) * HF g) by (apply N.mul_le_mono_r; lia).
    apply (free_huge_entry l h' Inv).
    - rewrite Ef, Epow in Hr. clear - Hr M2. lia.
    - intros i Hi. rewrite <- (abs_alloc_testbit g WF l Inv). apply Hfree.
      rewrite Ef, Epow. clear - Hi M1 M2. lia.
  Qed.

  Lemma huge_index_fits h k : (hord g <= k)%nat -> (k <= tord g)%nat -> h mod pow2 (k - hord g) = 0 ->
    h mod THUGE g + pow2 (k - hord g) <= THUGE g.
  Proof.
    intros Hk Hkt Hal. unfold tord in Hkt.
    assert (Hle : (k - hord g <= tlog g)%nat) by lia.
    apply aligned_block_fits.
    - apply pow2_nz.
    - rewrite THUGE_pow2. apply pow2_mod, Hle.
    - rewrite THUGE_pow2, (pow2_split _ _ Hle), N.mul_comm.
      rewrite mod_mod_mul; [exact Hal|apply pow2_nz|apply pow2_nz].
    - apply N.mod_lt, THUGE_nz.
  Qed.

  (* ====================================================================== *)
  (* per-tree accounting of the two allocation steps                         *)
  (* ====================================================================== *)
  Lemma tree_range_nat h : (nn (h / THUGE g * THUGE g) <= nn h < nn (h / THUGE g * THUGE g) + thuge_nat g)%nat.
  Proof.
    pose proof (proj1 (tree_of_huge h (h / THUGE g)) eq_refl) as Hh.
    pose proof (THUGE_nat g) as ET. unfold nn. lia.
  Qed.

  Lemma small_step_tree_free l h e e' rows' :
    ent l h = Some e -> e <> MARK -> e' <= e -> e <= HF g ->
    forall t, tree_free g (set_bf (set_ent l h e') h rows') t + delta t (h / THUGE g) (e - e') = tree_free g l t.
  Proof.
    intros He Hne Hle HleHF t. pose proof (HF_lt_MARK g WF) as HM.
    pose proof (tree_range_nat h) as Hh.
    pose proof (tree_free_change g l (set_bf (set_ent l h e') h rows') (h / THUGE g) (nn h) 1 (e - e')) as TC.
    unfold delta. rewrite N.mul_1_l in TC. apply TC; [lia|lia|]. clear TC.
    intros i. unfold set_bf, set_ent; cbn. rewrite efree_at_upd. unfold ind_range.
    assert (Hlen : (nn h < length (ents l))%nat) by (apply nth_error_Some; unfold ent in He; congruence).
    destruct (Nat.eqb_spec i (nn h)) as [->|Hn].
    - destruct (Nat.ltb_spec (nn h) (length (ents l))); [|lia]. cbn [andb].
      destruct (Nat.leb_spec (nn h) (nn h)); [|lia]. destruct (Nat.ltb_spec (nn h) (nn h + 1)); [|lia].
      cbn [andb]. unfold efree_at. unfold ent in He. rewrite He. unfold e_free.
      rewrite (e_huge_false e Hne), (e_huge_false e') by lia. lia.
    - cbn [andb].
      destruct (Nat.leb_spec (nn h) i), (Nat.ltb_spec i (nn h + 1)); cbn [andb]; lia.
  Qed.

  Lemma huge_step_tree_free l h es k :
    (hord g <= k)%nat -> (k <= tord g)%nat -> h mod pow2 (k - hord g) = 0 ->
    cas_all (ents l) (nn h) (nn (pow2 (k - hord g))) (HF g) MARK = Some es ->
    forall t, tree_free g {| frames := frames l; bfs := bfs l; ents := es |} t
              + delta t (h / THUGE g) (pow2 k) = tree_free g l t.
  Proof.
    intros Hk Hkt Hal C t. pose proof (HF_lt_MARK g WF) as HM.
    set (hn := pow2 (k - hord g)) in *.
    assert (Epow : pow2 k = hn * HF g) by (rewrite HF_pow2; apply pow2_split, Hk).
    pose proof (huge_index_fits h k Hk Hkt Hal) as Hfits. fold hn in Hfits.
    pose proof (tree_range_nat h) as Hh.
    pose proof (N.div_mod h (THUGE g) (THUGE_nz g)) as Ed.
    pose proof (THUGE_nat g) as ET.
    apply cas_all_some in C. destruct C as (_ & Hc & Hn).
    pose proof (tree_free_change g l {| frames := frames l; bfs := bfs l; ents := es |}
                  (h / THUGE g) (nn h) (nn hn) (HF g)) as TC.
    unfold delta. rewrite Epow. replace (N.of_nat (nn hn)) with hn in TC by (unfold nn; lia).
    apply TC; [lia|unfold nn in *; lia|]. clear TC.
    intros i. cbn [ents]. unfold efree_at, ind_range. rewrite Hn.
    destruct ((nn h <=? i)%nat && (i <? nn h + nn hn)%nat) eqn:R.
    - apply andb_true_iff in R. destruct R as (R1 & R2).
      apply Nat.leb_le in R1. apply Nat.ltb_lt in R2.
      rewrite (Hc i (conj R1 R2)). unfold e_free. rewrite e_huge_MARK, (e_huge_false (HF g)) by lia. lia.
    - lia.
  Qed.

  (* ====================================================================== *)
  (* lower_get_at                                                            *)
  (* ====================================================================== *)
  Theorem lower_get_at_spec l f k :
    LowerInv g l -> (k <= tord g)%nat -> aligned f k = true -> f + pow2 k <= frames l ->
    (spec_get_enabled (abs g l) f k = true /\
     exists l', lower_get_at g l f k = (Ok tt, l') /\
                abs g l' = spec_get g (abs g l) f k /\ LowerInv g l' /\ frames l' = frames l /\
                (forall t, tree_free g l' t + delta t (f / TF g) (pow2 k) = tree_free g l t)) \/
    (spec_get_enabled (abs g l) f k = false /\ lower_get_at g l f k = (Err EMemory, l)).
  Proof.
    intros Inv Hkt Hal Hr. unfold aligned in Hal. apply N.eqb_eq in Hal.
    pose proof (pow2_pos k) as Hp.
    assert (Hf : f < frames l) by lia.
    unfold lower_get_at. cbv zeta.
    rewrite (has_tree_true l _ Inv (frame_lt_ntab g _ _ Hf)). cbn [negb].
    destruct (Nat.leb_spec (hord g) k) as [Hk|Hk].
    - (* huge orders *)
      destruct (aligned_huge f k Hk Hal) as (Ef & Ehm).
      pose proof (huge_index_fits _ k Hk Hkt Ehm) as Hfits.
      destruct (N.ltb_spec (THUGE g) ((f / HF g) mod THUGE g + pow2 (k - hord g))) as [C|_]; [lia|].
      destruct (cas_all (ents l) (nn (f / HF g)) (nn (pow2 (k - hord g))) (HF g) MARK) as [es|] eqn:C.
      + destruct (huge_step l _ es k Inv Hk Ehm C) as (En & Ea & Inv'). rewrite <- Ef in En, Ea.
        pose proof (huge_step_tree_free l _ es k Hk Hkt Ehm C) as Ht. rewrite <- div_TF in Ht.
        left. split; [exact En|]. eexists. split; [reflexivity|].
        split; [exact Ea|]. split; [exact Inv'|]. split; [reflexivity|exact Ht].
      + right. split; [|reflexivity].
        destruct (spec_get_enabled (abs g l) f k) eqn:En; [exfalso|reflexivity].
        destruct (enabled_huge_block l f k Inv Hk En) as (_ & _ & Hall).
        apply cas_all_none in C. destruct C as (j & Hj & Hne). apply Hne.
        specialize (Hall (N.of_nat j)). unfold ent, nn in Hall. rewrite Nat2N.id in Hall.
        apply Hall. unfold nn in Hj. lia.
    - (* small orders *)
      destruct (LowerInv_frame g l f Inv Hf) as (e & rows & He & Hb). rewrite He.
      destruct (LowerInv_huge_ok g l _ e rows Inv He Hb) as (Hok & _ & Hcnt & _).
      assert (Hno : forall (C : spec_get_enabled (abs g l) f k = true -> False),
                 spec_get_enabled (abs g l) f k = false).
      { intros C. destruct (spec_get_enabled (abs g l) f k); [exfalso; apply C; reflexivity|reflexivity]. }
      destruct (e_dec e (pow2 k)) as [e'|] eqn:Hd.
      + destruct (e_dec_some e _ e' Hd) as (Hne & Hle & ->). rewrite Hb.
        destruct (Hcnt Hne) as (_ & HleHF).
        destruct (bf_toggle g rows f k false) as [rows'|] eqn:Ht.
        * destruct (bf_toggle_false_some g WF rows f k rows' Hok ltac:(lia) Hal Ht) as (Hok' & Z & Hbits).
          pose proof (aligned_mod_HF g f k ltac:(lia) Hal) as Halo.
          pose proof (aligned_in_huge g f k ltac:(lia) Hal) as Hfit.
          destruct (small_step l _ e rows rows' _ k Inv Hk He Hb Hne Hle Halo Hfit Hok' Z Hbits)
            as (En & Ea & Inv').
          replace (f / HF g * HF g + f mod HF g) with f in En, Ea
            by (pose proof (N.div_mod f (HF g) (HF_nz g)); lia).
          pose proof (small_step_tree_free l _ e (e - pow2 k) rows' He Hne (N.le_sub_l e (pow2 k)) HleHF) as Htf.
          assert (Ee : e - (e - pow2 k) = pow2 k) by (clear - Hle; lia).
          rewrite <- div_TF, Ee in Htf.
          left. split; [exact En|]. eexists. split; [reflexivity|].
          split; [exact Ea|]. split; [exact Inv'|]. split; [reflexivity|exact Htf].
        * destruct (e_inc g (e - pow2 k) (pow2 k)) eqn:Hi;
            [|exfalso; apply (e_inc_undo e (pow2 k) Hle HleHF Hi)].
          right. split; [|reflexivity]. apply Hno. intros En.
          destruct (enabled_small_block l f k Inv Hk En) as (e0 & rows0 & He0 & Hb0 & _ & _ & _ & Z).
          rewrite Hb in Hb0. injection Hb0 as <-.
          apply (bf_toggle_false_none g WF rows f k Hok ltac:(lia) Hal Ht Z).
      + right. split; [|reflexivity]. apply Hno. intros En.
        destruct (enabled_small_block l f k Inv Hk En) as (e0 & rows0 & He0 & _ & Hne & Hle & _).
        rewrite He in He0. injection He0 as <-. apply e_dec_none in Hd. lia.
  Qed.

  (* ====================================================================== *)
  (* lower_get                                                               *)
  (* ====================================================================== *)
  Definition get_outcome (l : lower) (t : N) (k : nat) (res : res N * lower) : Prop :=
    (exists f l', res = (Ok f, l') /\ f / TF g = t /\
                  spec_get_enabled (abs g l) f k = true /\
                  abs g l' = spec_get g (abs g l) f k /\ LowerInv g l' /\ frames l' = frames l /\
                  (forall t', tree_free g l' t' + delta t' (f / TF g) (pow2 k) = tree_free g l t')) \/
    (res = (Err EMemory, l) /\
     forall f, f / TF g = t -> spec_get_enabled (abs g l) f k = false).

  Lemma lower_get_small l start k :
    LowerInv g l -> (k < hord g)%nat -> (start * 64) / TF g < ntab g (frames l) ->
    get_outcome l ((start * 64) / TF g) k (lower_get g l start k).
  Proof.
    intros Inv Hk Ht. set (t := start * 64 / TF g) in *.
    pose proof (THUGE_pos g) as HT.
    unfold lower_get. cbv zeta. fold t. rewrite (has_tree_true l t Inv Ht). cbn [negb].
    replace (Nat.leb (hord g) k) with false by (symmetry; apply Nat.leb_gt; lia).
    set (ts := t * THUGE g). set (co := (start * 64 / HF g) mod THUGE g).
    destruct (get_small_loop g l ts co start k 0 (thuge_nat g)) as [r l'] eqn:E.
    destruct (get_small_loop_spec l ts co start k Inv Hk (tree_ents l t Inv Ht) _ _ _ _ E)
      as [(-> & -> & Hall)|(h & e & rows & rows' & off & Hh & He & Hne & Hle & Hb & Hs & -> & ->)].
    - right. split; [reflexivity|]. intros f Hf.
      rewrite div_TF in Hf. apply tree_of_huge in Hf. fold ts in Hf.
      destruct (rot_surj (THUGE g) co (f / HF g - ts)) as (j & Hj & Ej); [lia|].
      apply (child_fail_no_block l (f / HF g) start k f Inv Hk); [|reflexivity].
      specialize (Hall j). rewrite <- THUGE_nat in Hall.
      replace (ts + (co + j) mod THUGE g) with (f / HF g) in Hall by (rewrite (N.add_comm co j), Ej; lia).
      apply Hall. lia.
    - left. destruct (LowerInv_huge_ok g l h e rows Inv He Hb) as (Hok & _).
      destruct (bf_sfz_some g WF rows start k rows' off Hok ltac:(lia) Hs) as (Hal & Hfit & Hok' & Z & Hbits).
      destruct (small_step l h e rows rows' off k Inv Hk He Hb Hne Hle Hal Hfit Hok' Z Hbits)
        as (En & Ea & Inv').
      pose proof (pow2_pos k). destruct (in_huge_divmod h (h * HF g + off)) as (Ed & _); [lia|].
      destruct (LowerInv_huge_ok g l h e rows Inv He Hb) as (_ & _ & Hcnt & _).
      destruct (Hcnt Hne) as (_ & HleHF).
      pose proof (small_step_tree_free l h e (e - pow2 k) rows' He Hne (N.le_sub_l e (pow2 k)) HleHF) as Htf.
      assert (Ee : e - (e - pow2 k) = pow2 k) by (clear - Hle; lia).
      rewrite Ee in Htf.
      eexists. eexists. split; [reflexivity|].
      split; [|split; [exact En|split; [exact Ea|split; [exact Inv'|split; [reflexivity|]]]]].
      + rewrite div_TF, Ed. apply tree_of_huge. exact Hh.
      + rewrite div_TF, Ed. exact Htf.
  Qed.

  Lemma lower_get_huge l start k :
    LowerInv g l -> (hord g <= k)%nat -> (k <= tord g)%nat -> (start * 64) / TF g < ntab g (frames l) ->
    get_outcome l ((start * 64) / TF g) k (lower_get g l start k).
  Proof.
    intros Inv Hk Hkt Ht. set (t := start * 64 / TF g) in *.
    pose proof (THUGE_pos g) as HT.
    unfold lower_get. cbv zeta. fold t. rewrite (has_tree_true l t Inv Ht). cbn [negb].
    replace (Nat.leb (hord g) k) with true by (symmetry; apply Nat.leb_le; lia).
    set (hn := pow2 (k - hord g)).
    assert (Hle : (k - hord g <= tlog g)%nat) by (unfold tord in Hkt; lia).
    assert (EQ : THUGE g = pow2 (tlog g - (k - hord g)) * hn) by (rewrite THUGE_pow2; apply pow2_split, Hle).
    set (Q := pow2 (tlog g - (k - hord g))) in *.
    assert (HQ : 0 < Q) by apply pow2_pos. assert (Hhn : 0 < hn) by apply pow2_pos.
    destruct (N.ltb_spec (THUGE g) hn) as [C|_]; [nia|].
    assert (EQd : THUGE g / hn = Q) by (rewrite EQ; apply N.div_mul; lia).
    rewrite EQd.
    set (ts := t * THUGE g). set (c := (start * 64 / HF g) mod THUGE g / hn).
    assert (Eidx : forall k', (c * hn + k' * hn) mod THUGE g = ((c + k') mod Q) * hn).
    { intros k'. rewrite EQ, <- N.mul_add_distr_r. apply N.mul_mod_distr_r; lia. }
    destruct (get_huge_loop g l ts (c * hn) hn 0 (nn Q)) as [r l'] eqn:E.
    destruct (get_huge_loop_spec l ts (c * hn) hn _ _ _ _ E)
      as [(-> & -> & Hall)|(k' & es & Hk' & C & -> & ->)].
    - right. split; [reflexivity|]. intros f Hf.
      destruct (spec_get_enabled (abs g l) f k) eqn:En; [exfalso|reflexivity].
      destruct (enabled_huge_block l f k Inv Hk En) as (Ef & Ehm & Hents). fold hn in Ehm, Hents.
      rewrite div_TF in Hf. apply tree_of_huge in Hf. fold ts in Hf.
      set (h := f / HF g) in *.
      pose proof (aligned_mul h hn ltac:(lia) Ehm) as Eh.
      assert (Ets : ts = t * Q * hn) by (subst ts; rewrite EQ; lia).
      set (q := h / hn) in *.
      assert (Hq1 : t * Q <= q).
      { apply (N.mul_le_mono_pos_r _ _ hn Hhn). clear - Ets Eh Hf. lia. }
      assert (Hq2 : q < t * Q + Q).
      { apply (N.mul_lt_mono_pos_r hn _ _ Hhn). rewrite N.mul_add_distr_r. clear - Ets Eh Hf EQ. lia. }
      set (m := q - t * Q).
      assert (Em : h = ts + m * hn).
      { subst m. rewrite N.mul_sub_distr_r. clear - Ets Eh Hq1 Hhn.
        assert (t * Q * hn <= q * hn) by (apply N.mul_le_mono_r; exact Hq1). lia. }
      assert (Hm : m < Q) by (subst m; clear - Hq1 Hq2; lia).
      destruct (rot_surj Q c m Hm) as (j & Hj & Ej).
      specialize (Hall j). unfold nn in Hall. rewrite N2Nat.id in Hall.
      rewrite Eidx, (N.add_comm c j), Ej, <- Em in Hall.
      apply cas_all_none in Hall; [|lia]. destruct Hall as (i & Hi & Hne). apply Hne.
      specialize (Hents (N.of_nat i)). unfold ent, nn in Hents. rewrite Nat2N.id in Hents.
      apply Hents. lia.
    - left. rewrite Eidx in C |- *.
      set (h := ts + (c + k') mod Q * hn) in *.
      assert (Ets : ts = t * Q * hn) by (subst ts; rewrite EQ; lia).
      assert (Ehm : h mod hn = 0).
      { subst h. rewrite Ets, <- N.mul_add_distr_r. apply N.mod_mul. lia. }
      destruct (huge_step l h es k Inv Hk Ehm C) as (En & Ea & Inv').
      pose proof (huge_step_tree_free l h es k Hk Hkt Ehm C) as Htf.
      eexists. eexists. split; [reflexivity|].
      split; [|split; [exact En|split; [exact Ea|split; [exact Inv'|split; [reflexivity|]]]]];
        [|rewrite div_TF, N.div_mul by apply HF_nz; exact Htf].
      rewrite div_TF, N.div_mul by apply HF_nz. apply tree_of_huge. fold ts.
      pose proof (N.mod_lt (c + k') Q ltac:(lia)) as HX.
      assert ((c + k') mod Q * hn < Q * hn) by (apply N.mul_lt_mono_pos_r; assumption).
      subst h ts. rewrite EQ. set (X := (c + k') mod Q) in *. clearbody X. clear - H. clearbody hn Q. lia.
  Qed.

  Theorem lower_get_spec l start k :
    LowerInv g l -> (k <= tord g)%nat -> (start * 64) / TF g < ntab g (frames l) ->
    get_outcome l ((start * 64) / TF g) k (lower_get g l start k).
  Proof.
    intros Inv Hkt Ht. destruct (Nat.lt_ge_cases k (hord g)) as [Hk|Hk].
    - apply lower_get_small; assumption.
    - apply lower_get_huge; assumption.
  Qed.

  (* ----- the three readings of lower_get_spec ----- *)
  Theorem lower_get_no_panic l start k :
    LowerInv g l -> (k <= tord g)%nat -> (start * 64) / TF g < ntab g (frames l) ->
    forall s, fst (lower_get g l start k) <> Panic s.
  Proof.
    intros Inv Hkt Ht s.
    destruct (lower_get_spec l start k Inv Hkt Ht) as [(f & l' & -> & _)|(-> & _)]; discriminate.
  Qed.

  Theorem lower_get_err l start k e l' :
    LowerInv g l -> (k <= tord g)%nat -> (start * 64) / TF g < ntab g (frames l) ->
    lower_get g l start k = (Err e, l') ->
    e = EMemory /\ l' = l /\
    (* C12: nothing of that order was available in the tree *)
    forall f, f / TF g = (start * 64) / TF g -> spec_get_enabled (abs g l) f k = false.
  Proof.
    intros Inv Hkt Ht H.
    destruct (lower_get_spec l start k Inv Hkt Ht) as [(f & l0 & E & _)|(E & Hno)]; rewrite E in H.
    - discriminate.
    - injection H as <- <-. auto.
  Qed.

  Theorem lower_get_ok l start k f l' :
    LowerInv g l -> (k <= tord g)%nat -> (start * 64) / TF g < ntab g (frames l) ->
    lower_get g l start k = (Ok f, l') ->
    f / TF g = (start * 64) / TF g /\
    spec_get_enabled (abs g l) f k = true /\
    abs g l' = spec_get g (abs g l) f k /\
    LowerInv g l' /\ frames l' = frames l /\
    (forall t, tree_free g l' t + delta t (f / TF g) (pow2 k) = tree_free g l t).
  Proof.
    intros Inv Hkt Ht H.
    destruct (lower_get_spec l start k Inv Hkt Ht) as [(f0 & l0 & E & R)|(E & _)]; rewrite E in H.
    - injection H as <- <-. exact R.
    - discriminate.
  Qed.

  (* C12, positive form: if a block of order k is available in the tree, the search finds one *)
  Corollary lower_get_complete l start k f :
    LowerInv g l -> (k <= tord g)%nat -> (start * 64) / TF g < ntab g (frames l) ->
    f / TF g = (start * 64) / TF g -> spec_get_enabled (abs g l) f k = true ->
    exists f' l', lower_get g l start k = (Ok f', l').
  Proof.
    intros Inv Hkt Ht Hf En.
    destruct (lower_get_spec l start k Inv Hkt Ht) as [(f0 & l0 & E & _)|(_ & Hno)]; [eauto|].
    rewrite (Hno f Hf) in En. discriminate.
  Qed.

  (* ----- readings of lower_get_at_spec ----- *)
  Theorem lower_get_at_no_panic l f k :
    LowerInv g l -> (k <= tord g)%nat -> aligned f k = true -> f + pow2 k <= frames l ->
    forall s, fst (lower_get_at g l f k) <> Panic s.
  Proof.
    intros Inv Hkt Hal Hr s.
    destruct (lower_get_at_spec l f k Inv Hkt Hal Hr) as [(_ & l' & -> & _)|(_ & ->)]; discriminate.
  Qed.

  Theorem lower_get_at_ok_iff l f k :
    LowerInv g l -> (k <= tord g)%nat -> aligned f k = true -> f + pow2 k <= frames l ->
    ((exists l', lower_get_at g l f k = (Ok tt, l')) <-> spec_get_enabled (abs g l) f k = true).
  Proof.
    intros Inv Hkt Hal Hr.
    destruct (lower_get_at_spec l f k Inv Hkt Hal Hr) as [(En & l' & E & _)|(En & E)]; rewrite En, E.
    - split; eauto.
    - split; [intros (l' & H)|]; discriminate.
  Qed.

  Theorem lower_get_at_ok l f k u l' :
    LowerInv g l -> (k <= tord g)%nat -> aligned f k = true -> f + pow2 k <= frames l ->
    lower_get_at g l f k = (Ok u, l') ->
    spec_get_enabled (abs g l) f k = true /\ abs g l' = spec_get g (abs g l) f k /\ LowerInv g l' /\
    frames l' = frames l /\
    (forall t, tree_free g l' t + delta t (f / TF g) (pow2 k) = tree_free g l t).
  Proof.
    intros Inv Hkt Hal Hr H.
    destruct (lower_get_at_spec l f k Inv Hkt Hal Hr) as [(En & l0 & E & R)|(_ & E)]; rewrite E in H.
    - destruct u. injection H as <-. split; [exact En|exact R].
    - discriminate.
  Qed.

  Theorem lower_get_at_err l f k e l' :
    LowerInv g l -> (k <= tord g)%nat -> aligned f k = true -> f + pow2 k <= frames l ->
    lower_get_at g l f k = (Err e, l') ->
    e = EMemory /\ l' = l /\ spec_get_enabled (abs g l) f k = false.
  Proof.
    intros Inv Hkt Hal Hr H.
    destruct (lower_get_at_spec l f k Inv Hkt Hal Hr) as [(_ & l0 & E & _)|(En & E)]; rewrite E in H.
    - discriminate.
    - injection H as <- <-. auto.
  Qed.

  (* ====================================================================== *)
  (* lower_get_opt: `Lower::get(start, order, frame)`                        *)
  (* ====================================================================== *)
  Definition get_opt_pre (l : lower) (start : N) (k : nat) (frame : option N) : Prop :=
    match frame with
    | Some f => aligned f k = true /\ f + pow2 k <= frames l
    | None => (start * 64) / TF g < ntab g (frames l)
    end.

  Theorem lower_get_opt_no_panic l start k frame :
    LowerInv g l -> (k <= tord g)%nat -> get_opt_pre l start k frame ->
    forall s, fst (lower_get_opt g l start k frame) <> Panic s.
  Proof.
    intros Inv Hkt Hpre s. destruct frame as [f|]; cbn [lower_get_opt get_opt_pre] in *.
    - destruct Hpre as (Hal & Hr).
      destruct (lower_get_at_spec l f k Inv Hkt Hal Hr) as [(_ & l' & -> & _)|(_ & ->)]; discriminate.
    - apply lower_get_no_panic; assumption.
  Qed.

  Theorem lower_get_opt_ok l start k frame f l' :
    LowerInv g l -> (k <= tord g)%nat -> get_opt_pre l start k frame ->
    lower_get_opt g l start k frame = (Ok f, l') ->
    match frame with Some f0 => f = f0 | None => f / TF g = (start * 64) / TF g end /\
    spec_get_enabled (abs g l) f k = true /\
    abs g l' = spec_get g (abs g l) f k /\
    LowerInv g l' /\ frames l' = frames l /\
    (forall t, tree_free g l' t + delta t (f / TF g) (pow2 k) = tree_free g l t).
  Proof.
    intros Inv Hkt Hpre H. destruct frame as [f0|]; cbn [lower_get_opt get_opt_pre] in *.
    - destruct Hpre as (Hal & Hr).
      destruct (lower_get_at_spec l f0 k Inv Hkt Hal Hr) as [(En & l0 & E & R)|(_ & E)]; rewrite E in H.
      + injection H as <- <-. split; [reflexivity|]. split; [exact En|exact R].
      + discriminate.
    - apply lower_get_ok; assumption.
  Qed.

  Theorem lower_get_opt_err l start k frame e l' :
    LowerInv g l -> (k <= tord g)%nat -> get_opt_pre l start k frame ->
    lower_get_opt g l start k frame = (Err e, l') ->
    e = EMemory /\ l' = l /\
    match frame with
    | Some f0 => spec_get_enabled (abs g l) f0 k = false
    | None => forall f, f / TF g = (start * 64) / TF g -> spec_get_enabled (abs g l) f k = false
    end.
  Proof.
    intros Inv Hkt Hpre H. destruct frame as [f0|]; cbn [lower_get_opt get_opt_pre] in *.
    - destruct Hpre as (Hal & Hr).
      destruct (lower_get_at_spec l f0 k Inv Hkt Hal Hr) as [(_ & l0 & E & _)|(En & E)]; rewrite E in H.
      + discriminate.
      + injection H as <- <-. auto.
    - apply lower_get_err; assumption.
  Qed.
End Get.

(* ====================================================================== *)
(* the hypotheses are satisfiable: a non-trivial state, by computation     *)
(* ====================================================================== *)
Module Examples.
  Definition g9 : geom := {| hord := 9; tlog := 2 |}.
  Lemma wf9 : wf_geom g9.
  Proof. unfold wf_geom; cbn; lia. Qed.

  (* 5000 frames: two full trees and a partial one (4096..4999, its last huge frame cut at 392 frames) *)
  Definition l0 : lower := free_all g9 5000.
  Definition l1 : lower := snd (lower_get g9 l0 0 0).              (* frame 0 *)
  Definition l2 : lower := snd (lower_get g9 l1 17 3).             (* 8 frames, hint row 17 (huge frame 2) *)
  Definition l3 : lower := snd (lower_get_at g9 l2 2048 10).       (* two huge frames of tree 1 *)
  Definition l4 : lower := snd (lower_get_at g9 l3 4608 7).        (* 128 frames in the cut huge frame *)
  Definition l5 : lower := snd (lower_get g9 l4 64 9).             (* a huge frame in tree 2 (row 64 = frame 4096) *)

  Example ex_results :
    (fst (lower_get g9 l0 0 0), fst (lower_get g9 l1 17 3), fst (lower_get_at g9 l2 2048 10),
     fst (lower_get_at g9 l3 4608 7), fst (lower_get g9 l4 64 9))
    = (Ok 0, Ok 1088, Ok tt, Ok tt, Ok 4096).
  Proof. vm_compute. reflexivity. Qed.

  Example ex_inv : lower_invb g9 l5 = true.
  Proof. vm_compute. reflexivity. Qed.
  Lemma inv5 : LowerInv g9 l5.
  Proof. apply lower_invb_sound, ex_inv. Qed.

  (* lower_get: preconditions hold and both outcomes occur on l5 *)
  Example ex_get_pre : (3 <= tord g9)%nat /\ (20 * 64) / TF g9 < ntab g9 (frames l5).
  Proof. vm_compute. split; [lia|reflexivity]. Qed.
  Example ex_get_ok : fst (lower_get g9 l5 20 3) = Ok 1280.
  Proof. vm_compute. reflexivity. Qed.
  Example ex_get_ok_spec :
    spec_get_enabled (abs g9 l5) 1280 3 = true /\
    abs g9 (snd (lower_get g9 l5 20 3)) = spec_get g9 (abs g9 l5) 1280 3.
  Proof.
    destruct (lower_get g9 l5 20 3) as [r l'] eqn:E.
    assert (Er : r = Ok 1280) by (change r with (fst (r, l')); rewrite <- E; apply ex_get_ok). subst r.
    destruct (lower_get_ok g9 wf9 l5 20 3 1280 l' inv5 ltac:(cbn; lia) (proj2 ex_get_pre) E)
      as (_ & En & Ea & _). split; assumption.
  Qed.
  (* tree 0 has no free block of order 11 (frame 0 is allocated), tree 2 none of order 10 *)
  Example ex_get_err : lower_get g9 l5 0 11 = (Err EMemory, l5) /\ lower_get g9 l5 64 10 = (Err EMemory, l5).
  Proof. vm_compute. split; reflexivity. Qed.
  Example ex_get_err_spec : forall f, f / TF g9 = 0 -> spec_get_enabled (abs g9 l5) f 11 = false.
  Proof.
    destruct (lower_get_err g9 wf9 l5 0 11 EMemory l5 inv5 ltac:(cbn; lia) ltac:(vm_compute; reflexivity)
                (proj1 ex_get_err)) as (_ & _ & H). exact H.
  Qed.

  (* lower_get_at: preconditions, Ok and Err *)
  Example ex_get_at_pre : aligned 3072 9 = true /\ 3072 + pow2 9 <= frames l5 /\
                          aligned 2048 9 = true /\ 2048 + pow2 9 <= frames l5.
  Proof. vm_compute. repeat split; discriminate. Qed.
  Example ex_get_at_ok : fst (lower_get_at g9 l5 3072 9) = Ok tt /\
                         spec_get_enabled (abs g9 l5) 3072 9 = true.
  Proof. vm_compute. split; reflexivity. Qed.
  Example ex_get_at_err : lower_get_at g9 l5 2048 9 = (Err EMemory, l5) /\
                          spec_get_enabled (abs g9 l5) 2048 9 = false.
  Proof. vm_compute. split; reflexivity. Qed.
  Example ex_get_at_iff :
    (exists l', lower_get_at g9 l5 3072 9 = (Ok tt, l')) <-> spec_get_enabled (abs g9 l5) 3072 9 = true.
  Proof.
    apply (lower_get_at_ok_iff g9 wf9 l5 3072 9 inv5 ltac:(cbn; lia)).
    - apply ex_get_at_pre.
    - apply ex_get_at_pre.
  Qed.

  (* lower_get_opt *)
  Example ex_get_opt : fst (lower_get_opt g9 l5 20 0 (Some 1)) = Ok 1 /\
                       fst (lower_get_opt g9 l5 20 0 (Some 0)) = Err EMemory /\
                       fst (lower_get_opt g9 l5 20 0 None) = Ok 1280.
  Proof. vm_compute. repeat split; reflexivity. Qed.
End Examples.
