(* Specifications: the frame-ownership model, the abstraction function from the lower allocator's
   metadata, accounting, and the well-formedness invariant of the lower allocator.
   Definitions only (all executable: they are extracted and evaluated on the implementation's own
   results by the correspondence driver, independently of the allocator model). *)
From LLF Require Import Base Row Bitfield Lower.

(* Sets of frames are bitsets: frame f is in the set s iff N.testbit s f. *)
Definition blk (f n : N) : N := N.shiftl (ones n) f.               (* frames [f, f+n) *)

Record ospec := {
  o_frames : N;        (* managed frames *)
  o_alloc : N;         (* allocated frames (bitset over frame numbers < o_frames) *)
  o_whole : N          (* huge frames allocated whole (bitset over huge-frame indices) *)
}.

Section Spec.
  Variable g : geom.
  Notation HF := (HF g).
  Notation TF := (TF g).

  Definition aligned (f : N) (k : nat) : bool := f mod pow2 k =? 0.
  Definition in_range (s : ospec) (f : N) (k : nat) : bool := f + pow2 k <=? o_frames s.
  Definition all_alloc (s : ospec) (f : N) (k : nat) : bool := N.land (o_alloc s) (blk f (pow2 k)) =? blk f (pow2 k).
  Definition all_free (s : ospec) (f : N) (k : nat) : bool := N.land (o_alloc s) (blk f (pow2 k)) =? 0.
  (* huge frames covered by a block of order k >= hord *)
  Definition hblk (f : N) (k : nat) : N := blk (f / HF) (pow2 (k - hord g)).
  Definition all_whole (s : ospec) (f : N) (k : nat) : bool := N.land (o_whole s) (hblk f k) =? hblk f k.

  (* a free of block (f,k), f aligned and in range: succeeds exactly when every frame is allocated and,
     for k >= hord, every covered huge frame is whole. It frees exactly those frames; a free of part of a
     whole huge frame splits it (clears its whole flag). *)
  Definition spec_put_enabled (s : ospec) (f : N) (k : nat) : bool :=
    all_alloc s f k && (if Nat.leb (hord g) k then all_whole s f k else true).
  Definition spec_put (s : ospec) (f : N) (k : nat) : ospec :=
    {| o_frames := o_frames s;
       o_alloc := N.ldiff (o_alloc s) (blk f (pow2 k));
       o_whole := if Nat.leb (hord g) k then N.ldiff (o_whole s) (hblk f k)
                  else N.clearbit (o_whole s) (f / HF) |}.

  (* an allocation may return any aligned, in-range, entirely free block, which becomes allocated
     (whole if k >= hord) *)
  Definition spec_get_enabled (s : ospec) (f : N) (k : nat) : bool :=
    aligned f k && in_range s f k && all_free s f k.
  Definition spec_get (s : ospec) (f : N) (k : nat) : ospec :=
    {| o_frames := o_frames s;
       o_alloc := N.lor (o_alloc s) (blk f (pow2 k));
       o_whole := if Nat.leb (hord g) k then N.lor (o_whole s) (hblk f k) else o_whole s |}.

  (* ----- abstraction of the lower allocator's metadata ----- *)
  (* bits of one bitfield as a number: row r occupies bits [64r, 64r+64) *)
  Fixpoint rows_bits (rows : list N) : N :=
    match rows with [] => 0 | r :: rest => N.lor r (N.shiftl (rows_bits rest) 64) end.

  (* frames of huge frame h that are allocated: all of them if the entry is the marker, else the bits *)
  Definition huge_bits (e : N) (rows : list N) : N := if e_huge e then ones HF else rows_bits rows.

  Fixpoint abs_from (es : list N) (bs : list (list N)) : N :=
    match es, bs with
    | e :: es', rows :: bs' => N.lor (huge_bits e rows) (N.shiftl (abs_from es' bs') HF)
    | _, _ => 0
    end.
  Fixpoint whole_from (es : list N) (bs : list (list N)) : N :=
    match es, bs with
    | e :: es', _ :: bs' => N.lor (if e_huge e then 1 else 0) (N.shiftl (whole_from es' bs') 1)
    | _, _ => 0
    end.

  (* a frame is allocated iff its huge entry is the marker or its bit is set; only frames below
     `frames` count (bits at or beyond it are set but belong to nobody) *)
  Definition abs (l : lower) : ospec :=
    {| o_frames := frames l;
       o_alloc := N.land (abs_from (ents l) (bfs l)) (ones (frames l));
       o_whole := whole_from (ents l) (bfs l) |}.

  (* ----- accounting computed from the ownership state ----- *)
  Definition exact_free (s : ospec) : N := o_frames s - popcount (o_alloc s).
  Fixpoint count_free_blocks (s : ospec) (k : nat) (i : N) (n : nat) : N :=
    match n with
    | O => 0
    | S n' => (if in_range s (i * pow2 k) k && all_free s (i * pow2 k) k then 1 else 0)
              + count_free_blocks s k (i + 1) n'
    end.
  Definition free_huge_count (s : ospec) : N := count_free_blocks s (hord g) 0 (nn (o_frames s / HF)).
  Definition free_tree_count (s : ospec) : N := count_free_blocks s (tord g) 0 (nn (o_frames s / TF)).

  (* ----- well-formedness of the lower allocator ----- *)
  Definition rows_ok (rows : list N) : Prop := length rows = rows_nat g /\ Forall (fun r => r < W64) rows.

  (* per huge frame h with a bitfield: marker => bitfield all zero; counter = number of zero bits;
     bits at or beyond `frames` are set *)
  Definition huge_ok (fr : N) (h : N) (e : N) (rows : list N) : Prop :=
    rows_ok rows /\
    (e = MARK -> Forall (fun r => r = 0) rows /\ (h + 1) * HF <= fr) /\
    (e <> MARK -> e = bf_count_zeros rows /\ e <= HF) /\
    (forall i, i < HF -> fr <= h * HF + i -> N.testbit (rows_bits rows) i = true).

  Definition LowerInv (l : lower) : Prop :=
    length (bfs l) = nn (nbf g (frames l)) /\
    length (ents l) = nn (ntab g (frames l) * THUGE g) /\
    (forall h e rows, nth_error (ents l) h = Some e -> nth_error (bfs l) h = Some rows ->
                      huge_ok (frames l) (N.of_nat h) e rows) /\
    (forall h e, nth_error (ents l) h = Some e -> nth_error (bfs l) h = None -> e = 0).

  (* boolean version, evaluated by the driver on the implementation's dumps *)
  Definition huge_okb (fr : N) (h : N) (e : N) (rows : list N) : bool :=
    Nat.eqb (length rows) (rows_nat g) && forallb (fun r => r <? W64) rows &&
    (if e =? MARK then forallb (fun r => r =? 0) rows && ((h + 1) * HF <=? fr)
     else (e =? bf_count_zeros rows) && (e <=? HF)) &&
    (let b := rows_bits rows in
     let lo := if fr <=? h * HF then 0 else N.min HF (fr - h * HF) in
     (* bits [lo, HF) all set *)
     N.land b (blk lo (HF - lo)) =? blk lo (HF - lo)).

  Fixpoint lower_invb_from (fr : N) (h : N) (es : list N) (bs : list (list N)) : bool :=
    match es, bs with
    | e :: es', rows :: bs' => huge_okb fr h e rows && lower_invb_from fr (h + 1) es' bs'
    | es', [] => forallb (fun e => e =? 0) es'
    | [], _ :: _ => false
    end.
  Definition lower_invb (l : lower) : bool :=
    Nat.eqb (length (bfs l)) (nn (nbf g (frames l))) &&
    Nat.eqb (length (ents l)) (nn (ntab g (frames l) * THUGE g)) &&
    lower_invb_from (frames l) 0 (ents l) (bfs l).
End Spec.
