(* Proofs about Meta.v: bounds and alignment of every metadata location (C18, partial), the decision
   rule of `MetaData::valid` (C08), zone conjugation and the persistent layout (C17). *)
From LLF Require Import Base Row Bitfield Lower Meta.
Require Import ZArith Zify ZifyN ZifyBool.

Local Ltac dlia := zify; Z.to_euclidean_division_equations; lia.

(* ------------------------------------------------------------------ div_ceil / align_up *)
Lemma div_ceil_lt_iff a b h : 0 < b -> (h < div_ceil a b <-> h * b < a).
Proof.
  intros Hb. unfold div_ceil. split; intros H.
  - pose proof (N.mul_div_le (a + b - 1) b ltac:(lia)). nia.
  - assert (h + 1 <= (a + b - 1) / b); [| lia].
    apply N.div_le_lower_bound; nia.
Qed.

Lemma div_ceil_mono a a' b : a <= a' -> div_ceil a b <= div_ceil a' b.
Proof.
  intros. unfold div_ceil. destruct (N.eq_dec b 0) as [->|Hb].
  - destruct (a + 0 - 1), (a' + 0 - 1); reflexivity.
  - apply N.div_le_mono; lia.
Qed.

Lemma div_ceil_mul_ge a b : 0 < b -> a <= div_ceil a b * b.
Proof.
  intros Hb. destruct (N.le_gt_cases a (div_ceil a b * b)); auto.
  apply (div_ceil_lt_iff a b (div_ceil a b)) in H; lia.
Qed.

Lemma div_ceil_mul_lt a b : 0 < b -> div_ceil a b * b < a + b.
Proof.
  intros Hb. unfold div_ceil.
  pose proof (N.mul_div_le (a + b - 1) b ltac:(lia)). nia.
Qed.

Lemma div_ceil_0 b : div_ceil 0 b = 0.
Proof.
  unfold div_ceil. destruct (N.eq_dec b 0) as [->|Hb].
  - reflexivity.
  - apply N.div_small. lia.
Qed.

Lemma div_ceil_pos a b : 0 < b -> 0 < a -> 0 < div_ceil a b.
Proof. intros Hb Ha. apply (div_ceil_lt_iff a b 0); lia. Qed.

Lemma align_up_ge v a : 0 < a -> v <= align_up v a.
Proof. apply div_ceil_mul_ge. Qed.
Lemma align_up_lt v a : 0 < a -> align_up v a < v + a.
Proof. apply div_ceil_mul_lt. Qed.
Lemma align_up_mod v a : 0 < a -> align_up v a mod a = 0.
Proof. intros. unfold align_up. apply N.mod_mul. lia. Qed.
Lemma align_up_mono v v' a : v <= v' -> align_up v a <= align_up v' a.
Proof. intros. unfold align_up. apply N.mul_le_mono_r. now apply div_ceil_mono. Qed.
Lemma align_up_0 a : align_up 0 a = 0.
Proof. unfold align_up. now rewrite div_ceil_0. Qed.
Lemma align_up_mult v a : 0 < a -> v mod a = 0 -> align_up v a = v.
Proof.
  intros Ha Hm. apply N.div_exact in Hm; try lia.
  pose proof (align_up_ge v a Ha). pose proof (align_up_lt v a Ha).
  pose proof (align_up_mod v a Ha) as Hm2. apply N.div_exact in Hm2; try lia.
  set (q := v / a) in *. set (q' := align_up v a / a) in *.
  assert (q' = q) by nia. nia.
Qed.
Lemma align_up_multiple v a : 0 < a -> exists m, align_up v a = a * m.
Proof. intros. exists (div_ceil v a). unfold align_up. lia. Qed.

(* ------------------------------------------------------------------ geometry *)
Section Geo.
  Variable g : geom.
  Hypothesis WF : wf_geom g.

  Lemma HF_rows : HF g = 64 * ROWS g /\ 0 < ROWS g.
  Proof.
    destruct WF as (H6 & _). unfold ROWS, HF.
    replace (N.of_nat (hord g)) with (6 + N.of_nat (hord g - 6)) by lia.
    rewrite N.pow_add_r. change (2 ^ 6) with 64.
    assert (0 < 2 ^ N.of_nat (hord g - 6)) by (apply N.neq_0_lt_0, N.pow_nonzero; lia).
    rewrite N.mul_comm, N.div_mul by lia. lia.
  Qed.
  Lemma THUGE_pos : 0 < THUGE g.
  Proof. unfold THUGE. apply N.neq_0_lt_0, N.pow_nonzero. lia. Qed.
  Lemma HF_pos : 0 < HF g.
  Proof. destruct HF_rows. lia. Qed.
  Lemma TF_pos : 0 < TF g.
  Proof. unfold TF. pose proof THUGE_pos. pose proof HF_pos. nia. Qed.

  Lemma bb_facts : ROWS g * 8 <= bitfield_bytes g /\ 0 < bitfield_bytes g /\ exists m, bitfield_bytes g = 64 * m.
  Proof.
    unfold bitfield_bytes, CACHE. destruct HF_rows.
    pose proof (align_up_ge (ROWS g * 8) 64). destruct (align_up_multiple (ROWS g * 8) 64) as [m Hm]; try lia.
    repeat split; try lia. now exists m.
  Qed.
  Lemma tb_facts : 2 * THUGE g <= table_bytes g /\ 0 < table_bytes g /\ exists m, table_bytes g = 64 * m.
  Proof.
    unfold table_bytes, CACHE. pose proof THUGE_pos.
    pose proof (align_up_ge (2 * THUGE g) 64). destruct (align_up_multiple (2 * THUGE g) 64) as [m Hm]; try lia.
    repeat split; try lia. now exists m.
  Qed.

  (* the Rust formula for the first part equals the stride of the slice it builds, for HUGE_ORDER >= 9 *)
  Lemma bitfield_bytes_agree : (9 <= hord g)%nat -> bitfield_bytes g = bitfield_bytes_as_computed g.
  Proof.
    intros H9. unfold bitfield_bytes, bitfield_bytes_as_computed, CACHE.
    apply align_up_mult; try lia. unfold ROWS, HF.
    replace (N.of_nat (hord g)) with (9 + N.of_nat (hord g - 9)) by lia.
    rewrite N.pow_add_r. change (2 ^ 9) with (64 * 8).
    set (k := 2 ^ N.of_nat (hord g - 9)).
    replace (64 * 8 * k) with (8 * k * 64) by lia. rewrite N.div_mul by lia.
    replace (8 * k * 8) with (k * 64) by lia. apply N.mod_mul. lia.
  Qed.

  (* ---------------------------------------------------------------- C18: locations *)
  Lemma row_loc_bounds fr h r :
    h < nbf g fr -> r < ROWS g ->
    row_loc g h r + 8 <= nbf g fr * bitfield_bytes g
    /\ row_loc g h r + 8 <= lower_size g fr
    /\ row_loc g h r mod 8 = 0.
  Proof.
    intros Hh Hr. destruct bb_facts as (Hb1 & Hb2 & m & Hm). unfold row_loc, lower_size.
    assert ((h + 1) * bitfield_bytes g <= nbf g fr * bitfield_bytes g) by (apply N.mul_le_mono_r; lia).
    split; [nia | split; [nia |]].
    rewrite Hm. replace (h * (64 * m) + r * 8) with ((h * 8 * m + r) * 8) by lia.
    apply N.mod_mul. lia.
  Qed.

  Lemma ent_loc_bounds fr h :
    h < ntab g fr * THUGE g ->
    nbf g fr * bitfield_bytes g <= ent_loc g fr h
    /\ ent_loc g fr h + 2 <= lower_size g fr
    /\ ent_loc g fr h mod 2 = 0.
  Proof.
    intros Hh. destruct tb_facts as (Ht1 & Ht2 & m & Hm). destruct bb_facts as (_ & _ & mb & Hmb).
    pose proof THUGE_pos as Hp. unfold ent_loc, lower_size.
    assert (Hq : h / THUGE g < ntab g fr) by (apply N.div_lt_upper_bound; nia).
    assert (Hr : h mod THUGE g < THUGE g) by (apply N.mod_lt; lia).
    assert ((h / THUGE g + 1) * table_bytes g <= ntab g fr * table_bytes g) by (apply N.mul_le_mono_r; lia).
    set (q := h / THUGE g) in *. set (r := h mod THUGE g) in *. clearbody q r.
    split; [nia | split; [nia |]].
    rewrite Hm, Hmb.
    replace (nbf g fr * (64 * mb) + q * (64 * m) + r * 2)
      with ((nbf g fr * 32 * mb + q * 32 * m + r) * 2) by lia.
    apply N.mod_mul. lia.
  Qed.

  Lemma tree_loc_bounds fr t :
    t < ntab g fr -> tree_loc t + 4 <= trees_size g fr /\ tree_loc t mod 4 = 0.
  Proof.
    intros Ht. unfold tree_loc, trees_size, CACHE.
    pose proof (align_up_ge (4 * ntab g fr) 64). split; try lia.
    apply N.mod_mul. lia.
  Qed.

  (* narrow CAS of toggle_int: stays inside the 8-byte row of the frame and is aligned to its width *)
  Lemma narrow_in_row f order :
    (3 <= order <= 6)%nat ->
    let h := f / HF g in let r := (f mod HF g) / 64 in
    row_loc g h r <= narrow_loc g f order
    /\ narrow_loc g f order + narrow_width order <= row_loc g h r + 8
    /\ narrow_loc g f order mod narrow_width order = 0
    /\ r < ROWS g.
  Proof.
    intros Ho h r. subst h r. destruct bb_facts as (_ & _ & m & Hm). destruct HF_rows as (HR & HR0).
    assert (Hi : f mod HF g < HF g) by (apply N.mod_lt; lia).
    set (i := f mod HF g) in *. set (q := f / HF g).
    assert (Hrow : i / 64 < ROWS g) by (apply N.div_lt_upper_bound; lia).
    unfold narrow_loc, row_loc, narrow_width. fold i. fold q.
    destruct order as [|[|[|[|[|[|[|o]]]]]]]; try lia.
    - change (pow2 3) with 8. change (8 / 8) with 1. repeat split; auto.
      + dlia.
      + dlia.
      + apply N.mod_1_r.
    - change (pow2 4) with 16. change (16 / 8) with 2. repeat split; auto.
      + dlia.
      + dlia.
      + rewrite Hm. replace (q * (64 * m) + i / 16 * 2) with ((q * 32 * m + i / 16) * 2) by lia.
        apply N.mod_mul. lia.
    - change (pow2 5) with 32. change (32 / 8) with 4. repeat split; auto.
      + dlia.
      + dlia.
      + rewrite Hm. replace (q * (64 * m) + i / 32 * 4) with ((q * 16 * m + i / 32) * 4) by lia.
        apply N.mod_mul. lia.
    - change (pow2 6) with 64. change (64 / 8) with 8. repeat split; auto.
      + lia.
      + lia.
      + rewrite Hm. replace (q * (64 * m) + i / 64 * 8) with ((q * 8 * m + i / 64) * 8) by lia.
        apply N.mod_mul. lia.
  Qed.

  (* the frame's bitfield exists when the frame is managed *)
  Lemma frame_bitfield_exists fr f : f < fr -> f / HF g < nbf g fr.
  Proof.
    intros. pose proof HF_pos. apply div_ceil_lt_iff; try lia.
    pose proof (N.mul_div_le f (HF g) ltac:(lia)). nia.
  Qed.
  Lemma frame_tree_exists fr f : f < fr -> f / TF g < ntab g fr.
  Proof.
    intros. pose proof TF_pos. apply div_ceil_lt_iff; try lia.
    pose proof (N.mul_div_le f (TF g) ltac:(lia)). nia.
  Qed.
  (* every bitfield has a table entry: nbf <= ntab * THUGE *)
  Lemma nbf_le_ents fr : nbf g fr <= ntab g fr * THUGE g.
  Proof.
    pose proof HF_pos. pose proof TF_pos. pose proof THUGE_pos.
    destruct (N.le_gt_cases (nbf g fr) (ntab g fr * THUGE g)); auto.
    unfold nbf in H2. apply (proj1 (div_ceil_lt_iff fr (HF g) _ H)) in H2.
    pose proof (div_ceil_mul_ge fr (TF g) H0) as H3. fold (ntab g fr) in H3. unfold TF in H3.
    rewrite N.mul_assoc in H3. lia.
  Qed.

  (* the words of a managed frame exist: its bitfield, its tree entry, its huge entry *)
  Lemma frame_words_exist fr f :
    f < fr -> f / HF g < nbf g fr /\ f / TF g < ntab g fr /\ f / HF g < ntab g fr * THUGE g.
  Proof.
    intros. pose proof (frame_bitfield_exists fr f H). pose proof (frame_tree_exists fr f H).
    pose proof (nbf_le_ents fr). repeat split; lia.
  Qed.

  (* ---------------------------------------------------------------- sizes *)
  Lemma lower_size_mono n z : n <= z -> lower_size g n <= lower_size g z.
  Proof.
    intros. unfold lower_size.
    assert (nbf g n <= nbf g z) by now apply div_ceil_mono.
    assert (ntab g n <= ntab g z) by now apply div_ceil_mono.
    apply N.add_le_mono; apply N.mul_le_mono_r; auto.
  Qed.
  Lemma trees_size_mono n z : n <= z -> trees_size g n <= trees_size g z.
  Proof.
    intros. unfold trees_size. apply align_up_mono.
    assert (ntab g n <= ntab g z) by now apply div_ceil_mono. lia.
  Qed.
  Lemma lower_size_mod64 fr : lower_size g fr mod 64 = 0.
  Proof.
    destruct bb_facts as (_ & _ & mb & Hmb). destruct tb_facts as (_ & _ & mt & Hmt).
    unfold lower_size. rewrite Hmb, Hmt.
    replace (nbf g fr * (64 * mb) + ntab g fr * (64 * mt)) with ((nbf g fr * mb + ntab g fr * mt) * 64) by lia.
    apply N.mod_mul. lia.
  Qed.
  Lemma trees_size_mod64 fr : trees_size g fr mod 64 = 0.
  Proof. unfold trees_size, CACHE. apply align_up_mod. lia. Qed.
  Lemma lower_parts fr :
    fst (lower_bitfields_part g fr) + snd (lower_bitfields_part g fr) = fst (lower_tables_part g fr)
    /\ fst (lower_tables_part g fr) + snd (lower_tables_part g fr) = lower_size g fr
    /\ fst (lower_tables_part g fr) mod 64 = 0.
  Proof.
    destruct bb_facts as (_ & _ & mb & Hmb).
    unfold lower_bitfields_part, lower_tables_part, lower_size. cbn [fst snd]. repeat split; try lia.
    rewrite Hmb. replace (nbf g fr * (64 * mb)) with (nbf g fr * mb * 64) by lia. apply N.mod_mul. lia.
  Qed.

  (* zero frames: all three sizes are 0 and there is no location at all *)
  Lemma sizes_zero : lower_size g 0 = 0 /\ trees_size g 0 = 0 /\ nbf g 0 = 0 /\ ntab g 0 = 0.
  Proof.
    unfold lower_size, trees_size, nbf, ntab. rewrite !div_ceil_0.
    repeat split; try lia; try (rewrite N.mul_0_r; apply align_up_0).
  Qed.
  Lemma sizes_pos fr : 0 < fr -> 64 <= trees_size g fr /\ 128 <= lower_size g fr.
  Proof.
    intros Hf. pose proof HF_pos. pose proof TF_pos.
    assert (0 < nbf g fr) by (apply div_ceil_pos; lia).
    assert (0 < ntab g fr) by (apply div_ceil_pos; lia).
    destruct bb_facts as (_ & Hb & mb & Hmb). destruct tb_facts as (_ & Ht & mt & Hmt).
    split.
    - unfold trees_size, CACHE. pose proof (align_up_ge (4 * ntab g fr) 64).
      destruct (align_up_multiple (4 * ntab g fr) 64) as [m Hm]; lia.
    - unfold lower_size. nia.
  Qed.
End Geo.

(* ------------------------------------------------------------------ local slots *)
Lemma class_lookup_inv cl c : forall off acc o n,
  (forall o' n', acc = Some (o', n') -> o' + n' * 64 <= off /\ o' mod 64 = 0) ->
  off mod 64 = 0 ->
  class_lookup cl c off acc = Some (o, n) ->
  o + n * 64 <= off + slots_total cl * 64 /\ o mod 64 = 0.
Proof.
  induction cl as [|[id cnt] r IH]; intros off acc o n Hacc Hoff H; cbn [class_lookup] in H.
  - subst acc. destruct (Hacc _ _ eq_refl). cbn [slots_total fold_right]. split; [lia | auto].
  - apply IH in H.
    + cbn [slots_total fold_right snd] in *. fold (slots_total r) in *. split; [nia | tauto].
    + intros o' n' Hs. destruct (id =? c).
      * inversion Hs; subst. split; [lia | auto].
      * destruct (Hacc _ _ Hs). split; [lia | auto].
    + replace (off + cnt * 64) with (off + cnt * 64) by lia.
      rewrite N.add_mod, Hoff, N.mod_mul by lia. reflexivity.
Qed.

Lemma slot_loc_bounds cl c i o :
  slot_loc cl c i = Some o -> o + 64 <= local_size cl /\ o mod 64 = 0 /\ o mod 8 = 0.
Proof.
  unfold slot_loc, local_size. destruct (class_lookup cl c 0 None) as [[off cnt]|] eqn:E; try discriminate.
  destruct (i <? cnt) eqn:Hi; try discriminate. intros [= <-].
  apply class_lookup_inv in E; try (intros; discriminate); auto.
  destruct E as (E1 & E2). apply N.ltb_lt in Hi.
  assert (Hm : (off + i * 64) mod 64 = 0) by (rewrite N.add_mod, E2, N.mod_mul by lia; reflexivity).
  repeat split; try nia; auto.
  generalize dependent (off + i * 64). clear. intros x Hx.
  apply N.div_exact in Hx; try lia. rewrite Hx.
  replace (64 * (x / 64)) with (8 * (x / 64) * 8) by lia. apply N.mod_mul. lia.
Qed.

Lemma class_lookup_some cl c : forall off acc,
  (acc <> None \/ exists n, In (c, n) cl) -> class_lookup cl c off acc <> None.
Proof.
  induction cl as [|[id cnt] r IH]; intros off acc H; cbn [class_lookup].
  - destruct H as [H|[n []]]; auto.
  - apply IH. destruct H as [H|[n [H|H]]].
    + left. destruct (id =? c); congruence.
    + inversion H; subst. rewrite N.eqb_refl. left; congruence.
    + right; eauto.
Qed.

(* every slot of every configured class has a location *)
Lemma slot_loc_defined cl c n :
  In (c, n) cl -> exists off cnt, class_lookup cl c 0 None = Some (off, cnt)
                                  /\ forall i, i < cnt -> slot_loc cl c i = Some (off + i * 64).
Proof.
  intros H. destruct (class_lookup cl c 0 None) as [[off cnt]|] eqn:E.
  - exists off, cnt. split; auto. intros i Hi. unfold slot_loc. rewrite E.
    apply N.ltb_lt in Hi. now rewrite Hi.
  - exfalso. eapply class_lookup_some; [|exact E]. right; eauto.
Qed.

(* a classing without slots has an empty buffer and no location *)
Lemma slot_loc_none_empty cl c i : local_size cl = 0 -> slot_loc cl c i = None.
Proof.
  intros H. destruct (slot_loc cl c i) eqn:E; auto.
  apply slot_loc_bounds in E. lia.
Qed.

(* ------------------------------------------------------------------ C08: MetaData::valid *)
Definition nowrap (b : buf) : Prop := b_end b < W64.
Definition empty (b : buf) : bool := b_len b =? 0.

Lemma wdec64_pos e : 0 < e -> e < W64 -> wdec64 e = e - 1.
Proof. intros. unfold wdec64, W64 in *. dlia. Qed.
Lemma wdec64_0 : wdec64 0 = W64 - 1.
Proof. reflexivity. Qed.

(* `overlap` never accepts intersecting ranges (no hypothesis at all) *)
Lemma overlap_sound a b : overlap a b = false -> intersects a b = false.
Proof. unfold overlap, intersects, rcontains, b_end. lia. Qed.

(* what `overlap` answers, exactly *)
Lemma overlap_nonempty a b :
  nowrap a -> nowrap b -> empty a = false -> empty b = false -> overlap a b = intersects a b.
Proof.
  unfold nowrap, empty, overlap, intersects, rcontains, b_end. intros Ha Hb Ea Eb.
  rewrite !wdec64_pos by lia. lia.
Qed.
Lemma overlap_empty_r a b :
  nowrap a -> nowrap b -> empty a = false -> empty b = true ->
  overlap a b = (b_addr a <=? b_addr b) && (b_addr b <=? b_end a).
Proof.
  unfold nowrap, empty, overlap, intersects, rcontains, b_end. intros Ha Hb Ea Eb.
  destruct (N.eq_dec (b_addr b) 0) as [Hz|Hz].
  - replace (b_addr b + b_len b) with 0 by lia. rewrite wdec64_0.
    rewrite (wdec64_pos (b_addr a + b_len a)) by lia. unfold W64 in *. lia.
  - rewrite !wdec64_pos by lia. lia.
Qed.
Lemma overlap_sym a b : overlap a b = overlap b a.
Proof. unfold overlap. lia. Qed.
Lemma overlap_empty_l a b :
  nowrap a -> nowrap b -> empty a = true -> empty b = false ->
  overlap a b = (b_addr b <=? b_addr a) && (b_addr a <=? b_end b).
Proof. intros. rewrite overlap_sym. now apply overlap_empty_r. Qed.
Lemma overlap_empty_both a b :
  nowrap a -> nowrap b -> empty a = true -> empty b = true -> overlap a b = false.
Proof.
  unfold nowrap, empty, overlap, rcontains, b_end. intros Ha Hb Ea Eb.
  replace (b_addr a + b_len a) with (b_addr a) by lia.
  replace (b_addr b + b_len b) with (b_addr b) by lia. lia.
Qed.

(* the relation `valid` enforces between two buffers: non-empty ones are disjoint; an empty one does
   not point into the closed range [start, end] of a non-empty one (this also rejects an empty buffer
   that merely touches the start or the end of another buffer); two empty ones are unconstrained *)
Definition separated (a b : buf) : bool :=
  if empty a then
    if empty b then true else negb ((b_addr b <=? b_addr a) && (b_addr a <=? b_end b))
  else
    if empty b then negb ((b_addr a <=? b_addr b) && (b_addr b <=? b_end a))
    else negb (intersects a b).

Lemma overlap_spec a b : nowrap a -> nowrap b -> overlap a b = negb (separated a b).
Proof.
  intros Ha Hb. unfold separated.
  destruct (empty a) eqn:Ea, (empty b) eqn:Eb; rewrite ?negb_involutive.
  - now apply overlap_empty_both.
  - now apply overlap_empty_l.
  - now apply overlap_empty_r.
  - now apply overlap_nonempty.
Qed.

Lemma separated_disjoint a b : separated a b = true -> intersects a b = false.
Proof.
  unfold separated, intersects, empty, b_end.
  destruct (b_len a =? 0) eqn:Ea, (b_len b =? 0) eqn:Eb; intros; lia.
Qed.

Section Valid.
  Variable g : geom.
  Variables (fr : N) (cl : list (N * N)) (local trees lower : buf).

  (* accepted => everything the constructors rely on *)
  Lemma valid_true :
    meta_valid g fr cl local trees lower = true ->
    local_size cl <= b_len local /\ trees_size g fr <= b_len trees /\ lower_size g fr <= b_len lower
    /\ b_addr local mod 64 = 0 /\ b_addr trees mod 64 = 0 /\ b_addr lower mod 64 = 0
    /\ intersects local trees = false /\ intersects trees lower = false /\ intersects lower local = false
    /\ lower_new_ok g fr lower = true /\ locals_new_ok cl local = true /\ trees_new_ok g fr trees = true.
  Proof.
    unfold meta_valid, lower_new_ok, locals_new_ok, trees_new_ok, aligned64. intros H.
    repeat (apply andb_prop in H; destruct H as [H ?]).
    apply negb_true_iff in H0, H1, H2.
    apply overlap_sound in H0, H1, H2.
    repeat split; try lia; auto.
  Qed.

  (* the exact decision rule *)
  Lemma valid_iff :
    nowrap local -> nowrap trees -> nowrap lower ->
    meta_valid g fr cl local trees lower =
      (local_size cl <=? b_len local) && (trees_size g fr <=? b_len trees) && (lower_size g fr <=? b_len lower)
      && aligned64 local && aligned64 trees && aligned64 lower
      && separated local trees && separated trees lower && separated lower local.
  Proof.
    intros. unfold meta_valid. rewrite !overlap_spec by auto. now rewrite !negb_involutive.
  Qed.

  (* rejected whenever a buffer is too short ... *)
  Lemma valid_false_short :
    b_len local < local_size cl \/ b_len trees < trees_size g fr \/ b_len lower < lower_size g fr ->
    meta_valid g fr cl local trees lower = false.
  Proof. unfold meta_valid. intros. lia. Qed.
  (* ... misaligned ... *)
  Lemma valid_false_misaligned :
    b_addr local mod 64 <> 0 \/ b_addr trees mod 64 <> 0 \/ b_addr lower mod 64 <> 0 ->
    meta_valid g fr cl local trees lower = false.
  Proof.
    unfold meta_valid, aligned64. intros H.
    destruct (b_addr local mod 64 =? 0) eqn:E1, (b_addr trees mod 64 =? 0) eqn:E2,
             (b_addr lower mod 64 =? 0) eqn:E3; rewrite ?andb_false_r; cbn [andb]; try reflexivity.
    apply N.eqb_eq in E1, E2, E3. tauto.
  Qed.
  (* ... or two buffers share a byte (an empty buffer shares no byte; `intersects` is then "points
     strictly inside") *)
  Lemma valid_false_intersect :
    intersects local trees = true \/ intersects trees lower = true \/ intersects lower local = true ->
    meta_valid g fr cl local trees lower = false.
  Proof.
    intros H. destruct (meta_valid g fr cl local trees lower) eqn:E; auto.
    apply valid_true in E. destruct E as (_ & _ & _ & _ & _ & _ & E1 & E2 & E3 & _).
    destruct H as [H|[H|H]]; congruence.
  Qed.
End Valid.

(* ------------------------------------------------------------------ C17: zone wrapper *)
Section ZoneProofs.
  Variables state request class stat : Type.
  Variable inner_get : state -> option N -> request -> res (N * class) * state.
  Variable inner_put : state -> N -> request -> res unit * state.
  Variable inner_stats_at : state -> N -> nat -> stat.
  Variable stat_default : stat.
  Variable frames : N.
  (* C01's in-range property of the inner allocator *)
  Hypothesis inner_in_range : forall s fr rq f c s', inner_get s fr rq = (Ok (f, c), s') -> f < frames.

  Definition shift (off : N) (r : res (N * class) * state) : res (N * class) * state :=
    (match fst r with Ok (f, c) => Ok (f + off, c) | Err e => Err e | Panic p => Panic p end, snd r).

  Notation zget := (zone_get state request class inner_get).
  Notation zput := (zone_put state request inner_put).
  Notation zstat := (zone_stats_at state stat inner_stats_at stat_default).

  Lemma zone_get_conj off s frame rq :
    off + frames <= W64 ->
    zget off s frame rq =
      match frame with
      | Some f => if f <? off then (Err EArgument, s) else shift off (inner_get s (Some (f - off)) rq)
      | None => shift off (inner_get s None rq)
      end.
  Proof.
    intros Hov. unfold zone_get, shift.
    assert (K : forall fr, (let '(r, s') := inner_get s fr rq in
                 (match r with
                  | Ok (f, c) => match zone_add f off with Ok f' => Ok (f', c) | Err e => Err e | Panic p => Panic p end
                  | Err e => Err e | Panic p => Panic p end, s'))
                = (match fst (inner_get s fr rq) with Ok (f, c) => Ok (f + off, c) | Err e => Err e | Panic p => Panic p end,
                   snd (inner_get s fr rq))).
    { intros fr. destruct (inner_get s fr rq) as [r s'] eqn:E. cbn [fst snd].
      destruct r as [[f c]|e|p]; auto.
      apply inner_in_range in E. unfold zone_add.
      assert (f + off <? W64 = true) as -> by lia. reflexivity. }
    destruct frame as [f|]; [destruct (f <? off)|]; auto.
  Qed.

  (* results lie in [off, off + frames); requests below the offset are refused without touching the
     inner allocator *)
  Lemma zone_get_range off s frame rq f c s' :
    off + frames <= W64 -> zget off s frame rq = (Ok (f, c), s') -> off <= f < off + frames.
  Proof.
    intros Hov H. rewrite zone_get_conj in H by auto.
    assert (K : forall fr, shift off (inner_get s fr rq) = (Ok (f, c), s') -> off <= f < off + frames).
    { intros fr. unfold shift. destruct (inner_get s fr rq) as [r s2] eqn:E. cbn [fst snd].
      destruct r as [[f0 c0]|e|p]; intros [= <- <- <-]. apply inner_in_range in E. lia. }
    destruct frame as [f0|]; [destruct (f0 <? off)|]; try discriminate; eauto.
  Qed.
  Lemma zone_get_below off s f rq : f < off -> zget off s (Some f) rq = (Err EArgument, s).
  Proof. intros. unfold zone_get. assert (f <? off = true) as -> by lia. reflexivity. Qed.
  Lemma zone_put_conj off s f rq :
    zput off s f rq = if f <? off then (Err EArgument, s) else inner_put s (f - off) rq.
  Proof. reflexivity. Qed.
  Lemma zone_put_below off s f rq : f < off -> zput off s f rq = (Err EArgument, s).
  Proof. intros. unfold zone_put. assert (f <? off = true) as -> by lia. reflexivity. Qed.
  Lemma zone_put_shifted off s f rq : zput off s (f + off) rq = inner_put s f rq.
  Proof.
    unfold zone_put. assert (f + off <? off = false) as -> by lia.
    now replace (f + off - off) with f by lia.
  Qed.
  Lemma zone_stats_at_conj off s f o :
    zstat off s f o = if f <? off then stat_default else inner_stats_at s (f - off) o.
  Proof. reflexivity. Qed.
  Lemma zone_stats_at_shifted off s f o : zstat off s (f + off) o = inner_stats_at s f o.
  Proof.
    unfold zone_stats_at. assert (f + off <? off = false) as -> by lia.
    now replace (f + off - off) with f by lia.
  Qed.
  (* a frame handed out by the wrapper can be given back: the inner allocator sees its own frame *)
  Lemma zone_get_put_roundtrip off s rq c s' f0 :
    off + frames <= W64 -> inner_get s None rq = (Ok (f0, c), s') ->
    zget off s None rq = (Ok (f0 + off, c), s') /\ forall rq', zput off s' (f0 + off) rq' = inner_put s' f0 rq'.
  Proof.
    intros Hov E. rewrite zone_get_conj by auto. unfold shift. rewrite E. cbn [fst snd].
    split; auto. intros. apply zone_put_shifted.
  Qed.
End ZoneProofs.

(* ------------------------------------------------------------------ C17: persistent layout *)
Section NvmProofs.
  Variable g : geom.
  Hypothesis WF : wf_geom g.
  Variable fs : N.
  Hypothesis FS : 0 < fs.

  Lemma nvm_layout_spec z :
    match nvm_layout g fs z with
    | Panic _ => False
    | Err e => e = EInit /\ z * fs < lower_size g z + fs
    | Ok l =>
        lower_size g z + fs <= z * fs
        /\ nl_managed l + nl_meta_pages l + 1 = z
        /\ nl_lower_off l = nl_managed l * fs
        /\ nl_lower_len l = lower_size g z
        /\ nl_lower_off l + nl_lower_len l <= nl_header_off l
        /\ nl_header_off l + fs = z * fs
        /\ lower_size g (nl_managed l) <= nl_lower_len l
        /\ trees_size g (nl_managed l) <= trees_size g z
    end.
  Proof.
    unfold nvm_layout. destruct (z * fs <? lower_size g z + fs) eqn:G.
    - split; auto. lia.
    - apply N.ltb_ge in G. set (m := lower_size g z) in *.
      pose proof (div_ceil_mul_lt m fs FS) as Hp. pose proof (div_ceil_mul_ge m fs FS) as Hq.
      set (p := div_ceil m fs) in *.
      assert (Hpz : p < z) by (apply (N.mul_lt_mono_pos_r fs); lia).
      assert (z - 1 <? p = false) as -> by lia.
      cbn [nl_managed nl_meta_pages nl_lower_off nl_lower_len nl_header_off].
      repeat split; try lia; try nia.
      + apply lower_size_mono. lia.
      + apply trees_size_mono. lia.
  Qed.

  Lemma nvm_layout_no_panic z p : nvm_layout g fs z <> Panic p.
  Proof. pose proof (nvm_layout_spec z). destruct (nvm_layout g fs z); congruence || tauto. Qed.

  (* a block of k frames starting at managed frame f: its bytes end at or before the first metadata
     byte, which in turn lies before the header page *)
  Lemma nvm_block_below_meta z l f k :
    nvm_layout g fs z = Ok l -> f + k <= nl_managed l ->
    (f + k) * fs <= nl_lower_off l /\ (f + k) * fs <= nl_header_off l /\ nl_header_off l + fs = z * fs.
  Proof.
    intros E H. pose proof (nvm_layout_spec z) as S. rewrite E in S.
    destruct S as (_ & _ & S3 & _ & S5 & S6 & _).
    assert ((f + k) * fs <= nl_managed l * fs) by (apply N.mul_le_mono_r; lia).
    repeat split; lia.
  Qed.

  Lemma nvm_create_spec base z rec hm hf :
    match nvm_create g fs base z rec hm hf with
    | Panic _ => False
    | Err e => e = EInit
    | Ok (off, l, wr) =>
        nvm_layout g fs z = Ok l /\ off * fs = base /\ zone_create_ok g off = true /\ wr = negb rec
        /\ (rec = true -> hm = NVM_MAGIC /\ hf = z - 1)
    end.
  Proof.
    unfold nvm_create. pose proof (nvm_layout_spec z) as S.
    destruct (z * fs <? lower_size g z + fs) eqn:G; cbn [orb]; auto.
    destruct (base mod (fs * TF g) =? 0) eqn:A; cbn [negb]; auto.
    destruct (rec && negb ((hm =? NVM_MAGIC) && (hf =? z - 1))) eqn:R; auto.
    destruct (nvm_layout g fs z) as [l|e|p] eqn:L; try tauto.
    pose proof (TF_pos g WF) as HT.
    apply N.eqb_eq in A. apply N.div_exact in A; try nia.
    set (q := base / (fs * TF g)) in *.
    assert (Hdiv : base / fs = TF g * q).
    { rewrite A. replace (fs * TF g * q) with (TF g * q * fs) by lia. apply N.div_mul. lia. }
    repeat split; auto.
    - rewrite Hdiv. lia.
    - unfold zone_create_ok. rewrite Hdiv. rewrite N.mul_comm, N.mod_mul by lia. reflexivity.
    - destruct rec; try discriminate. cbn [andb] in R. apply negb_false_iff in R. lia.
    - destruct rec; try discriminate. cbn [andb] in R. apply negb_false_iff in R. lia.
  Qed.

  (* recover refuses unless the header holds the magic and the frame count z - 1 *)
  Lemma nvm_recover_refuses base z hm hf :
    hm <> NVM_MAGIC \/ hf <> z - 1 -> nvm_create g fs base z true hm hf = Err EInit.
  Proof.
    intros H. pose proof (nvm_create_spec base z true hm hf) as S.
    destruct (nvm_create g fs base z true hm hf) as [[[off l] wr]|e|p]; cbn beta iota in S.
    - exfalso. destruct S as (_ & _ & _ & _ & S). destruct (S eq_refl). tauto.
    - now subst.
    - tauto.
  Qed.
  Lemma nvm_create_misaligned base z rec hm hf :
    base mod (fs * TF g) <> 0 -> nvm_create g fs base z rec hm hf = Err EInit.
  Proof.
    intros H. unfold nvm_create. apply N.eqb_neq in H. rewrite H. cbn [negb]. now rewrite orb_true_r.
  Qed.

  (* the in-zone lower buffer passes the inner allocator's size and alignment checks and ends before
     the header page *)
  Lemma nvm_lower_buf_ok base z rec hm hf off l wr :
    fs mod 64 = 0 ->
    nvm_create g fs base z rec hm hf = Ok (off, l, wr) ->
    lower_new_ok g (nl_managed l) (nvm_lower_buf base l) = true
    /\ b_end (nvm_lower_buf base l) <= base + nl_header_off l
    /\ base + nl_managed l * fs = b_addr (nvm_lower_buf base l).
  Proof.
    intros F64 E. pose proof (nvm_create_spec base z rec hm hf) as S. rewrite E in S.
    destruct S as (L & Hb & _). pose proof (nvm_layout_spec z) as S. rewrite L in S.
    destruct S as (_ & _ & S3 & S4 & S5 & _ & S7 & _).
    unfold lower_new_ok, nvm_lower_buf, aligned64, b_end. cbn [b_addr b_len].
    repeat split; try lia.
    apply andb_true_intro. split; [lia|]. apply N.eqb_eq.
    apply N.div_exact in F64; try lia. rewrite S3, <- Hb, F64.
    replace (off * (64 * (fs / 64)) + nl_managed l * (64 * (fs / 64)))
      with ((off * (fs / 64) + nl_managed l * (fs / 64)) * 64) by lia.
    apply N.mod_mul. lia.
  Qed.

  (* the whole property about returned frames: the inner allocator (managing n = nl_managed frames,
     in range by C01) behind the zone wrapper at offset base / fs *)
  Section Returned.
    Variables state request class : Type.
    Variable inner_get : state -> option N -> request -> res (N * class) * state.
    Variable req_frames : request -> N.                           (* 2^order *)
    Variables (base z : N) (rec : bool) (hm hf off : N) (l : nvm_layout_t) (wr : bool).
    Hypothesis created : nvm_create g fs base z rec hm hf = Ok (off, l, wr).
    Hypothesis inner_in_range :
      forall s fr rq f c s', inner_get s fr rq = (Ok (f, c), s') -> f + req_frames rq <= nl_managed l.
    Hypothesis addr_space : base + z * fs <= W64.

    Lemma nvm_returned_frames s frame rq f c s' :
      zone_get state request class inner_get off s frame rq = (Ok (f, c), s') ->
      (* the block's bytes [f*fs, (f + 2^order)*fs) lie inside the zone's frame area ... *)
      base <= f * fs
      /\ (f + req_frames rq) * fs <= base + nl_lower_off l
      (* ... which ends before the lower metadata and the header page *)
      /\ base + nl_lower_off l + nl_lower_len l <= base + nl_header_off l
      /\ base + nl_header_off l + fs = base + z * fs.
    Proof.
      intros H. pose proof (nvm_create_spec base z rec hm hf) as S. rewrite created in S.
      destruct S as (L & Hb & _). pose proof (nvm_layout_spec z) as S. rewrite L in S.
      destruct S as (S1 & S2 & S3 & S4 & S5 & S6 & _).
      assert (Hin : forall s fr rq f c s', inner_get s fr rq = (Ok (f, c), s') -> f < nl_managed l + 1).
      { intros. apply inner_in_range in H0. lia. }
      assert (Hov : off + (nl_managed l + 1) <= W64).
      { assert ((off + (nl_managed l + 1)) * fs <= W64 * fs) by nia.
        apply (N.mul_le_mono_pos_r _ _ fs); lia. }
      rewrite (zone_get_conj state request class inner_get (nl_managed l + 1) Hin) in H by auto.
      assert (K : forall fr, shift state class off (inner_get s fr rq) = (Ok (f, c), s') ->
                  exists f0, f = f0 + off /\ f0 + req_frames rq <= nl_managed l).
      { intros fr. unfold shift. destruct (inner_get s fr rq) as [r s2] eqn:E. cbn [fst snd].
        destruct r as [[f0 c0]|e|p]; intros [= <- <- <-]. apply inner_in_range in E. eauto. }
      assert (exists f0, f = f0 + off /\ f0 + req_frames rq <= nl_managed l) as (f0 & -> & Hf0).
      { destruct frame as [fq|]; [destruct (fq <? off)|]; try discriminate; eauto. }
      assert ((f0 + req_frames rq) * fs <= nl_managed l * fs) by (apply N.mul_le_mono_r; lia).
      repeat split; nia.
    Qed.
  End Returned.
End NvmProofs.

(* ------------------------------------------------------------------ non-vacuity (default geometry) *)
Definition g0 : geom := {| hord := 9; tlog := 2 |}.
Lemma g0_wf : wf_geom g0.
Proof. unfold wf_geom, g0; cbn; lia. Qed.

Example ex_sizes :
  bitfield_bytes g0 = 64 /\ table_bytes g0 = 64
  /\ lower_size g0 0 = 0 /\ lower_size g0 1 = 128 /\ lower_size g0 2048 = 320 /\ lower_size g0 2049 = 448
  /\ trees_size g0 0 = 0 /\ trees_size g0 1 = 64 /\ trees_size g0 (16 * 2048 + 1) = 128
  /\ local_size [(0, 2); (1, 0); (2, 3)] = 320.
Proof. vm_compute. repeat split. Qed.

Example ex_locs :
  row_loc g0 4 7 = 312 /\ ent_loc g0 2049 4 = 384 /\ ent_loc g0 2049 7 = 390 /\ tree_loc 16 = 64
  /\ slot_loc [(0, 2); (1, 0); (2, 3)] 2 1 = Some 192 /\ slot_loc [(0, 2); (1, 0); (2, 3)] 1 0 = None
  /\ narrow_loc g0 (512 + 72) 3 = 64 + 9 /\ narrow_loc g0 (512 + 96) 5 = 64 + 12.
Proof. vm_compute. repeat split. Qed.

(* a zone of 2049 frames of 4 KiB keeps 2047 frames; 2 frames keep 0 (the D1 input); 1 frame is refused *)
Example ex_nvm :
  nvm_layout g0 4096 2049 = Ok {| nl_managed := 2047; nl_meta_pages := 1; nl_lower_off := 2047 * 4096;
                                  nl_lower_len := 448; nl_header_off := 2048 * 4096 |}
  /\ (exists l, nvm_layout g0 4096 2 = Ok l /\ nl_managed l = 0)
  /\ nvm_layout g0 4096 1 = Err EInit /\ nvm_layout g0 4096 0 = Err EInit
  /\ (exists l, nvm_layout g0 4096 2051 = Ok l /\ nl_managed l = 2049).
Proof. vm_compute. repeat split; eexists; split; reflexivity. Qed.

Example ex_valid :
  let l := {| b_addr := 4096; b_len := 128 |} in
  let t := {| b_addr := 4224; b_len := 64 |} in
  let w := {| b_addr := 4288; b_len := 448 |} in
  meta_valid g0 2049 [(0, 1); (1, 1)] l t w = true                                     (* adjacent: accepted *)
  /\ meta_valid g0 2049 [(0, 1); (1, 1)] l t {| b_addr := 4288; b_len := 447 |} = false (* one byte short *)
  /\ meta_valid g0 2049 [(0, 1); (1, 1)] l {| b_addr := 4225; b_len := 64 |} w = false  (* misaligned *)
  /\ meta_valid g0 2049 [(0, 1); (1, 1)] l {| b_addr := 4160; b_len := 128 |} w = false (* overlapping *)
  /\ meta_valid g0 2049 [(0, 1); (1, 1)] l {| b_addr := 4096; b_len := 1024 |} w = false (* nested *)
  /\ meta_valid g0 2049 [(0, 1); (1, 1)] l l w = false                                  (* identical *)
  (* empty buffers: a zero-slot classing; the empty buffer may be anywhere except inside or touching
     another buffer *)
  /\ meta_valid g0 2049 [(0, 0)] {| b_addr := 64; b_len := 0 |} t w = true
  /\ meta_valid g0 2049 [(0, 0)] {| b_addr := 4224; b_len := 0 |} t w = false           (* at t's start *)
  /\ meta_valid g0 2049 [(0, 0)] {| b_addr := 4736; b_len := 0 |} t w = false           (* at w's end: touching only *)
  /\ intersects {| b_addr := 4736; b_len := 0 |} w = false
  /\ meta_valid g0 0 [(0, 0)] {| b_addr := 64; b_len := 0 |} {| b_addr := 64; b_len := 0 |} {| b_addr := 64; b_len := 0 |} = true.
Proof. vm_compute. repeat split. Qed.
