(* C12 - Search within one tree finds any aligned free block of the requested order.
   `lower_get g l start k` is the model of `Lower::get(start_row, order, None)` (Lower.v), `abs` the
   allocation state read off the metadata, `spec_get_enabled s f k` = "block f of order k is aligned, in
   range and entirely free" (Spec.v). Every wf geometry, every frame count, every LowerInv state (any
   allocation pattern), every row hint in an existing tree, every order up to the tree order.
   Proofs: LowerGetProofs.v (over BitfieldProofs.v, RowProofs.v). *)
From LLF Require Import Base Row Bitfield Lower Spec LowerFacts LowerGetProofs.

(* a directed allocation fails only if the tree contains no aligned entirely free block of that order *)
Theorem C12_fails_only_if_none : forall g, wf_geom g -> forall l start k e l',
  LowerInv g l -> (k <= tord g)%nat -> (start * 64) / TF g < ntab g (frames l) ->
  lower_get g l start k = (Err e, l') ->
  e = EMemory /\ l' = l /\
  forall f, f / TF g = (start * 64) / TF g -> spec_get_enabled (abs g l) f k = false.
Proof. exact lower_get_err. Qed.
Print Assumptions C12_fails_only_if_none.

(* positive form *)
Theorem C12_finds_any : forall g, wf_geom g -> forall l start k f,
  LowerInv g l -> (k <= tord g)%nat -> (start * 64) / TF g < ntab g (frames l) ->
  f / TF g = (start * 64) / TF g -> spec_get_enabled (abs g l) f k = true ->
  exists f' l', lower_get g l start k = (Ok f', l').
Proof. exact lower_get_complete. Qed.
Print Assumptions C12_finds_any.

(* a success marks exactly that block: it lies in the tree, was entirely free, and the allocation
   state changes by exactly the block (whole iff order >= huge order); the invariant is kept *)
Theorem C12_success_marks_block : forall g, wf_geom g -> forall l start k f l',
  LowerInv g l -> (k <= tord g)%nat -> (start * 64) / TF g < ntab g (frames l) ->
  lower_get g l start k = (Ok f, l') ->
  f / TF g = (start * 64) / TF g /\
  spec_get_enabled (abs g l) f k = true /\
  abs g l' = spec_get g (abs g l) f k /\
  LowerInv g l' /\ frames l' = frames l /\
  (forall t, tree_free g l' t + delta t (f / TF g) (pow2 k) = tree_free g l t).
Proof. exact lower_get_ok. Qed.
Print Assumptions C12_success_marks_block.

Theorem C12_never_panics : forall g, wf_geom g -> forall l start k,
  LowerInv g l -> (k <= tord g)%nat -> (start * 64) / TF g < ntab g (frames l) ->
  forall s, fst (lower_get g l start k) <> Panic s.
Proof. exact lower_get_no_panic. Qed.
Print Assumptions C12_never_panics.
