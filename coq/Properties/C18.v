(* C18 (PARTIAL: address ranges and alignment only) - every metadata word the allocator addresses lies
   inside the caller-provided buffer of the size `metadata_size` asks for and is aligned to its access
   width; empty buffers have no word at all.  Property theorems only; proofs in MetaProofs.v, the
   location functions in Meta.v.  All wf geometries (6 <= HUGE_ORDER <= 15, TREE_ORDER <= 18), all frame
   counts (0 included), all classings.
   NOT expressible here (and not claimed): aliasing through `non_atomic`, data races of the non-atomic
   table fill, pointer provenance, `b.end.sub(1)` on an empty buffer, `alloc_zeroed` of size 0. *)
From LLF Require Import Base Row Bitfield Lower Spec Upper UpperInvDef LowerMachine ConcInvDef ConcInv Meta MetaProofs
  UpperPrims UpperMachine UpperConcInv AccessBoundsDef AccessBounds.

(* row r of bitfield h: 8 bytes, inside the bitfield part of the lower buffer *)
Theorem C18_row_in_bounds : forall g, wf_geom g -> forall fr h r,
  h < nbf g fr -> r < ROWS g ->
  row_loc g h r + 8 <= nbf g fr * bitfield_bytes g
  /\ row_loc g h r + 8 <= lower_size g fr
  /\ row_loc g h r mod 8 = 0.
Proof. exact row_loc_bounds. Qed.
Print Assumptions C18_row_in_bounds.

(* huge entry h: 2 bytes, inside the table part (which starts where the bitfield part ends) *)
Theorem C18_entry_in_bounds : forall g, wf_geom g -> forall fr h,
  h < ntab g fr * THUGE g ->
  nbf g fr * bitfield_bytes g <= ent_loc g fr h
  /\ ent_loc g fr h + 2 <= lower_size g fr
  /\ ent_loc g fr h mod 2 = 0.
Proof. exact ent_loc_bounds. Qed.
Print Assumptions C18_entry_in_bounds.

(* tree entry t: 4 bytes in the trees buffer *)
Theorem C18_tree_in_bounds : forall g fr t,
  t < ntab g fr -> tree_loc t + 4 <= trees_size g fr /\ tree_loc t mod 4 = 0.
Proof. exact tree_loc_bounds. Qed.
Print Assumptions C18_tree_in_bounds.

(* slot i of class c: the whole 64-byte `Local` lies in the local buffer, cache-line aligned *)
Theorem C18_slot_in_bounds : forall cl c i o,
  slot_loc cl c i = Some o -> o + 64 <= local_size cl /\ o mod 64 = 0 /\ o mod 8 = 0.
Proof. exact slot_loc_bounds. Qed.
Print Assumptions C18_slot_in_bounds.

(* ... and every slot of every configured class has such a location (the theorem above is not vacuous) *)
Theorem C18_slot_defined : forall cl c n,
  In (c, n) cl -> exists off cnt, class_lookup cl c 0 None = Some (off, cnt)
                                  /\ forall i, i < cnt -> slot_loc cl c i = Some (off + i * 64).
Proof. exact slot_loc_defined. Qed.
Print Assumptions C18_slot_defined.

(* the 1/2/4/8-byte CAS of `toggle_int` (orders 3..6) stays inside the 8-byte row of its frame *)
Theorem C18_narrow_in_row : forall g, wf_geom g -> forall f order,
  (3 <= order <= 6)%nat ->
  let h := f / HF g in let r := (f mod HF g) / 64 in
  row_loc g h r <= narrow_loc g f order
  /\ narrow_loc g f order + narrow_width order <= row_loc g h r + 8
  /\ narrow_loc g f order mod narrow_width order = 0
  /\ r < ROWS g.
Proof. exact narrow_in_row. Qed.
Print Assumptions C18_narrow_in_row.

(* the indices a managed frame is translated to are in range *)
Theorem C18_frame_words_exist : forall g, wf_geom g -> forall fr f,
  f < fr -> f / HF g < nbf g fr /\ f / TF g < ntab g fr /\ f / HF g < ntab g fr * THUGE g.
Proof. exact frame_words_exist. Qed.
Print Assumptions C18_frame_words_exist.

(* the two slices built by `Lower::new` tile the lower buffer exactly *)
Theorem C18_lower_parts : forall g, wf_geom g -> forall fr,
  fst (lower_bitfields_part g fr) + snd (lower_bitfields_part g fr) = fst (lower_tables_part g fr)
  /\ fst (lower_tables_part g fr) + snd (lower_tables_part g fr) = lower_size g fr
  /\ fst (lower_tables_part g fr) mod 64 = 0.
Proof. exact lower_parts. Qed.
Print Assumptions C18_lower_parts.

(* empty buffers: zero frames / a classing without slots => size 0 and no location *)
Theorem C18_empty_buffers : forall g,
  lower_size g 0 = 0 /\ trees_size g 0 = 0 /\ nbf g 0 = 0 /\ ntab g 0 = 0.
Proof. exact sizes_zero. Qed.
Print Assumptions C18_empty_buffers.

Theorem C18_empty_local : forall cl c i, local_size cl = 0 -> slot_loc cl c i = None.
Proof. exact slot_loc_none_empty. Qed.
Print Assumptions C18_empty_local.

(* a buffer sized for z frames is large enough for any n <= z (the persistent wrapper relies on it) *)
Theorem C18_lower_size_mono : forall g n z, n <= z -> lower_size g n <= lower_size g z.
Proof. exact lower_size_mono. Qed.
Print Assumptions C18_lower_size_mono.

(* lower.rs sizes the bitfield part with the stride of `Bitfield`, but indexes it with the stride of
   `Align<Bitfield>`: equal for HUGE_ORDER >= 9 (the crate builds with 9 or 11 only) *)
Theorem C18_bitfield_stride : forall g, (9 <= hord g)%nat -> bitfield_bytes g = bitfield_bytes_as_computed g.
Proof. exact bitfield_bytes_agree. Qed.
Print Assumptions C18_bitfield_stride.

(* ---------- every access of every reachable state of the machines (AccessBounds.v) ---------- *)
(* M1 (lower allocator, LowerMachine.v): any number of threads, any schedule from a boot state.  Every event the step
   function emits names an entry / a row whose indices are in range (`ev_idx_ok`: table index < ntab * THUGE; bitfield
   < nbf, row < ROWS, an aligned 8/16/32/64-bit lane inside the row) and whose bytes lie inside the lower buffer of
   `lower_size` bytes, in the right part, aligned to the access width; a narrow access stays inside the 8-byte word of
   its row (`m1_ev_bytes_ok` = `row_bytes_ok` / `ent_bytes_ok`). *)
Theorem C18_reachable_m1_access_in_bounds : forall g l held0 n sch t c e,
  wf_geom g -> LowerInv g l -> HeldInit g l held0 ->
  let s := mrun g sch (boot l held0 n) in
  snd (mstep g s t c) = Some e ->
  ev_idx_ok g (frames l) e /\ m1_ev_bytes_ok g (frames l) e.
Proof. exact reachable_m1_access_in_bounds. Qed.
Print Assumptions C18_reachable_m1_access_in_bounds.

(* M2 (whole allocator, UpperMachine.v) under the hypotheses of conc_uinv: tree index < ntab, slot index < the slot count
   of its class, lower accesses as M1 (`uev_idx_ok`); with the classing `cl` the local buffer was laid out with
   (`classing_agrees`, established by LLFree::new: `llfree_new_classing_agrees`) the bytes of every event lie inside
   trees_size / local_size / lower_size (`m2_ev_bytes_ok`). *)
Theorem C18_reachable_m2_access_in_bounds : forall g policy u held0 n sch t c e cl,
  wf_geom g -> pol_refl_match policy -> pol_demote_trans policy ->
  UpperInv g policy (ustate_new u) -> HeldInit g (low u) held0 -> sched_valid g u sch ->
  classing_agrees cl u ->
  let s := urun g policy sch (uboot u held0 n) in
  snd (ustep g policy s t c) = Some e ->
  uev_idx_ok g (m2_up s) e /\ m2_ev_bytes_ok g (frames (low u)) cl e.
Proof. exact reachable_m2_access_in_bounds. Qed.
Print Assumptions C18_reachable_m2_access_in_bounds.

(* the executable form the correspondence drivers evaluate on the accesses of the compiled code (ORACLE [C18]) is
   equivalent to the index predicate *)
Theorem C18_row_index_check : forall g fr h r off w, row_idx_okb g fr h r off w = true <-> row_idx_ok g fr h r off w.
Proof. exact row_idx_okb_spec. Qed.
Print Assumptions C18_row_index_check.
