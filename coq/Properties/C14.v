(* C14 - Per-class statistics count every tree frame slot exactly once.

   "UpperInv s implies  sum_c (free_c + alloc_c) = ntrees * TF  and  sum_c free_c = tree_stats.free_frames."

   `llfree_tree_stats` is the model of `LLFree::tree_stats` with the D8 repair (the free frames of a local
   reservation are subtracted from the allocated count of the reserved tree's class); `ts_classes` has one entry
   per class id 0..7.  Sequential model, any state satisfying the invariant, hence after every history.
   Proofs: UpperStatsProofs.v (`tree_stats_correct`), GlueHistory.v. *)
From Coq Require Import List NArith.
From LLF Require Import Base Row Bitfield Lower Spec LowerFactsProofs Upper UpperInvDef UpperPrims UpperPutProofs
  UpperStatsProofs UpperGetProofs Handoff GlueProofs GlueHistory.

Theorem C14_tree_stats : forall g policy, wf_geom g -> forall x, UpperInv g policy x ->
  exists ts, llfree_tree_stats g (us x) = Ok ts /\
    (* the fast free count: tree counters plus local reservations *)
    ts_free ts = sumN (map t_free (trees (us x))) + sum_free (present_slots (us x)) /\
    length (ts_classes ts) = 8%nat /\
    sumN (map cs_free (ts_classes ts)) = ts_free ts /\
    sumN (map (fun c => cs_free c + cs_alloc c) (ts_classes ts)) = ntrees (us x) * TF g.
Proof. intros g policy WF. exact (tree_stats_correct g policy WF (lower_facts_proved g WF)). Qed.
Print Assumptions C14_tree_stats.

(* after every history of valid-parameter calls: the state reached satisfies the invariant ... *)
Theorem C14_after_every_history : forall g policy,
  wf_geom g -> pol_refl_match policy -> pol_demote_trans policy ->
  forall ops x0, UpperInv g policy x0 -> ops_valid (us x0) ops ->
    let x := snd (grun g policy x0 ops) in
    exists ts, llfree_tree_stats g (us x) = Ok ts /\
      length (ts_classes ts) = 8%nat /\
      sumN (map cs_free (ts_classes ts)) = ts_free ts /\
      sumN (map (fun c => cs_free c + cs_alloc c) (ts_classes ts)) = ntrees (us x) * TF g.
Proof.
  intros g policy WF PR PT ops x0 HI V x.
  destruct (tree_stats_correct g policy WF (lower_facts_proved g WF) x (grun_inv g policy WF PR PT ops x0 HI V))
    as (ts & A & _ & B & C & D).
  exists ts. auto.
Qed.
Print Assumptions C14_after_every_history.

(* ... and every tree_stats call inside a history returns such a result *)
Theorem C14_history : forall g policy,
  wf_geom g -> pol_refl_match policy -> pol_demote_trans policy ->
  forall x0 ops, UpperInv g policy x0 -> ops_valid (us x0) ops ->
  forall x r x', In (x, OTreeStats, RTreeStats r, x') (gtrace g policy x0 ops) ->
    exists ts, r = Ok ts /\ length (ts_classes ts) = 8%nat /\
      sumN (map cs_free (ts_classes ts)) = ts_free ts /\
      sumN (map (fun c => cs_free c + cs_alloc c) (ts_classes ts)) = ntrees (us x) * TF g.
Proof.
  intros g policy WF PR PT x0 ops HI V x r x' Hin.
  destruct (hist_tree_stats g policy WF PR PT ops x0 x r x' HI V Hin) as (_ & ts & A & B & C & D & _).
  exists ts. auto.
Qed.
Print Assumptions C14_history.

(* non-vacuity: D8's scenario, one allocation through a slot on the 3-tree example allocator (a reservation
   with free frames is present): the class sums are 3 * 2048 and the fast free count *)
Example C14_example :
  let r := grun GetExamples.g GetExamples.pol GetExamples.x0 [OGet None (GetExamples.rq 0 0 (Some 0)); OTreeStats] in
  present_slots (us (snd r)) <> [] /\
  exists ts, nth 1 (fst r) (RDrain (Ok tt)) = RTreeStats (Ok ts) /\ ts_free ts = 4999 /\
    sumN (map cs_free (ts_classes ts)) = 4999 /\
    sumN (map (fun c => cs_free c + cs_alloc c) (ts_classes ts)) = 3 * 2048.
Proof.
  cbv zeta. split; [vm_compute; discriminate|]. eexists. split; [vm_compute; reflexivity|].
  repeat split; vm_compute; reflexivity.
Qed.
