(* C02 - Sequential calls follow the frame-ownership model exactly.

   "For every history from every initial state (FreeAll / AllocAll, any frames, any classing), after each call
    with outcome r from state s to s': r = Ok implies spec_step (abs s) op r (abs s'); r = Err implies
    abs s' = abs s, and for put additionally r = Ok <-> spec_put_enabled (abs s) f k (the "exactly when");
    a targeted get that succeeds returns the requested frame."

   `abs g l` is the ownership state (allocated frames, huge frames allocated whole) read off the lower
   allocator's metadata (Spec.v); `spec_get_enabled s f k` = block (f, 2^k) is aligned, in range and entirely
   free; `spec_get` marks it (whole if k >= huge order); `spec_put_enabled` = every frame allocated and, for
   k >= huge order, every covered huge frame allocated whole; `spec_put` frees exactly those frames.

   Part L: the lower allocator (Lower.v) under its invariant `LowerInv`, every wf geometry, every frame count.
   Part U: the lift through the upper allocator (Upper.v): one call from any state satisfying `UpperInv`.
   Part H: every step of every history of valid-parameter calls (`gtrace`, GlueHistory.v), from any state
           satisfying UpperInv and from the states built by `llfree_new`.
   Panics are excluded by C09; Part U/H need the policy hypotheses `pol_refl_match`, `pol_demote_trans`
   (get only), which hold for the built-in policies (PolicyFacts.v).
   Proofs: LowerGetProofs.v, LowerPutProofs.v, UpperGetProofs.v, UpperPutProofs.v, GlueHistory.v. *)
From Coq Require Import List NArith.
From LLF Require Import Base Row Bitfield Lower Spec LowerFacts LowerGetProofs LowerPutProofs LowerFactsProofs
  Upper UpperInvDef UpperPrims UpperPutProofs UpperGetProofs Handoff GlueProofs GlueHistory.

(* ============================== Part L: lower allocator ============================== *)

(* search in the tree of row `start`: a success returns a block that was enabled, and the ownership state
   changes by exactly that block *)
Theorem C02_lower_get_ok : forall g, wf_geom g -> forall l start k f l',
  LowerInv g l -> (k <= tord g)%nat -> (start * 64) / TF g < ntab g (frames l) ->
  lower_get g l start k = (Ok f, l') ->
  f / TF g = (start * 64) / TF g /\
  spec_get_enabled (abs g l) f k = true /\
  abs g l' = spec_get g (abs g l) f k /\
  LowerInv g l' /\ frames l' = frames l /\
  (forall t, tree_free g l' t + delta t (f / TF g) (pow2 k) = tree_free g l t).
Proof. exact lower_get_ok. Qed.
Print Assumptions C02_lower_get_ok.

(* a failure is Err Memory and changes nothing *)
Theorem C02_lower_get_err : forall g, wf_geom g -> forall l start k e l',
  LowerInv g l -> (k <= tord g)%nat -> (start * 64) / TF g < ntab g (frames l) ->
  lower_get g l start k = (Err e, l') ->
  e = EMemory /\ l' = l /\
  forall f, f / TF g = (start * 64) / TF g -> spec_get_enabled (abs g l) f k = false.
Proof. exact lower_get_err. Qed.
Print Assumptions C02_lower_get_err.

(* allocation of a specific block succeeds exactly when the block is enabled *)
Theorem C02_lower_get_at_ok_iff : forall g, wf_geom g -> forall l f k,
  LowerInv g l -> (k <= tord g)%nat -> aligned f k = true -> f + pow2 k <= frames l ->
  ((exists l', lower_get_at g l f k = (Ok tt, l')) <-> spec_get_enabled (abs g l) f k = true).
Proof. exact lower_get_at_ok_iff. Qed.
Print Assumptions C02_lower_get_at_ok_iff.

Theorem C02_lower_get_at_ok : forall g, wf_geom g -> forall l f k u l',
  LowerInv g l -> (k <= tord g)%nat -> aligned f k = true -> f + pow2 k <= frames l ->
  lower_get_at g l f k = (Ok u, l') ->
  spec_get_enabled (abs g l) f k = true /\ abs g l' = spec_get g (abs g l) f k /\ LowerInv g l' /\
  frames l' = frames l /\
  (forall t, tree_free g l' t + delta t (f / TF g) (pow2 k) = tree_free g l t).
Proof. exact lower_get_at_ok. Qed.
Print Assumptions C02_lower_get_at_ok.

Theorem C02_lower_get_at_err : forall g, wf_geom g -> forall l f k e l',
  LowerInv g l -> (k <= tord g)%nat -> aligned f k = true -> f + pow2 k <= frames l ->
  lower_get_at g l f k = (Err e, l') ->
  e = EMemory /\ l' = l /\ spec_get_enabled (abs g l) f k = false.
Proof. exact lower_get_at_err. Qed.
Print Assumptions C02_lower_get_at_err.

(* a free (aligned, in range, order <= tree order) succeeds exactly when the specification enables it *)
Theorem C02_lower_put_ok_iff : forall g, wf_geom g -> forall l f k,
  LowerInv g l -> aligned f k = true -> f + pow2 k <= frames l -> (k <= tord g)%nat ->
  (fst (lower_put g l f k) = Ok tt <-> spec_put_enabled g (abs g l) f k = true).
Proof. intros g WF l f k H1 H2 H3 H4. exact (lower_put_ok_iff g WF l f k (conj H1 (conj H2 (conj H3 H4)))). Qed.
Print Assumptions C02_lower_put_ok_iff.

Theorem C02_lower_put_ok : forall g, wf_geom g -> forall l f k l',
  LowerInv g l -> aligned f k = true -> f + pow2 k <= frames l -> (k <= tord g)%nat ->
  lower_put g l f k = (Ok tt, l') ->
  abs g l' = spec_put g (abs g l) f k /\ LowerInv g l'.
Proof. intros g WF l f k l' H1 H2 H3 H4. exact (lower_put_ok g WF l f k l' (conj H1 (conj H2 (conj H3 H4)))). Qed.
Print Assumptions C02_lower_put_ok.

Theorem C02_lower_put_err : forall g, wf_geom g -> forall l f k e l',
  LowerInv g l -> aligned f k = true -> f + pow2 k <= frames l -> (k <= tord g)%nat ->
  lower_put g l f k = (Err e, l') ->
  e = EMemory /\ l' = l /\ spec_put_enabled g (abs g l) f k = false.
Proof. intros g WF l f k e l' H1 H2 H3 H4. exact (lower_put_err g WF l f k e l' (conj H1 (conj H2 (conj H3 H4)))). Qed.
Print Assumptions C02_lower_put_err.

(* ============================== Part U: one call of the upper allocator ============================== *)
(* `ghost_lift f x` runs the call on the allocator state `us x` and leaves the ghost `off x` alone.
   `valid_req u rq`: the slot index of the request, if any, is below the slot count of its class. *)

Theorem C02_upper_get : forall g policy,
  wf_geom g -> pol_refl_match policy -> pol_demote_trans policy ->
  forall x frame rq r x',
    UpperInv g policy x -> valid_req (us x) rq ->
    ghost_lift (fun u => llfree_get g policy u frame rq) x = (r, x') ->
    match r with
    | Ok (f, c) =>
        spec_get_enabled (abs g (low (us x))) f (r_order rq) = true /\
        abs g (low (us x')) = spec_get g (abs g (low (us x))) f (r_order rq) /\
        (forall f0, frame = Some f0 -> f = f0)
    | Err _ => low (us x') = low (us x) /\ abs g (low (us x')) = abs g (low (us x))
    | Panic _ => False
    end.
Proof.
  intros g policy WF PR PT x frame rq r x' HI Hv H. apply valid_req_local in Hv.
  exact (llfree_get_spec g policy WF (lower_facts_proved g WF) PR PT x frame rq r x' HI Hv H).
Qed.
Print Assumptions C02_upper_get.

(* put: rejected by the argument check (Err Argument, nothing changes), or Ok exactly when the specification
   enables the free, with the ownership state changed by spec_put; a failing put changes nothing at all *)
Theorem C02_upper_put : forall g policy, wf_geom g ->
  forall x f rq r x',
    UpperInv g policy x -> valid_req (us x) rq ->
    ghost_lift (fun u => llfree_put g policy u f rq) x = (r, x') ->
    match check g (us x) f rq with
    | Ok _ =>
        (r = Ok tt <-> spec_put_enabled g (abs g (low (us x))) f (r_order rq) = true) /\
        (r = Ok tt -> abs g (low (us x')) = spec_put g (abs g (low (us x))) f (r_order rq)) /\
        (r <> Ok tt -> r = Err EMemory /\ x' = x)
    | Err _ => r = Err EArgument /\ x' = x
    | Panic _ => False
    end.
Proof.
  intros g policy WF x f rq r x' HI Hv H.
  destruct (put_step g policy WF x f rq r x' HI Hv H) as (_ & _ & _ & P). exact P.
Qed.
Print Assumptions C02_upper_put.

(* drain and change_tree do not touch the lower allocator: the ownership state is unchanged *)
Theorem C02_upper_drain : forall g policy, wf_geom g ->
  forall x r x', UpperInv g policy x -> ghost_lift (llfree_drain g policy) x = (r, x') ->
    r = Ok tt /\ low (us x') = low (us x).
Proof.
  intros g policy WF x r x' HI H.
  destruct (drain_step g policy WF x r x' HI H) as (_ & _ & A & B & _). auto.
Qed.
Print Assumptions C02_upper_drain.

Theorem C02_upper_change : forall g policy, wf_geom g ->
  forall x m ch r x', UpperInv g policy x -> change_cfg (us x) ch -> ghost_change g x m ch = (r, x') ->
    low (us x') = low (us x).
Proof.
  intros g policy WF x m ch r x' HI Hc H.
  destruct (change_step g policy WF x m ch r x' HI Hc H) as (_ & _ & A & _). exact A.
Qed.
Print Assumptions C02_upper_change.

(* ============================== Part H: every step of every history ============================== *)
(* `grun g policy x0 ops` runs the history (stopping at the first Panic, which C09 excludes);
   `gtrace g policy x0 ops` lists its steps (state before, call, output, state after);
   `ops_valid u0 ops`: every call has valid parameters w.r.t. the configuration of the initial state. *)

(* erasing the ghost from the run gives the plain history runner of Handoff.v (C07) *)
Theorem C02_run_erases : forall g policy ops x,
  run_ops g policy (us x) ops = (fst (grun g policy x ops), us (snd (grun g policy x ops))).
Proof. exact grun_erase. Qed.
Print Assumptions C02_run_erases.

(* the steps listed by gtrace are the calls of the history, each made from the state reached by the calls
   before it *)
Theorem C02_trace_sound : forall g policy ops x0 s, In s (gtrace g policy x0 ops) ->
  gstep g policy (st_before s) (st_op s) = (st_out s, st_after s) /\
  exists pre post, ops = pre ++ st_op s :: post /\ st_before s = snd (grun g policy x0 pre) /\
                   Forall (fun y => out_panic y = false) (fst (grun g policy x0 pre)).
Proof. exact gtrace_sound. Qed.
Print Assumptions C02_trace_sound.

(* ... and, when no call panics (C09), all of them *)
Theorem C02_trace_complete : forall g policy ops x,
  Forall (fun y => out_panic y = false) (fst (grun g policy x ops)) ->
  map st_op (gtrace g policy x ops) = ops /\ map st_out (gtrace g policy x ops) = fst (grun g policy x ops).
Proof. intros g policy ops x H. split; [apply gtrace_ops; exact H|apply gtrace_outs]. Qed.
Print Assumptions C02_trace_complete.

Theorem C02_history_get : forall g policy,
  wf_geom g -> pol_refl_match policy -> pol_demote_trans policy ->
  forall x0 ops, UpperInv g policy x0 -> ops_valid (us x0) ops ->
  forall x frame rq r x', In (x, OGet frame rq, RGet r, x') (gtrace g policy x0 ops) ->
    match r with
    | Ok (f, c) =>
        spec_get_enabled (abs g (low (us x))) f (r_order rq) = true /\
        abs g (low (us x')) = spec_get g (abs g (low (us x))) f (r_order rq) /\
        (forall f0, frame = Some f0 -> f = f0)
    | Err _ => low (us x') = low (us x)
    | Panic _ => False
    end.
Proof.
  intros g policy WF PR PT x0 ops HI V x frame rq r x' Hin.
  destruct (hist_get g policy WF PR PT ops x0 x frame rq r x' HI V Hin) as (_ & _ & _ & H).
  destruct r as [[f c]|e|s]; tauto.
Qed.
Print Assumptions C02_history_get.

Theorem C02_history_put : forall g policy,
  wf_geom g -> pol_refl_match policy -> pol_demote_trans policy ->
  forall x0 ops, UpperInv g policy x0 -> ops_valid (us x0) ops ->
  forall x f rq r x', In (x, OPut f rq, RPut r, x') (gtrace g policy x0 ops) ->
    match check g (us x) f rq with
    | Ok _ =>
        (r = Ok tt <-> spec_put_enabled g (abs g (low (us x))) f (r_order rq) = true) /\
        (r = Ok tt -> abs g (low (us x')) = spec_put g (abs g (low (us x))) f (r_order rq)) /\
        (r <> Ok tt -> r = Err EMemory /\ x' = x)
    | Err _ => r = Err EArgument /\ x' = x
    | Panic _ => False
    end.
Proof.
  intros g policy WF PR PT x0 ops HI V x f rq r x' Hin.
  destruct (hist_put g policy WF PR PT ops x0 x f rq r x' HI V Hin) as (_ & _ & _ & H). exact H.
Qed.
Print Assumptions C02_history_put.

Theorem C02_history_drain_change : forall g policy,
  wf_geom g -> pol_refl_match policy -> pol_demote_trans policy ->
  forall x0 ops, UpperInv g policy x0 -> ops_valid (us x0) ops ->
  (forall x r x', In (x, ODrain, RDrain r, x') (gtrace g policy x0 ops) -> low (us x') = low (us x)) /\
  (forall x m ch r x', In (x, OChange m ch, RChange r, x') (gtrace g policy x0 ops) -> low (us x') = low (us x)).
Proof.
  intros g policy WF PR PT x0 ops HI V. split.
  - intros x r x' Hin. destruct (hist_drain g policy WF PR PT ops x0 x r x' HI V Hin) as (_ & _ & _ & H & _). exact H.
  - intros x m ch r x' Hin. destruct (hist_change g policy WF PR PT ops x0 x m ch r x' HI V Hin) as (_ & _ & H & _). exact H.
Qed.
Print Assumptions C02_history_drain_change.

(* from every initial state: `llfree_new` in mode FreeAll / AllocAll (or Recover over a buffer satisfying
   `LowerPre`: `init_pre`), any frame count, any classing with ids < 8 and a configured default class, local
   buffer without reservations; `step_ok` (GlueHistory.v) packages the per-call facts stated above together
   with C13 / C15 / C04 / C14 *)
Theorem C02_history_from_new : forall g policy,
  wf_geom g -> pol_refl_match policy -> pol_demote_trans policy ->
  forall fr i classing d lbuf tbuf sbuf,
    init_pre g fr i lbuf ->
    Forall (fun s => s_pres s = false) sbuf ->
    (forall c k, In (c, k) classing -> c < 8) ->
    (exists k, In (d, k) classing) ->
    exists u, llfree_new g fr i classing d lbuf tbuf sbuf = Ok u /\ UpperInv g policy (ustate_new u) /\
      forall ops, ops_valid u ops ->
        Forall (step_ok g policy) (gtrace g policy (ustate_new u) ops) /\
        Forall (fun y => out_panic y = false) (fst (run_ops g policy u ops)) /\
        UpperInv g policy (snd (grun g policy (ustate_new u) ops)).
Proof. exact new_run_correct. Qed.
Print Assumptions C02_history_from_new.

(* non-vacuity: a history on the 3-tree example allocator of UpperGetProofs.v (geometry 9/2, 5000 frames,
   classes 0 and 1 with two slots each): an allocation through a slot, a targeted allocation, a free that
   the model enables (Ok) and the same free again (Err Memory, "exactly when") *)
Example C02_example :
  let ops := [OGet None (GetExamples.rq 0 0 (Some 0)); OGet (Some 0) (GetExamples.rq 9 1 None);
              OPut 0 (GetExamples.rq 9 1 None); OPut 0 (GetExamples.rq 9 1 None)] in
  Forall (fun o => match o with OGet _ r | OPut _ r => GetExamples.idx_okb GetExamples.u0 r = true | _ => True end) ops /\
  fst (grun GetExamples.g GetExamples.pol GetExamples.x0 ops) =
    [RGet (Ok (2048, 0)); RGet (Ok (0, 1)); RPut (Ok tt); RPut (Err EMemory)].
Proof.
  cbv zeta. split; [|vm_compute; reflexivity].
  repeat (apply Forall_cons; [vm_compute; reflexivity|]). apply Forall_nil.
Qed.
