(* C03 - Concurrent calls never panic and frees of held blocks always succeed.
   Part L (lower allocator, machine M1, every schedule, any number of threads, most general client):
   the only reachable panic is the known one (lower.rs `partial_put_huge`: "Exceeding retries", finding
   D13); "Undo failed", "Failed undo toggle", "Failed undo search", "undo failed", "Failed partial clear",
   "Inc failed", the unwrap of get_at's undo and every index site are unreachable; a free of a block the
   client may free never finishes with an error.  The known panic is reachable (witness).
   Part U (tree entries, local slots: trees.rs / local.rs / llfree.rs under interleaving) is NOT a theorem
   here: sequentially it is C09; concurrently it is covered by exploration only (machine M2 step
   correspondence + the no-panic oracle on every explored schedule).  Proofs: Conc*.v. *)
From LLF Require Import Base Row Bitfield Lower Spec LowerMachine ConcInvDef ConcInv ConcInvInit ConcProps.

Theorem C03_only_known_panic : forall g l held0 n sch, wf_geom g -> LowerInv g l -> HeldInit g l held0 ->
  forall x, In x (panicked (mrun g sch (boot l held0 n))) -> x = SExceedingRetries.
Proof. intros g l held0 n sch WF I H. exact (proj2 (conc_safe g l held0 n sch WF I H)). Qed.
Print Assumptions C03_only_known_panic.

(* a step of a thread that is freeing a block never completes the call with an error *)
Theorem C03_free_of_held_never_fails : forall g l held0 n sch t f k p c0 e,
  wf_geom g -> LowerInv g l -> HeldInit g l held0 ->
  let s := mrun g sch (boot l held0 n) in
  nth_error (ms_pool s) t = Some (TRun (CPut f k) p) ->
  nth_error (ms_pool (fst (mstep g s t c0))) t <> Some (TIdle (Some (Err e))).
Proof. exact conc_put_never_err. Qed.
Print Assumptions C03_free_of_held_never_fails.

(* the known finding: two frees of different parts of one held huge frame, the first frozen between
   filling the bitfield and clearing the marker; the second gives up after RETRIES loads *)
Theorem C03_known_panic_reachable : exists sch,
  In SExceedingRetries (panicked (mrun g9 sch (boot (reserve_all g9 1024) (alloc_all_held g9 1024) 2))).
Proof. exact conc_known_panic. Qed.
Print Assumptions C03_known_panic_reachable.
