(* C05 (whole allocator) - Crash at any point: the crash point is ANY state `s` reachable by machine M2
   (UpperMachine.v: concurrent get / put / drain / change_tree calls of LLFree under any schedule of any number of
   threads, one transition per atomic access of a tree entry, a local slot or the lower allocator).  The persistent
   metadata of the whole allocator is its lower allocator `low (m2_up s)`; trees, local slots and thread states are
   volatile and lost.  Property theorems only; the proofs are in UpperCrash.v (the M2 invariant contains M1's
   invariant for the lower view `m1_of`, over which Crash.v is stated).
   `m2_held s`      blocks returned by completed upper allocations and not passed to a free that has started.
   `in_hand g s`    blocks an in-flight upper get has already taken from the lower allocator (its lower call
                    completed) but not yet returned to its caller: part of "touched by an in-flight call".
   `m1_of g s`      the view of s as a state of the lower machine: pool = the lower calls the upper calls are
                    currently inside of, held = m2_held s ++ in_hand g s.
   scope: as Properties/Conc.v (`sched_valid`: valid parameters, change_tree(Online) not concurrent). *)
From LLF Require Import Base Row Bitfield Lower Spec Sorted Upper UpperInvDef LowerFacts LowerMachine ConcBase ConcInvDef
  UpperPrims ConcInv RecoverProofs Crash UpperMachine UpperConcInvDef UpperConcInv UpperConcProps UpperCrash.

Theorem C05u_crash_safe : forall g policy u held0 n sch,
  wf_geom g -> pol_refl_match policy -> pol_demote_trans policy ->
  UpperInv g policy (ustate_new u) -> HeldInit g (low u) held0 -> sched_valid g u sch ->
  let s := urun g policy sch (uboot u held0 n) in
  let l := low (m2_up s) in
  let m := lower_recover g l in
  LowerPre g l /\ LowerInv g m /\ abs g m = abs g l /\
  (forall f k, In (f, k) (m2_held s ++ in_hand g s) -> spec_put_enabled g (abs g m) f k = true) /\
  (forall f, N.testbit (o_alloc (abs g m)) f = true ->
     covered_by_held (m1_of g s) f \/ touched g (m1_of g s) f).
Proof. exact conc_upper_crash_safe. Qed.
Print Assumptions C05u_crash_safe.

(* LLFree::new(.., Init::Recover) over the crashed metadata and zeroed volatile buffers: succeeds, sequential
   invariant, fast = exact = free frames of the crashed ownership state, validate() passes *)
Theorem C05u_counts_agree_after_recovery : forall g policy u held0 n sch classing d tbuf sbuf,
  wf_geom g -> pol_refl_match policy -> pol_demote_trans policy ->
  UpperInv g policy (ustate_new u) -> HeldInit g (low u) held0 -> sched_valid g u sch ->
  Forall (fun sl => s_pres sl = false) sbuf ->
  (forall c k, In (c, k) classing -> c < 8) ->
  (exists k, In (d, k) classing) ->
  let s := urun g policy sch (uboot u held0 n) in
  let l := low (m2_up s) in
  exists u' ts,
    llfree_new g (frames l) IRecover classing d l tbuf sbuf = Ok u' /\
    UpperInv g policy (ustate_new u') /\
    low u' = lower_recover g l /\
    llfree_tree_stats g u' = Ok ts /\
    ts_free ts = free_frames (llfree_stats g u') /\
    ts_free ts = exact_free (abs g l) /\
    llfree_validate g u' = Ok tt.
Proof. exact conc_upper_crash_counts. Qed.
Print Assumptions C05u_counts_agree_after_recovery.

(* ... and with ANY tree change in the schedule (a concurrent change_tree(.., Online) included) and NO hypothesis on
   the policy (UpperConcWeak.v: the weak invariant keeps M1's invariant for the lower view although the upper
   accounting may be broken by an Online race, finding D16).  `m1w g s L` is `m1_of g s` with a ghost list L of blocks
   leaked by gets that panicked in upper code after the lower allocator had handed them out. *)
From LLF Require Import UpperConcWeak.
Theorem C05u_crash_safe_with_any_tree_change : forall g policy u held0 n sch,
  wf_geom g ->
  UpperInv g policy (ustate_new u) ->
  HeldInit g (low u) held0 ->
  sched_valid_w g u sch ->
  let s := urun g policy sch (uboot u held0 n) in
  let l := low (m2_up s) in
  let m := lower_recover g l in
  LowerPre g l /\ LowerInv g m /\ abs g m = abs g l /\
  (forall f k, In (f, k) (m2_held s ++ flat_map (inflight g) (m2_pool s)) -> spec_put_enabled g (abs g m) f k = true) /\
  exists L, forall f, N.testbit (o_alloc (abs g m)) f = true -> covered_by_held (m1w g s L) f \/ touched g (m1w g s L) f.
Proof. exact conc_upper_crash_safe_weak. Qed.
Print Assumptions C05u_crash_safe_with_any_tree_change.
