(* C16 - Tree search tries the best-rated fallback candidates, best first.
   Property theorems only; proofs live in SortedProofs.v (candidate buffer) and
   SearchBestProofs.v (visiting order of `search_best`).
   `le` is the boolean `<=` on keys: any total preorder.  Elements are (key, value) pairs compared
   by key only (`OrdBy`).  `asc_by le` / `desc_by le` = StronglySorted by key, ascending / descending. *)
From LLF Require Import Base Sorted SortedProofs.
From Coq Require Import Sorting.Permutation.

(* For every capacity, total preorder and insertion sequence: the buffer holds min(cap, |xs|)
   elements in ascending order, they are a sub-multiset of the insertions, and every discarded
   element rates no better than every kept one (the kept ones are the best min(cap, |xs|)). *)
Theorem C16_sorted_topN :
  forall (K V : Type) (le : K -> K -> bool),
    (forall a b, le a b || le b a = true) ->
    (forall a b c, le a b = true -> le b c = true -> le a c = true) ->
    forall (cap : nat) (xs : list (K * V)),
      let kept := sb_add_all le cap xs in
      length kept = Nat.min cap (length xs) /\
      asc_by le kept /\
      exists dropped, Permutation xs (kept ++ dropped) /\
                      forall d k, In d dropped -> In k kept -> le (fst d) (fst k) = true.
Proof. exact @sb_add_all_topN. Qed.
Print Assumptions C16_sorted_topN.

(* The candidates are tried best first: the read order is descending and consists of exactly the
   kept elements. *)
Theorem C16_best_first :
  forall (K V : Type) (le : K -> K -> bool),
    (forall a b, le a b || le b a = true) ->
    (forall a b c, le a b = true -> le b c = true -> le a c = true) ->
    forall (cap : nat) (xs : list (K * V)),
      let tried := sb_iter_rev (sb_add_all le cap xs) in
      desc_by le tried /\ Permutation tried (sb_add_all le cap xs).
Proof. exact @sb_iter_rev_best_first. Qed.
Print Assumptions C16_best_first.

(* The first candidate tried rates at least as high as everything that was inserted. *)
Theorem C16_first_is_max :
  forall (K V : Type) (le : K -> K -> bool),
    (forall a b, le a b || le b a = true) ->
    (forall a b c, le a b = true -> le b c = true -> le a c = true) ->
    forall (cap : nat) (xs : list (K * V)) b rest,
      sb_iter_rev (sb_add_all le cap xs) = b :: rest ->
      forall x, In x xs -> le (fst x) (fst b) = true.
Proof. exact @sb_iter_rev_head_max. Qed.
Print Assumptions C16_first_is_max.

(* Finding D9, for the record (not a property theorem): the pinned, unrepaired `add` loses the
   maximum: capacity 3, insert key 5 then key 3. *)
Lemma C16_old_code_refuted :
  fold_left (old_add N.leb) [(5,0); (3,1)] [None; None; None] = [Some (3,1); None; None].
Proof. exact C16_old_refuted. Qed.
