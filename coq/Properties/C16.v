(* C16 - Tree search tries the best-rated fallback candidates, best first.
   Property theorems only; proofs live in SortedProofs.v (candidate buffer) and
   SearchBestProofs.v (visiting order of `search_best`).
   `le` is the boolean `<=` on keys: any total preorder.  Elements are (key, value) pairs compared
   by key only (`OrdBy`).  `asc_by le` / `desc_by le` = StronglySorted by key, ascending / descending. *)
From LLF Require Import Base Sorted SortedProofs.
From Coq Require Import Sorting.Permutation.

(* For every capacity, total preorder and insertion sequence: the buffer holds min(cap, |xs|)
   elements in ascending order, they are a sub-multiset of the insertions, and every discarded
   element rates no better than every kept one (the kept ones are the best min(cap, |xs|)). *)
Theorem C16_sorted_topN :
  forall (K V : Type) (le : K -> K -> bool),
    (forall a b, le a b || le b a = true) ->
    (forall a b c, le a b = true -> le b c = true -> le a c = true) ->
    forall (cap : nat) (xs : list (K * V)),
      let kept := sb_add_all le cap xs in
      length kept = Nat.min cap (length xs) /\
      asc_by le kept /\
      exists dropped, Permutation xs (kept ++ dropped) /\
                      forall d k, In d dropped -> In k kept -> le (fst d) (fst k) = true.
Proof. exact @sb_add_all_topN. Qed.
Print Assumptions C16_sorted_topN.

(* The candidates are tried best first: the read order is descending and consists of exactly the
   kept elements. *)
Theorem C16_best_first :
  forall (K V : Type) (le : K -> K -> bool),
    (forall a b, le a b || le b a = true) ->
    (forall a b c, le a b = true -> le b c = true -> le a c = true) ->
    forall (cap : nat) (xs : list (K * V)),
      let tried := sb_iter_rev (sb_add_all le cap xs) in
      desc_by le tried /\ Permutation tried (sb_add_all le cap xs).
Proof. exact @sb_iter_rev_best_first. Qed.
Print Assumptions C16_best_first.

(* The first candidate tried rates at least as high as everything that was inserted. *)
Theorem C16_first_is_max :
  forall (K V : Type) (le : K -> K -> bool),
    (forall a b, le a b || le b a = true) ->
    (forall a b c, le a b = true -> le b c = true -> le a c = true) ->
    forall (cap : nat) (xs : list (K * V)) b rest,
      sb_iter_rev (sb_add_all le cap xs) = b :: rest ->
      forall x, In x xs -> le (fst x) (fst b) = true.
Proof. exact @sb_iter_rev_head_max. Qed.
Print Assumptions C16_first_is_max.

(* Finding D9, for the record (not a property theorem): the pinned, unrepaired `add` loses the
   maximum: capacity 3, insert key 5 then key 3. *)
Lemma C16_old_code_refuted :
  fold_left (old_add N.leb) [(5,0); (3,1)] [None; None; None] = [Some (3,1); None; None].
Proof. exact C16_old_refuted. Qed.

(* ---- the visiting order of `Trees::search_best` (model: SearchBest.v) ---- *)
From LLF Require Import SearchBest SearchBestProofs.

(* `access` is called on the perfect matches in walk order, then on the retained candidates:
   the best min(cap, #candidates) of the candidates met, in descending (policy, entirely free)
   order (assuming every call answers Err(Memory); otherwise the calls are a prefix of this). *)
Theorem C16_search_order :
  forall (cap : nat) (tree_frames : N) (rate : N -> N -> policy) (trees : list tentry)
         (start offset len : N),
    let w := walk (N.of_nat (length trees)) start offset len in
    exists tried,
      search_order cap tree_frames rate trees start offset len =
        walk_direct tree_frames rate trees w ++ map snd tried /\
      desc_by skey_le tried /\
      length tried = Nat.min cap (length (walk_cands tree_frames rate trees w)) /\
      exists dropped,
        Permutation (walk_cands tree_frames rate trees w) (tried ++ dropped) /\
        forall d k, In d dropped -> In k tried -> skey_le (fst d) (fst k) = true.
Proof. exact search_order_spec. Qed.
Print Assumptions C16_search_order.

(* One search never accesses a tree twice (len <= ntrees), and only trees the walk looked at. *)
Theorem C16_search_once :
  forall (cap : nat) (tree_frames : N) (rate : N -> N -> policy) (trees : list tentry)
         (start offset len : N),
    let ntrees := N.of_nat (length trees) in
    0 < ntrees -> len <= ntrees -> start + 2 * ntrees < 2 ^ 64 ->
    NoDup (search_order cap tree_frames rate trees start offset len) /\
    incl (search_order cap tree_frames rate trees start offset len) (walk ntrees start offset len).
Proof.
  exact (fun cap tf rate trees start offset len Hn Hl Hb =>
           conj (search_order_NoDup cap tf rate trees start offset len Hn Hl Hb)
                (search_order_incl cap tf rate trees start offset len)).
Qed.
Print Assumptions C16_search_once.

(* The walk looks only at existing trees and at none twice when len <= ntrees ... *)
Theorem C16_walk_once :
  forall ntrees start offset len : N,
    0 < ntrees -> len <= ntrees -> start + 2 * ntrees < 2 ^ 64 ->
    NoDup (walk ntrees start offset len) /\
    Forall (fun idx => idx < ntrees) (walk ntrees start offset len).
Proof.
  exact (fun n s o l Hn Hl Hb => conj (walk_NoDup n s o l Hn Hl Hb) (walk_in_range n s o l Hn)).
Qed.
Print Assumptions C16_walk_once.

(* ... and at every tree exactly once when offset = 0 and len = ntrees. *)
Theorem C16_walk_all :
  forall ntrees start : N,
    0 < ntrees -> start + 2 * ntrees < 2 ^ 64 ->
    Permutation (walk ntrees start 0 ntrees) (nrange 0 ntrees).
Proof. exact walk_all. Qed.
Print Assumptions C16_walk_all.
