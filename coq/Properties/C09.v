(* C09 - No panic or abort for any valid-parameter call sequence or configuration.

   "For every geometry, frame count (0 included), init mode (Recover over any buffer satisfying LowerInv up to
    counters), classing with configured default and any slot counts (zero included), policy with the stated
    hypotheses, and every history of valid-parameter calls (slot index below the class's slot count or none;
    change_tree naming any tree id, any configured class), no call returns Panic."

   The model is Upper.v / Lower.v (the code with the repairs D1-D6, D14, D15 applied); every slice index,
   checked subtraction, `unwrap`/`expect` and `assert!` of the code is a `Panic site` outcome of the model.
   A history is a list of calls `op` (Handoff.v): get / get_at, put, drain, change_tree, stats, tree_stats,
   stats_at; `run_ops` runs it, stopping at (and recording) the first Panic.

   Policy hypotheses actually needed: `pol_refl_match` (policy c c f is a Match) and `pol_demote_trans`
   (Demote composed with Match/Demote is Match/Demote); without the second one the invariant is not preserved
   (`upper_inv_needs_demote_trans`, UpperGetProofs.v; the harness's custom policy is such a policy).  Both
   hold for the built-in policies (C09_builtin and the four instances below).
   Proofs: GlueProofs.v (construction), GlueHistory.v (induction over histories) over UpperGetProofs.v,
   UpperPutProofs.v, UpperStatsProofs.v and the lower-allocator proofs. *)
From Coq Require Import List NArith.
From LLF Require Import Base Row Bitfield Lower Spec RecoverProofs Upper UpperInvDef UpperPrims UpperPutProofs
  UpperGetProofs Policies PolicyFacts Handoff GlueProofs GlueHistory.

(* ============================== valid parameters ============================== *)
(* `op_valid u o` (GlueHistory.v), written out: *)
Theorem C09_valid_parameters : forall u,
  (forall f r, op_valid u (OGet f r) <->
     match r_local r with
     | None => True
     | Some j => forall l, class_slots u (r_class r) = Some l -> j < N.of_nat (length l)
     end) /\
  (forall f r, op_valid u (OPut f r) <->
     match r_local r with
     | None => True
     | Some j => forall l, class_slots u (r_class r) = Some l -> j < N.of_nat (length l)
     end) /\
  (op_valid u ODrain <-> True) /\
  (forall m ch, op_valid u (OChange m ch) <-> (forall c, c_class ch = Some c -> class_slots u c <> None)) /\
  (op_valid u OStats <-> True) /\ (op_valid u OTreeStats <-> True) /\
  (forall f k, op_valid u (OStatsAt f k) <-> f < frames (low u)).
Proof. intros u. repeat split; auto. Qed.
Print Assumptions C09_valid_parameters.

(* validity depends only on the configuration (slot counts, configured classes, frame count), which no
   operation changes: it can be stated once, against the initial state *)
Theorem C09_validity_is_stable : forall g policy,
  wf_geom g -> pol_refl_match policy -> pol_demote_trans policy ->
  forall ops x0 o, UpperInv g policy x0 -> ops_valid (us x0) ops -> op_valid (us x0) o ->
    op_valid (us (snd (grun g policy x0 ops))) o.
Proof. exact grun_valid. Qed.
Print Assumptions C09_validity_is_stable.

(* ============================== construction ============================== *)
(* every init mode that writes the metadata (`init_pre`: FreeAll, AllocAll, or Recover over a buffer
   satisfying `LowerPre` = LowerInv without the counter clause), every frame count, every classing with class
   ids < 8 and a configured default class (any slot counts), a local buffer without reservations (zeroed):
   `LLFree::new` returns Ok and establishes the invariant *)
Theorem C09_new_ok : forall g, wf_geom g -> forall policy fr i classing d lbuf tbuf sbuf,
  init_pre g fr i lbuf ->
  Forall (fun s => s_pres s = false) sbuf ->
  (forall c k, In (c, k) classing -> c < 8) ->
  (exists k, In (d, k) classing) ->
  exists u, llfree_new g fr i classing d lbuf tbuf sbuf = Ok u /\
            UpperInv g policy (ustate_new u) /\
            low u = lower_new g fr i lbuf /\ frames (low u) = fr /\ dflt u = d /\
            present_slots u = [].
Proof. exact init_inv. Qed.
Print Assumptions C09_new_ok.

Theorem C09_init_pre : forall g fr lbuf,
  init_pre g fr IFreeAll lbuf /\ init_pre g fr IAllocAll lbuf /\
  (LowerPre g {| frames := fr; bfs := bfs lbuf; ents := ents lbuf |} -> init_pre g fr IRecover lbuf).
Proof. intros g fr lbuf. cbn [init_pre]. auto. Qed.
Print Assumptions C09_init_pre.

(* anything satisfying the lower invariant (e.g. a crashed-and-recovered or cleanly shut down allocator)
   satisfies LowerPre *)
Theorem C09_recover_pre_from_inv : forall g l, LowerInv g l -> LowerPre g l.
Proof. exact LowerInv_pre. Qed.
Print Assumptions C09_recover_pre_from_inv.

(* ============================== no call panics ============================== *)
(* from any state satisfying the invariant *)
Theorem C09_no_panic : forall g policy,
  wf_geom g -> pol_refl_match policy -> pol_demote_trans policy ->
  forall ops x0, UpperInv g policy x0 -> ops_valid (us x0) ops ->
    Forall (fun y => out_panic y = false) (fst (run_ops g policy (us x0) ops)).
Proof. exact run_ops_no_panic. Qed.
Print Assumptions C09_no_panic.

(* `out_panic y = false` says that the result carried by the output is not `Panic _` *)
Theorem C09_out_panic_spec : forall y,
  out_panic y = false <->
  match y with
  | RGet r => forall s, r <> Panic s
  | RPut r => forall s, r <> Panic s
  | RDrain r => forall s, r <> Panic s
  | RChange r => forall s, r <> Panic s
  | RStats _ => True
  | RTreeStats r => forall s, r <> Panic s
  | RStatsAt r => forall s, r <> Panic s
  end.
Proof.
  assert (P : forall A (r : res A), is_panic r = false <-> (forall s, r <> Panic s)).
  { intros A r. destruct r; cbn [is_panic]; split; intros H; try reflexivity; try discriminate.
    exfalso. eapply H. reflexivity. }
  intros [r|r|r|r|s|r|r]; cbn [out_panic]; try apply P. tauto.
Qed.
Print Assumptions C09_out_panic_spec.

(* the invariant is kept, so the argument can be iterated *)
Theorem C09_inv_preserved : forall g policy,
  wf_geom g -> pol_refl_match policy -> pol_demote_trans policy ->
  forall ops x0, UpperInv g policy x0 -> ops_valid (us x0) ops ->
    UpperInv g policy (snd (grun g policy x0 ops)).
Proof. exact grun_inv. Qed.
Print Assumptions C09_inv_preserved.

(* from construction: any policy with the two hypotheses *)
Theorem C09_from_new : forall g policy,
  wf_geom g -> pol_refl_match policy -> pol_demote_trans policy ->
  forall fr i classing d lbuf tbuf sbuf,
    init_pre g fr i lbuf ->
    Forall (fun s => s_pres s = false) sbuf ->
    (forall c k, In (c, k) classing -> c < 8) ->
    (exists k, In (d, k) classing) ->
    exists u, llfree_new g fr i classing d lbuf tbuf sbuf = Ok u /\
      forall ops, ops_valid u ops ->
        Forall (fun y => out_panic y = false) (fst (run_ops g policy u ops)).
Proof.
  intros g policy WF PR PT fr i classing d lbuf tbuf sbuf H1 H2 H3 H4.
  destruct (new_run_correct g policy WF PR PT fr i classing d lbuf tbuf sbuf H1 H2 H3 H4) as (u & E & _ & H).
  exists u. split; [exact E|]. intros ops V. apply (H ops V).
Qed.
Print Assumptions C09_from_new.

(* the repository's policies: `builtin_policy p TF` = p is one of pol_simple TF, pol_movable TF, pol_zeroed TF,
   pol_zeroslot TF (Policies.v) *)
Theorem C09_builtin : forall g policy fr i classing d lbuf tbuf sbuf,
  wf_geom g -> builtin_policy policy (TF g) ->
  init_pre g fr i lbuf ->
  Forall (fun s => s_pres s = false) sbuf ->
  (forall c k, In (c, k) classing -> c < 8) ->
  (exists k, In (d, k) classing) ->
  exists u, llfree_new g fr i classing d lbuf tbuf sbuf = Ok u /\
    forall ops, ops_valid u ops ->
      Forall (fun y => out_panic y = false) (fst (run_ops g policy u ops)).
Proof. exact builtin_no_panic. Qed.
Print Assumptions C09_builtin.

Theorem C09_builtin_policies : forall TFv,
  builtin_policy (pol_simple TFv) TFv /\ builtin_policy (pol_movable TFv) TFv /\
  builtin_policy (pol_zeroed TFv) TFv /\ builtin_policy (pol_zeroslot TFv) TFv.
Proof. intros TFv. unfold builtin_policy. auto 6. Qed.
Print Assumptions C09_builtin_policies.

(* the statement in one piece for the simple policy and the two plain init modes: every wf geometry, every
   frame count, FreeAll or AllocAll, every classing (ids < 8, default configured, any slot counts), zeroed
   local buffer, every history of valid-parameter calls: no Panic *)
Theorem C09_simple : forall g fr i classing d lbuf tbuf sbuf,
  wf_geom g -> i = IFreeAll \/ i = IAllocAll ->
  Forall (fun s => s_pres s = false) sbuf ->
  (forall c k, In (c, k) classing -> c < 8) ->
  (exists k, In (d, k) classing) ->
  exists u, llfree_new g fr i classing d lbuf tbuf sbuf = Ok u /\
    forall ops, ops_valid u ops ->
      Forall (fun y => out_panic y = false) (fst (run_ops g (pol_simple (TF g)) u ops)).
Proof.
  intros g fr i classing d lbuf tbuf sbuf WF Hi. apply builtin_no_panic; auto.
  - left; reflexivity.
  - destruct Hi as [-> | ->]; exact I.
Qed.
Print Assumptions C09_simple.

Theorem C09_movable : forall g fr i classing d lbuf tbuf sbuf,
  wf_geom g -> i = IFreeAll \/ i = IAllocAll ->
  Forall (fun s => s_pres s = false) sbuf ->
  (forall c k, In (c, k) classing -> c < 8) ->
  (exists k, In (d, k) classing) ->
  exists u, llfree_new g fr i classing d lbuf tbuf sbuf = Ok u /\
    forall ops, ops_valid u ops ->
      Forall (fun y => out_panic y = false) (fst (run_ops g (pol_movable (TF g)) u ops)).
Proof.
  intros g fr i classing d lbuf tbuf sbuf WF Hi. apply builtin_no_panic; auto.
  - right; left; reflexivity.
  - destruct Hi as [-> | ->]; exact I.
Qed.
Print Assumptions C09_movable.

Theorem C09_zeroed : forall g fr i classing d lbuf tbuf sbuf,
  wf_geom g -> i = IFreeAll \/ i = IAllocAll ->
  Forall (fun s => s_pres s = false) sbuf ->
  (forall c k, In (c, k) classing -> c < 8) ->
  (exists k, In (d, k) classing) ->
  exists u, llfree_new g fr i classing d lbuf tbuf sbuf = Ok u /\
    forall ops, ops_valid u ops ->
      Forall (fun y => out_panic y = false) (fst (run_ops g (pol_zeroed (TF g)) u ops)).
Proof.
  intros g fr i classing d lbuf tbuf sbuf WF Hi. apply builtin_no_panic; auto.
  - right; right; left; reflexivity.
  - destruct Hi as [-> | ->]; exact I.
Qed.
Print Assumptions C09_zeroed.

Theorem C09_zeroslot : forall g fr i classing d lbuf tbuf sbuf,
  wf_geom g -> i = IFreeAll \/ i = IAllocAll ->
  Forall (fun s => s_pres s = false) sbuf ->
  (forall c k, In (c, k) classing -> c < 8) ->
  (exists k, In (d, k) classing) ->
  exists u, llfree_new g fr i classing d lbuf tbuf sbuf = Ok u /\
    forall ops, ops_valid u ops ->
      Forall (fun y => out_panic y = false) (fst (run_ops g (pol_zeroslot (TF g)) u ops)).
Proof.
  intros g fr i classing d lbuf tbuf sbuf WF Hi. apply builtin_no_panic; auto.
  - right; right; right; reflexivity.
  - destruct Hi as [-> | ->]; exact I.
Qed.
Print Assumptions C09_zeroslot.

(* non-vacuity: zero frames, a class without slots, all call kinds; no output is a Panic.
   (geometry 9/2; classes 0 (no slot) and 1 (one slot), default 1; simple policy) *)
Example C09_example :
  let g := {| hord := 9; tlog := 2 |} in
  let lower0 := {| frames := 0; bfs := []; ents := [] |} in
  let rq o c l := {| r_order := o; r_class := c; r_local := l |} in
  let ops := [OGet None (rq 0%nat 0 None); OGet None (rq 0%nat 1 (Some 0)); OPut 0 (rq 0%nat 1 None); ODrain;
              OChange {| m_id := Some 5; m_class := None; m_free := 0 |} {| c_class := Some 0; c_op := Some OpOffline |};
              OStats; OTreeStats] in
  (exists u, llfree_new g 0 IFreeAll [(0, 0); (1, 1)] 1 lower0 [] [slot_none] = Ok u /\
     map out_panic (fst (run_ops g (pol_simple (TF g)) u ops)) = repeat false 7) /\
  (exists u, llfree_new g 3000 IAllocAll [(0, 0); (1, 1)] 1 lower0 [] [slot_none] = Ok u /\
     map out_panic (fst (run_ops g (pol_simple (TF g)) u (OStatsAt 2999 0 :: ops))) = repeat false 8).
Proof. cbv zeta. split; eexists; (split; [vm_compute; reflexivity|vm_compute; reflexivity]). Qed.
