(* C04 - Fast and exact accounting agree with the allocation state when quiescent.

   "UpperInv holds after new and is preserved by every call (sequential), hence after any history; and
    UpperInv s implies stats s = (exact_free, free_huge, free_trees) (abs s); stats_at at orders 0 / huge /
    tree and is_free agree with abs; tree_stats.free_frames = exact_free - sum off_t; validate s = Ok when no
    tree is offline."

   SCOPE.  These theorems are about the SEQUENTIAL model: quiescent = between two calls of a history.  The
   concurrent half of the property (the same equalities at the end of every interleaving, from
   `ConcInv /\ UpperConcInv` with no call in flight) is NOT covered by the theorems of this file.

   `abs g l` is the ownership state read off the lower allocator's metadata; `exact_free`, `free_huge_count`,
   `free_tree_count` count free frames / entirely free aligned huge frames / entirely free aligned trees of an
   ownership state (Spec.v).  `off x` is the ghost "hidden by offline" amount per tree (UpperInvDef.v).
   Proofs: LowerInitProofs.v (lower statistics), UpperStatsProofs.v (tree_stats, validate), GlueProofs.v
   (counter sums, per-frame queries, construction), GlueHistory.v (histories). *)
From Coq Require Import List NArith.
From LLF Require Import Base Row Bitfield Lower Spec LowerFacts AbsLemmas LowerInitProofs LowerFactsProofs
  Upper UpperInvDef UpperPrims UpperPutProofs UpperStatsProofs UpperGetProofs Handoff GlueProofs GlueHistory.

(* ============================== the invariant holds initially and after every history ==================== *)
(* `init_pre g fr i lbuf`: i = FreeAll or AllocAll, or i = Recover over a buffer satisfying `LowerPre` *)
Theorem C04_new_establishes_inv : forall g, wf_geom g -> forall policy fr i classing d lbuf tbuf sbuf,
  init_pre g fr i lbuf ->
  Forall (fun s => s_pres s = false) sbuf ->
  (forall c k, In (c, k) classing -> c < 8) ->
  (exists k, In (d, k) classing) ->
  exists u, llfree_new g fr i classing d lbuf tbuf sbuf = Ok u /\
            UpperInv g policy (ustate_new u) /\
            low u = lower_new g fr i lbuf /\ frames (low u) = fr /\ dflt u = d /\
            present_slots u = [].
Proof. exact init_inv. Qed.
Print Assumptions C04_new_establishes_inv.

Theorem C04_inv_after_every_history : forall g policy,
  wf_geom g -> pol_refl_match policy -> pol_demote_trans policy ->
  forall ops x0, UpperInv g policy x0 -> ops_valid (us x0) ops ->
    UpperInv g policy (snd (grun g policy x0 ops)).
Proof. exact grun_inv. Qed.
Print Assumptions C04_inv_after_every_history.

Theorem C04_inv_lower : forall g policy x, UpperInv g policy x -> LowerInv g (low (us x)).
Proof. intros g policy x H. exact (proj1 H). Qed.
Print Assumptions C04_inv_lower.

(* ============================== exact statistics ============================== *)
Theorem C04_stats_exact : forall g policy, wf_geom g -> forall x, UpperInv g policy x ->
  free_frames (llfree_stats g (us x)) = exact_free (abs g (low (us x))) /\
  free_huge (llfree_stats g (us x)) = free_huge_count g (abs g (low (us x))) /\
  free_trees (llfree_stats g (us x)) = free_tree_count g (abs g (low (us x))).
Proof. exact stats_step. Qed.
Print Assumptions C04_stats_exact.

(* the lower allocator alone *)
Theorem C04_lower_stats_exact : forall g, wf_geom g -> forall l, LowerInv g l ->
  free_frames (lower_stats g l) = exact_free (abs g l) /\
  free_huge (lower_stats g l) = free_huge_count g (abs g l) /\
  free_trees (lower_stats g l) = free_tree_count g (abs g l).
Proof. exact lower_stats_abs. Qed.
Print Assumptions C04_lower_stats_exact.

(* the exact count is the sum of the per-tree counts *)
Theorem C04_exact_is_tree_sum : forall g, wf_geom g -> forall l, LowerInv g l ->
  exact_free (abs g l) = sum_seq (nn (ntab g (frames l))) (fun i => tree_free g l (N.of_nat i)).
Proof. exact exact_free_tree_sum. Qed.
Print Assumptions C04_exact_is_tree_sum.

(* ============================== fast statistics ============================== *)
(* tree_stats.free_frames + hidden = exact free count *)
Theorem C04_fast_plus_hidden_is_exact : forall g, wf_geom g -> forall policy x ts, UpperInv g policy x ->
  llfree_tree_stats g (us x) = Ok ts ->
  ts_free ts + sumN (off x) = free_frames (llfree_stats g (us x)) /\
  ts_free ts + sumN (off x) = exact_free (abs g (low (us x))).
Proof.
  intros g WF policy x ts HI E.
  pose proof (llfree_tree_stats_free g policy WF (lower_facts_proved g WF) x HI (LS_sum g WF) ts E) as A.
  split; [exact A|]. rewrite A. exact (proj1 (stats_step g policy WF x HI)).
Qed.
Print Assumptions C04_fast_plus_hidden_is_exact.

(* ... and tree_stats always succeeds *)
Theorem C04_tree_stats_total : forall g policy, wf_geom g -> forall x, UpperInv g policy x ->
  exists ts, llfree_tree_stats g (us x) = Ok ts /\ length (ts_classes ts) = 8%nat /\
    sumN (map cs_free (ts_classes ts)) = ts_free ts /\
    sumN (map (fun c => cs_free c + cs_alloc c) (ts_classes ts)) = ntrees (us x) * TF g /\
    ts_free ts + sumN (off x) = exact_free (abs g (low (us x))).
Proof. exact tree_stats_step. Qed.
Print Assumptions C04_tree_stats_total.

(* validate() passes whenever no tree is offline *)
Theorem C04_validate_ok : forall g, wf_geom g -> forall policy x, UpperInv g policy x ->
  Forall (fun o => o = 0) (off x) -> llfree_validate g (us x) = Ok tt.
Proof.
  intros g WF policy x HI.
  exact (llfree_validate_ok g policy WF (lower_facts_proved g WF) x HI (LS_sum g WF)).
Qed.
Print Assumptions C04_validate_ok.

(* ============================== per-frame / per-huge-frame / per-tree queries ============================== *)
(* `llfree_stats_at g u f k` is `lower_stats_at g (low u) f k`; `is_free` likewise *)

(* order 0: 1 iff the frame is not allocated *)
Theorem C04_stats_at_frame : forall g, wf_geom g -> forall l f, LowerInv g l -> f < frames l ->
  lower_stats_at g l f 0 =
    Ok {| free_frames := if N.testbit (o_alloc (abs g l)) f then 0 else 1; free_huge := 0; free_trees := 0 |}.
Proof. exact lower_stats_at_0_abs. Qed.
Print Assumptions C04_stats_at_frame.

(* huge order: free_frames = managed frames of the huge frame minus the allocated ones (`alloc_in s lo n` =
   allocated frames among [lo, lo+n), `huge_len g fr h` = min fr ((h+1) HF) - h HF); it counts as a free huge
   frame iff it lies in the managed range and is entirely free *)
Theorem C04_stats_at_huge : forall g, wf_geom g -> forall l f, LowerInv g l -> f < frames l ->
  let h := f / HF g in
  exists s, lower_stats_at g l f (hord g) = Ok s /\
    free_frames s + alloc_in (abs g l) (h * HF g) (huge_len g (frames l) h) = huge_len g (frames l) h /\
    free_huge s = (if in_range (abs g l) (h * HF g) (hord g) && all_free (abs g l) (h * HF g) (hord g) then 1 else 0) /\
    free_trees s = 0.
Proof. exact lower_stats_at_huge_abs. Qed.
Print Assumptions C04_stats_at_huge.

(* tree order (what `Trees::new` and `change_tree(Online)` read): the free frames of the tree in the ownership
   state.  Only the free_frames component is covered. *)
Theorem C04_stats_at_tree : forall g, wf_geom g -> forall l t, LowerInv g l -> t < ntab g (frames l) ->
  exists s, lower_stats_at g l (t * TF g) (tord g) = Ok s /\
            free_frames s = spec_tree_free g (abs g l) t /\ free_frames s <= TF g.
Proof. exact lower_stats_at_tree_abs. Qed.
Print Assumptions C04_stats_at_tree.

(* is_free on an aligned block inside the managed range *)
Theorem C04_is_free : forall g, wf_geom g -> forall l f k,
  LowerInv g l -> (k <= tord g)%nat -> aligned f k = true -> f + pow2 k <= frames l ->
  lower_is_free g l f k = Ok (all_free (abs g l) f k).
Proof. exact lower_is_free_abs. Qed.
Print Assumptions C04_is_free.

(* nothing at or beyond `frames` is allocated or reported free *)
Theorem C04_beyond_range : forall g, wf_geom g -> forall l f, LowerInv g l -> frames l <= f ->
  alloc_at g l f = false /\ N.testbit (o_alloc (abs g l)) f = false /\
  (forall k, lower_is_free g l f k = Panic SIsFreeAssert) /\
  (forall s, lower_stats_at g l f 0 = Ok s -> s = stats0).
Proof. exact beyond_not_alloc_not_free. Qed.
Print Assumptions C04_beyond_range.

(* ============================== the queries inside a history ============================== *)
Theorem C04_history_stats : forall g policy,
  wf_geom g -> pol_refl_match policy -> pol_demote_trans policy ->
  forall x0 ops, UpperInv g policy x0 -> ops_valid (us x0) ops ->
  forall x st x', In (x, OStats, RStats st, x') (gtrace g policy x0 ops) ->
    x' = x /\
    free_frames st = exact_free (abs g (low (us x))) /\
    free_huge st = free_huge_count g (abs g (low (us x))) /\
    free_trees st = free_tree_count g (abs g (low (us x))).
Proof. intros g policy WF PR PT x0 ops HI V x st x'. exact (hist_stats g policy WF PR PT ops x0 x st x' HI V). Qed.
Print Assumptions C04_history_stats.

Theorem C04_history_tree_stats : forall g policy,
  wf_geom g -> pol_refl_match policy -> pol_demote_trans policy ->
  forall x0 ops, UpperInv g policy x0 -> ops_valid (us x0) ops ->
  forall x r x', In (x, OTreeStats, RTreeStats r, x') (gtrace g policy x0 ops) ->
    x' = x /\ exists ts, r = Ok ts /\ ts_free ts + sumN (off x) = exact_free (abs g (low (us x))).
Proof.
  intros g policy WF PR PT x0 ops HI V x r x' Hin.
  destruct (hist_tree_stats g policy WF PR PT ops x0 x r x' HI V Hin) as (A & ts & B & _ & _ & _ & C).
  split; [exact A|]. exists ts. auto.
Qed.
Print Assumptions C04_history_tree_stats.

(* non-vacuity: on the example allocator of UpperGetProofs.v (5000 frames, 3 trees) after two allocations
   and a free, the exact and the fast statistics both report 4999 free frames; after a tree is taken offline
   the fast count drops by the hidden amount (904) *)
Example C04_example :
  let ops := [OGet None (GetExamples.rq 0 0 (Some 0)); OGet (Some 0) (GetExamples.rq 9 1 None);
              OPut 0 (GetExamples.rq 9 1 None); OStats; OTreeStats; ODrain;
              OChange {| m_id := Some 2; m_class := None; m_free := 0 |} {| c_class := None; c_op := Some OpOffline |};
              OTreeStats; OStats] in
  let r := grun GetExamples.g GetExamples.pol GetExamples.x0 ops in
  map (fun y => match y with
                | RStats s => Some (free_frames s)
                | RTreeStats (Ok ts) => Some (ts_free ts)
                | _ => None end) (fst r)
    = [None; None; None; Some 4999; Some 4999; None; None; Some 4095; Some 4999] /\
  off (snd r) = [0; 0; 904] /\
  exact_free (abs GetExamples.g (low (us (snd r)))) = 4999.
Proof. cbv zeta. split; [|split]; vm_compute; reflexivity. Qed.
