(* C21 - Every call finishes in bounded steps once it runs without interference.
   Property theorems only; the proofs are in Progress.v.  Machine: LowerMachine.v (M1, one transition per
   atomic load / compare-exchange of the lower allocator).
   `solo g n s t`   n steps of thread t only, from state s.
   `settled s t`    thread t is not inside a call (idle with a result, or panicked).
   `bound g`        = TREE_HUGE * (5 * ROWS + 7) + 4 * ROWS + 15  (ROWS = HUGE_FRAMES / 64): independent of
                    the number of frames, of the memory contents and of the other threads.
   `thread_ok g s t` the loop indices in thread t's program counter are in range for its call (`pc_ok`);
                    an invariant of every schedule (C21_thread_ok_invariant), and necessary
                    (Progress.pc_ok_needed). *)
From LLF Require Import Base Row Bitfield Lower LowerMachine Progress.

(* from ANY state (any memory contents, any other threads, any ghost) in which t's pc is well-formed *)
Theorem C21_solo_terminates : forall g, wf_geom g -> forall s t, thread_ok g s t ->
  exists n, (n <= bound g)%nat /\ settled (solo g n s t) t = true.
Proof. exact solo_terminates. Qed.
Print Assumptions C21_solo_terminates.

(* the well-formedness of the pcs is preserved by every step of every thread and holds initially *)
Theorem C21_thread_ok_invariant : forall g sch l held n t, thread_ok g (mrun g sch (boot l held n)) t.
Proof. exact thread_ok_reachable. Qed.
Print Assumptions C21_thread_ok_invariant.

(* hence: from any intermediate state reachable in any interleaving *)
Theorem C21_reachable_solo_terminates : forall g, wf_geom g -> forall l held n sch t,
  exists k, (k <= bound g)%nat /\ settled (solo g k (mrun g sch (boot l held n)) t) t = true.
Proof. exact reachable_solo_terminates. Qed.
Print Assumptions C21_reachable_solo_terminates.

(* no retry loop runs on its own: a thread at the CAS of a `try_update` loop (G1C, G2C, G3C, A1C, A3C, TC,
   PS2C; `retry_site` = constructor and loop indices) has left it after one or after two solo steps, in
   every state *)
Theorem C21_retry_loops_bounded : forall g s t c p k,
  nth_error (ms_pool s) t = Some (TRun c p) -> retry_site p = Some k ->
  ~ at_site (solo g 1 s t) t k \/ ~ at_site (solo g 2 s t) t k.
Proof. exact retry_loops_bounded. Qed.
Print Assumptions C21_retry_loops_bounded.

(* the only program point that gives up because ANOTHER thread made no progress is the bounded spin of
   partial_put_huge *)
Theorem C21_wait_only_PP3 : forall g s t c p c0 c',
  nth_error (ms_pool s) t = Some (TRun c p) ->
  nth_error (ms_pool (fst (mstep g s t c0))) t = Some (TPanic SExceedingRetries c') ->
  exists i, p = PP3 i.
Proof. exact exceeding_retries_only_PP3. Qed.
Print Assumptions C21_wait_only_PP3.

(* ... and there it does wait (known finding D13, lower.rs:469-470): a reachable state in which thread 1
   spins on the marker that thread 0 (stopped before its CAS) still has to clear; alone, thread 1 panics
   "Exceeding retries"; after one step of thread 0 the same call completes *)
Theorem C21_known_wait :
  exists (g : geom) (sch : list (nat * call)) (c : call),
    wf_geom g /\
    let s := mrun g sch (boot (reserve_all g 256) (alloc_all_held g 256) 2) in
    held_ok s = true /\
    nth_error (ms_pool s) 1 = Some (TRun c (PP3 0)) /\
    rd_ent s (c_huge g c) = Some MARK /\
    nth_error (ms_pool s) 0 = Some (TRun (CPut 0 0) (PP2 MARK)) /\
    nth_error (ms_pool (solo g 4 s 1)) 1 = Some (TPanic SExceedingRetries c) /\
    nth_error (ms_pool (solo g 5 (fst (mstep g s 0 c)) 1)) 1 = Some (TIdle (Some (Ok 0))).
Proof. exact known_wait. Qed.
Print Assumptions C21_known_wait.
