(* C13 - The class reported for an allocation is one the policy permits.

   "Every Ok (f, c') of a get with request class c has c' = c or exists t free, c' = t /\ policy c t free in
    {Match _, Steal}.  Holds for any policy, including ones that return Invalid for some pairs."

   This is the sequential corollary (model Upper.v): a fact about a single call from ANY state (no invariant,
   no hypothesis on the policy, any geometry), hence about every call of every history.  The statement for
   arbitrary interleavings (M2) is not part of this file.
   `class_ok policy c c'` := c' = c \/ exists t fr, c' = t /\ (policy c t fr is a Match \/ policy c t fr = Steal).
   Proofs: UpperGetProofs.v (`llfree_get_class`), GlueHistory.v. *)
From Coq Require Import List NArith.
From LLF Require Import Base Row Bitfield Lower Spec Upper UpperInvDef UpperPrims UpperGetProofs Policies
  Handoff GlueProofs GlueHistory.

Theorem C13_class_ok_def : forall policy c c',
  class_ok policy c c' <->
  (c' = c \/ exists t fr, c' = t /\ (pol_is_match (policy c t fr) = true \/ policy c t fr = PSteal)).
Proof. intros. reflexivity. Qed.
Print Assumptions C13_class_ok_def.

Theorem C13_get_class : forall g policy u frame r f c u',
  llfree_get g policy u frame r = (Ok (f, c), u') -> class_ok policy (r_class r) c.
Proof. exact llfree_get_class. Qed.
Print Assumptions C13_get_class.

(* every allocation of every history (the runner records the class in the output) *)
Theorem C13_history : forall g policy,
  wf_geom g -> pol_refl_match policy -> pol_demote_trans policy ->
  forall x0 ops, UpperInv g policy x0 -> ops_valid (us x0) ops ->
  forall x frame rq f c x', In (x, OGet frame rq, RGet (Ok (f, c)), x') (gtrace g policy x0 ops) ->
    class_ok policy (r_class rq) c.
Proof.
  intros g policy WF PR PT x0 ops HI V x frame rq f c x' Hin.
  destruct (hist_get g policy WF PR PT ops x0 x frame rq _ x' HI V Hin) as (_ & _ & _ & _ & _ & _ & H & _).
  exact H.
Qed.
Print Assumptions C13_history.

(* ... without any hypothesis: whatever state the history is in (even after an invariant violation) *)
Theorem C13_history_any : forall g policy ops x0 s frame rq f c,
  In s (gtrace g policy x0 ops) -> st_op s = OGet frame rq -> st_out s = RGet (Ok (f, c)) ->
  class_ok policy (r_class rq) c.
Proof.
  intros g policy ops x0 s frame rq f c Hin Ho Hy.
  destruct (gtrace_sound g policy ops x0 s Hin) as (E & _). rewrite Ho, Hy in E. cbn [gstep] in E.
  unfold ghost_lift in E. destruct (llfree_get g policy (us (st_before s)) frame rq) as [r u'] eqn:G.
  inversion E; subst. exact (llfree_get_class g policy _ _ _ _ _ _ G).
Qed.
Print Assumptions C13_history_any.

(* non-vacuity: with the custom policy of the harness (Invalid for the class pairs (0,2), (2,0)) a class-1
   request on an allocator whose trees are all of class 0 steals: the reported class is 0, permitted because
   policy 1 0 _ = Steal; a request of the same class reports its own class *)
Example C13_example :
  let g := {| hord := 9; tlog := 2 |} in
  let pol := pol_custom (TF g) in
  let lower0 := {| frames := 0; bfs := []; ents := [] |} in
  exists u, llfree_new g 4096 IFreeAll [(0, 1); (1, 1); (2, 1)] 0 lower0 [] (repeat slot_none 3) = Ok u /\
    fst (run_ops g pol u [OGet None {| r_order := 0; r_class := 1; r_local := None |};
                          OGet None {| r_order := 0; r_class := 0; r_local := Some 0 |}])
      = [RGet (Ok (0, 0)); RGet (Ok (2048, 0))] /\
    pol 1 0 2048 = PSteal.
Proof. cbv zeta. eexists. split; [vm_compute; reflexivity|]. split; vm_compute; reflexivity. Qed.
