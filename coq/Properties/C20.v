(* C20 - Trace replay frees exactly the frames each traced free releases.
   Property theorems only; proofs live in ReplayProofs.v, the model in Replay.v.

   Setting: the replay loop of eval/src/bin/replay.rs WITH the repair of D11 (`put(frame + (pfn - a_pfn))`),
   over an abstract allocator given by its frame-ownership specification (C20_allocator_spec), whose choice of
   the allocated block is an arbitrary oracle `choose` that returns only aligned, in-range, entirely free
   blocks (choose_ok; satisfiable: C20_first_fit_ok).  Hypotheses on the trace (ev_ok): orders 0..10, pfn
   aligned to its order, block below max_pfn; "the trace fits in memory" = the loop does not panic on the
   `unwrap()` of get, i.e. `replay ... = Some s`.  Traces of any length.

   Re-allocations: an allocation event at a pfn whose entry is present overwrites the entry; the earlier block
   stays allocated for ever.  This is handled explicitly: such blocks are the `orphaned` frames of the trace
   specification (`trace_spec`, computed from the trace alone) and count as held by the trace. *)
From LLF Require Import Base Replay ReplayProofs.

(* Every free event (pfn, k) found inside a tracked allocation a |-> (F, K), at any reachable state: the loop
   calls put(F + (pfn - a), k) - the traced part -, that put succeeds, it frees exactly those 2^k frames (all
   of them allocated before, every other frame unchanged), the free count grows by 2^k, the named part is no
   longer tracked and every other part j of the allocation is tracked as (F + j*2^k, k). *)
Theorem C20_replay_frees_traced_block :
  forall max_pfn choose, choose_ok max_pfn choose ->
  forall pre s e, Forall (ev_ok max_pfn) pre -> replay max_pfn choose pre = Some s ->
    ev_ok max_pfn e -> e_alloc e = false ->
    forall a F K, find_alloc max_pfn (look (r_tab s)) (e_pfn e) (e_order e) = Some (Some a) ->
      tget (r_tab s) a = Some (F, K) ->
      let k := e_order e in let sz := 2 ^ N.of_nat k in let f := F + (e_pfn e - a) in
      exists s',
        replay_step max_pfn choose s e = Some (s', OPut f k true) /\
        (k <= K)%nat /\ a <= e_pfn e /\ e_pfn e + sz <= a + 2 ^ N.of_nat K /\
        (forall x, f <= x < f + sz -> allocd (r_alloc s) x = true) /\
        (forall x, allocd (r_alloc s') x = allocd (r_alloc s) x && negb ((f <=? x) && (x <? f + sz))) /\
        free_frames max_pfn (r_alloc s') = free_frames max_pfn (r_alloc s) + sz /\
        tget (r_tab s') (e_pfn e) = None /\
        (forall j, j < 2 ^ N.of_nat (K - k) -> a + j * sz <> e_pfn e ->
                   tget (r_tab s') (a + j * sz) = Some (F + j * sz, k)) /\
        (forall q, (forall j, j < 2 ^ N.of_nat (K - k) -> q <> a + j * sz) -> tget (r_tab s') q = tget (r_tab s) q) /\
        r_failed s' = 0 /\ r_unknown s' = r_unknown s /\ r_reallocs s' = r_reallocs s.
Proof. exact frees_traced_block. Qed.
Print Assumptions C20_replay_frees_traced_block.

(* A free event of an unknown block only increments free_unkown; a free event never panics. *)
Theorem C20_unknown_free_changes_nothing :
  forall max_pfn choose s e, e_alloc e = false ->
    find_alloc max_pfn (look (r_tab s)) (e_pfn e) (e_order e) = Some None ->
    exists s', replay_step max_pfn choose s e = Some (s', OUnknown) /\
      r_alloc s' = r_alloc s /\ r_tab s' = r_tab s /\ r_orph s' = r_orph s /\
      r_failed s' = r_failed s /\ r_unknown s' = r_unknown s + 1 /\ r_reallocs s' = r_reallocs s.
Proof. exact unknown_free_changes_nothing. Qed.
Print Assumptions C20_unknown_free_changes_nothing.

Theorem C20_free_never_panics :
  forall max_pfn choose, choose_ok max_pfn choose ->
  forall pre s e, Forall (ev_ok max_pfn) pre -> replay max_pfn choose pre = Some s ->
    ev_ok max_pfn e -> e_alloc e = false -> exists s' o, replay_step max_pfn choose s e = Some (s', o).
Proof. exact free_never_panics. Qed.
Print Assumptions C20_free_never_panics.

(* At the end of any trace: the free count is max_pfn minus what the trace holds - the tracked blocks plus the
   explicitly counted orphaned blocks, both functions of the trace alone (trace_spec) -, no free failed, the
   counters agree, and the allocated set is exactly the disjoint union of the tracked and orphaned blocks. *)
Theorem C20_final_count :
  forall max_pfn choose, choose_ok max_pfn choose ->
  forall evs s, Forall (ev_ok max_pfn) evs -> replay max_pfn choose evs = Some s ->
    exists t, trace_spec max_pfn evs = Some t /\
      let tracked := tsum (s_tab t) in let orphaned := bsum (s_orph t) in
      trace_held max_pfn evs = Some (tracked + orphaned) /\
      tracked + orphaned <= max_pfn /\
      free_frames max_pfn (r_alloc s) = max_pfn - (tracked + orphaned) /\
      r_failed s = 0 /\ r_unknown s = s_unknown t /\ r_reallocs s = s_reallocs t /\
      tsum (r_tab s) = tracked /\ bsum (r_orph s) = orphaned /\
      (forall x, allocd (r_alloc s) x = true <->
                 exists b, In b (map snd (r_tab s) ++ r_orph s) /\ inb x b = true) /\
      (forall x, (length (filter (inb x) (map snd (r_tab s) ++ r_orph s)) <= 1)%nat).
Proof. exact final_count. Qed.
Print Assumptions C20_final_count.

(* Without overwritten entries (no re-allocation over a present entry, no part written over one) the trace
   holds exactly the tracked blocks. *)
Theorem C20_final_count_no_overwrite :
  forall max_pfn choose, choose_ok max_pfn choose ->
  forall evs s t, Forall (ev_ok max_pfn) evs -> replay max_pfn choose evs = Some s ->
    trace_spec max_pfn evs = Some t -> s_orph t = [] ->
    free_frames max_pfn (r_alloc s) = max_pfn - tsum (s_tab t) /\ r_failed s = 0.
Proof. exact final_count_no_overwrite. Qed.
Print Assumptions C20_final_count_no_overwrite.

(* The abstract allocator is the frame-ownership specification: put succeeds iff the block is aligned, in
   range and entirely allocated, and then frees exactly its frames; get allocates exactly the chosen block. *)
Theorem C20_allocator_spec :
  forall max_pfn st f k,
  let sz := 2 ^ N.of_nat k in
  (aput max_pfn st f k <> None <->
     f mod sz = 0 /\ f + sz <= max_pfn /\ forall x, f <= x < f + sz -> allocd st x = true) /\
  (forall st', aput max_pfn st f k = Some st' ->
     forall x, allocd st' x = allocd st x && negb ((f <=? x) && (x <? f + sz))) /\
  (forall choose f' st', aget choose st k = Some (f', st') ->
     choose st k = Some f' /\ forall x, allocd st' x = ((f' <=? x) && (x <? f' + sz)) || allocd st x).
Proof. exact allocator_spec. Qed.
Print Assumptions C20_allocator_spec.

(* The hypothesis on the oracle is satisfiable: first fit. *)
Theorem C20_first_fit_ok : forall max_pfn, choose_ok max_pfn (first_fit max_pfn).
Proof. exact first_fit_ok. Qed.
Print Assumptions C20_first_fit_ok.

(* The loop as pinned (D11: put(frame), the first part) on alloc(pfn 2, order 1); free(pfn 3, order 0);
   free(pfn 2, order 0): frees frame 0 for the event naming frame 1, then fails to free frame 0 again, and ends
   with 511 of 512 frames free although the trace holds nothing; the repaired loop ends with 512. *)
Theorem C20_old_refuted :
  Forall (ev_ok 512) d11_trace /\
  trace_held 512 d11_trace = Some 0 /\
  run_log 512 (first_fit 512) false init d11_trace = Some [OAlloc 0 1; OPut 0 0 true; OPut 0 0 false] /\
  option_map (result 512) (old_replay 512 (first_fit 512) d11_trace) = Some (511, 1, 0, 0) /\
  run_log 512 (first_fit 512) true init d11_trace = Some [OAlloc 0 1; OPut 1 0 true; OPut 0 0 true] /\
  option_map (result 512) (replay 512 (first_fit 512) d11_trace) = Some (512, 0, 0, 0).
Proof. exact old_refuted. Qed.
Print Assumptions C20_old_refuted.
