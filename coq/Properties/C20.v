(* C20 - Trace replay frees exactly the frames each traced free releases.
   Property theorems only; proofs live in ReplayProofs.v, the model in Replay.v.

   Setting: the replay loop of eval/src/bin/replay.rs WITH the repair of D11 (`put(frame + (pfn - a_pfn))`),
   over an abstract allocator given by its frame-ownership specification (C20_allocator_spec), whose choice of
   the allocated block is an arbitrary oracle `choose` that returns only aligned, in-range, entirely free
   blocks (choose_ok; satisfiable: C20_first_fit_ok).  Hypotheses on the trace (ev_ok): orders 0..10, pfn
   aligned to its order, block below max_pfn; "the trace fits in memory" = the loop does not panic on the
   `unwrap()` of get, i.e. `replay ... = Some s`.  Traces of any length.

   Re-allocations: an allocation event at a pfn whose entry is present overwrites the entry; the earlier block
   stays allocated for ever.  This is handled explicitly: such blocks are the `orphaned` frames of the trace
   specification (`trace_spec`, computed from the trace alone) and count as held by the trace. *)
From LLF Require Import Base Replay ReplayProofs.

(* Every free event (pfn, k) found inside a tracked allocation a |-> (F, K), at any reachable state: the loop
   calls put(F + (pfn - a), k) - the traced part -, that put succeeds, it frees exactly those 2^k frames (all
   of them allocated before, every other frame unchanged), the free count grows by 2^k, the named part is no
   longer tracked and every other part j of the allocation is tracked as (F + j*2^k, k). *)
Theorem C20_replay_frees_traced_block :
  forall max_pfn choose, choose_ok max_pfn choose ->
  forall pre s e, Forall (ev_ok max_pfn) pre -> replay max_pfn choose pre = Some s ->
    ev_ok max_pfn e -> e_alloc e = false ->
    forall a F K, find_alloc max_pfn (look (r_tab s)) (e_pfn e) (e_order e) = Some (Some a) ->
      tget (r_tab s) a = Some (F, K) ->
      let k := e_order e in let sz := 2 ^ N.of_nat k in let f := F + (e_pfn e - a) in
      exists s',
        replay_step max_pfn choose s e = Some (s', OPut f k true) /\
        (k <= K)%nat /\ a <= e_pfn e /\ e_pfn e + sz <= a + 2 ^ N.of_nat K /\
        (forall x, f <= x < f + sz -> allocd (r_alloc s) x = true) /\
        (forall x, allocd (r_alloc s') x = allocd (r_alloc s) x && negb ((f <=? x) && (x <? f + sz))) /\
        free_frames max_pfn (r_alloc s') = free_frames max_pfn (r_alloc s) + sz /\
        tget (r_tab s') (e_pfn e) = None /\
        (forall j, j < 2 ^ N.of_nat (K - k) -> a + j * sz <> e_pfn e ->
                   tget (r_tab s') (a + j * sz) = Some (F + j * sz, k)) /\
        (forall q, (forall j, j < 2 ^ N.of_nat (K - k) -> q <> a + j * sz) -> tget (r_tab s') q = tget (r_tab s) q) /\
        r_failed s' = 0 /\ r_unknown s' = r_unknown s /\ r_reallocs s' = r_reallocs s.
Proof. exact frees_traced_block. Qed.
Print Assumptions C20_replay_frees_traced_block.

(* A free event of an unknown block only increments free_unkown; a free event never panics. *)
Theorem C20_unknown_free_changes_nothing :
  forall max_pfn choose s e, e_alloc e = false ->
    find_alloc max_pfn (look (r_tab s)) (e_pfn e) (e_order e) = Some None ->
    exists s', replay_step max_pfn choose s e = Some (s', OUnknown) /\
      r_alloc s' = r_alloc s /\ r_tab s' = r_tab s /\ r_orph s' = r_orph s /\
      r_failed s' = r_failed s /\ r_unknown s' = r_unknown s + 1 /\ r_reallocs s' = r_reallocs s.
Proof. exact unknown_free_changes_nothing. Qed.
Print Assumptions C20_unknown_free_changes_nothing.

Theorem C20_free_never_panics :
  forall max_pfn choose, choose_ok max_pfn choose ->
  forall pre s e, Forall (ev_ok max_pfn) pre -> replay max_pfn choose pre = Some s ->
    ev_ok max_pfn e -> e_alloc e = false -> exists s' o, replay_step max_pfn choose s e = Some (s', o).
Proof. exact free_never_panics. Qed.
Print Assumptions C20_free_never_panics.

(* At the end of any trace: the free count is max_pfn minus what the trace holds - the tracked blocks plus the
   explicitly counted orphaned blocks, both functions of the trace alone (trace_spec) -, no free failed, the
   counters agree, and the allocated set is exactly the disjoint union of the tracked and orphaned blocks. *)
Theorem C20_final_count :
  forall max_pfn choose, choose_ok max_pfn choose ->
  forall evs s, Forall (ev_ok max_pfn) evs -> replay max_pfn choose evs = Some s ->
    exists t, trace_spec max_pfn evs = Some t /\
      let tracked := tsum (s_tab t) in let orphaned := bsum (s_orph t) in
      trace_held max_pfn evs = Some (tracked + orphaned) /\
      tracked + orphaned <= max_pfn /\
      free_frames max_pfn (r_alloc s) = max_pfn - (tracked + orphaned) /\
      r_failed s = 0 /\ r_unknown s = s_unknown t /\ r_reallocs s = s_reallocs t /\
      tsum (r_tab s) = tracked /\ bsum (r_orph s) = orphaned /\
      (forall x, allocd (r_alloc s) x = true <->
                 exists b, In b (map snd (r_tab s) ++ r_orph s) /\ inb x b = true) /\
      (forall x, (length (filter (inb x) (map snd (r_tab s) ++ r_orph s)) <= 1)%nat).
Proof. exact final_count. Qed.
Print Assumptions C20_final_count.

(* Without overwritten entries (no re-allocation over a present entry, no part written over one) the trace
   holds exactly the tracked blocks. *)
Theorem C20_final_count_no_overwrite :
  forall max_pfn choose, choose_ok max_pfn choose ->
  forall evs s t, Forall (ev_ok max_pfn) evs -> replay max_pfn choose evs = Some s ->
    trace_spec max_pfn evs = Some t -> s_orph t = [] ->
    free_frames max_pfn (r_alloc s) = max_pfn - tsum (s_tab t) /\ r_failed s = 0.
Proof. exact final_count_no_overwrite. Qed.
Print Assumptions C20_final_count_no_overwrite.

(* The abstract allocator is the frame-ownership specification: put succeeds iff the block is aligned, in
   range and entirely allocated, and then frees exactly its frames; get allocates exactly the chosen block. *)
Theorem C20_allocator_spec :
  forall max_pfn st f k,
  let sz := 2 ^ N.of_nat k in
  (aput max_pfn st f k <> None <->
     f mod sz = 0 /\ f + sz <= max_pfn /\ forall x, f <= x < f + sz -> allocd st x = true) /\
  (forall st', aput max_pfn st f k = Some st' ->
     forall x, allocd st' x = allocd st x && negb ((f <=? x) && (x <? f + sz))) /\
  (forall choose f' st', aget choose st k = Some (f', st') ->
     choose st k = Some f' /\ forall x, allocd st' x = ((f' <=? x) && (x <? f' + sz)) || allocd st x).
Proof. exact allocator_spec. Qed.
Print Assumptions C20_allocator_spec.

(* The hypothesis on the oracle is satisfiable: first fit. *)
Theorem C20_first_fit_ok : forall max_pfn, choose_ok max_pfn (first_fit max_pfn).
Proof. exact first_fit_ok. Qed.
Print Assumptions C20_first_fit_ok.

(* The loop as pinned (D11: put(frame), the first part) on alloc(pfn 2, order 1); free(pfn 3, order 0);
   free(pfn 2, order 0): frees frame 0 for the event naming frame 1, then fails to free frame 0 again, and ends
   with 511 of 512 frames free although the trace holds nothing; the repaired loop ends with 512. *)
Theorem C20_old_refuted :
  Forall (ev_ok 512) d11_trace /\
  trace_held 512 d11_trace = Some 0 /\
  run_log 512 (first_fit 512) false init d11_trace = Some [OAlloc 0 1; OPut 0 0 true; OPut 0 0 false] /\
  option_map (result 512) (old_replay 512 (first_fit 512) d11_trace) = Some (511, 1, 0, 0) /\
  run_log 512 (first_fit 512) true init d11_trace = Some [OAlloc 0 1; OPut 1 0 true; OPut 0 0 true] /\
  option_map (result 512) (replay 512 (first_fit 512) d11_trace) = Some (512, 0, 0, 0).
Proof. exact old_refuted. Qed.
Print Assumptions C20_old_refuted.

(* ============================ C20 over the modelled real allocator ============================
   The same loop (repair of D11) running on the sequential model of llfree-rs itself (Upper.v: `llfree_get`,
   `llfree_put`, `llfree_stats`) instead of the abstract interval allocator: ReplayLLFree.v.

   `lstep` / `lreplay g policy max_pfn u0 evs`: the loop from the allocator state u0; an event (`levent`) carries
   (alloc, pfn, order) and the class / slot index of the request built from its core and flags; allocation
   events call `llfree_get g policy u None rq` (unwrap: an Err ends the run = None), free events call
   `llfree_put g policy u (F + (pfn - a)) rq`; the table bookkeeping is `tab_step` of Replay.v, unchanged.
   Hypotheses: every geometry `wf_geom g`; every policy with `pol_refl_match`, `pol_demote_trans` (the built-in
   ones: C20_llfree_builtin_policies); an initial state u0 with `UpperInv` (ghost off0), `frames = max_pfn < 2^64`
   and nothing allocated (`o_alloc (abs g (low u0)) = 0`) - e.g. the state built by `llfree_new ... IFreeAll`
   (C20_llfree_final_count_new); events `lev_ok`: `ev_ok` (orders 0..10, aligned, below max_pfn), order <= tree
   order of g, class configured, slot index (if any) below the class's slot count.  Traces of any length; "the
   trace fits in memory" = `lreplay ... = Some ls`.
   `abs g (low u)` is the ownership state read off the allocator's metadata (Spec.v), `spec_put` frees exactly the
   block, `exact_free` = frames - popcount of the allocated set. *)
From LLF Require Import Bitfield Lower Spec Upper UpperInvDef UpperPrims UpperPutProofs Policies GlueHistory ReplayLLFree.

(* Every free event (pfn, k) found inside a tracked allocation a |-> (F, K), at any reachable state: the loop
   calls llfree_put(F + (pfn - a), k) - the traced part -, the allocator model returns Ok, the specification
   enabled it, the ownership state changes by exactly spec_put: those 2^k frames (all allocated before) become
   free and every other frame is unchanged; `stats().free_frames` grows by 2^k; the invariant holds afterwards;
   the named part is no longer tracked and every other part j of the allocation is tracked as (F + j*2^k, k).
   This includes parts of blocks of order >= the huge order (a part of order >= hord needs the covered huge
   frames allocated whole; a part of order < hord splits its huge frame). *)
Theorem C20_llfree_frees_traced_block :
  forall g policy max_pfn, wf_geom g -> pol_refl_match policy -> pol_demote_trans policy ->
  forall u0 off0, frames (low u0) = max_pfn -> max_pfn < W64 ->
    UpperInv g policy {| us := u0; off := off0 |} -> o_alloc (abs g (low u0)) = 0 ->
  forall pre ls le, Forall (lev_ok g max_pfn u0) pre -> lreplay g policy max_pfn u0 pre = Some ls ->
    lev_ok g max_pfn u0 le -> e_alloc (le_ev le) = false ->
    forall a F K, find_alloc max_pfn (look (l_tab ls)) (e_pfn (le_ev le)) (e_order (le_ev le)) = Some (Some a) ->
      tget (l_tab ls) a = Some (F, K) ->
      let e := le_ev le in let k := e_order e in let sz := 2 ^ N.of_nat k in let f := F + (e_pfn e - a) in
      exists u' ls',
        llfree_put g policy (l_u ls) f (le_req le) = (Ok tt, u') /\
        lstep g policy max_pfn ls le = Some (ls', OPut f k true) /\ l_u ls' = u' /\
        (k <= K)%nat /\ a <= e_pfn e /\ e_pfn e + sz <= a + 2 ^ N.of_nat K /\
        spec_put_enabled g (abs g (low (l_u ls))) f k = true /\
        abs g (low u') = spec_put g (abs g (low (l_u ls))) f k /\
        (forall x, f <= x < f + sz -> N.testbit (o_alloc (abs g (low (l_u ls)))) x = true) /\
        (forall x, N.testbit (o_alloc (abs g (low u'))) x =
                   N.testbit (o_alloc (abs g (low (l_u ls)))) x && negb ((f <=? x) && (x <? f + sz))) /\
        Lower.free_frames (llfree_stats g u') = Lower.free_frames (llfree_stats g (l_u ls)) + sz /\
        UpperInv g policy {| us := u'; off := off0 |} /\
        tget (l_tab ls') (e_pfn e) = None /\
        (forall j, j < 2 ^ N.of_nat (K - k) -> a + j * sz <> e_pfn e ->
                   tget (l_tab ls') (a + j * sz) = Some (F + j * sz, k)) /\
        (forall q, (forall j, j < 2 ^ N.of_nat (K - k) -> q <> a + j * sz) -> tget (l_tab ls') q = tget (l_tab ls) q) /\
        l_failed ls' = 0 /\ l_unknown ls' = l_unknown ls /\ l_reallocs ls' = l_reallocs ls.
Proof. exact llfree_frees_traced_block. Qed.
Print Assumptions C20_llfree_frees_traced_block.

(* A free event never panics and never fails. *)
Theorem C20_llfree_free_never_fails :
  forall g policy max_pfn, wf_geom g -> pol_refl_match policy -> pol_demote_trans policy ->
  forall u0 off0, frames (low u0) = max_pfn -> max_pfn < W64 ->
    UpperInv g policy {| us := u0; off := off0 |} -> o_alloc (abs g (low u0)) = 0 ->
  forall pre ls le, Forall (lev_ok g max_pfn u0) pre -> lreplay g policy max_pfn u0 pre = Some ls ->
    lev_ok g max_pfn u0 le -> e_alloc (le_ev le) = false ->
    exists ls' o, lstep g policy max_pfn ls le = Some (ls', o) /\ l_failed ls' = 0 /\
      (o = OUnknown \/ exists f, o = OPut f (e_order (le_ev le)) true).
Proof. exact llfree_free_never_fails. Qed.
Print Assumptions C20_llfree_free_never_fails.

(* A free event of an unknown block only increments free_unkown; the allocator is not called. *)
Theorem C20_llfree_unknown_free :
  forall g policy max_pfn ls le, e_alloc (le_ev le) = false ->
    find_alloc max_pfn (look (l_tab ls)) (e_pfn (le_ev le)) (e_order (le_ev le)) = Some None ->
    exists ls', lstep g policy max_pfn ls le = Some (ls', OUnknown) /\
      l_u ls' = l_u ls /\ l_tab ls' = l_tab ls /\ l_orph ls' = l_orph ls /\
      l_failed ls' = l_failed ls /\ l_unknown ls' = l_unknown ls + 1 /\ l_reallocs ls' = l_reallocs ls.
Proof. exact llfree_unknown_free. Qed.
Print Assumptions C20_llfree_unknown_free.

(* At every reachable state: the allocator invariant holds, no free failed, the allocated set of the real model
   is exactly the disjoint union of the tracked and the orphaned blocks, and `stats().free_frames` plus the held
   frames is max_pfn. *)
Theorem C20_llfree_reachable :
  forall g policy max_pfn, wf_geom g -> pol_refl_match policy -> pol_demote_trans policy ->
  forall u0 off0, frames (low u0) = max_pfn -> max_pfn < W64 ->
    UpperInv g policy {| us := u0; off := off0 |} -> o_alloc (abs g (low u0)) = 0 ->
  forall pre ls, Forall (lev_ok g max_pfn u0) pre -> lreplay g policy max_pfn u0 pre = Some ls ->
    UpperInv g policy {| us := l_u ls; off := off0 |} /\ frames (low (l_u ls)) = max_pfn /\ l_failed ls = 0 /\
    (forall x, N.testbit (o_alloc (abs g (low (l_u ls)))) x = true <->
               exists b, In b (map snd (l_tab ls) ++ l_orph ls) /\ inb x b = true) /\
    (forall x, (length (filter (inb x) (map snd (l_tab ls) ++ l_orph ls)) <= 1)%nat) /\
    Lower.free_frames (llfree_stats g (l_u ls)) + (tsum (l_tab ls) + bsum (l_orph ls)) = max_pfn.
Proof. exact llfree_reachable. Qed.
Print Assumptions C20_llfree_reachable.

(* At the end of any trace: `stats().free_frames` of the real allocator model (= the exact count `exact_free`) is
   max_pfn minus what the trace holds - tracked plus orphaned blocks, functions of the trace alone (trace_spec)
   -, no free failed, the counters agree. *)
Theorem C20_llfree_final_count :
  forall g policy max_pfn, wf_geom g -> pol_refl_match policy -> pol_demote_trans policy ->
  forall u0 off0, frames (low u0) = max_pfn -> max_pfn < W64 ->
    UpperInv g policy {| us := u0; off := off0 |} -> o_alloc (abs g (low u0)) = 0 ->
  forall evs ls, Forall (lev_ok g max_pfn u0) evs -> lreplay g policy max_pfn u0 evs = Some ls ->
    exists t, trace_spec max_pfn (map le_ev evs) = Some t /\
      let tracked := tsum (s_tab t) in let orphaned := bsum (s_orph t) in
      trace_held max_pfn (map le_ev evs) = Some (tracked + orphaned) /\
      tracked + orphaned <= max_pfn /\
      Lower.free_frames (llfree_stats g (l_u ls)) = max_pfn - (tracked + orphaned) /\
      exact_free (abs g (low (l_u ls))) = max_pfn - (tracked + orphaned) /\
      l_failed ls = 0 /\ l_unknown ls = s_unknown t /\ l_reallocs ls = s_reallocs t /\
      tsum (l_tab ls) = tracked /\ bsum (l_orph ls) = orphaned /\
      UpperInv g policy {| us := l_u ls; off := off0 |}.
Proof. exact llfree_final_count. Qed.
Print Assumptions C20_llfree_final_count.

(* ... from the state built by `LLFree::new(max_pfn, Init::FreeAll, classing)` (replay.rs line 99): any frame count
   below 2^64, any classing with ids < 8 and a configured default class, a local buffer without reservations *)
Theorem C20_llfree_final_count_new :
  forall g policy, wf_geom g -> pol_refl_match policy -> pol_demote_trans policy ->
  forall max_pfn classing d lbuf tbuf sbuf,
    max_pfn < W64 ->
    Forall (fun s => s_pres s = false) sbuf ->
    (forall c k, In (c, k) classing -> c < 8) ->
    (exists k, In (d, k) classing) ->
    exists u0, llfree_new g max_pfn IFreeAll classing d lbuf tbuf sbuf = Ok u0 /\
      forall evs ls, Forall (lev_ok g max_pfn u0) evs -> lreplay g policy max_pfn u0 evs = Some ls ->
        exists t, trace_spec max_pfn (map le_ev evs) = Some t /\
          let tracked := tsum (s_tab t) in let orphaned := bsum (s_orph t) in
          trace_held max_pfn (map le_ev evs) = Some (tracked + orphaned) /\
          tracked + orphaned <= max_pfn /\
          Lower.free_frames (llfree_stats g (l_u ls)) = max_pfn - (tracked + orphaned) /\
          exact_free (abs g (low (l_u ls))) = max_pfn - (tracked + orphaned) /\
          l_failed ls = 0 /\ l_unknown ls = s_unknown t /\ l_reallocs ls = s_reallocs t /\
          tsum (l_tab ls) = tracked /\ bsum (l_orph ls) = orphaned /\
          UpperInv g policy {| us := l_u ls; off := repeat 0 (length (trees u0)) |}.
Proof. exact llfree_final_count_new. Qed.
Print Assumptions C20_llfree_final_count_new.

(* The link with the abstract loop above.  Every step of the loop over the real model is a step of the abstract
   loop of Replay.v (`Replay.step ... true`) under an oracle satisfying choose_ok, between abstract states
   (`absst ls A`: the table / orphans / counters of ls with the interval list A) that satisfy the invariant of
   ReplayProofs.v and whose allocated sets are the real model's.  The oracle is chosen per step (`pick`: the block
   llfree_get returned): a fixed function of the ownership state cannot name the real allocator's choice. *)
Theorem C20_llfree_step_simulated :
  forall g policy max_pfn, wf_geom g -> pol_refl_match policy -> pol_demote_trans policy ->
  forall u0 off0, frames (low u0) = max_pfn -> max_pfn < W64 ->
    UpperInv g policy {| us := u0; off := off0 |} -> o_alloc (abs g (low u0)) = 0 ->
  forall pre ls le ls' o, Forall (lev_ok g max_pfn u0) pre -> lreplay g policy max_pfn u0 pre = Some ls ->
    lev_ok g max_pfn u0 le -> lstep g policy max_pfn ls le = Some (ls', o) ->
    exists A A' ch, choose_ok max_pfn ch /\
      Replay.step max_pfn ch true (absst ls A) (le_ev le) = Some (absst ls' A', o) /\
      ReplayProofs.Inv max_pfn (absst ls A) /\ ReplayProofs.Inv max_pfn (absst ls' A') /\
      (forall x, allocd A x = N.testbit (o_alloc (abs g (low (l_u ls)))) x) /\
      (forall x, allocd A' x = N.testbit (o_alloc (abs g (low (l_u ls')))) x).
Proof. exact llfree_step_simulated. Qed.
Print Assumptions C20_llfree_step_simulated.

(* ... and whole runs: `run_with max_pfn chs s evs` is the abstract loop using the i-th oracle of chs for the
   i-th event (`run_with (repeat ch n)` = `Replay.run ch`: C20_run_with_repeat) *)
Theorem C20_llfree_run_simulated :
  forall g policy max_pfn, wf_geom g -> pol_refl_match policy -> pol_demote_trans policy ->
  forall u0 off0, frames (low u0) = max_pfn -> max_pfn < W64 ->
    UpperInv g policy {| us := u0; off := off0 |} -> o_alloc (abs g (low u0)) = 0 ->
  forall evs ls, Forall (lev_ok g max_pfn u0) evs -> lreplay g policy max_pfn u0 evs = Some ls ->
    exists chs A, Forall (choose_ok max_pfn) chs /\ length chs = length evs /\
      run_with max_pfn chs Replay.init (map le_ev evs) = Some (absst ls A) /\
      ReplayProofs.Inv max_pfn (absst ls A) /\
      (forall x, allocd A x = N.testbit (o_alloc (abs g (low (l_u ls)))) x) /\
      Replay.free_frames max_pfn A = Lower.free_frames (llfree_stats g (l_u ls)).
Proof. exact llfree_run_simulated. Qed.
Print Assumptions C20_llfree_run_simulated.

Theorem C20_run_with_repeat : forall max_pfn ch evs s,
  run_with max_pfn (repeat ch (length evs)) s evs = Replay.run max_pfn ch true s evs.
Proof. exact run_with_repeat. Qed.
Print Assumptions C20_run_with_repeat.

(* the hypotheses on the policy hold for the built-in policies (Simple, Movable, Zeroed, ZeroSlot) *)
Theorem C20_llfree_builtin_policies :
  forall p TFv, builtin_policy p TFv -> pol_refl_match p /\ pol_demote_trans p.
Proof. exact builtin_policy_hyps. Qed.
Print Assumptions C20_llfree_builtin_policies.

(* Non-vacuity: geometry 7/1 (huge frame 128, tree 256 frames), 1024 frames, classes 0 and 1 with one slot each,
   the Simple policy, from `llfree_new`.  The trace allocates a whole tree (order 8), frees its upper huge frame
   (a part of order hord), then 64 frames inside the remaining huge frame (a part of order < hord); allocates an
   order-0 block at pfn 0, re-allocates pfn 0 at order 2 (the first block is orphaned), frees its upper half;
   the last free names an unknown block.  All puts succeed; 957 = 1024 - (64 + 2 tracked + 1 orphaned). *)
Theorem C20_llfree_example :
  wf_geom ex_g /\ pol_refl_match ex_pol /\ pol_demote_trans ex_pol /\
  llfree_new ex_g 1024 IFreeAll [(0, 1); (1, 1)] 1 (free_all ex_g 1024) [] (repeat slot_none 2) = Ok ex_u0 /\
  Forall (lev_ok ex_g 1024 ex_u0) ex_trace /\
  lrun_log ex_g ex_pol 1024 (linit ex_u0) ex_trace =
    Some [OAlloc 0 8; OPut 128 7 true; OPut 64 6 true; OAlloc 768 0; OAlloc 772 2; OPut 774 1 true; OUnknown] /\
  option_map (lresult ex_g) (lreplay ex_g ex_pol 1024 ex_u0 ex_trace) = Some (957, 0, 1, 1) /\
  trace_held 1024 (map le_ev ex_trace) = Some 67.
Proof. exact llfree_replay_example. Qed.
Print Assumptions C20_llfree_example.
