(* Requests (audited with C09): the request-building closures and class tables of `Classing::simple(cores)` /
   `Classing::movable(cores)` and the evaluation crate's JSON policy.

   C09 ("no panic for valid-parameter calls") quantifies over classings with ids < 8 and a configured default,
   over requests whose slot index is below the class's slot count, and over reflexive-Match, demote-transitive
   policies.  The theorems below show that what the repository's own constructors hand out lies inside those
   hypotheses: the class tables are well-formed, every request built by the returned closure (any order, any
   core number, cores >= 1) names a configured class and a slot below that class's slot count, and the JSON
   policy (any PERFECT / GOOD ranges) is an ordered policy with the four named policy properties.
   Model: Requests.v; proofs: RequestProofs.v; the definitions are tied to the compiled closures / policy
   functions by the `policy` driver (harness polrun + poljson). *)
From Coq Require Import List NArith.
From LLF Require Import Base Upper UpperPrims Policies PolicyFacts Requests RequestProofs.

Theorem Req_simple_valid : forall hord order core cores, 1 <= cores ->
  let r := simple_request hord order core cores in
  exists n, In (r_class r, n) (fst (simple_classing cores)) /\
            match r_local r with Some j => j < n | None => True end.
Proof. exact simple_request_valid. Qed.
Print Assumptions Req_simple_valid.

Theorem Req_movable_valid : forall hord order core cores movable, 1 <= cores ->
  let r := movable_request hord order core cores movable in
  exists n, In (r_class r, n) (fst (movable_classing cores)) /\
            match r_local r with Some j => j < n | None => True end.
Proof. exact movable_request_valid. Qed.
Print Assumptions Req_movable_valid.

(* the executable check the driver's oracle evaluates on the compiled results, and what it means *)
Theorem Req_simple_valid_b : forall hord order core cores, 1 <= cores ->
  request_valid_b (fst (simple_classing cores)) (simple_request hord order core cores) = true.
Proof. exact simple_request_valid_b. Qed.
Print Assumptions Req_simple_valid_b.

Theorem Req_movable_valid_b : forall hord order core cores movable, 1 <= cores ->
  request_valid_b (fst (movable_classing cores)) (movable_request hord order core cores movable) = true.
Proof. exact movable_request_valid_b. Qed.
Print Assumptions Req_movable_valid_b.

Theorem Req_valid_b_sound : forall classes r, request_valid_b classes r = true ->
  exists n, In (r_class r, n) classes /\ match r_local r with Some j => j < n | None => True end.
Proof. exact request_valid_b_sound. Qed.
Print Assumptions Req_valid_b_sound.

(* order passed through; huge orders get the table's default (huge) class *)
Theorem Req_simple_class : forall hord order core cores,
  r_order (simple_request hord order core cores) = N.to_nat order /\
  r_class (simple_request hord order core cores) =
    if Nat.leb hord (N.to_nat order) then snd (simple_classing cores) else 0.
Proof. exact simple_request_order_class. Qed.
Print Assumptions Req_simple_class.

Theorem Req_movable_class : forall hord order core cores movable,
  r_order (movable_request hord order core cores movable) = N.to_nat order /\
  r_class (movable_request hord order core cores movable) =
    if Nat.leb hord (N.to_nat order) then snd (movable_classing cores) else if movable then 1 else 0.
Proof. exact movable_request_order_class. Qed.
Print Assumptions Req_movable_class.

(* the class tables satisfy the classing hypotheses of C09_new_ok / C09_from_new *)
Theorem Req_simple_classing_wf : forall cores,
  (forall c k, In (c, k) (fst (simple_classing cores)) -> c < 8) /\
  (exists k, In (snd (simple_classing cores), k) (fst (simple_classing cores))).
Proof. exact simple_classing_wf. Qed.
Print Assumptions Req_simple_classing_wf.

Theorem Req_movable_classing_wf : forall cores,
  (forall c k, In (c, k) (fst (movable_classing cores)) -> c < 8) /\
  (exists k, In (snd (movable_classing cores), k) (fst (movable_classing cores))).
Proof. exact movable_classing_wf. Qed.
Print Assumptions Req_movable_classing_wf.

(* the JSON policy, for any PERFECT and GOOD ranges *)
Theorem Req_json_ordered : forall plo phi glo ghi r t f,
  pol_json plo phi glo ghi r t f = ordered_policy (json_rank plo phi glo ghi) r t f.
Proof. exact pol_json_ordered. Qed.
Print Assumptions Req_json_ordered.

Theorem Req_json_refl_match : forall plo phi glo ghi, pol_refl_match (pol_json plo phi glo ghi).
Proof. exact pol_json_refl_match. Qed.
Print Assumptions Req_json_refl_match.

Theorem Req_json_demote_trans : forall plo phi glo ghi, pol_demote_trans (pol_json plo phi glo ghi).
Proof. exact pol_json_demote_trans. Qed.
Print Assumptions Req_json_demote_trans.

Theorem Req_json_kind_indep : forall plo phi glo ghi, pol_kind_indep (pol_json plo phi glo ghi).
Proof. exact pol_json_kind_indep. Qed.
Print Assumptions Req_json_kind_indep.

Theorem Req_json_never_invalid : forall plo phi glo ghi, pol_never_invalid (pol_json plo phi glo ghi).
Proof. exact pol_json_never_invalid. Qed.
Print Assumptions Req_json_never_invalid.
