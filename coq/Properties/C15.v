(* C15 - Offline trees are never allocated from; online restores them exactly.

   "With ghost off_t in UpperInv: change_tree by id on an unreserved entirely free tree with Offline returns Ok;
    while off_t = cap_t no get of any kind returns a frame of t and tree_stats.free_frames excludes cap_t;
    Online with class c restores g_t = lowerfree_t, off_t = 0, class c, after which C10 makes every frame
    allocatable; change returns Err and leaves the entry unchanged if the tree is reserved, the class differs or
    g_t < matcher.free."

   The ghost `off x` (UpperInvDef.v) records per tree the number of frames that are free in the lower allocator
   but hidden from the tree counter by an Offline operation; `ghost_change` is `change_tree` together with the
   ghost update (Offline adds the counter it zeroes, Online resets to 0); every other call leaves the ghost
   alone (`ghost_lift`).  `tree_free g l t` = free frames of tree t in the lower allocator; U3 of the invariant:
   counter_t + reservations on t + off_t = tree_free t.
   What is proved about "while": at every state (of every history) in which off_t = tree_free t, i.e. all free
   frames of t are hidden, a get does not return a frame of t (C15_get_not_hidden, C15_history); more generally a
   get of order k from tree t needs 2^k free frames that are NOT hidden (C15_get_visible).  Offline of an
   unreserved tree establishes off_t = tree_free t (C15_offline_hides) and it persists along every history
   without change_tree and without frees into t (C15_hidden_while).  The ghost of a tree only changes by a
   successful change_tree that matches it (C15_change_frame, C15_ghost_only_by_change).
   Sequential model; no policy hypothesis for change_tree, `pol_refl_match`/`pol_demote_trans` for get.
   Proofs: UpperPutProofs.v (change_tree), UpperGetProofs.v (get), UpperStatsProofs.v, GlueHistory.v. *)
From Coq Require Import List NArith.
From LLF Require Import Base Row Bitfield Lower Spec LowerFactsProofs Upper UpperInvDef UpperPrims UpperPutProofs
  UpperStatsProofs UpperGetProofs Handoff GlueProofs GlueHistory.

(* `change_cfg u ch`: a class set by the change is configured (C09's validity condition) *)

(* Offline by id on an unreserved tree that satisfies the matcher: Ok; the counter becomes 0 and is added to
   the ghost (for an entirely free tree: t_free t = tree_free, so afterwards off = tree_free: all hidden) *)
Theorem C15_offline : forall g policy, wf_geom g -> forall x m ch i t r x',
  UpperInv g policy x -> change_cfg (us x) ch ->
  m_id m = Some i -> tree_at (us x) i = Some t -> t_res t = false ->
  m_free m <= t_free t -> (forall k, m_class m = Some k -> k = t_class t) ->
  c_op ch = Some OpOffline ->
  ghost_change g x m ch = (r, x') ->
  r = Ok tt /\
  tree_at (us x') i = Some {| t_free := 0; t_res := false;
                              t_class := match c_class ch with Some c => c | None => t_class t end |} /\
  nth (nn i) (off x') 0 = nth (nn i) (off x) 0 + t_free t.
Proof. intros g policy WF. exact (ghost_change_offline g policy WF (lower_facts_proved g WF)). Qed.
Print Assumptions C15_offline.

(* a get of order k returning frame f: the tree of f had 2^k free frames beyond the hidden ones *)
Theorem C15_get_visible : forall g policy,
  wf_geom g -> pol_refl_match policy -> pol_demote_trans policy ->
  forall x frame rq f c x',
    UpperInv g policy x -> valid_req (us x) rq ->
    ghost_lift (fun u => llfree_get g policy u frame rq) x = (Ok (f, c), x') ->
    pow2 (r_order rq) + nth (nn (f / TF g)) (off x) 0 <= tree_free g (low (us x)) (f / TF g).
Proof.
  intros g policy WF PR PT x frame rq f c x' HI Hv. apply valid_req_local in Hv.
  exact (llfree_get_visible g policy WF (lower_facts_proved g WF) PR PT x frame rq f c x' HI Hv).
Qed.
Print Assumptions C15_get_visible.

(* no get of any kind (untargeted, targeted, any order, class, slot) returns a frame of a tree whose free
   frames are all hidden *)
Theorem C15_get_not_hidden : forall g policy,
  wf_geom g -> pol_refl_match policy -> pol_demote_trans policy ->
  forall x frame rq f c x' t,
    UpperInv g policy x -> valid_req (us x) rq ->
    nth (nn t) (off x) 0 = tree_free g (low (us x)) t ->
    ghost_lift (fun u => llfree_get g policy u frame rq) x = (Ok (f, c), x') ->
    f / TF g <> t.
Proof.
  intros g policy WF PR PT x frame rq f c x' t HI Hv. apply valid_req_local in Hv.
  exact (llfree_get_not_hidden g policy WF (lower_facts_proved g WF) PR PT x frame rq f c x' t HI Hv).
Qed.
Print Assumptions C15_get_not_hidden.

(* ... at every step of every history *)
Theorem C15_history : forall g policy,
  wf_geom g -> pol_refl_match policy -> pol_demote_trans policy ->
  forall x0 ops, UpperInv g policy x0 -> ops_valid (us x0) ops ->
  forall x frame rq f c x' t, In (x, OGet frame rq, RGet (Ok (f, c)), x') (gtrace g policy x0 ops) ->
    nth (nn t) (off x) 0 = tree_free g (low (us x)) t -> f / TF g <> t.
Proof.
  intros g policy WF PR PT x0 ops HI V x frame rq f c x' t.
  exact (hist_get_not_hidden g policy WF PR PT ops x0 x frame rq f c x' t HI V).
Qed.
Print Assumptions C15_history.

(* "while": `hidden g x t` := off_t = tree_free t (all free frames of t are hidden).  A successful Offline of an
   unreserved tree (in particular of an entirely free one) establishes it ... *)
Theorem C15_offline_hides : forall g policy, wf_geom g -> forall x m ch i t r x',
  UpperInv g policy x -> change_cfg (us x) ch ->
  m_id m = Some i -> tree_at (us x) i = Some t -> t_res t = false ->
  m_free m <= t_free t -> (forall k, m_class m = Some k -> k = t_class t) ->
  c_op ch = Some OpOffline ->
  ghost_change g x m ch = (r, x') ->
  r = Ok tt /\ UpperInv g policy x' /\ nth (nn i) (off x') 0 = tree_free g (low (us x')) i.
Proof. exact offline_hides. Qed.
Print Assumptions C15_offline_hides.

(* ... and it persists, and no get of any kind returns a frame of t, along every history of valid-parameter
   calls that contains no change_tree and no free of a block of t (`quiet_for g t o`: o is not a change_tree
   and not a put of a frame of tree t; gets of every kind - also targeted into t -, drains, frees elsewhere and
   statistics are allowed) *)
Theorem C15_hidden_while : forall g policy,
  wf_geom g -> pol_refl_match policy -> pol_demote_trans policy ->
  forall ops x0 t,
    UpperInv g policy x0 -> ops_valid (us x0) ops ->
    Forall (fun o => match o with OChange _ _ => False | OPut f _ => f / TF g <> t | _ => True end) ops ->
    t < ntrees (us x0) ->
    nth (nn t) (off x0) 0 = tree_free g (low (us x0)) t ->
    let x1 := snd (grun g policy x0 ops) in
    nth (nn t) (off x1) 0 = tree_free g (low (us x1)) t /\
    (forall x frame rq f c x', In (x, OGet frame rq, RGet (Ok (f, c)), x') (gtrace g policy x0 ops) -> f / TF g <> t).
Proof. exact hidden_history. Qed.
Print Assumptions C15_hidden_while.

(* the fast free count excludes the hidden frames *)
Theorem C15_fast_count_excludes_hidden : forall g policy, wf_geom g -> forall x ts,
  UpperInv g policy x -> llfree_tree_stats g (us x) = Ok ts ->
  ts_free ts + sumN (off x) = free_frames (llfree_stats g (us x)).
Proof.
  intros g policy WF x ts HI.
  exact (llfree_tree_stats_free g policy WF (lower_facts_proved g WF) x HI (LS_sum g WF) ts).
Qed.
Print Assumptions C15_fast_count_excludes_hidden.

(* Online by id on an unreserved tree with counter 0: the counter is restored from the lower allocator, the
   ghost is reset, the class is the requested one *)
Theorem C15_online : forall g policy, wf_geom g -> forall x m ch i t r x',
  UpperInv g policy x -> change_cfg (us x) ch ->
  m_id m = Some i -> tree_at (us x) i = Some t -> t_res t = false -> t_free t = 0 ->
  m_free m = 0 -> (forall k, m_class m = Some k -> k = t_class t) ->
  c_op ch = Some OpOnline ->
  ghost_change g x m ch = (r, x') ->
  r = Ok tt /\
  tree_at (us x') i = Some {| t_free := tree_free g (low (us x)) i; t_res := false;
                              t_class := match c_class ch with Some c => c | None => t_class t end |} /\
  nth (nn i) (off x') 0 = 0.
Proof. intros g policy WF. exact (ghost_change_online g policy WF (lower_facts_proved g WF)). Qed.
Print Assumptions C15_online.

(* change_tree in general: never panics, keeps the invariant, the lower allocator and the local slots; an Err
   changes nothing; a non-existent id is Err Argument; trees that are reserved or do not satisfy the matcher
   (`tmatches m j t`: the id if given, the class if given, m_free <= counter) keep entry and ghost *)
Theorem C15_change_frame : forall g policy, wf_geom g -> forall x m ch r x',
  UpperInv g policy x -> change_cfg (us x) ch -> ghost_change g x m ch = (r, x') ->
  (forall s, r <> Panic s) /\ UpperInv g policy x' /\
  low (us x') = low (us x) /\ locals (us x') = locals (us x) /\ dflt (us x') = dflt (us x) /\
  (forall e, r = Err e -> x' = x) /\
  (forall i, m_id m = Some i -> tree_at (us x) i = None -> r = Err EArgument) /\
  (forall j t, tree_at (us x) j = Some t -> t_res t = true \/ ~ tmatches m j t ->
      tree_at (us x') j = Some t /\ nth (nn j) (off x') 0 = nth (nn j) (off x) 0).
Proof. intros g policy WF. exact (ghost_change_correct g policy WF (lower_facts_proved g WF)). Qed.
Print Assumptions C15_change_frame.

(* by id: Err exactly in the three cases of the property text (reserved, class differs, counter below
   matcher.free) - contrapositive of C15_offline's hypotheses; stated for any operation *)
Theorem C15_change_rejected : forall g policy, wf_geom g -> forall x m ch i t r x',
  UpperInv g policy x -> change_cfg (us x) ch -> m_id m = Some i -> tree_at (us x) i = Some t ->
  t_res t = true \/ (exists k, m_class m = Some k /\ k <> t_class t) \/ t_free t < m_free m ->
  ghost_change g x m ch = (r, x') ->
  tree_at (us x') i = Some t /\ nth (nn i) (off x') 0 = nth (nn i) (off x) 0.
Proof.
  intros g policy WF x m ch i t r x' HI Hc Em Ht Hcase H.
  destruct (ghost_change_correct g policy WF (lower_facts_proved g WF) x m ch r x' HI Hc H)
    as (_ & _ & _ & _ & _ & _ & _ & G).
  apply (G i t Ht). destruct Hcase as [A|[(k & A & B)|A]]; [left; exact A| |].
  - right. intros (_ & Q & _). apply B. apply Q. exact A.
  - right. intros (_ & _ & Q). apply N.lt_nge in A. contradiction.
Qed.
Print Assumptions C15_change_rejected.

(* get, put and drain never touch the ghost *)
Theorem C15_ghost_only_by_change : forall A (f : upper -> res A * upper) x r x',
  ghost_lift f x = (r, x') -> off x' = off x.
Proof. intros A f x r x'. unfold ghost_lift. destruct (f (us x)). intros H. inversion H. reflexivity. Qed.
Print Assumptions C15_ghost_only_by_change.

(* non-vacuity: tree 1 of the 3-tree example allocator is taken offline (all 2048 free frames hidden); a
   targeted get into it fails, untargeted gets are served from the other trees until they are exhausted and
   then fail although 2048 frames are free in the lower allocator; online restores the counter and the frames
   are allocatable again *)
Example C15_example :
  let offl := OChange {| m_id := Some 1; m_class := None; m_free := 0 |} {| c_class := None; c_op := Some OpOffline |} in
  let onl := OChange {| m_id := Some 1; m_class := None; m_free := 0 |} {| c_class := Some 1; c_op := Some OpOnline |} in
  let r := grun GetExamples.g GetExamples.pol GetExamples.x0
             [offl; OGet (Some 2048) (GetExamples.rq 0 1 None); OGet None (GetExamples.rq 11 1 None); OGet None (GetExamples.rq 10 1 None); OTreeStats] in
  fst r = [RChange (Ok tt); RGet (Err EMemory); RGet (Ok (0, 1)); RGet (Err EMemory);
           RTreeStats (Ok {| ts_free := 904; ts_trees := 0;
                             ts_classes := [{| cs_free := 0; cs_alloc := 0 |}; {| cs_free := 904; cs_alloc := 5240 |};
                                            {| cs_free := 0; cs_alloc := 0 |}; {| cs_free := 0; cs_alloc := 0 |};
                                            {| cs_free := 0; cs_alloc := 0 |}; {| cs_free := 0; cs_alloc := 0 |};
                                            {| cs_free := 0; cs_alloc := 0 |}; {| cs_free := 0; cs_alloc := 0 |}] |})] /\
  off (snd r) = [0; 2048; 0] /\ tree_free GetExamples.g (low (us (snd r))) 1 = 2048 /\
  let r2 := grun GetExamples.g GetExamples.pol (snd r) [onl; OGet None (GetExamples.rq 10 1 None)] in
  fst r2 = [RChange (Ok tt); RGet (Ok (2048, 1))] /\ off (snd r2) = [0; 0; 0].
Proof. cbv zeta. repeat split; vm_compute; reflexivity. Qed.
