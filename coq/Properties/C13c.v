(* C13, concurrent half - the class reported for an allocation is one the policy permits, under EVERY
   interleaving.  Machine M2 (UpperMachine.v: the whole allocator, one transition per atomic access of tree
   entries, local slots and - through the embedded machine M1 - the lower allocator), any number of threads,
   any schedule, ANY policy, any memory: when a step of a thread working on `UGet frame r` completes the
   call with `Ok (f, cl)`, then cl is the requested class or a class the policy rated Match or Steal for the
   request.  Thread-local invariant over (primitive, continuation stack).  Proof: UpperConcClass.v. *)
From LLF Require Import Base Row Bitfield Lower Spec Upper UpperMachine UpperGetProofs UpperConcClass.

Theorem C13_every_interleaving : forall g policy sch u held0 n,
  let s := urun g policy sch (uboot u held0 n) in
  forall t c0 frame r f cl,
    step_call s t c0 = Some (UGet frame r) ->
    nth_error (m2_pool (fst (ustep g policy s t c0))) t = Some (UIdle (Some (Ok (f, cl)))) ->
    class_ok policy (r_class r) cl.
Proof. exact conc_class. Qed.
Print Assumptions C13_every_interleaving.
