(* Whole-allocator concurrency theorems (machine M2 = UpperMachine.v: tree entries, local slots, and the
   lower allocator through the embedded machine M1; one transition per atomic access; any number of
   threads, any schedule of any length).  They serve C01 (through the upper API), C03 part U, the concurrent
   halves of C04 and C15.  Hypotheses: a well-formed geometry; a policy that is reflexive-Match and
   demote-transitive (the repository's policies: PolicyFacts.v); an initial state satisfying the sequential
   invariant with a consistent ghost of held blocks (what LLFree::new yields); `sched_valid`: every call of the
   schedule has valid parameters (slot index below the class's slot count or none; a put passes the argument
   check; change_tree is an Offline or a class change onto a configured class - Online is EXCLUDED: its
   non-atomic re-count of the tree's free frames can double-count a concurrent allocation's credit, which
   the property texts do not cover either).  Proofs: UpperConc*.v (~5800 lines) on top of Conc*.v. *)
From LLF Require Import Base Row Bitfield Lower Spec Upper UpperInvDef LowerMachine UpperMachine UpperPrims
  ConcInvDef ConcInv UpperStatsProofs UpperConcInvDef UpperConcInv UpperConcProps.

(* C03 part U + C01 through the upper API + C04 at quiescence, with tree changes (ghost `off` along the run) *)
Theorem Conc_upper_safe_with_changes : forall g policy u held0 n sch,
  wf_geom g -> pol_refl_match policy -> pol_demote_trans policy ->
  UpperInv g policy (ustate_new u) -> HeldInit g (low u) held0 -> sched_valid g u sch ->
  let x := grun g policy sch (uboot u held0 n, zeros u) in
  let s := fst x in
  s = urun g policy sch (uboot u held0 n) /\
  (forall z, In z (upanicked s) -> z = SExceedingRetries) /\
  uheld_ok s = true /\
  (uquiescent s -> UpperInv g policy {| us := m2_up s; off := snd x |}).
Proof. exact conc_upper_safe_off. Qed.
Print Assumptions Conc_upper_safe_with_changes.

(* schedules without change_tree: the only reachable panic of the WHOLE allocator is the known one, handed-out
   blocks never overlap, and whenever no call is in flight the sequential invariant holds again *)
Theorem Conc_upper_safe : forall g policy u held0 n sch,
  wf_geom g -> pol_refl_match policy -> pol_demote_trans policy ->
  UpperInv g policy (ustate_new u) -> HeldInit g (low u) held0 ->
  sched_valid g u sch -> Forall (fun tc => no_change (snd tc)) sch ->
  let s := urun g policy sch (uboot u held0 n) in
  (forall x, In x (upanicked s) -> x = SExceedingRetries) /\
  uheld_ok s = true /\
  (uquiescent s -> UpperInv g policy (ustate_new (m2_up s))).
Proof. exact conc_upper_safe. Qed.
Print Assumptions Conc_upper_safe.

(* C04, concurrent half: at the end of every interleaving validate() passes and fast = exact accounting *)
Theorem Conc_quiescent_validate : forall g policy u held0 n sch,
  wf_geom g -> pol_refl_match policy -> pol_demote_trans policy ->
  UpperInv g policy (ustate_new u) -> HeldInit g (low u) held0 ->
  sched_valid g u sch -> Forall (fun tc => no_change (snd tc)) sch ->
  let s := urun g policy sch (uboot u held0 n) in
  uquiescent s -> llfree_validate g (m2_up s) = Ok tt.
Proof. exact conc_quiescent_validate. Qed.
Print Assumptions Conc_quiescent_validate.

Theorem Conc_quiescent_stats : forall g policy u held0 n sch,
  wf_geom g -> pol_refl_match policy -> pol_demote_trans policy ->
  UpperInv g policy (ustate_new u) -> HeldInit g (low u) held0 ->
  sched_valid g u sch -> Forall (fun tc => no_change (snd tc)) sch ->
  let s := urun g policy sch (uboot u held0 n) in
  uquiescent s ->
  exists ts, llfree_tree_stats g (m2_up s) = Ok ts /\
    ts_free ts = free_frames (llfree_stats g (m2_up s)) /\
    ts_free ts = exact_free (abs g (low (m2_up s))).
Proof. exact conc_quiescent_stats. Qed.
Print Assumptions Conc_quiescent_stats.

(* with offline trees: fast count + hidden frames = exact count *)
Theorem Conc_quiescent_stats_with_changes : forall g policy u held0 n sch,
  wf_geom g -> pol_refl_match policy -> pol_demote_trans policy ->
  UpperInv g policy (ustate_new u) -> HeldInit g (low u) held0 -> sched_valid g u sch ->
  let x := grun g policy sch (uboot u held0 n, zeros u) in
  uquiescent (fst x) ->
  exists ts, llfree_tree_stats g (m2_up (fst x)) = Ok ts /\
    ts_free ts + UpperStatsProofs.sumN (snd x) = free_frames (llfree_stats g (m2_up (fst x))) /\
    ts_free ts + UpperStatsProofs.sumN (snd x) = exact_free (abs g (low (m2_up (fst x)))).
Proof. exact conc_quiescent_stats_off. Qed.
Print Assumptions Conc_quiescent_stats_with_changes.

(* C15, concurrent half: an entirely free tree taken offline is never allocated from, along every continuation *)
Theorem Conc_offline_never_allocated : forall g policy u held0 n sch1 sch2 i,
  wf_geom g -> pol_refl_match policy -> pol_demote_trans policy ->
  UpperInv g policy (ustate_new u) -> HeldInit g (low u) held0 -> sched_valid g u (sch1 ++ sch2) ->
  i < ntrees u ->
  let x := grun g policy sch1 (uboot u held0 n, zeros u) in
  nth (nn i) (snd x) 0 = TF g ->
  let y := grun g policy sch2 x in
  y = grun g policy (sch1 ++ sch2) (uboot u held0 n, zeros u) /\
  nth (nn i) (snd y) 0 = TF g /\
  (forall F K, In (F, K) (m2_held (fst y)) -> F / TF g <> i) /\
  (forall t, tree_at (m2_up (fst y)) i = Some t -> t_free t = 0).
Proof. exact conc_offline_hidden. Qed.
Print Assumptions Conc_offline_never_allocated.

(* Composition with construction: from what LLFree::new builds (free-all or allocate-all, EVERY frame
   count, any classing with ids < 8 and a configured default, zeroed local buffer) and for each of the
   repository's policies, every schedule of valid-parameter calls (any number of threads) keeps the whole
   allocator safe - no invariant is left as a hypothesis. *)
From LLF Require Import Policies PolicyFacts GlueHistory ConcFromNew.
Theorem Conc_from_new : forall g, wf_geom g -> forall p, builtin_policy p (TF g) ->
  forall fr i classing d lbuf tbuf sbuf,
    (i = IFreeAll \/ i = IAllocAll) ->
    Forall (fun s => s_pres s = false) sbuf ->
    (forall c k, In (c, k) classing -> c < 8) ->
    (exists k, In (d, k) classing) ->
    exists u, llfree_new g fr i classing d lbuf tbuf sbuf = Ok u /\
      forall n sch, sched_valid g u sch ->
        let x := UpperConcInv.grun g p sch (uboot u (held_of_init g i fr) n, zeros u) in
        let s := fst x in
        s = urun g p sch (uboot u (held_of_init g i fr) n) /\
        (forall z, In z (upanicked s) -> z = SExceedingRetries) /\
        uheld_ok s = true /\
        (uquiescent s -> UpperInv g p {| us := m2_up s; off := snd x |}).
Proof. exact conc_from_new. Qed.
Print Assumptions Conc_from_new.

(* the exclusion of change_tree(.., Online) from `sched_valid` is necessary: a concrete M2 schedule (one tree, thread 0
   frees frame 0, thread 1 onlines the tree between the lower free and the counter increment) ends quiescent with the
   tree counter at 2 and one frame free (UpperOnlineRace.v).  C04's space contains concurrent tree changes: the compiled
   code shows the same end state (scenario group `online-race`), known finding D16 of DESIGN.md 11.2 *)
From LLF Require Import UpperOnlineRace.
Theorem Conc_online_exclusion_necessary :
  upper_invb g7 simple7 (ustate_new u0) = true /\
  upanicked s_end = [] /\ forallb (fun x => match x with UIdle (Some _) => true | _ => false end) (m2_pool s_end) = true /\
  map t_free (trees (m2_up s_end)) = [2] /\
  tree_free g7 (low (m2_up s_end)) 0 = 1 /\
  ~ UpperInv g7 simple7 (ustate_new (m2_up s_end)).
Proof. exact conc_online_put_double_count. Qed.
Print Assumptions Conc_online_exclusion_necessary.

(* ... and what it does to later calls: freeing everything afterwards, the last free of a HELD block panics in Tree::put's
   counter assertion (outside C03's quantifier, which has no concurrent tree changes; part of finding D16) *)
Theorem Conc_online_race_later_free_panics :
  upanicked s_after = [STreeFree] /\
  nth_error (m2_pool s_after) 0 = Some (UPanic STreeFree (UPut 128 {| r_order := 7%nat; r_class := 0; r_local := None |})) /\
  In (128, 7%nat) (m2_held s_end).
Proof. exact conc_online_put_later_free_panics. Qed.
Print Assumptions Conc_online_race_later_free_panics.

(* C01 through the upper API with ANY tree change in the schedule, change_tree(.., Online) included (UpperConcWeak.v).
   The accounting invariant cannot survive an Online racing a put (above); the safety of the blocks handed out does:
   the upper layer is only a client of the lower allocator, it calls Lower::get / get_at with rows / frames in range
   and frees only blocks its caller holds, so M1's invariant is preserved whatever the tree / slot counters say.
   NO hypothesis on the policy.  `sched_valid_w`: a slot index is below the class's slot count (or none) and a put
   passes the argument check; a change_tree call is unrestricted (any matcher, any class, Online / Offline / none).
   What is given up: the upper layer may panic on its (now possibly wrong) counters; a panicked thread just stops. *)
From LLF Require Import UpperConcWeak.
Theorem Conc_held_with_any_tree_change : forall g policy u held0 n sch,
  wf_geom g ->
  UpperInv g policy (ustate_new u) ->
  HeldInit g (low u) held0 ->
  sched_valid_w g u sch ->
  uheld_ok (urun g policy sch (uboot u held0 n)) = true.
Proof. exact conc_upper_held_weak. Qed.
Print Assumptions Conc_held_with_any_tree_change.

(* ... and M1's invariant holds for the M1 view of every reachable M2 state (so every reachable state is a crash point:
   UpperConcWeak.conc_upper_crash_safe_weak), where the view `m1w s L` is `m1_of s` with a ghost list L of LEAKED blocks
   appended to the held list: frames a get had already obtained from the lower allocator when it panicked in upper
   code (e.g. "Unreserve failed" on a counter broken by an Online race); they stay allocated and belong to nobody *)
Theorem Conc_m1_inv_with_any_tree_change : forall g policy u held0 n sch,
  wf_geom g ->
  UpperInv g policy (ustate_new u) ->
  HeldInit g (low u) held0 ->
  sched_valid_w g u sch ->
  exists L, Inv g (m1w g (urun g policy sch (uboot u held0 n)) L).
Proof. exact conc_upper_m1_inv_weak. Qed.
Print Assumptions Conc_m1_inv_with_any_tree_change.

(* non-vacuity: the Online-vs-put race above satisfies the hypotheses *)
Theorem Conc_held_online_race_instance : uheld_ok s_end = true /\ exists L, Inv g7 (m1w g7 s_end L).
Proof. exact WeakExample.conc_weak_instance. Qed.
Print Assumptions Conc_held_online_race_instance.
