(* C06 - Free-all and allocate-all initialisation are correct for every frame count.
   `free_all g fr` / `reserve_all g fr` are the models of `Lower::new(.., FreeAll / AllocAll)` (Lower.v);
   `abs` reads the allocation state off the metadata (Spec.v). Every wf geometry, EVERY frame count
   (0 included, partial last trees and partial last huge frames included).
   Proofs: LowerInitProofs.v (over LowerPutProofs.v, AbsLemmas.v). The upper half (tree counters from the
   lower statistics) is `llfree_new_correct` in UpperStatsProofs.v, used by C09/C04. *)
From LLF Require Import Base Row Bitfield Lower Spec AbsLemmas LowerPutProofs LowerInitProofs.

(* a fresh free-all allocator: consistent metadata, no frame allocated, every frame reported free *)
Theorem C06_free_all : forall g, wf_geom g -> forall fr,
  LowerInv g (free_all g fr) /\
  o_alloc (abs g (free_all g fr)) = 0 /\ o_whole (abs g (free_all g fr)) = 0 /\
  exact_free (abs g (free_all g fr)) = fr /\
  lower_stats g (free_all g fr) = {| free_frames := fr; free_huge := fr / HF g; free_trees := fr / TF g |}.
Proof.
  intros g WF fr.
  split; [apply free_all_inv; exact WF|].
  split; [apply free_all_alloc; exact WF|].
  split; [apply free_all_whole; exact WF|].
  split; [apply free_all_exact_free; exact WF|].
  apply free_all_stats; exact WF.
Qed.
Print Assumptions C06_free_all.

(* a fresh allocate-all allocator: every managed frame allocated, exactly the huge frames h < fr/HF whole,
   nothing reported free *)
Theorem C06_reserve_all : forall g, wf_geom g -> forall fr,
  LowerInv g (reserve_all g fr) /\
  o_alloc (abs g (reserve_all g fr)) = ones fr /\ o_whole (abs g (reserve_all g fr)) = ones (fr / HF g) /\
  lower_stats g (reserve_all g fr) = stats0.
Proof.
  intros g WF fr.
  split; [apply reserve_all_inv; exact WF|].
  split; [apply reserve_all_alloc; exact WF|].
  split; [apply reserve_all_whole; exact WF|].
  apply reserve_all_stats; exact WF.
Qed.
Print Assumptions C06_reserve_all.

(* from allocate-all: freeing every whole huge frame once at huge order and every other managed frame once
   at base order succeeds throughout and ends in exactly the free-all state (all metadata equal) *)
Theorem C06_free_everything : forall g, wf_geom g -> forall fr,
  put_all g (reserve_all g fr) (free_seq g fr) = (Ok tt, free_all g fr).
Proof. exact free_seq_from_reserve_all. Qed.
Print Assumptions C06_free_everything.

(* a second free of the same block is refused: a free succeeds exactly when the block is allocated
   (whole, for huge orders) - so each block of the sequence can be freed exactly once *)
Theorem C06_free_exactly_when_allocated : forall g, wf_geom g -> forall l f k,
  LowerInv g l -> aligned f k = true -> f + pow2 k <= frames l -> (k <= tord g)%nat ->
  (fst (lower_put g l f k) = Ok tt <-> spec_put_enabled g (abs g l) f k = true).
Proof. intros g WF l f k I A R K. apply lower_put_ok_iff; [exact WF | exact (conj I (conj A (conj R K)))]. Qed.
Print Assumptions C06_free_exactly_when_allocated.

(* no frame at or beyond the managed count is ever reported free or allocated to anyone, in any
   consistent state; and the counters always equal the number of free frames of the allocation state *)
Theorem C06_nothing_beyond_range : forall g, wf_geom g -> forall l f, LowerInv g l -> frames l <= f ->
  alloc_at g l f = false /\ N.testbit (o_alloc (abs g l)) f = false /\
  (forall k, lower_is_free g l f k = Panic SIsFreeAssert) /\
  (forall s, lower_stats_at g l f 0 = Ok s -> s = stats0).
Proof. exact beyond_not_alloc_not_free. Qed.
Print Assumptions C06_nothing_beyond_range.

Theorem C06_counts_match_state : forall g, wf_geom g -> forall l, LowerInv g l ->
  free_frames (lower_stats g l) = exact_free (abs g l) /\
  free_huge (lower_stats g l) = free_huge_count g (abs g l) /\
  free_trees (lower_stats g l) = free_tree_count g (abs g l).
Proof. exact lower_stats_abs. Qed.
Print Assumptions C06_counts_match_state.
