(* C17 - zone and persistent wrappers translate frames and protect their metadata.
   Property theorems only; proofs in MetaProofs.v, definitions in Meta.v (wrapper.rs).
   The inner allocator is abstract (any `inner_get`/`inner_put`/`inner_stats_at` over any state); the
   only fact used about it is C01's in-range property, stated as a hypothesis of the theorems that
   need it. *)
From LLF Require Import Base Row Bitfield Lower Meta MetaProofs.

(* get = inner get conjugated by the offset: argument - offset (checked), result + offset *)
Theorem C17_zone_get : forall (state request class : Type)
    (inner_get : state -> option N -> request -> res (N * class) * state) (frames : N),
  (forall s fr rq f c s', inner_get s fr rq = (Ok (f, c), s') -> f < frames) ->
  forall off s frame rq,
  off + frames <= W64 ->
  zone_get state request class inner_get off s frame rq =
    match frame with
    | Some f => if f <? off then (Err EArgument, s) else shift state class off (inner_get s (Some (f - off)) rq)
    | None => shift state class off (inner_get s None rq)
    end.
Proof. exact zone_get_conj. Qed.
Print Assumptions C17_zone_get.

(* every frame it returns lies in [offset, offset + frames) *)
Theorem C17_zone_get_range : forall (state request class : Type)
    (inner_get : state -> option N -> request -> res (N * class) * state) (frames : N),
  (forall s fr rq f c s', inner_get s fr rq = (Ok (f, c), s') -> f < frames) ->
  forall off s frame rq f c s',
  off + frames <= W64 ->
  zone_get state request class inner_get off s frame rq = (Ok (f, c), s') -> off <= f < off + frames.
Proof. exact zone_get_range. Qed.
Print Assumptions C17_zone_get_range.

(* put / stats_at subtract the offset; below the offset: error (default statistics), state untouched *)
Theorem C17_zone_put : forall (state request : Type)
    (inner_put : state -> N -> request -> res unit * state) off s f rq,
  zone_put state request inner_put off s f rq =
    (if f <? off then (Err EArgument, s) else inner_put s (f - off) rq).
Proof. exact zone_put_conj. Qed.
Print Assumptions C17_zone_put.

Theorem C17_zone_stats_at : forall (state stat : Type)
    (inner_stats_at : state -> N -> nat -> stat) (stat_default : stat) off s f o,
  zone_stats_at state stat inner_stats_at stat_default off s f o =
    (if f <? off then stat_default else inner_stats_at s (f - off) o).
Proof. exact zone_stats_at_conj. Qed.
Print Assumptions C17_zone_stats_at.

(* what the wrapper hands out can be handed back: the inner allocator sees its own frame number *)
Theorem C17_zone_roundtrip : forall (state request class : Type)
    (inner_get : state -> option N -> request -> res (N * class) * state)
    (inner_put : state -> N -> request -> res unit * state) (frames : N),
  (forall s fr rq f c s', inner_get s fr rq = (Ok (f, c), s') -> f < frames) ->
  forall off s rq c s' f0,
  off + frames <= W64 ->
  inner_get s None rq = (Ok (f0, c), s') ->
  zone_get state request class inner_get off s None rq = (Ok (f0 + off, c), s')
  /\ forall rq', zone_put state request inner_put off s' (f0 + off) rq' = inner_put s' f0 rq'.
Proof. exact zone_get_put_roundtrip. Qed.
Print Assumptions C17_zone_roundtrip.

(* NvmAlloc::create, layout of a zone of z frames of fs bytes: never panics (the subtraction
   `zone.len() - ceil(lower/fs)` cannot underflow under the size guard); managed + metadata pages +
   header page = z; the lower buffer (sized for z frames) follows the managed frames, ends before the
   header page and is large enough for the managed count *)
Theorem C17_nvm_layout : forall g fs, 0 < fs -> forall z,
  match nvm_layout g fs z with
  | Ok l =>
      lower_size g z + fs <= z * fs
      /\ nl_managed l + nl_meta_pages l + 1 = z
      /\ nl_lower_off l = nl_managed l * fs
      /\ nl_lower_len l = lower_size g z
      /\ nl_lower_off l + nl_lower_len l <= nl_header_off l
      /\ nl_header_off l + fs = z * fs
      /\ lower_size g (nl_managed l) <= nl_lower_len l
      /\ trees_size g (nl_managed l) <= trees_size g z
  | Err e => e = EInit /\ z * fs < lower_size g z + fs
  | Panic _ => False
  end.
Proof. exact nvm_layout_spec. Qed.
Print Assumptions C17_nvm_layout.

(* create succeeds only on a tree-aligned base, with a tree-aligned zone offset = base / fs, and, when
   recovering, only if the header holds the magic and the frame count z - 1; it never panics *)
Theorem C17_nvm_create : forall g, wf_geom g -> forall fs, 0 < fs -> forall base z rec hm hf,
  match nvm_create g fs base z rec hm hf with
  | Ok (off, l, wr) =>
      nvm_layout g fs z = Ok l /\ off * fs = base /\ zone_create_ok g off = true /\ wr = negb rec
      /\ (rec = true -> hm = NVM_MAGIC /\ hf = z - 1)
  | Err e => e = EInit
  | Panic _ => False
  end.
Proof. exact nvm_create_spec. Qed.
Print Assumptions C17_nvm_create.

Theorem C17_nvm_recover_refuses : forall g, wf_geom g -> forall fs, 0 < fs -> forall base z hm hf,
  hm <> NVM_MAGIC \/ hf <> z - 1 -> nvm_create g fs base z true hm hf = Err EInit.
Proof. exact nvm_recover_refuses. Qed.
Print Assumptions C17_nvm_recover_refuses.

(* the in-zone lower buffer passes `Lower::new`'s size and alignment check for the managed count *)
Theorem C17_nvm_lower_buffer : forall g, wf_geom g -> forall fs, 0 < fs ->
  forall base z rec hm hf off l wr,
  fs mod 64 = 0 ->
  nvm_create g fs base z rec hm hf = Ok (off, l, wr) ->
  lower_new_ok g (nl_managed l) (nvm_lower_buf base l) = true
  /\ b_end (nvm_lower_buf base l) <= base + nl_header_off l
  /\ base + nl_managed l * fs = b_addr (nvm_lower_buf base l).
Proof. exact nvm_lower_buf_ok. Qed.
Print Assumptions C17_nvm_lower_buffer.

(* no frame handed out overlaps the metadata or the header page: for an inner allocator that manages
   nl_managed frames and stays in range (C01), every block [f, f + 2^order) returned through the zone
   wrapper has its bytes inside [base, base + lower_off), and lower_off + lower_len <= header_off,
   header_off + fs = z * fs *)
Theorem C17_nvm_returned_frames : forall g, wf_geom g -> forall fs, 0 < fs ->
  forall (state request class : Type)
    (inner_get : state -> option N -> request -> res (N * class) * state) (req_frames : request -> N)
    base z rec hm hf off l wr,
  nvm_create g fs base z rec hm hf = Ok (off, l, wr) ->
  (forall s fr rq f c s', inner_get s fr rq = (Ok (f, c), s') -> f + req_frames rq <= nl_managed l) ->
  base + z * fs <= W64 ->
  forall s frame rq f c s',
  zone_get state request class inner_get off s frame rq = (Ok (f, c), s') ->
  base <= f * fs
  /\ (f + req_frames rq) * fs <= base + nl_lower_off l
  /\ base + nl_lower_off l + nl_lower_len l <= base + nl_header_off l
  /\ base + nl_header_off l + fs = base + z * fs.
Proof. exact nvm_returned_frames. Qed.
Print Assumptions C17_nvm_returned_frames.
