(* C07 - Rebuilding from another allocator's metadata is observationally identical.
   Property theorems only; definitions and proofs live in Handoff.v, the model in Upper.v / Lower.v.

   Setting: in the model the state `upper` IS the content of the three metadata buffers (lower: bitfields and
   huge-entry tables; trees: the tree-entry array; locals: the per-class slot arrays) plus the configuration kept
   in the allocator struct (default class; the policy and the geometry are parameters of every operation).
   `llfree_new g fr INone classing d lbuf tbuf sbuf` is `LLFree::new` with `Init::None`: it reads the previous
   content of the buffers and writes nothing; the tree array is the first `ntab` entries of `tbuf`, the slots of
   the classes are laid out in `sbuf` in classing order (`flat_slots classing u` is exactly that layout of the
   donor's slots).  "Quiescent" = no call is in progress on the donor: the buffers are a state of the
   sequential model.  `tjunk`/`sjunk`: the receiver's buffers may be longer than required.

   Hypotheses: `locals_match classing u` (the donor's local array is what `Locals::new` builds for this
   classing: distinct class ids < 8 with the configured slot counts, every other class absent) and the tree
   array has `ntab` entries.  Both hold for every allocator built by `llfree_new` with the same classing and
   are preserved by every operation (C07_hypotheses_by_construction). *)
From LLF Require Import Base Row Bitfield Lower Upper Handoff.

(* The receiver is the donor: same state, hence the same statistics and the same behaviour. *)
Theorem C07_handoff_identity :
  forall g classing u tjunk sjunk,
    locals_match classing u -> length (trees u) = nn (ntab g (frames (low u))) ->
    llfree_new g (frames (low u)) INone classing (dflt u) (low u)
               (trees u ++ tjunk) (flat_slots classing u ++ sjunk) = Ok u.
Proof. exact handoff_identity_junk. Qed.
Print Assumptions C07_handoff_identity.

(* Every call sequence (get / get_at, put, drain, change_tree, stats, tree_stats, stats_at; run until the first
   panic, which is recorded) gives the same outputs, statistics included, and the same final state on the
   receiver u' as on the donor u. *)
Theorem C07_handoff :
  forall g policy u ops classing,
    locals_match classing u -> length (trees u) = nn (ntab g (frames (low u))) ->
    forall tjunk sjunk u',
      llfree_new g (frames (low u)) INone classing (dflt u) (low u)
                 (trees u ++ tjunk) (flat_slots classing u ++ sjunk) = Ok u' ->
      run_ops g policy u' ops = run_ops g policy u ops.
Proof. exact handoff_run_ops. Qed.
Print Assumptions C07_handoff.

(* The hypotheses are produced by construction: an allocator built in ANY mode over a sufficiently long local
   buffer (and, for Init::None, tree buffer) with distinct class ids, after ANY history `ops`, can be handed
   over with the same frame count, classing and default class, and the receiver is the donor. *)
Theorem C07_hypotheses_by_construction :
  forall g policy fr i classing d lbuf tbuf sbuf u0 ops,
    NoDup (map fst classing) -> (total_slots classing <= length sbuf)%nat ->
    (i = INone -> (nn (ntab g fr) <= length tbuf)%nat) ->
    llfree_new g fr i classing d lbuf tbuf sbuf = Ok u0 ->
    let u := snd (run_ops g policy u0 ops) in
    forall tjunk sjunk,
      llfree_new g fr INone classing d (low u) (trees u ++ tjunk) (flat_slots classing u ++ sjunk) = Ok u.
Proof. exact handoff_after_history. Qed.
Print Assumptions C07_hypotheses_by_construction.

(* No operation changes the number of slots of any class, the set of configured classes, the number of tree
   entries, the number of managed frames or the default class. *)
Theorem C07_operations_preserve_shape :
  forall g policy ops u, full_shape (snd (run_ops g policy u ops)) = full_shape u.
Proof. exact run_ops_shape. Qed.
Print Assumptions C07_operations_preserve_shape.
