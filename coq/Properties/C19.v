(* C19 - Benchmark class configurations always produce valid requests.
   Property theorems only; the model is EvalClasses.v (with the REPAIRED `Count::to_local`,
   `One => Some(0)`, finding D10), proofs live in EvalProofs.v.

   Hypotheses and why they are there:
   - `cfg <> []`            `request` falls back to `self.classes[0]`; on an empty list that panics
                            (C19_hyp_nonempty_needed).
   - `1 <= cores`           `core % cores` / `pid % cores` panic for cores = 0
                            (C19_hyp_cores_needed); the property quantifies over core counts 1-16.
   - `length cfg <= 8`, `ids_small cfg` (ids < 8)
                            `Classing::new` asserts at most 8 classes and `Locals::new` indexes an
                            8-entry array with the class id (3 class bits).
   - `ids_consistent cfg`   entries sharing an id have the same slot-count kind. `Locals::new` keeps
                            the LAST entry of an id, `request` uses the FIRST MATCHING entry; with
                            different kinds the statement is false (C19_dup_ids_refuted).
                            `NoDup ids` implies it (C19_request_slot_configured_nodup); it is weaker
                            so that results/classes-ilong.json (id 0 twice, both `cores`) is covered. *)
From LLF Require Import Base EvalClasses EvalProofs.

(* The request names a configured class (the id of the entry `c` it was generated from: the first
   matching entry, else the first entry) and no local slot or a slot below that entry's slot count. *)
Theorem C19_request_valid : forall cfg order core cores pid gfp,
  cfg <> [] -> 1 <= cores ->
  exists c r,
    request cfg order core cores pid gfp = Ok r
    /\ In c cfg /\ chosen cfg order gfp c
    /\ r_order r = order
    /\ r_class r = cc_id c
    /\ match r_local r with None => True | Some i => i < to_count (cc_count c) cores end.
Proof. exact request_valid. Qed.
Print Assumptions C19_request_valid.

(* ... and that is the slot count the allocator built from `classing(cores)` has for the class
   (Classing::new, Locals::new, Locals::class_locals). *)
Theorem C19_request_slot_configured : forall cfg order core cores pid gfp,
  cfg <> [] -> 1 <= cores ->
  (length cfg <= 8)%nat -> ids_small cfg -> ids_consistent cfg ->
  exists r n,
    request cfg order core cores pid gfp = Ok r
    /\ In (r_class r) (map cc_id cfg)
    /\ allocator_slots cfg cores (r_class r) = Ok (Some n)
    /\ match r_local r with None => True | Some i => i < n end.
Proof. exact request_slot_configured. Qed.
Print Assumptions C19_request_slot_configured.

Theorem C19_request_slot_configured_nodup : forall cfg order core cores pid gfp,
  cfg <> [] -> 1 <= cores ->
  (length cfg <= 8)%nat -> ids_small cfg -> NoDup (map cc_id cfg) ->
  exists r n,
    request cfg order core cores pid gfp = Ok r
    /\ In (r_class r) (map cc_id cfg)
    /\ allocator_slots cfg cores (r_class r) = Ok (Some n)
    /\ match r_local r with None => True | Some i => i < n end.
Proof. exact request_slot_configured_nodup. Qed.
Print Assumptions C19_request_slot_configured_nodup.

(* The executable specification the driver evaluates on the implementation's results holds of
   the model. *)
Theorem C19_request_oracle : forall cfg order core cores pid gfp,
  cfg <> [] -> 1 <= cores -> ids_consistent cfg ->
  exists r, request cfg order core cores pid gfp = Ok r
            /\ req_valid_b (map cc_id cfg) (classing_counts cfg cores) r = true.
Proof. exact request_oracle. Qed.
Print Assumptions C19_request_oracle.

(* D10: the pinned `One => Some(1)` violates the statement (one class of kind `one`, one core). *)
Theorem C19_old_refuted :
  exists cfg order core cores pid gfp r i,
    cfg <> [] /\ 1 <= cores /\ (length cfg <= 8)%nat /\ ids_small cfg /\ NoDup (map cc_id cfg)
    /\ old_request cfg order core cores pid gfp = Ok r
    /\ r_local r = Some i
    /\ allocator_slots cfg cores (r_class r) = Ok (Some 1)
    /\ 1 <= i
    /\ req_valid_b (map cc_id cfg) (classing_counts cfg cores) r = false.
Proof. exact old_refuted. Qed.
Print Assumptions C19_old_refuted.

(* Without `ids_consistent` the statement is false even for the repaired code. *)
Theorem C19_dup_ids_refuted :
  exists cfg order core cores pid gfp r i,
    cfg <> [] /\ 1 <= cores /\ (length cfg <= 8)%nat /\ ids_small cfg
    /\ request cfg order core cores pid gfp = Ok r
    /\ r_local r = Some i
    /\ allocator_slots cfg cores (r_class r) = Ok (Some 1)
    /\ 1 <= i.
Proof. exact dup_ids_refuted. Qed.
Print Assumptions C19_dup_ids_refuted.

Theorem C19_hyp_nonempty_needed : forall order core cores pid gfp,
  request [] order core cores pid gfp = Panic (SIndex 0).
Proof. exact request_empty_panics. Qed.
Print Assumptions C19_hyp_nonempty_needed.

Theorem C19_hyp_cores_needed : forall c r order core pid gfp,
  cc_count c = CCores \/ cc_count c = CCoresHalf \/ cc_count c = CPids ->
  cfg_matches c order gfp = true ->
  request (c :: r) order core 0 pid gfp = Panic (SArith 0).
Proof. exact request_cores0_panics. Qed.
Print Assumptions C19_hyp_cores_needed.

(* Non-vacuity: results/classes.json satisfies every hypothesis, and concrete requests. *)
Theorem C19_example_hyps :
  ex_classes_json <> [] /\ (length ex_classes_json <= 8)%nat /\ ids_small ex_classes_json
  /\ NoDup (map cc_id ex_classes_json).
Proof. exact ex_classes_json_hyps. Qed.
Print Assumptions C19_example_hyps.

Theorem C19_example_requests :
  request ex_classes_json 0 5 4 7 0 = Ok {| r_order := 0; r_class := 0; r_local := Some 3 |}
  /\ request ex_classes_json 3 5 4 6 0x8a = Ok {| r_order := 3; r_class := 1; r_local := Some 2 |}
  /\ request ex_classes_json 3 5 4 6 0x1000008a = Ok {| r_order := 3; r_class := 2; r_local := Some 2 |}
  /\ request ex_classes_json 3 5 4 9 0x08 = Ok {| r_order := 3; r_class := 3; r_local := Some 1 |}
  /\ request ex_classes_json 9 5 4 9 0x08 = Ok {| r_order := 9; r_class := 4; r_local := Some 1 |}
  /\ allocator_slots ex_classes_json 4 4 = Ok (Some 2)
  /\ fell_through ex_classes_json 11 0x08 = true
  /\ request ex_classes_json 11 5 4 9 0x08 = Ok {| r_order := 11; r_class := 0; r_local := Some 1 |}
  /\ classing_counts ex_classes_json 5 = [(0, 5); (1, 5); (2, 5); (3, 5); (4, 3)].
Proof. exact ex_classes_json_requests. Qed.
Print Assumptions C19_example_requests.

Theorem C19_example_one_repaired :
  request ex_one 0 0 1 0 0 = Ok {| r_order := 0; r_class := 0; r_local := Some 0 |}
  /\ allocator_slots ex_one 1 0 = Ok (Some 1)
  /\ old_request ex_one 0 0 1 0 0 = Ok {| r_order := 0; r_class := 0; r_local := Some 1 |}.
Proof. exact ex_one_repaired. Qed.
Print Assumptions C19_example_one_repaired.
