(* C05 - Crash at any point: recovery keeps completed allocations and frees free frames.

   The crash point is ANY state `s` reachable by machine M1 (LowerMachine.v: one transition per atomic load /
   compare-exchange of the lower allocator, any number of threads, any schedule): execution stops between any
   two writes to the persistent metadata, with any calls in flight.  `lower_of s` is the persistent metadata
   (frame count, huge-entry tables, bitfields); the thread pool and the ghost are lost.
   `lower_recover g (lower_of s)` is what `Lower::new(.., Init::Recover)` leaves (`LowerPre` is its
   precondition: sizes and row shapes, so that it cannot index out of bounds).
   `ms_held s`  the blocks returned by completed allocations and not passed to a free that has STARTED (the
                ghost removes a block - or carves a part out of a block, leaving the siblings - at the start
                of the put), i.e. "completed allocations not touched by a started free".
   `spec_put_enabled g (abs g m) f k`  in the ownership state of the recovered metadata every frame of the
                block is allocated and, for k >= hord, every covered huge frame is whole: exactly the condition
                under which `put(f, k)` succeeds (LowerPutProofs.lower_put_ok_iff).
   `covered_by_held s f`  f lies in a block of `ms_held s`.
   `touched g s f`  f is touched by a call in flight (Crash.v; defined from the ghost record of the in-flight
                threads: f lies in the thread's owned interval or in a transit row of its focus huge frame).
                `C05_touched_meaning` says what that is per kind of call: the block of an in-flight put or
                get_at (a put that panicked with "Exceeding retries" never returned and still counts); for a put
                of a part of a marker huge frame while it runs the split protocol: additionally rows of that
                huge frame (the rows its own CAS filled; this contains the stale-split window, see
                Crash.crash_stale_split: rows of frames whose free COMPLETED can be transiently refilled by a
                stale splitter, and a crash inside the window leaves them allocated); for a get of at least 64
                frames: rows / entries of the tree it searches that it filled / claimed so far.  Gets of order
                <= 6 touch nothing: their last successful CAS goes straight to the return.
   Proofs: Crash.v over the invariant of Conc*.v and RecoverProofs.v; upper layer: GlueProofs.v. *)
From LLF Require Import Base Row Bitfield Lower Spec AbsLemmas LowerMachine ConcInvDef ConcInv ConcInvInit
  RecoverProofs Upper UpperInvDef Crash.

(* every crash point, any calls in flight, every initial state (every managed frame count) *)
Theorem C05_crash_safe : forall g l held0 n sch, wf_geom g -> LowerInv g l -> HeldInit g l held0 ->
  let s := mrun g sch (boot l held0 n) in
  let m := lower_recover g (lower_of s) in
  LowerPre g (lower_of s) /\
  LowerInv g m /\
  (forall f k, In (f, k) (ms_held s) -> spec_put_enabled g (abs g m) f k = true) /\
  (forall f, N.testbit (o_alloc (abs g m)) f = true -> covered_by_held s f \/ touched g s f).
Proof. exact crash_safe. Qed.
Print Assumptions C05_crash_safe.

(* recovery neither allocates nor frees *)
Theorem C05_recovery_keeps_ownership : forall g l held0 n sch, wf_geom g -> LowerInv g l -> HeldInit g l held0 ->
  let s := mrun g sch (boot l held0 n) in
  abs g (lower_recover g (lower_of s)) = abs g (lower_of s).
Proof. exact crash_abs. Qed.
Print Assumptions C05_recovery_keeps_ownership.

(* the complement reading: a frame neither held nor touched is free after recovery; a frame that is free in the
   crashed metadata (bit clear under a counter entry) is free after recovery *)
Theorem C05_free_stays_free : forall g l held0 n sch f, wf_geom g -> LowerInv g l -> HeldInit g l held0 ->
  let s := mrun g sch (boot l held0 n) in
  let m := lower_recover g (lower_of s) in
  (~ covered_by_held s f -> ~ touched g s f -> N.testbit (o_alloc (abs g m)) f = false) /\
  (alloc_at g (lower_of s) f = false -> N.testbit (o_alloc (abs g m)) f = false).
Proof. exact crash_free_stays_free. Qed.
Print Assumptions C05_free_stays_free.

(* `touched` is exact: a managed frame is allocated after recovery if AND ONLY IF it lies in a held block or is
   touched by a call in flight (so `touched` contains no frame that recovery frees) *)
Theorem C05_allocated_iff_held_or_touched : forall g l held0 n sch f, wf_geom g -> LowerInv g l -> HeldInit g l held0 ->
  let s := mrun g sch (boot l held0 n) in
  f < ms_frames s ->
  (N.testbit (o_alloc (abs g (lower_recover g (lower_of s)))) f = true <-> covered_by_held s f \/ touched g s f).
Proof. exact crash_alloc_iff. Qed.
Print Assumptions C05_allocated_iff_held_or_touched.

(* what `touched` means *)
Theorem C05_touched_meaning : forall g, wf_geom g -> forall s f, Inv g s -> touched g s f ->
  exists x, In x (ms_pool s) /\
    match x with
    | TIdle _ => False
    | TPanic st c => st = SExceedingRetries /\ is_put c = true /\ in_block c f
    | TRun (CPut f0 k) p => in_block (CPut f0 k) f \/ (splitting p = true /\ f / HF g = f0 / HF g)
    | TRun (CGetAt f0 k) p => in_block (CGetAt f0 k) f
    | TRun (CGet st k) p => ((7 <= k)%nat \/ (hord g <= k)%nat) /\ f / TF g = st * 64 / TF g
    end.
Proof. exact touched_readable. Qed.
Print Assumptions C05_touched_meaning.

(* LLFree::new(.., Init::Recover) over the crashed metadata and zeroed volatile buffers succeeds, establishes the
   upper invariant, and the recovered allocator's fast count (tree_stats) equals its exact count (stats) and the
   number of free frames of the crashed ownership state; validate() passes *)
Theorem C05_counts_agree_after_recovery : forall g policy l held0 n sch classing d tbuf sbuf,
  wf_geom g -> LowerInv g l -> HeldInit g l held0 ->
  Forall (fun sl => s_pres sl = false) sbuf ->
  (forall c k, In (c, k) classing -> c < 8) ->
  (exists k, In (d, k) classing) ->
  let s := mrun g sch (boot l held0 n) in
  exists u ts,
    llfree_new g (ms_frames s) IRecover classing d (lower_of s) tbuf sbuf = Ok u /\
    UpperInv g policy (ustate_new u) /\
    low u = lower_recover g (lower_of s) /\
    llfree_tree_stats g u = Ok ts /\
    ts_free ts = free_frames (llfree_stats g u) /\
    ts_free ts = exact_free (abs g (lower_of s)) /\
    llfree_validate g u = Ok tt.
Proof. exact crash_counts_agree. Qed.
Print Assumptions C05_counts_agree_after_recovery.

(* every managed frame count, both initialisation modes *)
Theorem C05_from_free_all : forall g fr n sch, wf_geom g ->
  let s := mrun g sch (boot (free_all g fr) [] n) in
  let m := lower_recover g (lower_of s) in
  LowerPre g (lower_of s) /\ LowerInv g m /\
  (forall f k, In (f, k) (ms_held s) -> spec_put_enabled g (abs g m) f k = true) /\
  (forall f, N.testbit (o_alloc (abs g m)) f = true -> covered_by_held s f \/ touched g s f).
Proof. exact crash_safe_free_all. Qed.
Print Assumptions C05_from_free_all.

Theorem C05_from_reserve_all : forall g fr n sch, wf_geom g ->
  let s := mrun g sch (boot (reserve_all g fr) (alloc_all_held g fr) n) in
  let m := lower_recover g (lower_of s) in
  LowerPre g (lower_of s) /\ LowerInv g m /\
  (forall f k, In (f, k) (ms_held s) -> spec_put_enabled g (abs g m) f k = true) /\
  (forall f, N.testbit (o_alloc (abs g m)) f = true -> covered_by_held s f \/ touched g s f).
Proof. exact crash_safe_reserve_all. Qed.
Print Assumptions C05_from_reserve_all.

(* quiescent crash points (no call in flight): the metadata satisfies the sequential invariant, recovery is the
   identity, and the allocated frames are exactly the frames of the held blocks *)
Theorem C05_quiescent : forall g l held0 n sch, wf_geom g -> LowerInv g l -> HeldInit g l held0 ->
  let s := mrun g sch (boot l held0 n) in
  quiescent s ->
  LowerInv g (lower_of s) /\ lower_recover g (lower_of s) = lower_of s /\
  (forall f, N.testbit (o_alloc (abs g (lower_of s))) f = true <-> covered_by_held s f).
Proof. exact crash_quiescent. Qed.
Print Assumptions C05_quiescent.

(* ... and the lower allocator's statistics are exact there (the concurrent half of C04 for the lower layer:
   whenever no call is in flight the counters agree with the allocation state) *)
Theorem C05_quiescent_counts : forall g l held0 n sch, wf_geom g -> LowerInv g l -> HeldInit g l held0 ->
  let s := mrun g sch (boot l held0 n) in
  quiescent s ->
  free_frames (lower_stats g (lower_of s)) = exact_free (abs g (lower_of s)) /\
  free_huge (lower_stats g (lower_of s)) = free_huge_count g (abs g (lower_of s)) /\
  free_trees (lower_stats g (lower_of s)) = free_tree_count g (abs g (lower_of s)).
Proof. exact crash_quiescent_counts. Qed.
Print Assumptions C05_quiescent_counts.

(* recovering a consistent instance changes nothing (the wrapper "recovers an instance it created with the same
   allocation state") *)
Theorem C05_recover_identity_on_consistent : forall g, wf_geom g -> forall l, LowerInv g l -> lower_recover g l = l.
Proof. exact recover_id. Qed.
Print Assumptions C05_recover_identity_on_consistent.
