(* C08 (metadata half; to be merged into C08.v by the lead) - `MetaData::valid` and the zone wrapper's
   offset check.  Property theorems only; proofs in MetaProofs.v, definitions in Meta.v.
   `meta_valid` is `MetaData::valid` with the `overlap` formula exactly as written (four endpoint
   containments, `end.sub(1)` as a wrapping decrement); `intersects` is real intersection of byte
   ranges; `nowrap b` says the buffer ends below 2^64. *)
From LLF Require Import Base Row Bitfield Lower Meta MetaProofs.

(* accepted => sizes, alignment, no shared byte, and the later checks of Lower::new / Locals::new /
   Trees::new pass (no hypothesis on the buffers at all) *)
Theorem C08_valid_accepts_only_good : forall g fr cl local trees lower,
  meta_valid g fr cl local trees lower = true ->
  local_size cl <= b_len local /\ trees_size g fr <= b_len trees /\ lower_size g fr <= b_len lower
  /\ b_addr local mod 64 = 0 /\ b_addr trees mod 64 = 0 /\ b_addr lower mod 64 = 0
  /\ intersects local trees = false /\ intersects trees lower = false /\ intersects lower local = false
  /\ lower_new_ok g fr lower = true /\ locals_new_ok cl local = true /\ trees_new_ok g fr trees = true.
Proof. exact valid_true. Qed.
Print Assumptions C08_valid_accepts_only_good.

(* rejected when a buffer is too short *)
Theorem C08_valid_rejects_short : forall g fr cl local trees lower,
  b_len local < local_size cl \/ b_len trees < trees_size g fr \/ b_len lower < lower_size g fr ->
  meta_valid g fr cl local trees lower = false.
Proof. exact valid_false_short. Qed.
Print Assumptions C08_valid_rejects_short.

(* rejected when a buffer is not 64-byte aligned *)
Theorem C08_valid_rejects_misaligned : forall g fr cl local trees lower,
  b_addr local mod 64 <> 0 \/ b_addr trees mod 64 <> 0 \/ b_addr lower mod 64 <> 0 ->
  meta_valid g fr cl local trees lower = false.
Proof. exact valid_false_misaligned. Qed.
Print Assumptions C08_valid_rejects_misaligned.

(* rejected when two buffers share a byte: partial overlap, nesting, identical ranges *)
Theorem C08_valid_rejects_intersecting : forall g fr cl local trees lower,
  intersects local trees = true \/ intersects trees lower = true \/ intersects lower local = true ->
  meta_valid g fr cl local trees lower = false.
Proof. exact valid_false_intersect. Qed.
Print Assumptions C08_valid_rejects_intersecting.

(* what the four-endpoint `overlap` answers, exactly: for two non-empty buffers it IS intersection; an
   empty buffer is reported as overlapping a non-empty one iff its address lies in the CLOSED range
   [start, end] (so also when it only touches the start or the end); two empty buffers never overlap *)
Theorem C08_overlap_exact : forall a b, nowrap a -> nowrap b -> overlap a b = negb (separated a b).
Proof. exact overlap_spec. Qed.
Print Assumptions C08_overlap_exact.

(* the complete decision rule of `valid` *)
Theorem C08_valid_decision : forall g fr cl local trees lower,
  nowrap local -> nowrap trees -> nowrap lower ->
  meta_valid g fr cl local trees lower =
    (local_size cl <=? b_len local) && (trees_size g fr <=? b_len trees) && (lower_size g fr <=? b_len lower)
    && aligned64 local && aligned64 trees && aligned64 lower
    && separated local trees && separated trees lower && separated lower local.
Proof. exact valid_iff. Qed.
Print Assumptions C08_valid_decision.

(* the zone wrapper rejects frames below its offset and leaves the inner allocator untouched *)
Theorem C08_zone_get_below : forall (state request class : Type)
    (inner_get : state -> option N -> request -> res (N * class) * state) off s f rq,
  f < off -> zone_get state request class inner_get off s (Some f) rq = (Err EArgument, s).
Proof. exact zone_get_below. Qed.
Print Assumptions C08_zone_get_below.

Theorem C08_zone_put_below : forall (state request : Type)
    (inner_put : state -> N -> request -> res unit * state) off s f rq,
  f < off -> zone_put state request inner_put off s f rq = (Err EArgument, s).
Proof. exact zone_put_below. Qed.
Print Assumptions C08_zone_put_below.
