(* Links between the descriptions of the same code (not a property of properties.jsonl on its own; audited
   with C01): the small-step machines and the sequential big-step models agree on solo runs, and the
   history runner's ghost is never read.  With these, every theorem about the sequential models
   (Lower.v, Upper.v) is a theorem about the solo runs of the machines that the step-correspondence ties
   to the compiled code. *)
From LLF Require Import Base Row Bitfield Lower Spec Upper UpperInvDef LowerMachine SoloRunLemmas SoloRun
  UpperMachine UpperSoloLemmas UpperSolo UpperSoloGet Handoff GlueHistory.

(* M1: one lower call run alone = Lower.v's big-step function, for every outcome (Ok / Err / Panic) *)
Theorem Link_M1_solo_is_sequential : forall g l P H H' t last c,
  wf_geom g -> Shape g l -> nth_error P t = Some (TIdle last) -> call_ok g (mk l P H) c = true ->
  match c with CPut f k => client_take H f k = Some H' | _ => H' = H end ->
  exists fuel, solo_post c P H' t (big g l c) (solo_fuel g fuel (mk l P H) t c).
Proof. exact solo_call. Qed.
Print Assumptions Link_M1_solo_is_sequential.

(* M2: one LLFree call run alone = Upper.v's big-step function (result, whole memory, other threads, ghost) *)
Theorem Link_M2_solo_is_sequential : forall g policy, wf_geom g -> forall u P H H' t last c,
  SInv g u -> nth_error P t = Some (UIdle last) -> take_held c H H' ->
  exists fuel, solo_result g policy u P H' t c
                 (usolo_fuel g policy fuel {| m2_up := u; m2_pool := P; m2_held := H |} t c).
Proof. exact usolo_call. Qed.
Print Assumptions Link_M2_solo_is_sequential.

(* the invariant used by the sequential upper theorems implies the hypothesis of the M2 link *)
Theorem Link_UpperInv_SInv : forall g policy x, UpperInv g policy x -> SInv g (us x).
Proof. exact UpperInv_SInv. Qed.
Print Assumptions Link_UpperInv_SInv.
