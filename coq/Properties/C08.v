(* C08 - Invalid arguments are rejected with an error and no side effects.
   First half (allocation / free arguments), over the sequential allocator model Upper.v, for every
   geometry, every policy, every state and every argument value (frame numbers are arbitrary N; the
   model's `check` uses the checked addition, so values near 2^64 are covered).
   The second half (zone offset, metadata buffers) is in Properties/C08meta.v. Proofs: ArgsProofs.v. *)
From LLF Require Import Base Row Bitfield Lower Spec Upper ArgsProofs.

(* order above the tree order, block past the managed range, misaligned frame, or unconfigured class *)
Theorem C08_put_rejected : forall g policy u frame r,
  bad_args g u frame r -> llfree_put g policy u frame r = (Err EArgument, u).
Proof. exact put_rejects. Qed.
Print Assumptions C08_put_rejected.

Theorem C08_get_at_rejected : forall g policy u frame r,
  bad_args g u frame r -> llfree_get g policy u (Some frame) r = (Err EArgument, u).
Proof. exact get_at_rejects. Qed.
Print Assumptions C08_get_at_rejected.

Theorem C08_get_rejected : forall g policy u r,
  bad_args g u 0 r -> llfree_get g policy u None r = (Err EArgument, u).
Proof. exact get_rejects. Qed.
Print Assumptions C08_get_rejected.

(* the rejection is exactly these conditions: anything else passes the argument check *)
Theorem C08_check_exact : forall g u frame r, frame + pow2 (r_order r) < W64 ->
  (check g u frame r = Err EArgument <-> bad_args g u frame r).
Proof.
  intros g u frame r Hw. split.
  - intros H. destruct (Decidable.dec_not_not (bad_args g u frame r)) as [_ _] || idtac.
    assert (D : bad_args g u frame r \/ ~ bad_args g u frame r).
    { unfold bad_args.
      destruct (Compare_dec.lt_dec (tord g) (r_order r)); [tauto|].
      destruct (N.lt_decidable (frames (low u)) (frame + pow2 (r_order r))); [tauto|].
      destruct (N.eq_decidable (frame mod pow2 (r_order r)) 0); [|tauto].
      destruct (class_locals u (r_class r)) eqn:E; [|tauto].
      right. intros [A|[A|[A|A]]]; try tauto; discriminate. }
    destruct D as [D|D]; [exact D|].
    rewrite (check_accepts g u frame r Hw D) in H. discriminate.
  - apply check_rejects.
Qed.
Print Assumptions C08_check_exact.

(* classes 8..255 are never configured *)
Theorem C08_class_ge8 : forall u c, length (locals u) = 8%nat -> 8 <= c -> class_locals u c = None.
Proof. exact class_ge8_unconfigured. Qed.
Print Assumptions C08_class_ge8.

(* non-vacuity: a two-tree allocator rejects order 12, a block past the end, a misaligned frame, class 5 *)
Example C08_example :
  let g := {| hord := 9; tlog := 2 |} in
  let u := {| low := free_all g 4096; trees := []; locals := [Some []; Some []; None; None; None; None; None; None]; dflt := 0 |} in
  check g u 0 {| r_order := 12; r_class := 0; r_local := None |} = Err EArgument /\
  check g u 4095 {| r_order := 1; r_class := 0; r_local := None |} = Err EArgument /\
  check g u 18446744073709551615 {| r_order := 0; r_class := 0; r_local := None |} = Err EArgument /\
  check g u 3 {| r_order := 1; r_class := 0; r_local := None |} = Err EArgument /\
  check g u 0 {| r_order := 0; r_class := 5; r_local := None |} = Err EArgument /\
  check g u 4094 {| r_order := 1; r_class := 1; r_local := None |} = Ok tt.
Proof. vm_compute. repeat split; reflexivity. Qed.
