(* "Online at quiescence" (complements C03 / C04 / C15 concurrent and finding D16; audited with C04).
   UpperConcProps.v excludes change_tree(.., Online) from the concurrent schedules because an Online RACING a put / get
   double-counts (UpperOnlineRace.v).  Here: only the concurrent Online is the problem.  A schedule of machine M2 (the
   whole allocator, one transition per atomic access) made of phases -- each ending with no call in flight -- that are
   either an arbitrary interleaving of valid calls without Online (`sched_valid`), or the steps of ONE thread running any
   valid call, Online included (`call_valid_any`), while the others are idle, keeps the accounting invariant:

     Inductive phased g policy (u : upper) : m2state -> list (nat * ucall) -> Prop :=
     | ph_nil  : forall s, phased u s []
     | ph_conc : forall s sch rest, sched_valid g u sch -> uquiescent (urun sch s) -> phased u (urun sch s) rest ->
                 phased u s (sch ++ rest)
     | ph_solo : forall s t c k rest, call_valid_any g u c -> uquiescent (urun (repeat (t, c) k) s) ->
                 phased u (urun (repeat (t, c) k) s) rest -> phased u s (repeat (t, c) k ++ rest).
     call_valid_any g u c  := match c with UChange _ ch => forall k, c_class ch = Some k -> class_locals u k <> None
                                         | _ => call_valid2 g u c end      (call_valid2 minus "c_op ch <> Some OpOnline")
     nohide sch            := every UChange of sch is an Online;   F0 o := Forall (fun x => x = 0) o.

   Proofs: UpperPhased.v (concurrent phases: UpperConcInv.grun_inv; solo Online: UpperSolo.change_sim +
   UpperPutProofs.ghost_change_correct; UpperPhased.uinv_of_quiescent is the converse of UpperConcProps.uinv_quiescent). *)
From LLF Require Import Base Row Bitfield Lower Spec Sorted Upper UpperInvDef UpperPrims LowerMachine ConcBase ConcInvDef ConcInv
  UpperMachine UpperConcInvDef UpperConcInv UpperConcProps UpperPhased.
From LLF Require UpperStatsProofs UpperConcClass.

(* the end of every phased schedule: no call in flight, the sequential invariant with a ghost `off`, C01, no panicked
   thread; nothing hidden when every change_tree of the schedule is an Online *)
Theorem Conc_phased_online_safe : forall g policy u held0 n sch,
  wf_geom g -> pol_refl_match policy -> pol_demote_trans policy ->
  UpperInv g policy (ustate_new u) -> HeldInit g (low u) held0 ->
  phased g policy u (uboot u held0 n) sch ->
  let s := urun g policy sch (uboot u held0 n) in
  uquiescent s /\
  exists o, UpperInv g policy {| us := m2_up s; off := o |} /\
            uheld_ok s = true /\
            (forall z, In z (upanicked s) -> z = SExceedingRetries) /\ upanicked s = [] /\
            (nohide sch -> F0 o).
Proof. exact conc_phased_inv. Qed.
Print Assumptions Conc_phased_online_safe.

(* every state of a concurrent phase, after any number of phases *)
Theorem Conc_phased_online_safe_then_concurrent : forall g policy u held0 n sch sch2,
  wf_geom g -> pol_refl_match policy -> pol_demote_trans policy ->
  UpperInv g policy (ustate_new u) -> HeldInit g (low u) held0 ->
  phased g policy u (uboot u held0 n) sch -> sched_valid g u sch2 ->
  let s := urun g policy (sch ++ sch2) (uboot u held0 n) in
  (forall z, In z (upanicked s) -> z = SExceedingRetries) /\
  uheld_ok s = true /\
  (uquiescent s -> exists o, UpperInv g policy {| us := m2_up s; off := o |}).
Proof. exact conc_phased_safe. Qed.
Print Assumptions Conc_phased_online_safe_then_concurrent.

(* C01 at every state of a phased schedule, also in the middle of a solo Online *)
Theorem Conc_phased_held_everywhere : forall g policy u held0 n pre post,
  wf_geom g -> UpperInv g policy (ustate_new u) -> HeldInit g (low u) held0 ->
  phased g policy u (uboot u held0 n) (pre ++ post) ->
  uheld_ok (urun g policy pre (uboot u held0 n)) = true.
Proof. exact conc_phased_held_all. Qed.
Print Assumptions Conc_phased_held_everywhere.

(* the ghost is a function of the state *)
Theorem Conc_phased_ghost_unique : forall g policy u o o',
  UpperInv g policy {| us := u; off := o |} -> UpperInv g policy {| us := u; off := o' |} -> o = o'.
Proof. exact UpperInv_off_unique. Qed.
Print Assumptions Conc_phased_ghost_unique.

(* validate() passes at the end when nothing was hidden *)
Theorem Conc_phased_validate : forall g policy u held0 n sch,
  wf_geom g -> pol_refl_match policy -> pol_demote_trans policy ->
  UpperInv g policy (ustate_new u) -> HeldInit g (low u) held0 ->
  phased g policy u (uboot u held0 n) sch -> nohide sch ->
  let s := urun g policy sch (uboot u held0 n) in
  UpperInv g policy (ustate_new (m2_up s)) /\ llfree_validate g (m2_up s) = Ok tt.
Proof. exact conc_phased_validate. Qed.
Print Assumptions Conc_phased_validate.

(* fast count + hidden = exact count *)
Theorem Conc_phased_stats : forall g policy u held0 n sch,
  wf_geom g -> pol_refl_match policy -> pol_demote_trans policy ->
  UpperInv g policy (ustate_new u) -> HeldInit g (low u) held0 ->
  phased g policy u (uboot u held0 n) sch ->
  let s := urun g policy sch (uboot u held0 n) in
  exists o ts, UpperInv g policy {| us := m2_up s; off := o |} /\ (nohide sch -> F0 o) /\
    llfree_tree_stats g (m2_up s) = Ok ts /\
    ts_free ts + UpperStatsProofs.sumN o = free_frames (llfree_stats g (m2_up s)) /\
    ts_free ts + UpperStatsProofs.sumN o = exact_free (abs g (low (m2_up s))).
Proof. exact conc_phased_stats_off. Qed.
Print Assumptions Conc_phased_stats.

(* non-vacuity (UpperPhased.PhasedExample): Offline racing gets | put racing get | solo Online of the offline tree |
   gets, one of them get_at into the tree just onlined; hypotheses hold, end state by evaluation and by the theorem *)
Theorem Conc_phased_instance :
  phased UpperConcClass.ClassExample.g7 UpperConcClass.ClassExample.pol7 UpperConcClass.ClassExample.U0 PhasedExample.boot0 PhasedExample.sch /\
  upper_invb UpperConcClass.ClassExample.g7 UpperConcClass.ClassExample.pol7 (ustate_new (m2_up PhasedExample.s4)) = true /\
  llfree_validate UpperConcClass.ClassExample.g7 (m2_up PhasedExample.s4) = Ok tt.
Proof.
  split; [exact PhasedExample.sch_phased|].
  destruct PhasedExample.phased_nonvacuous as (_ & _ & _ & _ & _ & A & B). split; assumption.
Qed.
Print Assumptions Conc_phased_instance.
