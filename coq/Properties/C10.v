(* C10 - After a drain, allocation fails only when nothing suitable is free.

   "UpperInv s, pol_never_invalid, s has no reservation (what drain establishes) imply: get None (order 0, c,
    slot) = Err Memory only if every tree has g_t = 0, i.e. no frame outside offline trees is free;
    get (Some f) req = Ok _ iff the block is free in abs s and its tree is not offline."

   `present_slots u = []`: no local slot holds a reservation; `t_free t` is the tree counter g_t;
   `off x` the per-tree amount hidden by offline operations; `tree_free g l t` the free frames of tree t in the
   lower allocator; `exact_free (abs ..)` the number of free frames of the ownership state.
   Hypotheses: wf geometry, `pol_refl_match`, `pol_never_invalid` (+ `pol_demote_trans` for the targeted form);
   all hold for the built-in policies (PolicyFacts.v).  `frames < 2^64` is true of every real configuration.
   Proofs: UpperGetComplete.v (over UpperGetLoops.v, UpperGetProofs.v, LowerGetProofs.v = C12),
   UpperPutProofs.v (drain), GlueProofs.v / GlueHistory.v (summed form). *)
From Coq Require Import List NArith.
From LLF Require Import Base Row Bitfield Lower Spec LowerFactsProofs Upper UpperInvDef UpperPrims UpperPutProofs
  UpperStatsProofs UpperGetProofs UpperGetComplete Handoff GlueProofs GlueHistory.

(* drain never fails, keeps the invariant, the lower allocator and the ghost, and leaves no reservation *)
Theorem C10_drain_clears : forall g policy, wf_geom g -> forall x r x',
  UpperInv g policy x ->
  ghost_lift (llfree_drain g policy) x = (r, x') ->
  r = Ok tt /\ UpperInv g policy x' /\ low (us x') = low (us x) /\ off x' = off x /\
  present_slots (us x') = [] /\
  (forall i t, tree_at (us x') i = Some t -> t_res t = false) /\
  (forall c, class_locals (us x') c = class_locals (us x) c).
Proof. intros g policy WF. exact (llfree_drain_correct g policy WF (lower_facts_proved g WF)). Qed.
Print Assumptions C10_drain_clears.

(* (a) base-order allocation *)
Theorem C10_base_complete : forall g policy,
  wf_geom g -> pol_refl_match policy -> pol_never_invalid policy ->
  forall x rq x',
    UpperInv g policy x -> valid_req (us x) rq -> present_slots (us x) = [] -> r_order rq = 0%nat ->
    frames (low (us x)) < W64 ->
    ghost_lift (fun u => llfree_get g policy u None rq) x = (Err EMemory, x') ->
    (* every tree counter is zero *)
    (forall i t, tree_at (us x) i = Some t -> t_free t = 0) /\
    (* every free frame of every tree is hidden by an offline operation *)
    (forall i, i < ntrees (us x) -> tree_free g (low (us x)) i = nth (nn i) (off x) 0) /\
    (* summed: the number of free frames is the total hidden amount *)
    exact_free (abs g (low (us x))) = sumN (off x).
Proof. exact drained_base_fail_all_hidden. Qed.
Print Assumptions C10_base_complete.

(* ... in particular, when no tree is offline, only if no frame is free at all *)
Theorem C10_base_complete_none_offline : forall g policy,
  wf_geom g -> pol_refl_match policy -> pol_never_invalid policy ->
  forall x rq x',
    UpperInv g policy x -> valid_req (us x) rq -> present_slots (us x) = [] -> r_order rq = 0%nat ->
    frames (low (us x)) < W64 -> Forall (fun o => o = 0) (off x) ->
    ghost_lift (fun u => llfree_get g policy u None rq) x = (Err EMemory, x') ->
    exact_free (abs g (low (us x))) = 0.
Proof.
  intros g policy WF PR PN x rq x' HI Hv Hp Ho Hfr Hoff Hg.
  destruct (drained_base_fail_all_hidden g policy WF PR PN x rq x' HI Hv Hp Ho Hfr Hg) as (_ & B & _).
  exact (all_hidden_none_offline g WF policy x HI Hoff B).
Qed.
Print Assumptions C10_base_complete_none_offline.

(* (b) targeted allocation of a block that passes the argument check: Ok (of that frame) exactly when the block
   is free in the ownership state and the counter of its tree covers it (the counter of an offline tree is 0) *)
Theorem C10_at_complete : forall g policy,
  wf_geom g -> pol_refl_match policy -> pol_demote_trans policy -> pol_never_invalid policy ->
  forall x f rq t,
    UpperInv g policy x -> valid_req (us x) rq -> present_slots (us x) = [] ->
    check g (us x) f rq = Ok tt -> tree_at (us x) (f / TF g) = Some t ->
    ((exists c x', ghost_lift (fun u => llfree_get g policy u (Some f) rq) x = (Ok (f, c), x')) <->
     (pow2 (r_order rq) <= t_free t /\ spec_get_enabled (abs g (low (us x))) f (r_order rq) = true)).
Proof.
  intros g policy WF PR PT PN x f rq t HI Hv. apply valid_req_local in Hv.
  exact (get_at_complete g policy WF (lower_facts_proved g WF) PR PT PN x f rq t HI Hv).
Qed.
Print Assumptions C10_at_complete.

(* without reservations the counter of a tree is its visible free amount *)
Theorem C10_counter_is_visible_free : forall g policy x i t,
  UpperInv g policy x -> present_slots (us x) = [] -> tree_at (us x) i = Some t ->
  t_free t + nth (nn i) (off x) 0 = tree_free g (low (us x)) i.
Proof.
  intros g policy x i t HI Hp Ht. destruct HI as (_ & _ & _ & _ & _ & H & _).
  destruct (H (nn i) t Ht) as (_ & B & _). unfold slots_of in B. rewrite Hp in B. cbn in B.
  unfold nn in B at 2. rewrite N2Nat.id in B. rewrite <- B. rewrite N.add_0_r. reflexivity.
Qed.
Print Assumptions C10_counter_is_visible_free.

(* non-vacuity: UpperGetComplete.v, module CompleteExamples (ex_base_complete: both whole trees allocated, the
   third offline, base-order get fails with 904 hidden free frames; ex_base_ok; ex_at_complete). *)
Example C10_example :
  let x := CompleteExamples.x2off in
  present_slots (us x) = [] /\
  (exists x3, GetExamples.get x None (GetExamples.rq 0 1 None) = (Err EMemory, x3)) /\
  map t_free (trees (us x)) = [0; 0; 0] /\ off x = [0; 0; 904] /\
  exact_free (abs GetExamples.g (low (us x))) = 904.
Proof.
  cbv zeta. split; [vm_compute; reflexivity|]. split; [eexists; vm_compute; reflexivity|].
  repeat split; vm_compute; reflexivity.
Qed.
