(* "Every quiescent state reached by the explored sequential histories AND concurrent interleavings" (C10, C14):
   the sequential theorems of C10 / C14 are stated for any state satisfying the invariant `UpperInv`; the concurrent
   theorem Conc_upper_safe_with_changes says that the state of the whole-allocator machine M2 satisfies it whenever no
   call is in flight, after ANY interleaving (scope of Properties/Conc.v: valid parameters, concurrent
   change_tree(Online) excluded - finding D16).  This file only composes them, so that the claim "after every
   interleaving, then a drain, then the checked call" is a theorem and not a reading of two files.
   `st` below is the quiescent end state of the interleaving with the ghost `off` computed along the run. *)
From Coq Require Import List NArith.
From LLF Require Import Base Row Bitfield Lower Spec LowerFactsProofs Upper UpperInvDef UpperPrims UpperPutProofs
  UpperStatsProofs UpperGetProofs UpperGetComplete Handoff GlueProofs GlueHistory
  LowerMachine UpperMachine ConcInvDef ConcInv UpperConcInvDef UpperConcInv UpperConcProps AfterInterleaving.

Theorem C10_after_every_interleaving : forall g policy u held0 n sch,
  wf_geom g -> pol_refl_match policy -> pol_demote_trans policy -> pol_never_invalid policy ->
  UpperInv g policy (ustate_new u) -> HeldInit g (low u) held0 -> sched_valid g u sch ->
  let x := UpperConcInv.grun g policy sch (uboot u held0 n, zeros u) in
  let st := {| us := m2_up (fst x); off := snd x |} in
  uquiescent (fst x) ->
  exists st', ghost_lift (llfree_drain g policy) st = (Ok tt, st') /\ UpperInv g policy st' /\
    low (us st') = low (us st) /\ present_slots (us st') = [] /\
    (* base order *)
    (forall rq st'', valid_req (us st') rq -> r_order rq = 0%nat -> frames (low (us st')) < W64 ->
       ghost_lift (fun v => llfree_get g policy v None rq) st' = (Err EMemory, st'') ->
       (forall i t, tree_at (us st') i = Some t -> t_free t = 0) /\ exact_free (abs g (low (us st'))) = sumN (off st')) /\
    (* targeted *)
    (forall f rq t, valid_req (us st') rq -> check g (us st') f rq = Ok tt -> tree_at (us st') (f / TF g) = Some t ->
       ((exists c st'', ghost_lift (fun v => llfree_get g policy v (Some f) rq) st' = (Ok (f, c), st'')) <->
        (pow2 (r_order rq) <= t_free t /\ spec_get_enabled (abs g (low (us st'))) f (r_order rq) = true))).
Proof. exact c10_after_every_interleaving. Qed.
Print Assumptions C10_after_every_interleaving.

Theorem C14_after_every_interleaving : forall g policy u held0 n sch,
  wf_geom g -> pol_refl_match policy -> pol_demote_trans policy ->
  UpperInv g policy (ustate_new u) -> HeldInit g (low u) held0 -> sched_valid g u sch ->
  let x := UpperConcInv.grun g policy sch (uboot u held0 n, zeros u) in
  uquiescent (fst x) ->
  exists ts, llfree_tree_stats g (m2_up (fst x)) = Ok ts /\
    length (ts_classes ts) = 8%nat /\
    sumN (map cs_free (ts_classes ts)) = ts_free ts /\
    sumN (map (fun c => cs_free c + cs_alloc c) (ts_classes ts)) = ntrees (m2_up (fst x)) * TF g.
Proof. exact c14_after_every_interleaving. Qed.
Print Assumptions C14_after_every_interleaving.
