(* C11 - A single-slot allocator finds every free base frame without draining.

   "One class c with one slot, policy c t _ <> Invalid for every tree class t that can occur, 2..n trees,
    history of base-order calls of class c (allocations through slot 0, frees through slot 0 or no slot):
    get = Err Memory only if exact_free (abs s) = 0."

   Stated for ANY state satisfying the invariant `UpperInv` in which class c is the only configured class and
   has exactly one slot (every state reachable from `llfree_new` with the classing [(c, 1)] by any history of
   valid-parameter calls is such a state: C09 / C04_inv_after_every_history and C07's shape preservation), so
   the restriction of the history to base-order calls is not needed.  The model is the repaired code (D7: the
   sync threshold is `>=`).  With trees taken offline the conclusion is "every free frame is hidden by an
   offline operation"; without offline trees (`off` all zero) it is `exact_free = 0`.
   Hypotheses: wf geometry, `pol_refl_match`, `pol_never_invalid`; at least two trees; frames < 2^64.
   Proofs: UpperGetComplete.v (`get_single_slot_complete`), GlueProofs.v / GlueHistory.v (summed form). *)
From Coq Require Import List NArith.
From LLF Require Import Base Row Bitfield Lower Spec LowerFactsProofs Upper UpperInvDef UpperPrims UpperPutProofs
  UpperStatsProofs UpperGetProofs UpperGetComplete Handoff GlueProofs GlueHistory.

(* per tree: all free frames are hidden *)
Theorem C11_single_slot_complete : forall g policy,
  wf_geom g -> pol_refl_match policy -> pol_never_invalid policy ->
  forall x c x',
    UpperInv g policy x ->
    (forall c', class_slots (us x) c' <> None -> c' = c) -> class_locals (us x) c = Some 1 ->
    1 < ntrees (us x) -> frames (low (us x)) < W64 ->
    ghost_lift (fun u => llfree_get g policy u None {| r_order := 0; r_class := c; r_local := Some 0 |}) x
      = (Err EMemory, x') ->
    (forall i, i < ntrees (us x) -> tree_free g (low (us x)) i = nth (nn i) (off x) 0) /\
    exact_free (abs g (low (us x))) = sumN (off x).
Proof. exact single_slot_fail_all_hidden. Qed.
Print Assumptions C11_single_slot_complete.

(* no tree offline: out of memory only if no frame is free *)
Theorem C11_single_slot_no_free : forall g policy,
  wf_geom g -> pol_refl_match policy -> pol_never_invalid policy ->
  forall x c x',
    UpperInv g policy x ->
    (forall c', class_slots (us x) c' <> None -> c' = c) -> class_locals (us x) c = Some 1 ->
    1 < ntrees (us x) -> frames (low (us x)) < W64 ->
    Forall (fun o => o = 0) (off x) ->
    ghost_lift (fun u => llfree_get g policy u None {| r_order := 0; r_class := c; r_local := Some 0 |}) x
      = (Err EMemory, x') ->
    exact_free (abs g (low (us x))) = 0.
Proof. exact single_slot_fail_no_free. Qed.
Print Assumptions C11_single_slot_no_free.

(* the ghost stays zero as long as no tree is taken offline: get / put / drain never touch it *)
Theorem C11_ghost_untouched : forall A (f : upper -> res A * upper) x r x',
  ghost_lift f x = (r, x') -> off x' = off x.
Proof. intros A f x r x'. unfold ghost_lift. destruct (f (us x)). intros H. inversion H. reflexivity. Qed.
Print Assumptions C11_ghost_untouched.

(* non-vacuity: geometry 9/2, 4096 frames = 2 trees, the single class 0 with one slot, simple ordered policy.
   D7's scenario: exhaust both trees (two tree-order allocations leave nothing; here: allocate everything by two
   order-11 gets), free one frame without a slot, allocate through the slot: it is found (Ok).  After it is
   taken again the allocator is empty and the get fails with exact_free = 0. *)
Example C11_example :
  let g := {| hord := 9; tlog := 2 |} in
  let pol := PolicyFacts.ordered_policy (fun _ => 1) in
  let lower0 := {| frames := 0; bfs := []; ents := [] |} in
  let rq o l := {| r_order := o; r_class := 0; r_local := l |} in
  exists u, llfree_new g 4096 IFreeAll [(0, 1)] 0 lower0 [] [slot_none] = Ok u /\
    let r := grun g pol (ustate_new u)
               [OGet None (rq 11%nat (Some 0)); OGet None (rq 11%nat (Some 0)); OGet None (rq 0%nat (Some 0));
                OPut 77 (rq 0%nat None); OGet None (rq 0%nat (Some 0)); OGet None (rq 0%nat (Some 0))] in
    fst r = [RGet (Ok (0, 0)); RGet (Ok (2048, 0)); RGet (Err EMemory); RPut (Ok tt); RGet (Ok (77, 0));
             RGet (Err EMemory)] /\
    exact_free (abs g (low (us (snd r)))) = 0 /\ off (snd r) = [0; 0] /\
    class_locals (us (snd r)) 0 = Some 1 /\ ntrees (us (snd r)) = 2.
Proof. cbv zeta. eexists. split; [vm_compute; reflexivity|]. repeat split; vm_compute; reflexivity. Qed.
