(* C21 (upper layer) - Every call of the whole allocator finishes in bounded steps once it runs without
   interference.  Property theorems only; the proofs are in UpperProgress.v.  Machine: UpperMachine.v (M2, one
   transition per atomic access of a tree entry / a local slot / the embedded lower allocator M1).
   `usoloN g policy n s t`  n steps of thread t only, from state s.
   `usettled s t`           thread t is not inside a call (idle with a result, or panicked).
   `ubound g u`             = N.to_nat (uboundN g (ntrees u) (nslots u)): a function of the geometry (through
                            TREE_HUGE and Progress.bound g), the number of trees and the total number of local
                            slots of the configuration; independent of the memory contents (lower buffer, tree
                            entries, slots) and of the other threads.
   `uthread_ok g s t`       thread t's primitive and continuation stack are well formed: the embedded lower pc is
                            `pc_ok`, orders <= TREE_ORDER, search counters within the number of trees, results
                            stored in frames are not panics, frames appear in call-graph order; an invariant of
                            every schedule (C21u_thread_ok_invariant). *)
From LLF Require Import Base Row Bitfield Lower Sorted Upper LowerMachine Progress UpperMachine UpperProgress.

(* from ANY state (any memory contents, any other threads, any ghost) in which t's thread state is well formed *)
Theorem C21u_solo_terminates : forall g policy, wf_geom g -> forall s t, uthread_ok g s t ->
  exists n, (n <= ubound g (m2_up s))%nat /\ usettled (usoloN g policy n s t) t = true.
Proof. exact usolo_terminates. Qed.
Print Assumptions C21u_solo_terminates.

(* well-formedness is preserved by every step of every thread and holds initially *)
Theorem C21u_thread_ok_invariant : forall g policy, wf_geom g -> forall sch u held n t,
  uthread_ok g (urun g policy sch (uboot u held n)) t.
Proof. exact uthread_ok_reachable. Qed.
Print Assumptions C21u_thread_ok_invariant.

(* hence: from any intermediate state reachable in any interleaving *)
Theorem C21u_reachable_solo_terminates : forall g policy, wf_geom g -> forall u held n sch t,
  let s := urun g policy sch (uboot u held n) in
  exists k, (k <= ubound g (m2_up s))%nat /\ usettled (usoloN g policy k s t) t = true.
Proof. exact ureachable_solo_terminates. Qed.
Print Assumptions C21u_reachable_solo_terminates.

(* no retry loop runs on its own: a thread at the compare-exchange of a `try_update`/`update` of a tree entry
   (PTC), of a local slot (PSC), or at a CAS site of the embedded lower call (`uretry_site`) has left it after
   one or after two solo steps *)
Theorem C21u_retry_bounded : forall g policy, wf_geom g -> forall s t c p st k, uthread_ok g s t ->
  nth_error (m2_pool s) t = Some (URun c p st) -> uretry_site p = Some k ->
  ~ uat_site (usoloN g policy 1 s t) t k \/ ~ uat_site (usoloN g policy 2 s t) t k.
Proof. exact uretry_bounded. Qed.
Print Assumptions C21u_retry_bounded.

(* the only program point that gives up because ANOTHER thread made no progress is the bounded spin of
   partial_put_huge inside the embedded lower call *)
Theorem C21u_wait_only_PP3 : forall g policy, wf_geom g -> forall s t c p k c0 c', uthread_ok g s t ->
  nth_error (m2_pool s) t = Some (URun c p k) ->
  nth_error (m2_pool (fst (ustep g policy s t c0))) t = Some (UPanic SExceedingRetries c') ->
  exists lc i, p = PLow (TRun lc (PP3 i)).
Proof. exact uexceeding_retries_only_PP3. Qed.
Print Assumptions C21u_wait_only_PP3.

(* ... and there it does wait (known finding D13 through LLFree::put) *)
Theorem C21u_known_wait :
  let s := urun g7 p7 sch7 (uboot U7 (alloc_all_held g7 256) 2) in
  wf_geom g7 /\ uheld_ok s = true /\
  prim_at s 0 = Some (PLow (TRun (CPut 0 0) (PP2 MARK))) /\
  prim_at s 1 = Some (PLow (TRun (CPut 1 0) (PP3 0))) /\
  thr_at (usoloN g7 p7 4 s 1) 1 = Some (UPanic SExceedingRetries (put7 1)) /\
  thr_at (usoloN g7 p7 7 (fst (ustep g7 p7 s 0 UDrain)) 1) 1 = Some (UIdle (Some (Ok (0, 0)))).
Proof. exact uknown_wait. Qed.
Print Assumptions C21u_known_wait.
