(* C01 - Allocated blocks never overlap, are aligned and in range, under any interleaving.
   Machine M1 (LowerMachine.v): one transition per atomic load / compare-exchange of the lower allocator
   (lower.rs + bitfield.rs), any number of threads, any schedule of any length; threads are a most general
   client (any get / get_at with the preconditions the upper allocator's `check` guarantees, any put of a
   held block or of an aligned part of one).  `ms_held` is the ghost list of blocks handed out by completed
   allocations and not yet passed to a free; `held_ok` says they are pairwise disjoint, each block of order k
   starts at a multiple of 2^k and ends at or before the managed frame count.
   Because the upper allocator touches allocation bits only through these three entry points and returns a
   frame only when a lower get returned it, this covers drains, tree changes and every upper-layer
   behaviour.  Proofs: Conc*.v (invariant `Inv`, ~3800 lines), LowerInitProofs.v for the initial states.
   Sequential histories: C02_history_* (a returned block was entirely free). *)
From LLF Require Import Base Row Bitfield Lower Spec LowerMachine LowerInitProofs ConcInvDef ConcInv ConcInvInit ConcProps.

Theorem C01_held_blocks_disjoint : forall g l held0 n sch, wf_geom g -> LowerInv g l -> HeldInit g l held0 ->
  let s := mrun g sch (boot l held0 n) in
  held_ok s = true /\ (forall x, In x (panicked s) -> x = SExceedingRetries).
Proof. exact conc_safe. Qed.
Print Assumptions C01_held_blocks_disjoint.

(* from a fresh free-all allocator, every frame count *)
Theorem C01_from_free_all : forall g fr n sch, wf_geom g ->
  held_ok (mrun g sch (boot (free_all g fr) [] n)) = true.
Proof.
  intros g fr n sch WF.
  exact (proj1 (conc_safe_free_all g fr n sch WF (free_all_inv g WF fr))).
Qed.
Print Assumptions C01_from_free_all.

(* from a fresh allocate-all allocator whose client holds every whole huge frame and every other frame *)
Theorem C01_from_reserve_all : forall g fr n sch, wf_geom g ->
  held_ok (mrun g sch (boot (reserve_all g fr) (alloc_all_held g fr) n)) = true.
Proof.
  intros g fr n sch WF.
  exact (proj1 (conc_safe_reserve_all g fr n sch WF (reserve_all_inv g WF fr))).
Qed.
Print Assumptions C01_from_reserve_all.

(* the inductive invariant itself holds in every reachable state (used by C03, C05) *)
Theorem C01_invariant : forall g l held0 n sch, wf_geom g -> LowerInv g l -> HeldInit g l held0 ->
  Inv g (mrun g sch (boot l held0 n)).
Proof. exact conc_inv. Qed.
Print Assumptions C01_invariant.
