(* C23 - Row bit search returns the lowest aligned free block and sets exactly it.
   Property theorems only; proofs live in RowProofs.v. *)
From LLF Require Import Base Row RowProofs.
