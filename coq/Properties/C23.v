(* C23 - Row bit search returns the lowest aligned free block and sets exactly it.
   Property theorems only; the proofs are in RowProofs.v (bit lemmas in BitLemmas.v).
   `fza` is the model of bitfield.rs `first_zeros_aligned`; `row_spec`, `block_free`, `block_mask`
   are the specification (Row.v). All 2^64 row values, orders 0..6. *)
From LLF Require Import Base Row RowProofs.

(* the bit trick is the obvious search *)
Theorem C23_row_search : forall v o, v < W64 -> (o <= 6)%nat -> fza v o = row_spec v o.
Proof. exact fza_correct. Qed.
Print Assumptions C23_row_search.

(* "reports no block exactly when the row has no all-free aligned block of that order" *)
Theorem C23_row_search_none : forall v o, v < W64 -> (o <= 6)%nat ->
  (fza v o = None <->
   forall q, q mod 2 ^ N.of_nat o = 0 -> q + 2 ^ N.of_nat o <= 64 -> block_free v o q = false).
Proof.
  intros v o Hv Ho. rewrite (fza_correct v o Hv Ho). split.
  - apply row_spec_none; assumption.
  - intros H. destruct (row_spec v o) as [[v' p]|] eqn:E; [|reflexivity].
    destruct (row_spec_some v o v' p Ho E) as (Ha & Hr & Hf & _).
    rewrite (H p Ha Hr) in Hf. discriminate.
Qed.
Print Assumptions C23_row_search_none.

(* "otherwise it reports the lowest such block and returns the row with exactly that block's bits
   additionally set" *)
Theorem C23_row_search_some : forall v o v' p, v < W64 -> (o <= 6)%nat -> fza v o = Some (v', p) ->
  p mod 2 ^ N.of_nat o = 0 /\ p + 2 ^ N.of_nat o <= 64 /\
  (forall i, p <= i < p + 2 ^ N.of_nat o -> N.testbit v i = false) /\
  (forall q, q mod 2 ^ N.of_nat o = 0 -> q < p -> block_free v o q = false) /\
  (forall i, N.testbit v' i = (N.testbit v i || ((p <=? i) && (i <? p + 2 ^ N.of_nat o)))) /\
  v' < W64.
Proof.
  intros v o v' p Hv Ho E. pose proof E as E'. rewrite (fza_correct v o Hv Ho) in E'.
  destruct (row_spec_some v o v' p Ho E') as (Ha & Hr & Hf & _ & Hl).
  repeat split; try assumption.
  - apply block_free_spec; exact Hf.
  - intro i. exact (fza_testbit v o v' p i Hv Ho E).
  - exact (fza_lt v o v' p Hv Ho E).
Qed.
Print Assumptions C23_row_search_some.

(* non-vacuity: a fragmented row where orders 0..3 find different blocks and order 4 finds none *)
Example C23_example :
  fza 0x00ff0f35ffff00f1 0 = Some (0x00ff0f35ffff00f3, 1) /\
  fza 0x00ff0f35ffff00f1 2 = Some (0x00ff0f35ffff0ff1, 8) /\
  fza 0x00ff0f35ffff00f1 3 = Some (0x00ff0f35fffffff1, 8) /\
  fza 0xffff0f35ffff00f1 4 = None.
Proof. vm_compute. repeat split; reflexivity. Qed.
