(* Extraction of the executable replay model for the correspondence driver `replay`.
   ExtrOcamlBasic only: bool, option, list, prod, unit, sumbool map to OCaml's; N, positive, nat
   stay Coq's inductives. No Extract Constant / Extract Inductive of our own. *)
From LLF Require Import Base Replay.
Require Import ExtrOcamlBasic.
Extraction Language OCaml.
Set Extraction KeepSingleton.
Extraction "model.ml" replay_ff old_replay_ff result trace_spec trace_held tsum bsum ev_okb.
