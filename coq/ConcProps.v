(* The safety theorem of the lower machine (C01 / C03 part L) and its corollaries. *)
From Coq Require Import PeanoNat.
From LLF Require Import Base BitLemmas Row RowProofs Bitfield Lower Spec LowerMachine
  ConcBase ConcInvDef ConcInvGeom ConcInvStep ConcInvTac ConcInvAt ConcInvHuge ConcInv ConcInvInit.

Section Props.
  Variable g : geom.
  Hypothesis wf : wf_geom g.
  Notation HF := (HF g).
  Notation ROWS := (ROWS g).

  (* no managed frame is covered by two held blocks *)
  Lemma inv_heldc_le1 s : Inv g s -> forall x, x < ms_frames s -> heldc x (ms_held s) <= 1.
  Proof.
    intros I x Hx.
    destruct (small_decomp g wf x 0 (N.mod_1_r x)) as (E & Hr & Hi); [destruct wf; lia|].
    pose proof (lt_nbf g (ms_frames s) x Hx) as Hh. rewrite E.
    pose proof (I_A g s I _ _ _ Hh Hr Hi) as A. unfold isMark in A.
    destruct (N.eqb_spec (entv s (x / HF)) MARK) as [He|He]; cbn [b2n] in A.
    - pose proof (I_B g s I _ Hh He _ _ Hr Hi). lia.
    - lia.
  Qed.

  Lemma pairwise_from_heldc fm held : Forall (fun b => blk_ok fm b = true) held ->
    (forall x, x < fm -> heldc x held <= 1) -> pairwise_disjoint held = true.
  Proof.
    induction held as [|a r IH]; intros Hok Hle; [reflexivity|].
    inversion Hok as [|? ? Ha Hr]; subst. cbn [pairwise_disjoint]. apply andb_true_iff. split.
    - apply forallb_forall. intros b Hb. pose proof (proj1 (Forall_forall _ _) Hr b Hb) as Hbk. cbn beta in Hbk.
      unfold disjoint. destruct ((fst a + pow2 (snd a) <=? fst b) || (fst b + pow2 (snd b) <=? fst a)) eqn:Ed; [reflexivity|exfalso].
      unfold blk_ok in Ha, Hbk. pose proof (pow2_pos (snd a)). pose proof (pow2_pos (snd b)).
      set (x := N.max (fst a) (fst b)). assert (Hx : x < fm) by (unfold x; lia).
      specialize (Hle x Hx). rewrite heldc_cons in Hle.
      pose proof (sumf_ge_in (fun b0 => b2n (cover b0 x)) r b Hb) as Hg. cbn beta in Hg. fold (heldc x r) in Hg.
      assert (cover a x = true) by (unfold cover, inb, x; lia).
      assert (cover b x = true) by (unfold cover, inb, x; lia).
      rewrite H1 in Hle. rewrite H2 in Hg. cbn [b2n] in *. lia.
    - apply IH; [exact Hr|]. intros x Hx. specialize (Hle x Hx). rewrite heldc_cons in Hle. lia.
  Qed.

  Lemma inv_held_ok s : Inv g s -> held_ok s = true.
  Proof.
    intros I. unfold held_ok. apply andb_true_iff. split.
    - apply forallb_forall. intros b Hb. exact (proj1 (Forall_forall _ _) (I_H g s I) b Hb).
    - apply (pairwise_from_heldc (ms_frames s)); [apply I|apply inv_heldc_le1; exact I].
  Qed.

  Lemma inv_panics s : Inv g s -> forall x, In x (panicked s) -> x = SExceedingRetries.
  Proof.
    intros I x Hx. unfold panicked in Hx. apply in_flat_map in Hx. destruct Hx as (th & Hth & Hin).
    pose proof (sumf_zero _ _ (I_E g s I) th Hth) as Hb.
    destruct th as [|c p|y c]; cbn in Hin; try tauto. destruct Hin as [<-|[]].
    destruct y; cbn in Hb; try discriminate. reflexivity.
  Qed.
End Props.

(* C01 (part): under every schedule of any number of threads, the blocks handed out and not yet freed are
   pairwise disjoint, aligned and in range.  C03 part L: the only reachable panic is lower.rs:470
   "Exceeding retries" (finding D13). *)
Theorem conc_safe : forall g l held0 n sch, wf_geom g -> LowerInv g l -> HeldInit g l held0 ->
  let s := mrun g sch (boot l held0 n) in
  held_ok s = true /\ (forall x, In x (panicked s) -> x = SExceedingRetries).
Proof.
  intros g l held0 n sch wf HL HI s.
  assert (I : Inv g s) by (apply run_inv; [exact wf|]; apply boot_inv; assumption).
  split; [apply (inv_held_ok g wf s I)|apply (inv_panics g s I)].
Qed.
Print Assumptions conc_safe.

(* ---------- C03: a free of a held block never fails ---------- *)
Lemma upd_same_inv {A} (l : list A) t x y : nth_error (upd l t x) t = Some y -> y = x.
Proof. rewrite nth_error_upd, Nat.eqb_refl. destruct (Nat.ltb t (length l)); congruence. Qed.

Ltac leaf H :=
  cbn [fst ms_pool set_thr set_held] in H;
  apply upd_same_inv in H; try discriminate H.

Section PutErr.
  Variable g : geom.
  Hypothesis wf : wf_geom g.

  (* syntactically: when a running put becomes idle with an error, the step changed nothing but the thread *)
  Lemma put_err_unchanged s t f k p c0 e :
    nth_error (ms_pool s) t = Some (TRun (CPut f k) p) ->
    lpc g (ms_frames s) (CPut f k) p = true ->
    nth_error (ms_pool (fst (mstep g s t c0))) t = Some (TIdle (Some (Err e))) ->
    fst (mstep g s t c0) = set_thr s t (TIdle (Some (Err e))).
  Proof.
    intros Ht L H. unfold mstep in *. rewrite Ht in *. cbv beta iota zeta in *.
    destruct p; cbn [lpc is_get is_getat is_put andb negb] in L; try discriminate L; try (rewrite ?andb_false_r in L; discriminate L).
    all: unfold next_group, toggle_ok, toggle_fail, goto, crash, finish in *.
    all: repeat match type of H with
         | context [match ?x with _ => _ end] => destruct x eqn:?
         end.
    all: try (leaf H).
    all: try (inversion H; subst; reflexivity).
    all: exfalso; cbn [not_xput] in L; rewrite ?andb_false_r in L; discriminate L.
  Qed.

  Notation HF := (HF g).
  Notation ROWS := (ROWS g).

  (* semantically: a thread whose disappearance (alone) keeps the invariant owns nothing and has nothing pending *)
  Lemma vanish_trivial s t x0 l : Inv g s -> Inv g (set_thr s t (TIdle l)) -> nth_error (ms_pool s) t = Some x0 ->
    (forall h r i, h < nbf g (ms_frames s) -> r < ROWS -> i < 64 -> fr g h r i x0 + tr g h r x0 = 0) /\
    (forall h, h < nbf g (ms_frames s) -> entv s h <> MARK -> pend g h x0 = 64 * trcount g h x0).
  Proof.
    intros I I' Ht. pose proof (fun f => sumf_upd f (ms_pool s) t (TIdle l) x0 Ht) as U. split.
    - intros h r i Hh Hr Hi. pose proof (I_A g s I h r i Hh Hr Hi) as A. pose proof (I_A g _ I' h r i Hh Hr Hi) as A'.
      cbn [ms_frames ms_pool ms_held set_thr] in A'. change (bit (set_thr s t (TIdle l)) h r i) with (bit s h r i) in A'.
      change (entv (set_thr s t (TIdle l)) h) with (entv s h) in A'.
      pose proof (U (fr g h r i)) as U1. pose proof (U (tr g h r)) as U2.
      assert (fr g h r i (TIdle l) = 0) by (gsimp; unfold inb; lia). assert (tr g h r (TIdle l) = 0) by (gsimp; unfold inb; lia). lia.
    - intros h Hh He. pose proof (I_C g s I h Hh He) as C. pose proof (I_C g _ I' h Hh He) as C'.
      cbn [ms_frames ms_pool ms_held set_thr] in C'. change (zeros (set_thr s t (TIdle l)) h) with (zeros s h) in C'.
      change (entv (set_thr s t (TIdle l)) h) with (entv s h) in C'.
      pose proof (U (pend g h)) as U1. pose proof (U (trcount g h)) as U2.
      assert (pend g h (TIdle l) = 0) by (gsimp; destr_if; lia). assert (trcount g h (TIdle l) = 0) by (gsimp; destr_if; lia). lia.
  Qed.

  (* every running put owns a frame of a bitfield, or has frames pending under a counter *)
  Lemma put_owns s t f k p : Inv g s -> nth_error (ms_pool s) t = Some (TRun (CPut f k) p) ->
    (exists h r i, h < nbf g (ms_frames s) /\ r < ROWS /\ i < 64 /\ fr g h r i (TRun (CPut f k) p) = 1) \/
    (exists h, h < nbf g (ms_frames s) /\ entv s h <> MARK /\ 0 < pend g h (TRun (CPut f k) p) /\ trcount g h (TRun (CPut f k) p) = 0).
  Proof.
    intros I Ht. pose proof (local_of' g s t _ I Ht) as L. cbn [local_b] in L. apply andb_true_iff in L. destruct L as [Hc L].
    assert (Hfr : c_frame (CPut f k) + c_n (CPut f k) <= ms_frames s) by (unfold cwf in Hc; unfold c_n; cbn [c_frame c_order] in *; lia).
    set (c := CPut f k) in *. pose proof (ROWS_pos g wf) as PR. pose proof (HF_pos g) as HP.
    destruct (Nat.leb_spec (hord g) k) as [Hk|Hk].
    - (* huge order: only HC *)
      assert (Hp : exists gi q, p = HC gi q /\ q < c_hnum g c).
      { destruct p; cbn [lpc is_get is_getat is_put small c_order c andb negb] in L; unfold small in L; cbn [c_order c] in L;
          try (destruct (Nat.ltb_spec k (hord g)); [lia|]); rewrite ?andb_false_r in L; try discriminate L.
        - exists gi, q. split; [reflexivity|lia]. }
      destruct Hp as (gi & q & -> & Hq). left.
      pose proof (own_put_HC g wf (ms_frames s) c gi q Hc Hk eq_refl) as O.
      destruct (huge_call_aligned g (ms_frames s) c Hc Hk eq_refl) as [E1 E2].
      exists (c_huge g c + q), 0, 0. repeat split; try lia.
      + assert (c_huge g c + q + 1 <= nbf g (ms_frames s)); [|lia]. apply le_nbf. rewrite E1, E2 in Hfr. nia.
      + rewrite (EO_fr g _ _ _ O) by lia. unfold inb. lia.
    - (* small order *)
      assert (Hs : small g c = true) by (unfold small; cbn [c_order c]; apply Nat.ltb_lt; exact Hk).
      destruct (small_call_decomp g wf (ms_frames s) c Hc Hs eq_refl) as (Ed & Hr & Ho & _ & _ & Hh).
      pose proof (c_n_pos c) as Hn.
      assert (W0 : forall x, own_lo (ghost_of g x) = c_frame c -> own_n (ghost_of g x) = c_n c ->
                 fr g (c_huge g c) (t_row g XPut c) (t_off XPut c) x = 1).
      { intros x E1 E2. unfold fr. cbv zeta. rewrite E1, E2, <- Ed. unfold inb. lia. }
      destruct p; cbn [lpc is_get is_getat is_put andb negb c] in L; rewrite ?andb_false_r in L; try discriminate L; fold c in L;
        try (left; exists (c_huge g c), (t_row g XPut c), (t_off XPut c); repeat split; try assumption; apply W0; reflexivity);
        try (unfold small in L; cbn [c_order c] in L; destruct (Nat.ltb_spec k (hord g)); lia).
      + (* TL *) destruct x; cbn [ctx_ok is_getat c] in L; try discriminate L;
          left; exists (c_huge g c), (t_row g XPut c), (t_off XPut c); repeat split; try assumption; apply W0; cbn; lia.
      + destruct x; cbn [ctx_ok is_getat c] in L; try discriminate L;
          left; exists (c_huge g c), (t_row g XPut c), (t_off XPut c); repeat split; try assumption; apply W0; cbn; lia.
      + destruct x; cbn [ctx_ok is_getat c] in L; try discriminate L;
          left; exists (c_huge g c), (t_row g XPut c), (t_off XPut c); repeat split; try assumption; apply W0; cbn; lia.
      + (* TW *) destruct x; cbn [ctx_ok is_getat c] in L; try discriminate L.
        * unfold t_nrows in L. cbn [t_order] in L.
          destruct (toggle_rows_fit g wf (ms_frames s) c Hc Hs eq_refl) as (E0 & En & Hfit); [cbn [c_order c] in *; lia|].
          left. exists (c_huge g c), (t_row g XPut c + q), 0. repeat split; try lia.
          unfold fr. cbn [ghost_of gpc gtoggle gput own_lo own_n]. rewrite Ed, E0, En. unfold fidx, inb. lia.
        * left; exists (c_huge g c), (t_row g XPut c), (t_off XPut c); repeat split; try assumption; apply W0; cbn; lia.
      + (* TU *) destruct x; cbn [ctx_ok is_getat c not_xput] in L; rewrite ?andb_false_r in L; try discriminate L.
        left; exists (c_huge g c), (t_row g XPut c), (t_off XPut c); repeat split; try assumption; apply W0; cbn; lia.
      + (* PS2L *) right. exists (c_huge g c). repeat split; try assumption.
        * apply (needs_counter g s t _ _ I Ht Hh). gsimp. rewrite N.eqb_refl. reflexivity.
        * gsimp. rewrite N.eqb_refl. exact Hn.
        * gsimp. rewrite N.eqb_refl. reflexivity.
      + (* PS2C *) right. exists (c_huge g c). repeat split; try assumption.
        * apply (needs_counter g s t _ _ I Ht Hh). gsimp. rewrite N.eqb_refl. reflexivity.
        * gsimp. rewrite N.eqb_refl. exact Hn.
        * gsimp. rewrite N.eqb_refl. reflexivity.
  Qed.

  (* C03 (part): a step of a thread running a put accepted by client_take never completes with an error *)
  Theorem put_never_err s t f k p c0 e : Inv g s -> nth_error (ms_pool s) t = Some (TRun (CPut f k) p) ->
    nth_error (ms_pool (fst (mstep g s t c0))) t <> Some (TIdle (Some (Err e))).
  Proof.
    intros I Ht H.
    pose proof (local_of' g s t _ I Ht) as L. cbn [local_b] in L. apply andb_true_iff in L. destruct L as [_ L].
    pose proof (put_err_unchanged s t f k p c0 e Ht L H) as Es.
    pose proof (step_inv g wf s t c0 I) as I'. rewrite Es in I'.
    destruct (vanish_trivial s t _ _ I I' Ht) as [V1 V2].
    destruct (put_owns s t f k p I Ht) as [(h & r & i & Hh & Hr & Hi & E)|(h & Hh & He & Hp & Htc)].
    - specialize (V1 h r i Hh Hr Hi). lia.
    - specialize (V2 h Hh He). lia.
  Qed.
End PutErr.

(* the invariant holds in every reachable state *)
Theorem conc_inv : forall g l held0 n sch, wf_geom g -> LowerInv g l -> HeldInit g l held0 ->
  Inv g (mrun g sch (boot l held0 n)).
Proof. intros g l held0 n sch wf HL HI. apply run_inv; [exact wf|]. apply boot_inv; assumption. Qed.

(* C03 (part): in every reachable state, a step of a thread that runs `put(frame, order)` of a block accepted by
   `client_take` (a held block or an aligned sub-block of one) never completes with `Err _`; together with
   `conc_safe` (no panic other than D13) every such put completes with `Ok`, or stays in flight, or hits D13. *)
Theorem conc_put_never_err : forall g l held0 n sch t f k p c0 e, wf_geom g -> LowerInv g l -> HeldInit g l held0 ->
  let s := mrun g sch (boot l held0 n) in
  nth_error (ms_pool s) t = Some (TRun (CPut f k) p) ->
  nth_error (ms_pool (fst (mstep g s t c0))) t <> Some (TIdle (Some (Err e))).
Proof.
  intros g l held0 n sch t f k p c0 e wf HL HI s Ht.
  apply (put_never_err g wf s t f k p c0 e); [|exact Ht]. apply conc_inv; assumption.
Qed.
Print Assumptions conc_inv.
Print Assumptions conc_put_never_err.

(* ---------- the two initialisation modes ---------- *)
Corollary conc_safe_free_all : forall g fr n sch, wf_geom g -> LowerInv g (free_all g fr) ->
  let s := mrun g sch (boot (free_all g fr) [] n) in
  held_ok s = true /\ (forall x, In x (panicked s) -> x = SExceedingRetries).
Proof. intros g fr n sch wf HL. apply conc_safe; [exact wf|exact HL|apply held_init_free_all; exact wf]. Qed.

Corollary conc_safe_reserve_all : forall g fr n sch, wf_geom g -> LowerInv g (reserve_all g fr) ->
  let s := mrun g sch (boot (reserve_all g fr) (alloc_all_held g fr) n) in
  held_ok s = true /\ (forall x, In x (panicked s) -> x = SExceedingRetries).
Proof. intros g fr n sch wf HL. apply conc_safe; [exact wf|exact HL|apply held_init_reserve_all; exact wf]. Qed.
Print Assumptions conc_safe_free_all.
Print Assumptions conc_safe_reserve_all.

(* ---------- non-vacuity ---------- *)
Definition g9 : geom := {| hord := 9; tlog := 2 |}.
Lemma wf_g9 : wf_geom g9. Proof. unfold wf_geom; cbn; lia. Qed.
Definition run_n (t : nat) (n : nat) : list (nat * call) := repeat (t, CGet 0 0) n.

(* D13: thread 0 frees frame 5 of a held huge block and is frozen at PP2 (all rows filled, marker not yet cleared);
   thread 1 frees frame 6 of the same huge block, fails its split and gives up after RETRIES loads. *)
Definition d13_sched : list (nat * call) :=
  [(0%nat, CPut 5 0)] ++ run_n 0 1 ++ run_n 0 8 ++          (* t0: start, P1 sees the marker, fills the 8 rows -> PP2 *)
  [(1%nat, CPut 6 0)] ++ run_n 1 1 ++ run_n 1 1 ++ run_n 1 4. (* t1: start, P1, TW fails -> PP3 0, four loads -> panic *)
Definition d13_state := mrun g9 d13_sched (boot (reserve_all g9 1024) (alloc_all_held g9 1024) 2).

Example d13_reachable :
  ms_pool d13_state = [TRun (CPut 5 0) (PP2 MARK); TPanic SExceedingRetries (CPut 6 0)].
Proof. vm_compute. reflexivity. Qed.

Theorem conc_known_panic : exists sch,
  In SExceedingRetries (panicked (mrun g9 sch (boot (reserve_all g9 1024) (alloc_all_held g9 1024) 2))).
Proof. exists d13_sched. vm_compute. auto. Qed.

(* the boolean form of the invariant holds in that state (the panicked thread still owns its block) *)
Example d13_inv : inv_b g9 d13_state = true.
Proof. vm_compute. reflexivity. Qed.

(* two gets race for the same row: both loaded the same row value, the second CAS fails and retries *)
Definition race_get_state :=
  mrun g9 ([(0%nat, CGet 0 0); (1%nat, CGet 0 0)] ++ run_n 0 2 ++ run_n 1 2 ++ run_n 0 1 ++ run_n 1 1 ++ run_n 0 1 ++ run_n 1 1)
       (boot (free_all g9 1024) [] 2).
Example race_get :
  ms_pool race_get_state = [TIdle (Some (Ok 0)); TRun (CGet 0 0) (G2C 0 0 1)] /\ ms_held race_get_state = [(0, 0%nat)]
  /\ inv_b g9 race_get_state = true
  /\ ms_held (fst (mstep g9 race_get_state 1 (CGet 0 0))) = [(1, 0%nat); (0, 0%nat)].
Proof. vm_compute. auto. Qed.

(* a get races with a put in the same huge frame: the put has cleared its bit but not yet incremented the counter
   while the get decrements it and takes the freed frame *)
Definition race_get_put_state :=
  mrun g9 ([(0%nat, CGetAt 3 0)] ++ run_n 0 4 ++                 (* t0 allocates frame 3 *)
           [(0%nat, CPut 3 0)] ++ run_n 0 3 ++                   (* t0: P1, TL, TC: bit cleared, at PS2L *)
           [(1%nat, CGetAt 3 0)] ++ run_n 1 4)                   (* t1 allocates frame 3 again, fully *)
       (boot (free_all g9 1024) [] 2).
Example race_get_put :
  ms_pool race_get_put_state = [TRun (CPut 3 0) PS2L; TIdle (Some (Ok 3))] /\ ms_held race_get_put_state = [(3, 0%nat)]
  /\ nth_error (ms_ents race_get_put_state) 0 = Some 510 /\ inv_b g9 race_get_put_state = true.
Proof. vm_compute. auto. Qed.
