(* Preservation of the invariant: get at small orders (pcs G1x, G2x, G3x). One lemma per pc. *)
From Coq Require Import PeanoNat.
From LLF Require Import Base BitLemmas Row RowProofs Bitfield Lower Spec LowerMachine
  ConcBase ConcInvDef ConcInvGeom ConcInvStep ConcInvTac.

Section Get.
  Variable g : geom.
  Hypothesis wf : wf_geom g.
  Notation HF := (HF g).
  Notation THUGE := (THUGE g).
  Notation ROWS := (ROWS g).

  Lemma finish_err s t c e : finish s t c (Err e) = set_thr s t (TIdle (Some (Err e))).
  Proof. destruct c; reflexivity. Qed.

  Lemma local_of s t x : Inv g s -> nth_error (ms_pool s) t = Some x -> local_b g (ms_frames s) x = true.
  Proof. intros I Ht. exact (Forall_nth_error _ _ _ _ (I_L g s I) Ht). Qed.

  Lemma step_G1L s t c j c0 : Inv g s -> nth_error (ms_pool s) t = Some (TRun c (G1L j)) ->
    Inv g (fst (mstep g s t c0)).
  Proof.
    intros I Ht. pose proof (local_of s t _ I Ht) as L. cbn [local_b lpc] in L.
    unfold mstep. rewrite Ht. cbv beta iota zeta.
    destruct (has_ent g s (child_h g c j) I) as [v Ev]; [apply child_h_lt; lia|].
    rewrite Ev. cbn [fst].
    destruct (e_dec v (c_n c)) eqn:Ed.
    - apply (inv_plain g s t _ _ I Ht); [intros h; gsame_tac|reflexivity|].
      cbn [local_b lpc]. rewrite Ed. cbn [isSome]. lia.
    - unfold next_child. destruct (j + 1 <? THUGE) eqn:Ej.
      + apply (inv_plain g s t _ _ I Ht); [intros h; gsame_tac|reflexivity|]. cbn [local_b lpc]. lia.
      + rewrite finish_err. apply (inv_plain g s t _ _ I Ht); [intros h; gsame_tac|reflexivity|reflexivity].
  Qed.
End Get.
