(* Preservation of the invariant: get at small orders (pcs G1x, G2x, G3x). One lemma per pc. *)
From Coq Require Import PeanoNat.
From LLF Require Import Base BitLemmas Row RowProofs Bitfield Lower Spec LowerMachine
  ConcBase ConcInvDef ConcInvGeom ConcInvStep ConcInvTac.

Section Get.
  Variable g : geom.
  Hypothesis wf : wf_geom g.
  Notation HF := (HF g).
  Notation THUGE := (THUGE g).
  Notation ROWS := (ROWS g).

  Lemma finish_err s t c e : finish s t c (Err e) = set_thr s t (TIdle (Some (Err e))).
  Proof. destruct c; reflexivity. Qed.

  Lemma local_of s t x : Inv g s -> nth_error (ms_pool s) t = Some x -> local_b g (ms_frames s) x = true.
  Proof. intros I Ht. exact (Forall_nth_error _ _ _ _ (I_L g s I) Ht). Qed.

  Lemma step_G1L s t c j c0 : Inv g s -> nth_error (ms_pool s) t = Some (TRun c (G1L j)) ->
    Inv g (fst (mstep g s t c0)).
  Proof.
    intros I Ht. pose proof (local_of s t _ I Ht) as L. cbn [local_b lpc] in L.
    unfold mstep. rewrite Ht. cbv beta iota zeta.
    destruct (has_ent g s (child_h g c j) I) as [v Ev]; [apply child_h_lt; lia|].
    rewrite Ev. cbn [fst].
    destruct (e_dec v (c_n c)) eqn:Ed.
    - apply (inv_plain g s t _ _ I Ht); [intros h; gsame_tac|reflexivity|].
      cbn [local_b lpc]. rewrite Ed. cbn [isSome]. lia.
    - unfold next_child. destruct (j + 1 <? THUGE) eqn:Ej.
      + apply (inv_plain g s t _ _ I Ht); [intros h; gsame_tac|reflexivity|]. cbn [local_b lpc]. lia.
      + rewrite finish_err. apply (inv_plain g s t _ _ I Ht); [intros h; gsame_tac|reflexivity|reflexivity].
  Qed.

  Lemma step_G1C s t c j v c0 : Inv g s -> nth_error (ms_pool s) t = Some (TRun c (G1C j v)) ->
    Inv g (fst (mstep g s t c0)).
  Proof.
    intros I Ht. pose proof (local_of s t _ I Ht) as L. cbn [local_b lpc] in L.
    unfold mstep. rewrite Ht. cbv beta iota zeta.
    set (h := child_h g c j) in *.
    destruct (has_ent g s h I) as [cur Ev]; [apply child_h_lt; lia|].
    rewrite Ev. destruct (e_dec v (c_n c)) as [v'|] eqn:Ed; [|cbn [isSome] in L; lia].
    destruct (N.eqb_spec cur v) as [->|Hne]; cbn [fst].
    - (* the decrement takes effect *)
      destruct (e_dec_some _ _ _ Ed) as (Hm & Hle & ->). pose proof (c_n_pos c) as Hn.
      pose proof (entv_rd s h v Ev) as Ec.
      assert (Hh : h < nbf g (ms_frames s)) by (apply (ent_nz_lt g s h I); lia).
      pose proof (counter_bound g wf s t _ h I Ht Hh ltac:(lia)) as Kb. pose proof (HF_lt_MARK g wf).
      set (p' := if (c_order c <=? 6)%nat then G2L j 0 else G2R j 0 0).
      change (Inv g (mk_ent s h (v - c_n c) t (TRun c p') (ms_held s))).
      assert (Gp : gpc g c p' = gpend h (c_n c)) by (unfold p'; destruct (c_order c <=? 6)%nat; reflexivity).
      apply (inv_counter g s t _ _ h v (v - c_n c) I Ht Ev Hh Hm); try lia;
        try (intros; gsimp; rewrite Gp; gsimp; unfold inb; destr_if; lia).
      + intros h' Hh'. constructor; intros; gsimp; rewrite Gp; gsimp; unfold inb; destr_if; lia.
      + reflexivity.
      + cbn [local_b]. unfold p'. pose proof (ROWS_pos g wf). fold h.
        destruct (c_order c <=? 6)%nat eqn:E6; cbn [lpc]; fold h.
        * rewrite E6. lia.
        * assert (0 <? c_chunks g c = true); [|assert (0 <? c_nr c = true); [|lia]].
          -- apply N.ltb_lt. unfold c_chunks. apply N.div_str_pos. split; [apply pow2_pos|].
             unfold c_nr. rewrite (ROWS_pow2 g wf). apply pow2_le.
             unfold small in L. destruct (Nat.ltb_spec (c_order c) (hord g)); lia.
          -- apply N.ltb_lt. apply pow2_pos.
    - (* the CAS failed: retry with the current value *)
      destruct (e_dec cur (c_n c)) eqn:Ed2.
      + apply (inv_plain g s t _ _ I Ht); [intros h'; gsame_tac|reflexivity|].
        cbn [local_b lpc]. rewrite Ed2. cbn [isSome]. lia.
      + unfold next_child. destruct (j + 1 <? THUGE) eqn:Ej.
        * apply (inv_plain g s t _ _ I Ht); [intros h'; gsame_tac|reflexivity|]. cbn [local_b lpc]. lia.
        * rewrite finish_err. apply (inv_plain g s t _ _ I Ht); [intros h'; gsame_tac|reflexivity|reflexivity].
  Qed.

  Lemma is_get_not_put c : is_get c = true -> is_put c = false. Proof. destruct c; cbn; congruence. Qed.

  Lemma next_row_inv s t c j i x0 : Inv g s -> nth_error (ms_pool s) t = Some x0 ->
    ghost_of g x0 = gpend (child_h g c j) (c_n c) ->
    cwf g (ms_frames s) c && (is_get c && small g c && (c_order c <=? 6)%nat && (j <? THUGE) && (i <? ROWS)
      && (child_h g c j <? nbf g (ms_frames s))) = true ->
    Inv g (next_row g s t c j i).
  Proof.
    intros I Ht E L. unfold next_row. pose proof (ROWS_pos g wf).
    assert (Hs : forall p', gpc g c p' = gpend (child_h g c j) (c_n c) -> forall h, gsame g s x0 (TRun c p') h).
    { intros p' E' h. constructor; intros; unfold fr, tr, pend, trcount, needsC, hfr; cbn [ghost_of]; rewrite E, E'; lia. }
    destruct (i + 1 <? ROWS) eqn:Ei.
    - apply (inv_plain g s t _ _ I Ht); [apply Hs; reflexivity|reflexivity|]. cbn [local_b lpc]. lia.
    - apply (inv_plain g s t _ _ I Ht); [apply Hs; reflexivity|reflexivity|]. cbn [local_b lpc]. lia.
  Qed.

  Lemma step_G2L s t c j i c0 : Inv g s -> nth_error (ms_pool s) t = Some (TRun c (G2L j i)) ->
    Inv g (fst (mstep g s t c0)).
  Proof.
    intros I Ht. pose proof (local_of s t _ I Ht) as L. cbn [local_b lpc] in L.
    unfold mstep. rewrite Ht. cbv beta iota zeta. pose proof (ROWS_pos g wf).
    set (h := child_h g c j) in *. set (r := (i + c_start c mod ROWS) mod ROWS).
    destruct (has_row g wf s h r I) as (e & Ev & He); [lia|apply N.mod_lt; lia|].
    rewrite Ev. cbn [fst].
    destruct (fza e (c_order c)) eqn:Ef.
    - apply (inv_plain g s t _ _ I Ht); [intros h'; gsame_tac|reflexivity|].
      cbn [local_b lpc]. rewrite Ef. cbn [isSome]. fold h. lia.
    - apply (next_row_inv s t c j i _ I Ht); [reflexivity|fold h; lia].
  Qed.

  Lemma step_G2C s t c j i e c0 : Inv g s -> nth_error (ms_pool s) t = Some (TRun c (G2C j i e)) ->
    Inv g (fst (mstep g s t c0)).
  Proof.
    intros I Ht. pose proof (local_of s t _ I Ht) as L. cbn [local_b lpc] in L.
    unfold mstep. rewrite Ht. cbv beta iota zeta. pose proof (ROWS_pos g wf).
    set (h := child_h g c j) in *. set (r := (i + c_start c mod ROWS) mod ROWS).
    assert (Hr : r < ROWS) by (apply N.mod_lt; lia).
    destruct (has_row g wf s h r I) as (cur & Ev & Hc); [lia|exact Hr|].
    rewrite Ev. destruct (fza e (c_order c)) as [[v' off]|] eqn:Ef; [|cbn [isSome] in L; lia].
    destruct (N.eqb_spec cur e) as [->|Hne]; cbn [fst].
    - (* the block is taken *)
      assert (Hk6 : (c_order c <= 6)%nat) by lia.
      destruct (fza_some e (c_order c) v' off Hc Hk6 Ef) as (Hal & Hfit & Hfree & _ & _).
      rewrite finish_get_row by (apply is_get_not_put; lia).
      apply (inv_alloc_block g wf s t _ h r e v' off (c_order c) _ I Ht Ev); try lia.
      + apply (fza_lt e (c_order c) v' off Hc Hk6 Ef).
      + unfold small in L. destruct (Nat.ltb_spec (c_order c) (hord g)); lia.
      + exact Hfit.
      + exact Hal.
      + intros i' _. apply (fza_testbit e (c_order c) v' off i' Hc Hk6 Ef).
      + intros i' Hi'. apply (proj1 (block_free_spec e (c_order c) off) Hfree). unfold inb in Hi'. unfold pow2 in Hi'. lia.
      + apply pending_gpend. reflexivity.
    - destruct (fza cur (c_order c)) eqn:Ef2.
      + apply (inv_plain g s t _ _ I Ht); [intros h'; gsame_tac|reflexivity|].
        cbn [local_b lpc]. rewrite Ef2. cbn [isSome]. fold h. lia.
      + apply (next_row_inv s t c j i _ I Ht); [reflexivity|fold h; lia].
  Qed.

  (* ----- multi-row search ----- *)
  Definition next_chunk_pc (c : call) (j ch : N) : pc :=
    if ch + 1 <? c_chunks g c then G2R j (ch + 1) 0 else G3L j.
  Lemma next_chunk_eq s t c j ch : next_chunk g s t c j ch = goto s t c (next_chunk_pc c j ch).
  Proof. unfold next_chunk, next_chunk_pc. destruct (ch + 1 <? c_chunks g c); reflexivity. Qed.
  Lemma next_chunk_ghost c j ch : gpc g c (next_chunk_pc c j ch) = gpend (child_h g c j) (c_n c).
  Proof. unfold next_chunk_pc. destruct (ch + 1 <? c_chunks g c); reflexivity. Qed.
  Lemma next_chunk_local fr c j ch q :
    cwf g fr c && lpc g fr c (G2R j ch q) = true -> local_b g fr (TRun c (next_chunk_pc c j ch)) = true.
  Proof.
    cbn [local_b lpc]. intros L. unfold next_chunk_pc. destruct (ch + 1 <? c_chunks g c) eqn:E; cbn [lpc]; [|lia].
    assert (0 <? c_nr c = true) by (apply N.ltb_lt, pow2_pos). lia.
  Qed.

  Lemma lo_row_lt c ch q : (7 <= c_order c)%nat -> ch <? c_chunks g c = true -> q <? c_nr c = true -> ch * c_nr c + q < ROWS.
  Proof. intros H7 Hch Hq. pose proof (chunk_fits g c ch (q + 1) H7 Hch ltac:(lia)). lia. Qed.

  Lemma step_G2R s t c j ch q c0 : Inv g s -> nth_error (ms_pool s) t = Some (TRun c (G2R j ch q)) ->
    Inv g (fst (mstep g s t c0)).
  Proof.
    intros I Ht. pose proof (local_of s t _ I Ht) as L. pose proof L as L0. cbn [local_b lpc] in L.
    unfold mstep. rewrite Ht. cbv beta iota zeta.
    set (h := child_h g c j) in *.
    destruct (has_row g wf s h (ch * c_nr c + q) I) as (e & Ev & He); [lia|apply lo_row_lt; lia|].
    rewrite Ev. cbn [fst].
    destruct (e =? 0).
    - destruct (q + 1 <? c_nr c) eqn:Eq.
      + apply (inv_plain g s t _ _ I Ht); [intros h'; gsame_tac|reflexivity|]. cbn [local_b lpc]. fold h. lia.
      + apply (inv_plain g s t _ _ I Ht); [intros h'; gsame_tac|reflexivity|]. cbn [local_b lpc]. fold h.
        assert (0 <? c_nr c = true) by (apply N.ltb_lt, pow2_pos). lia.
    - rewrite next_chunk_eq. apply (inv_plain g s t _ _ I Ht); [|reflexivity|apply (next_chunk_local _ c j ch q L0)].
      intros h'. constructor; intros; unfold fr, tr, pend, trcount, needsC, hfr; cbn [ghost_of]; rewrite next_chunk_ghost; reflexivity || lia.
  Qed.

  Lemma step_G2W s t c j ch q c0 : Inv g s -> nth_error (ms_pool s) t = Some (TRun c (G2W j ch q)) ->
    Inv g (fst (mstep g s t c0)).
  Proof.
    intros I Ht. pose proof (local_of s t _ I Ht) as L. pose proof L as L0. cbn [local_b lpc] in L.
    unfold mstep. rewrite Ht. cbv beta iota zeta.
    set (h := child_h g c j) in *. set (lo := ch * c_nr c).
    assert (Hr : lo + q < ROWS) by (apply lo_row_lt; lia).
    assert (Hh : h < nbf g (ms_frames s)) by lia.
    destruct (has_row g wf s h (lo + q) I Hh Hr) as (cur & Ev & Hc).
    rewrite Ev. destruct (N.eqb_spec cur 0) as [->|Hne]; cbn [fst].
    - destruct (q + 1 <? c_nr c) eqn:Eq.
      + (* one more row in transit *)
        rewrite goto_row.
        apply (inv_fill_row g s t _ _ h (lo + q) I Ht Ev Hh Hr); [|reflexivity|cbn [local_b lpc]; fold h; lia].
        constructor; gsolve.
      + (* the last row: the block is handed out *)
        rewrite finish_get_row by (apply is_get_not_put; lia).
        assert (Hk : (c_order c < hord g)%nat) by (unfold small in L; destruct (Nat.ltb_spec (c_order c) (hord g)); lia).
        assert (Hn : pow2 (c_order c) = 64 * (q + 1)).
        { rewrite (pow2_split 6 (c_order c)), pow2_6 by lia. unfold c_nr in *. lia. }
        apply (inv_alloc_rows g wf s t _ h lo q (c_order c) _ I Ht Ev Hh Hr Hk Hn); [reflexivity|].
        pose proof (needs_counter g s t _ h I Ht Hh ltac:(gsimp; rewrite N.eqb_refl; reflexivity)) as Hm.
        pose proof (zero_bit_in_range g s h (lo + q) 63 I Hh Hr ltac:(lia) Hm) as Hin.
        unfold bit in Hin. rewrite (rowv_rd s h _ 0 Ev), N.bits_0 in Hin. specialize (Hin eq_refl). unfold fidx in Hin.
        unfold blk_ok. cbn [fst snd]. apply andb_true_iff. split; [apply N.eqb_eq|apply N.leb_le; lia].
        pose proof (pow2_nz (c_order c)).
        apply mod_add_aligned; [assumption|apply mod_mul_aligned; [assumption|apply HF_mod_pow2; lia]|].
        unfold lo. replace (ch * c_nr c * 64) with (ch * pow2 (c_order c)) by (unfold c_nr in *; nia).
        apply mod_mul_aligned; [assumption|apply N.mod_same; assumption].
    - destruct (N.eqb_spec q 0) as [->|Hq].
      + rewrite next_chunk_eq. apply (inv_plain g s t _ _ I Ht); [|reflexivity|apply (next_chunk_local _ c j ch 0 L0)].
        intros h'. constructor; intros; unfold fr, tr, pend, trcount, needsC, hfr; cbn [ghost_of]; rewrite next_chunk_ghost;
          gsimp; unfold inb; try lia; destr_if; lia.
      + apply (inv_plain g s t _ _ I Ht); [intros h'; gsame_tac|reflexivity|]. cbn [local_b lpc]. fold h. lia.
  Qed.

  Lemma step_G2U s t c j ch q c0 : Inv g s -> nth_error (ms_pool s) t = Some (TRun c (G2U j ch q)) ->
    Inv g (fst (mstep g s t c0)).
  Proof.
    intros I Ht. pose proof (local_of s t _ I Ht) as L. pose proof L as L0. cbn [local_b lpc] in L.
    unfold mstep. rewrite Ht. cbv beta iota zeta.
    set (h := child_h g c j) in *. set (lo := ch * c_nr c).
    assert (Hr : lo + q < ROWS) by (apply lo_row_lt; lia).
    assert (Hh : h < nbf g (ms_frames s)) by lia.
    destruct (has_row g wf s h (lo + q) I Hh Hr) as (cur & Ev & Hc).
    rewrite Ev.
    set (p' := if q =? 0 then next_chunk_pc c j ch else G2U j ch (q - 1)).
    destruct (inv_unfill_row g wf s t _ (TRun c p') h (lo + q) cur I Ht Ev Hh Hr) as [Hcur Hinv].
    - unfold p'. subst h lo. destruct (N.eqb_spec q 0) as [->|Hq].
      + constructor; intros; unfold fr, tr, pend, trcount, needsC, hfr; cbn [ghost_of]; rewrite next_chunk_ghost; gsimp;
          rewrite ?N.eqb_refl; unfold inb; try reflexivity; try lia; destr_if; lia.
      + constructor; gsolve.
    - reflexivity.
    - unfold p'. destruct (N.eqb_spec q 0) as [->|Hq]; [apply (next_chunk_local _ c j ch 0 L0)|].
      cbn [local_b lpc]. fold h. lia.
    - subst cur. rewrite N.eqb_refl. cbn [fst]. unfold p' in Hinv.
      destruct (q =? 0); [rewrite next_chunk_eq|]; rewrite goto_row; exact Hinv.
  Qed.

  (* ----- undo of the decrement ----- *)
  Lemma step_G3L s t c j c0 : Inv g s -> nth_error (ms_pool s) t = Some (TRun c (G3L j)) ->
    Inv g (fst (mstep g s t c0)).
  Proof.
    intros I Ht. pose proof (local_of s t _ I Ht) as L. cbn [local_b lpc] in L.
    unfold mstep. rewrite Ht. cbv beta iota zeta.
    set (h := child_h g c j) in *.
    destruct (has_ent g s h I) as [v Ev]; [apply child_h_lt; lia|].
    rewrite Ev. cbn [fst].
    destruct (inc_possible g wf s t _ h (c_n c) v I Ht ltac:(lia)) as (Ei & _); try exact Ev;
      try (gsimp; fold h; rewrite N.eqb_refl; reflexivity).
    rewrite Ei. apply (inv_plain g s t _ _ I Ht); [intros h'; gsame_tac|reflexivity|].
    cbn [local_b lpc]. rewrite Ei. cbn [isSome]. fold h. lia.
  Qed.

  Lemma step_G3C s t c j v c0 : Inv g s -> nth_error (ms_pool s) t = Some (TRun c (G3C j v)) ->
    Inv g (fst (mstep g s t c0)).
  Proof.
    intros I Ht. pose proof (local_of s t _ I Ht) as L. cbn [local_b lpc] in L.
    unfold mstep. rewrite Ht. cbv beta iota zeta.
    set (h := child_h g c j) in *.
    destruct (has_ent g s h I) as [cur Ev]; [apply child_h_lt; lia|].
    rewrite Ev. destruct (e_inc g v (c_n c)) as [v'|] eqn:Ed; [|cbn [isSome] in L; lia].
    assert (Hh : h < nbf g (ms_frames s)) by lia.
    destruct (inc_possible g wf s t _ h (c_n c) cur I Ht Hh) as (Ei & Hm & Hle); try exact Ev;
      try (gsimp; fold h; rewrite N.eqb_refl; reflexivity).
    destruct (N.eqb_spec cur v) as [->|Hne]; cbn [fst].
    - rewrite Ei in Ed. inversion Ed; subst v'. pose proof (HF_lt_MARK g wf).
      set (x' := if j + 1 <? THUGE then TRun c (G1L (j + 1)) else TIdle (Some (Err EMemory))).
      assert (Hx : next_child g (wr_ent s h (v + c_n c)) t c j = mk_ent s h (v + c_n c) t x' (ms_held s)).
      { unfold next_child, x'. destruct (j + 1 <? THUGE); [reflexivity|]. rewrite finish_err. reflexivity. }
      rewrite Hx.
      assert (Gx : ghost_of g x' = gh0) by (unfold x'; destruct (j + 1 <? THUGE); reflexivity).
      apply (inv_counter g s t _ x' h v (v + c_n c) I Ht Ev Hh Hm); try lia;
        try (intros; unfold fr, tr, pend, trcount, needsC, hfr; rewrite Gx; gsimp; fold h; unfold inb; rewrite ?N.eqb_refl; try lia; destr_if; lia).
      + intros h' Hh'. constructor; intros; unfold fr, tr, pend, trcount, needsC, hfr; rewrite Gx; gsimp; fold h; unfold inb; try lia; destr_if; lia.
      + unfold x'. destruct (j + 1 <? THUGE); reflexivity.
      + unfold x'. destruct (j + 1 <? THUGE) eqn:Ej; [|reflexivity]. cbn [local_b lpc]. lia.
    - rewrite Ei. apply (inv_plain g s t _ _ I Ht); [intros h'; gsame_tac|reflexivity|].
      cbn [local_b lpc]. rewrite Ei. cbn [isSome]. fold h. lia.
  Qed.
End Get.
