"""Generic client of the concurrent (small-step) correspondence harness (schedrun + step driver): a property
module gives its ORACLE tag, theorem files, the schedrun jobs for the two tiers and its texts."""
import os

import schedcommon as sc
import vlib

GEOMETRIES = [("tree_huge_1",), ("tree_huge_2",), (), ("tree_huge_8",)]   # () = default TREE_HUGE = 4


def run_replay(ctx, exe, oracle, corr, TAG):
    """./check C01 --replay <file>: re-run the REPLAY lines of a replay file"""
    for scenario, feats, sched in sc.parse_replay_file(ctx.replay):
        rel = vlib.build_harness(ctx, [sc.HARNESS_BIN], feats)
        if rel is None:
            corr.append(("build failed", ctx.notes[-1:]))
            continue
        fails, summ, tr = sc.replay(ctx, rel, exe, scenario, sched)
        ctx.suites.append({"suite": "replay %s %s" % (scenario, ",".join(map(str, sched))), "evaluations": summ.get("evaluations", 0),
                           "distinct": summ.get("distinct", 0)})
        for f in fails:
            f.features = feats
            item = (f.text, sc.replay_lines(f, None, feats))
            if f.kind == "ORACLE" and f.tag == TAG:
                oracle.append(item)
            elif f.kind != "ORACLE":
                corr.append(item)


def run(ctx, theorems, TAG, jobs, text, rule, suite_desc):
    """theorems: {file: [names]}; jobs(ctx, rel) -> list of schedrun argument lists."""
    proofs_ok = vlib.coq_prove_multi(ctx, [(os.path.join(vlib.COQ, "Properties", f), t) for f, t in theorems.items()]) if theorems else False
    if not theorems:
        ctx.notes.append("no theorem registered")
    oracle, corr = [], []
    exe = vlib.build_driver(ctx, sc.DRIVER)
    if exe is None:
        corr.append(("driver build failed", ctx.notes[-1:]))
    elif ctx.replay:
        run_replay(ctx, exe, oracle, corr, TAG)
    else:
        geoms = [()] if ctx.quick else GEOMETRIES
        for feats in geoms:
            rel = vlib.build_harness(ctx, [sc.HARNESS_BIN], feats)
            if rel is None:
                corr.append(("harness build failed (%s)" % (",".join(feats) or "default"), ctx.notes[-1:]))
                continue
            label = ",".join(feats) or "default"
            fails, summ, notes = sc.run_jobs(ctx, rel, exe, jobs(ctx, rel), feats, label=vlib.feat_dir(feats),
                                             timeout=80 if ctx.quick else 1000)
            ctx.notes += notes
            mine = [f for f in fails if f.kind == "ORACLE" and f.tag == TAG]
            other = [f for f in fails if f.kind == "ORACLE" and f.tag != TAG]
            bad = [f for f in fails if f.kind != "ORACLE"]
            ctx.suites.append({
                "suite": "schedrun|step (%s): %s" % (label, suite_desc),
                "evaluations": summ.get("evaluations", 0), "distinct": summ.get("distinct", 0),
                "runs": summ.get("runs", 0), "max_steps": summ.get("maxsteps", 0), "failed_cas_steps": summ.get("failed_cas", 0),
                "prologue_calls": summ.get("pre", 0), "panics": summ.get("panics", 0),
                "modes": {k[5:]: v for k, v in summ.items() if k.startswith("mode:")},
                "scenarios": {k[4:]: v for k, v in summ.items() if k.startswith("scn:")},
                "oracle_failures_of_other_properties": len(other),
                "other_tags": sorted({f.tag for f in other}),
            })
            # shrink one representative per kind of failure
            for f in sc.group_failures(mine, 1)[:3] + sc.group_failures(bad, 1)[:3]:
                shrunk = sc.shrink(ctx, rel, exe, f, budget=120) if f.scenario else None
                item = (f.text if not shrunk else shrunk[3].text, sc.replay_lines(f, shrunk, feats))
                (oracle if f.kind == "ORACLE" else corr).append(item)
            if rel and not ctx.samples:
                rc, out = vlib.sh([os.path.join(rel, sc.HARNESS_BIN), "--mode", "replay", "--scenario", "get7-get0row1",
                                   "--schedule", "0,0,0,0,0,0,1,1,1,1,1"])
                ctx.samples += [ln for ln in out.split("\n") if ln.startswith(("CALL", "S ", "RET"))][:8]
    vlib.classify(ctx, proofs_ok, oracle, corr, name="schedrun/step")
    return vlib.finish(ctx, text, rule)
