"""Generic client of the concurrent (small-step) correspondence harness (schedrun + step driver): a property
module gives its ORACLE tag, theorem files, the schedrun jobs for the two tiers and its texts."""
import os

import schedcommon as sc
import vlib

# shrinking budget (replays per representative); VERIF_SHRINK_BUDGET lowers it for regression sweeps over the seeded changes
SHRINK_BUDGET = int(os.environ.get("VERIF_SHRINK_BUDGET", "120"))

GEOMETRIES = [("tree_huge_1",), ("tree_huge_2",), (), ("tree_huge_8",)]   # () = default TREE_HUGE = 4


def run_replay(ctx, exe, oracle, corr, TAG):
    """./check C01 --replay <file>: re-run the REPLAY lines of a replay file"""
    for scenario, feats, sched in sc.parse_replay_file(ctx.replay):
        rel = vlib.build_harness(ctx, [sc.HARNESS_BIN], feats)
        if rel is None:
            corr.append(("build failed", ctx.notes[-1:]))
            continue
        fails, summ, tr = sc.replay(ctx, rel, exe, scenario, sched)
        ctx.suites.append({"suite": "replay %s %s" % (scenario, ",".join(map(str, sched))), "evaluations": summ.get("evaluations", 0),
                           "distinct": summ.get("distinct", 0)})
        for f in fails:
            f.features = feats
            item = (f.text, sc.replay_lines(f, None, feats))
            if f.kind == "ORACLE" and f.tag == TAG:
                oracle.append(item)
            elif f.kind != "ORACLE":
                corr.append(item)


def driver_of(scenario):
    """upper-API scenarios (names u-*) are replayed on machine M2 by driver ustep, the others on M1 by step"""
    return sc.UPPER_DRIVER if scenario and scenario.startswith("u-") else sc.DRIVER


def collect(ctx, TAG, jobs, suite_desc, driver=None, sample=None, geoms=None, limit=3):
    """Builds driver + harness, runs the jobs (all geometries in the thorough tier), shrinks a representative of every
    kind of failure.  Returns (oracle_fail, corr_fail) for vlib.classify.  driver: sc.DRIVER (M1) or sc.UPPER_DRIVER (M2)."""
    driver = driver or sc.DRIVER
    oracle, corr = [], []
    exe = vlib.build_driver(ctx, driver)
    if exe is None:
        corr.append(("driver build failed", ctx.notes[-1:]))
        return oracle, corr
    if ctx.replay:
        for scenario, feats, sched in sc.parse_replay_file(ctx.replay):
            if driver_of(scenario) != driver:
                continue
            rel = vlib.build_harness(ctx, [sc.HARNESS_BIN], feats)
            if rel is None:
                corr.append(("build failed", ctx.notes[-1:]))
                continue
            fails, summ, tr = sc.replay(ctx, rel, exe, scenario, sched)
            ctx.suites.append({"suite": "replay %s %s" % (scenario, ",".join(map(str, sched))), "evaluations": summ.get("evaluations", 0),
                               "distinct": summ.get("distinct", 0)})
            for f in fails:
                f.features = feats
                item = (f.text, sc.replay_lines(f, None, feats))
                if f.kind == "ORACLE" and f.tag == TAG:
                    oracle.append(item)
                elif f.kind != "ORACLE":
                    corr.append(item)
        return oracle, corr
    for feats in (geoms if geoms is not None else ([()] if ctx.quick else GEOMETRIES)):
        rel = vlib.build_harness(ctx, [sc.HARNESS_BIN], feats)
        if rel is None:
            corr.append(("harness build failed (%s)" % (",".join(feats) or "default"), ctx.notes[-1:]))
            continue
        label = ",".join(feats) or "default"
        fails, summ, notes = sc.run_jobs(ctx, rel, exe, jobs(ctx, rel), feats, label="%s-%s-%s" % (driver, TAG.strip("[]"), vlib.feat_dir(feats)),
                                         timeout=300 if ctx.quick else 2400)
        ctx.notes += notes
        mine = [f for f in fails if f.kind == "ORACLE" and f.tag == TAG]
        other = [f for f in fails if f.kind == "ORACLE" and f.tag != TAG]
        bad = [f for f in fails if f.kind != "ORACLE"]
        suite = {
            "suite": "schedrun|%s (%s): %s" % (driver, label, suite_desc),
            "evaluations": summ.get("evaluations", 0), "distinct": summ.get("distinct", 0),
            "runs": summ.get("runs", 0), "max_steps": summ.get("maxsteps", 0), "failed_cas_steps": summ.get("failed_cas", 0),
            "prologue_calls": summ.get("pre", 0), "panics": summ.get("panics", 0),
            "modes": {k[5:]: v for k, v in summ.items() if k.startswith("mode:")},
            "scenarios": {k[4:]: v for k, v in summ.items() if k.startswith("scn:")},
            "oracle_failures_of_other_properties": len(other),
            "other_tags": sorted({f.tag for f in other}),
        }
        for k in ("snaps", "stale_split_leaks", "solos", "solomax", "post", "quiescent"):
            if k in summ:
                suite[k] = summ[k]
        acc = {k[4:]: v for k, v in summ.items() if k.startswith("acc:")}
        if acc:
            suite["accesses_by_location"] = acc
        ctx.suites.append(suite)
        # listed known findings first (one representative each, unshrunk: classify prints the KNOWN-FINDING line), so that
        # they cannot crowd a different violation of the same property out of the `limit` representatives below
        known_seen = set()
        fresh = []
        for f in mine:
            k = vlib.match_known(ctx.pid, f.text)
            if k is None:
                fresh.append(f)
            elif k.get("id") not in known_seen:
                known_seen.add(k.get("id"))
                oracle.append((f.text, sc.replay_lines(f, None, feats)))
        suite["known_finding_hits"] = len(mine) - len(fresh)
        for f in sc.group_failures(fresh, 1)[:limit] + sc.group_failures(bad, 1)[:limit]:
            shrunk = sc.shrink(ctx, rel, exe, f, budget=SHRINK_BUDGET) if f.scenario else None
            item = (f.text if not shrunk else shrunk[3].text, sc.replay_lines(f, shrunk, feats))
            (oracle if f.kind == "ORACLE" else corr).append(item)
        if rel and sample and len(ctx.samples) < 8:
            rc, out = vlib.sh([os.path.join(rel, sc.HARNESS_BIN), "--mode", "replay", "--scenario", sample[0], "--schedule", sample[1]])
            ctx.samples += [ln for ln in out.split("\n") if ln.startswith(("CALL", "S ", "RET"))][:8 - len(ctx.samples)]
    return oracle, corr


def run(ctx, theorems, TAG, jobs, text, rule, suite_desc, driver=None, more=(), extra=None):
    """theorems: {file: [names]}; jobs(ctx, rel) -> list of schedrun argument lists.
    more: further (jobs, suite_desc, driver) suites with the same tag (e.g. the upper-API scenarios on machine M2)."""
    proofs_ok = vlib.coq_prove_multi(ctx, [(os.path.join(vlib.COQ, "Properties", f), t) for f, t in theorems.items()]) if theorems else False
    if not theorems:
        ctx.notes.append("no theorem registered")
    oracle, corr = collect(ctx, TAG, jobs, suite_desc, driver, sample=("get7-get0row1", "0,0,0,0,0,0,1,1,1,1,1"))
    for j, d, drv in more:
        o, c = collect(ctx, TAG, j, d, drv, sample=("u-get0-get0-slot", "0,0,0,1,1"))
        oracle += o
        corr += c
    if extra is not None and not ctx.replay:
        o, c = extra(ctx)        # further suites of the property (e.g. its sequential histories)
        oracle += o
        corr += c
    vlib.classify(ctx, proofs_ok, oracle, corr, name="schedrun/step")
    return vlib.finish(ctx, text, rule)
