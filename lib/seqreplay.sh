#!/bin/sh
# usage: seqreplay.sh <corpus file> : run a replay file on the current /repo and print the driver's verdict
set -e
cd /verif/harness && CARGO_TARGET_DIR=/verif/target/default cargo build --release --offline --bin seqrun 2>&1 | grep -E "error|warning: unused" | head -5 || true
mkdir -p /verif/work/replay
/verif/target/default/release/seqrun --suite replay --file "$1" --out /verif/work/replay/x.txt >/dev/null 2>&1 || true
/verif/driver/seq.exe seq /verif/work/replay/x.txt | grep -E "MISMATCH|SUMMARY" | cut -c1-260
