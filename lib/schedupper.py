"""Concurrent checks of the WHOLE allocator: real threads call LLFree::get/put/drain/change_tree under the
deterministic scheduler (`schedrun --api upper`), every atomic access (tree entries, local slots, huge entries,
bitfield rows) is replayed on the extracted machine M2 (coq/UpperMachine.v, driver/ustep.ml: CORR) and the
implementation's own results are judged by the oracles of the properties (ORACLE [Cxx], see driver/ustep.ml).

`run_conc(ctx, TAG)` returns (oracle_fail, corr_fail) for vlib.classify; the property modules of C04, C10, C13,
C15 call `run_c04_conc` etc. next to their sequential parts; C01/C03 add them to their lower-allocator suites."""
import schedcommon as sc
import schedprop

DESC = ("compiled LLFree::get/put/drain/change_tree under a deterministic scheduler vs machine M2 (CORR per step / return / "
        "final tree entries, slots and lower buffer) and the oracles on the implementation's results")


def upper_jobs(ctx, rel):
    if ctx.quick:
        return [["--api", "upper", "--mode", "exhaustive", "--scenario", "all", "--preemptions", "2"],
                ["--api", "upper", "--mode", "pct", "--scenario", "all", "--runs", "200", "--depth", "3", "--seed", str(ctx.seed)]]
    two = ",".join(n for n, t in sc.scenarios(rel, "upper") if t <= 2)
    return [["--api", "upper", "--mode", "exhaustive", "--scenario", "all", "--preemptions", "3"],
            ["--api", "upper", "--mode", "exhaustive", "--scenario", two, "--preemptions", "4", "--max-runs", "30000"],
            ["--api", "upper", "--mode", "pct", "--scenario", "all", "--runs", "20000", "--depth", "5", "--seed", str(ctx.seed)]]


def online_race_jobs(ctx, rel):
    """the scenario group `online-race` (change_tree(Online) racing a put / a slot-less get of the same tree): inside the
    space of C01 and C04 (concurrent tree changes), outside the scope of the M2 accounting invariant (finding D16)"""
    p = "2" if ctx.quick else "4"
    return [["--api", "upper", "--mode", "exhaustive", "--scenario", "online-race", "--preemptions", p],
            ["--api", "upper", "--mode", "pct", "--scenario", "online-race", "--runs", "100" if ctx.quick else "5000", "--depth", "3",
             "--seed", str(ctx.seed)]]


def upper_jobs_with_online(ctx, rel):
    return upper_jobs(ctx, rel) + online_race_jobs(ctx, rel)


def upper_freeze_jobs(ctx, rel):
    runs = "2" if ctx.quick else "30"
    return [["--api", "upper", "--mode", "freeze", "--scenario", "all", "--runs", runs, "--seed", str(ctx.seed), "--budget", "2000"],
            # C21's space is C01's: concurrent tree changes included (the proven bound covers the fetch_free loads of Online)
            ["--api", "upper", "--mode", "freeze", "--scenario", "online-race", "--runs", runs, "--seed", str(ctx.seed), "--budget", "2000"]]


def run_conc(ctx, TAG, jobs=upper_jobs):
    return schedprop.collect(ctx, TAG, jobs, DESC, sc.UPPER_DRIVER, sample=("u-get0-get0-slot", "0,0,0,1,1"))


def run_c01_conc(ctx):
    return run_conc(ctx, "[C01]", upper_jobs_with_online)


def run_c03_conc(ctx):
    return run_conc(ctx, "[C03]")


def run_c04_conc(ctx):
    """[C04] at the end of every interleaving (quiescent): lower_invb + upper_invb of the dump, stats = exact counts of the
    held-block set, tree_stats.free_frames = stats.free_frames minus offline, validate() passes."""
    return run_conc(ctx, "[C04]", upper_jobs_with_online)


def run_c10_conc(ctx):
    """[C10] after every interleaving: drain, then base gets fail only if nothing is free; targeted gets of a free / a held
    block / a free huge frame behave as specified."""
    return run_conc(ctx, "[C10]")


def run_c13_conc(ctx):
    """[C13] the class reported by every get of every interleaving is the requested one or rated Match/Steal."""
    return run_conc(ctx, "[C13]")


def run_c15_conc(ctx):
    """[C15] gets that start while a tree is offline never return a frame of it."""
    return run_conc(ctx, "[C15]")


def run_c21_conc(ctx):
    """[C21] freeze mode over the upper API: every in-flight upper call, run alone, ends within the budget and not in a
    wait-panic."""
    return run_conc(ctx, "[C21]", upper_freeze_jobs)


RULE = ("upper-API schedules: all schedules with at most P preemptions (P = 2 quick; thorough: 3, and 4 for the two-thread "
        "scenarios (there at most 30000 schedules per scenario and shard, depth-first), TREE_HUGE = 1, 2, 4, 8) of the built-in scenarios (gets racing on one slot / two slots / no slot, get vs put "
        "with and without slot, sync, drains, steal and demote races, targeted gets, change_tree offline/online/reclass, "
        "exhaustion, partial frees of one huge frame, movable / zeroed / custom classings, 3 threads) + PCT schedules; "
        "non-trivial = failed CAS or a switch away from a thread in the middle of a call")
