"""Synthetic allocation traces for the `replay` binary of /repo/eval (property C20).

Binary layout (eval/src/bin/replay.rs, 4 KiB frames):
  page 0           TraceHeader  { pages: u32 @0, cores: u32 @4, max_pfn: u32 @8 }, rest of the page zero
  page 1..         TracePage    { cpuid: u32 @0, entries: [TraceEntry; 255] @16 }   (repr(C, align(4096));
                   the u128 array is 16-byte aligned, 16 + 255*16 = 4096)
  TraceEntry       u128 little endian, #[bitfield(u128)] fields from the least significant bit in
                   declaration order: time_us:38 @0, pfn:24 @38, alloc:1 @62, order:4 @63, flags:29 @67, pid:32 @96
  An entry with pfn == 0 terminates its page, so pfn 0 is never used.  The parser sorts all events by
  `time_us as f32 / 1e6` (stable sort): times are whole seconds 1, 2, 3, ... (exact and distinct in f32 up to 2^24).

Text rendering (one trace = one block of lines, consumed by driver/replay.exe and by --replay):
  T <name> <hdr_max_pfn> <cores> <classing 0|1>
  E <A|F> <pfn> <order> <cpu> <pid> <flags-hex>        (in time order)
  ...
  H <held> <orphaned> <unknown> <reallocs> <partial> <ill> (the Python reference `Ref` below, from the trace alone)
  R <rc> <free_frames> <total_frames> <free_failed>      (implementation outputs; rc 0 = exit status 0,
                                                          2 = `get` failed: the trace does not fit, other = crash)
  .
"""
import random
import struct

FRAME = 4096
ENTRIES = (FRAME - 4) // 16      # 255
ENTRY_OFF = 16
MAX_ORDER = 10
TREE_ORDER = 11
HUGE_FRAMES = 512

GFP_MOVABLE = 0x08
GFP_HIGHMEM = 0x02
GFP_FS = 0x80
GFP_IO = 0x40
GFP_PAGE_CACHE = 0x10000000
GFP_CHOICES = [0, GFP_MOVABLE, GFP_MOVABLE | GFP_HIGHMEM | GFP_FS | GFP_IO,
               GFP_MOVABLE | GFP_HIGHMEM | GFP_FS | GFP_PAGE_CACHE, GFP_FS | GFP_IO, GFP_HIGHMEM]


class Ev:
    __slots__ = ("alloc", "pfn", "order", "cpu", "pid", "flags")

    def __init__(self, alloc, pfn, order, cpu=0, pid=1, flags=0):
        self.alloc, self.pfn, self.order, self.cpu, self.pid, self.flags = alloc, pfn, order, cpu, pid, flags

    def line(self):
        return "E %s %d %d %d %d %x" % ("A" if self.alloc else "F", self.pfn, self.order, self.cpu, self.pid, self.flags)

    def key(self):
        return (self.alloc, self.pfn, self.order)


class Trace:
    def __init__(self, name, hdr_max_pfn, cores, events, classing=False):
        self.name, self.hdr_max_pfn, self.cores, self.events, self.classing = name, hdr_max_pfn, cores, events, classing

    def total_frames(self):
        n = self.hdr_max_pfn + 1
        return (n + HUGE_FRAMES - 1) // HUGE_FRAMES * HUGE_FRAMES

    def head(self):
        return "T %s %d %d %d" % (self.name, self.hdr_max_pfn, self.cores, 1 if self.classing else 0)

    def lines(self):
        return [self.head()] + [e.line() for e in self.events]

    def with_events(self, events, name=None):
        t = Trace(name or self.name, self.hdr_max_pfn, self.cores, events, self.classing)
        times = getattr(self, "times", None)
        if times is not None:            # a sub-sequence of a tied trace keeps the stamps of its events
            at = {id(e): x for e, x in zip(self.events, times)}
            if all(id(e) in at for e in events):
                t.times = [at[id(e)] for e in events]
        return t


def parse_text(lines):
    """Parses text renderings (R lines are ignored) back into Trace objects."""
    out, cur = [], None
    for ln in lines:
        w = ln.split()
        if not w or w[0].startswith("#"):
            continue
        if w[0] == "T":
            cur = Trace(w[1], int(w[2]), int(w[3]), [], w[4] == "1")
            out.append(cur)
        elif w[0] == "E" and cur is not None:
            cur.events.append(Ev(w[1] == "A", int(w[2]), int(w[3]), int(w[4]), int(w[5]), int(w[6], 16)))
    return out


def entry_bits(time_us, ev):
    assert 0 < ev.pfn < (1 << 24) and 0 <= ev.order < 16 and ev.flags < (1 << 29) and time_us < (1 << 38)
    return (time_us | (ev.pfn << 38) | ((1 if ev.alloc else 0) << 62) | (ev.order << 63) | (ev.flags << 67)
            | ((ev.pid & 0xffffffff) << 96))


def write_binary(trace, path, rng=None):
    """Events get times 1s, 2s, ...; they are distributed to per-cpu pages (a new page every 255 entries, or
    earlier at random to get several pages per cpu); the pages are written in shuffled order when rng is given,
    so the parser's sort by time is what restores the order."""
    pages = []           # (cpu, [entry ints])
    open_page = {}
    times = getattr(trace, "times", None)    # tied timestamps (see with_ties): whole seconds, non-decreasing
    for i, ev in enumerate(trace.events):
        pg = open_page.get(ev.cpu)
        if pg is None or len(pg[1]) >= ENTRIES or (rng is not None and times is None and rng.random() < 0.02):
            pg = (ev.cpu, [])
            pages.append(pg)
            open_page[ev.cpu] = pg
        pg[1].append(entry_bits((times[i] if times else i + 1) * 1000000, ev))
    if rng is not None and times is None:
        rng.shuffle(pages)
    with open(path, "wb") as fh:
        hdr = struct.pack("<III", len(pages), trace.cores, trace.hdr_max_pfn)
        fh.write(hdr + bytes(FRAME - len(hdr)))
        for cpu, ents in pages:
            buf = bytearray(FRAME)
            struct.pack_into("<I", buf, 0, cpu)
            for j, e in enumerate(ents):
                buf[ENTRY_OFF + 16 * j: ENTRY_OFF + 16 * j + 16] = e.to_bytes(16, "little")
            fh.write(buf)


def with_ties(trace, rng, name=None):
    """The same events with TIED timestamps: runs of 1..6 consecutive events share one time stamp, the runs alternate
    between cpu 0 and cpu 1 (so the page of either cpu is sorted, the buffer as a whole is not).  The parser's sort by
    time has to be stable: events with equal stamps keep their traced (page) order - a run never straddles two cpus and
    the pages are written in creation order, so the traced order of tied events is the event order."""
    evs, times, k, run = [], [], 0, 0
    for e in trace.events:
        if run == 0:
            k += 1
            run = rng.randrange(1, 7)
        run -= 1
        evs.append(Ev(e.alloc, e.pfn, e.order, cpu=k % 2, pid=e.pid, flags=e.flags))
        times.append(k)
    t = Trace(name or trace.name + "-ties", trace.hdr_max_pfn, max(2, trace.cores), evs, trace.classing)
    t.times = times
    return t


# ---------------------------------------------------------------- reference semantics (pfn space only)
class Ref:
    """What the trace holds, from the trace alone.  `tracked`: base pfn -> order of the blocks that can still be
    freed; a free (p, k) names a block inside the tracked block that geometrically contains it; the rest of that
    block stays tracked as blocks of order k.  An allocation at the base of a tracked block (a re-allocation:
    the trace lost the free) leaves the earlier allocation held for ever (`orphaned` frames).  The reference is
    only defined for well-formed traces: aligned events, no allocation overlapping a tracked block other than a
    re-allocation at its base, parts do not overwrite other blocks (`ill` is set otherwise)."""

    def __init__(self):
        self.tracked = {}
        self.orphaned = 0
        self.ill = False
        self.kinds = []

    def covering(self, p, k):
        hits = []
        for K in range(k, MAX_ORDER + 1):
            b = p & ~((1 << K) - 1)
            if self.tracked.get(b) == K:
                hits.append(b)
        return hits

    def overlapping(self, p, k):
        """bases of tracked blocks intersecting [p, p+2^k)"""
        res = set(self.covering(p, 0))
        if k <= 6:
            for q in range(p, p + (1 << k)):
                if q in self.tracked:
                    res.add(q)
        else:
            lo, hi = p, p + (1 << k)
            for b in self.tracked:
                if lo <= b < hi:
                    res.add(b)
        return res

    def step(self, ev):
        p, k = ev.pfn, ev.order
        if p % (1 << k) != 0 or k > MAX_ORDER:
            self.ill = True
        if ev.alloc:
            over = self.overlapping(p, k)
            if p in self.tracked:
                self.orphaned += 1 << self.tracked.pop(p)
                over.discard(p)
                kind = "realloc"
            else:
                kind = "alloc"
            if over:
                self.ill = True
            self.tracked[p] = k
        else:
            hits = self.covering(p, k)
            if len(hits) > 1:
                self.ill = True
            if not hits:
                kind = "unknown_free"
            else:
                b = hits[0]
                K = self.tracked.pop(b)
                if K == k:
                    kind = "whole_free"
                else:
                    n = 1 << (K - k)
                    j = (p - b) >> k
                    kind = "partial_first" if j == 0 else ("partial_last" if j == n - 1 else "partial_middle")
                    for i in range(n):
                        q = b + (i << k)
                        if q != p:
                            if q in self.tracked:
                                self.ill = True
                            self.tracked[q] = k
        self.kinds.append(kind)
        return kind

    def held(self):
        return sum(1 << k for k in self.tracked.values()) + self.orphaned


def classify(trace):
    r = Ref()
    for e in trace.events:
        r.step(e)
    return r


# ---------------------------------------------------------------- generators
def enumerated(max_len=4, nested=False):
    """All traces of 1..max_len aligned events over the window pfns 4..7 (one order-2 block), orders 0..2, that
    start with an allocation; the header names pfn 7 as the largest, cores = 2.
    nested=False: the well-formed ones (names enum<i>); nested=True: the others - allocations inside or over a
    tracked block, whose entries the split loop may overwrite - (names nest<i>); for those the Python reference is
    undefined and only the extracted model and the extracted trace specification judge the binary."""
    alphabet = [(a, p, k) for a in (True, False) for p in (4, 5, 6, 7) for k in (0, 1, 2) if p % (1 << k) == 0]
    good, bad = [], []

    def rec(prefix, ill):
        for (a, p, k) in alphabet:
            if not prefix and not a:
                continue
            evs = prefix + [Ev(a, p, k, cpu=len(prefix) % 2, pid=1 + len(prefix), flags=GFP_MOVABLE if p & 1 else 0)]
            now_ill = ill or classify(Trace("x", 7, 2, evs)).ill
            (bad if now_ill else good).append(evs)
            if len(evs) < max_len and (nested or not now_ill):
                rec(evs, now_ill)

    rec([], False)
    if nested:
        return [Trace("nest%d" % i, 7, 2, evs) for i, evs in enumerate(bad)]
    return [Trace("enum%d" % i, 7, 2, evs) for i, evs in enumerate(good)]


def fixed():
    """The traces of the Coq examples (ReplayProofs.v: d11_trace, demo_trace), so that they also run on the binary."""
    d11 = [Ev(True, 2, 1), Ev(False, 3, 0, cpu=1), Ev(False, 2, 0)]
    demo = [Ev(True, 1024, 10), Ev(False, 1024, 8), Ev(False, 1536, 8, cpu=1), Ev(False, 1792, 8), Ev(False, 1280, 0),
            Ev(False, 9, 0), Ev(True, 4, 2, flags=GFP_MOVABLE), Ev(True, 4, 2), Ev(False, 6, 1, cpu=1), Ev(True, 16, 3),
            Ev(False, 16, 3)]
    return [Trace("coq-d11", 511, 2, d11), Trace("coq-demo", 4095, 2, demo), Trace("coq-demo-classing", 4095, 3, demo, True)]


def random_trace(rng, name, nev=None, log_max=None):
    """Seeded random well-formed trace: allocations of orders 0..10 at free aligned pfns, whole frees, partial
    frees (first / middle / last part, any smaller order), frees of unknown blocks (never allocated, already freed,
    larger than the allocation), re-allocations at the base of a tracked block; cpu ids, pids and GFP flags vary."""
    log_max = log_max or rng.choice([15, 16, 17])
    hdr_max = (1 << log_max) - 1 - rng.choice([0, 0, 1, 300, 511])
    cores = rng.choice([1, 2, 3, 4, 8])
    ncpu = rng.choice([1, cores, cores + 3])
    nev = nev or rng.choice([8, 30, 120, 400])
    budget = (hdr_max + 1) // 4          # frames held (tracked + orphaned) stays below a quarter of the memory
    ref = Ref()
    evs = []
    freed = []                           # recently freed (pfn, order) for double frees
    max_ord = rng.choice([3, 6, 8, 10, 10])
    big_split = 0

    def mk(a, p, k):
        return Ev(a, p, k, cpu=rng.randrange(ncpu), pid=rng.randrange(1, 50), flags=rng.choice(GFP_CHOICES))

    def free_spot(k):
        for _ in range(40):
            p = rng.randrange(1, (hdr_max + 1) >> k) << k if ((hdr_max + 1) >> k) > 1 else 0
            if p == 0 or p + (1 << k) > hdr_max + 1:
                continue
            if not ref.overlapping(p, k):
                return p
        return None

    while len(evs) < nev:
        x = rng.random()
        ev = None
        tracked = ref.tracked
        if x < 0.40 or not tracked:
            k = min(rng.randrange(0, max_ord + 1), rng.randrange(0, max_ord + 2))
            if ref.held() + (1 << k) <= budget:
                p = free_spot(k)
                if p is not None:
                    ev = mk(True, p, k)
        elif x < 0.55:
            b = rng.choice(list(tracked))
            ev = mk(False, b, tracked[b])
        elif x < 0.85:
            cands = [b for b in rng.sample(list(tracked), min(8, len(tracked))) if tracked[b] > 0]
            if cands:
                b = cands[0]
                K = tracked[b]
                k = rng.randrange(max(0, K - 4), K) if (big_split >= 2 or rng.random() < 0.8) else rng.randrange(0, K)
                if K - k > 6:
                    big_split += 1
                n = 1 << (K - k)
                j = rng.choice([0, n - 1, rng.randrange(n), rng.randrange(n)])
                ev = mk(False, b + (j << k), k)
        elif x < 0.93:
            y = rng.random()
            if y < 0.4 and freed:
                p, k = rng.choice(freed)
                if not ref.covering(p, k):
                    ev = mk(False, p, k)
            elif y < 0.7:
                k = rng.randrange(0, max_ord + 1)
                p = free_spot(k)
                if p is not None:
                    ev = mk(False, p, k)
            else:
                b = rng.choice(list(tracked))
                K = tracked[b]
                k = rng.randrange(K + 1, MAX_ORDER + 2) if K < MAX_ORDER else None
                if k is not None and k <= MAX_ORDER and b % (1 << k) == 0 and not ref.covering(b, k):
                    ev = mk(False, b, k)
        else:
            b = rng.choice(list(tracked))
            k = rng.choice([tracked[b], rng.randrange(0, max_ord + 1)])
            if b % (1 << k) == 0 and b + (1 << k) <= hdr_max + 1 and ref.held() + (1 << k) <= budget \
                    and ref.overlapping(b, k) <= {b}:
                ev = mk(True, b, k)
        if ev is None:
            continue
        kind = ref.step(ev)
        assert not ref.ill, (kind, ev.line())
        if not ev.alloc and kind != "unknown_free":
            freed.append((ev.pfn, ev.order))
        evs.append(ev)
    return Trace(name, hdr_max, cores, evs, classing=rng.random() < 0.4)


def ddmin(events, fails):
    """Delta debugging over the event list: smallest sub-list (order kept) for which `fails` still holds."""
    n = 2
    evs = list(events)
    while len(evs) >= 2:
        chunk = max(1, len(evs) // n)
        reduced = False
        for i in range(0, len(evs), chunk):
            cand = evs[:i] + evs[i + chunk:]
            if cand and fails(cand):
                evs = cand
                n = max(n - 1, 2)
                reduced = True
                break
        if not reduced:
            if chunk == 1:
                break
            n = min(len(evs), n * 2)
    return evs


if __name__ == "__main__":
    import sys
    rng = random.Random(1)
    t = random_trace(rng, "demo")
    print("\n".join(t.lines()[:20]))
    print(len(enumerated(3)), "enumerated traces up to 3 events")
