#!/bin/sh
# Development aid (not a registered check): line/region coverage of /repo/core reached by the harness suites of the quick
# tier, to find code no suite executes before a seeded change does.  Needs the nightly toolchain (llvm-tools); builds into
# a scratch directory that is removed at the end.   usage: lib/coverage.sh [scratch-dir]
set -e
S=${1:-/tmp/llfree-cov}
TB=$(dirname "$(find "$HOME/.rustup/toolchains" -path '*nightly-x86_64*' -name llvm-cov | head -1)")
mkdir -p "$S/prof" "$S/out" "$S/buildprof"
cd /verif/harness
# build scripts / proc macros are instrumented too: keep their profiles out of the source trees
export LLVM_PROFILE_FILE="$S/buildprof/%p-%m.profraw"
RUSTFLAGS="-C instrument-coverage" CARGO_NET_OFFLINE=true CARGO_TARGET_DIR="$S/target" \
  cargo +nightly build --release --offline --bin seqrun --bin schedrun --bin zonerun --bin searchrun --bin polrun >/dev/null 2>&1
R="$S/target/release"
export LLVM_PROFILE_FILE="$S/prof/%p-%m.profraw"
for s in random exhaustive init pattern exhaust offline drain recover handoff args; do
  "$R/seqrun" --suite $s --seed 1 --shard 0/1 --histories 40 --ops 150 --depth 3 --configs 2 --out "$S/out/$s.txt" >/dev/null 2>&1 || echo "seqrun $s failed"
done
"$R/schedrun" --mode exhaustive --scenario all --preemptions 1 --snapshots >/dev/null 2>&1
"$R/schedrun" --api upper --mode exhaustive --scenario all --preemptions 1 --snapshots >/dev/null 2>&1
"$R/schedrun" --api upper --mode exhaustive --scenario online-race --preemptions 1 >/dev/null 2>&1
"$R/schedrun" --api upper --mode freeze --scenario all --runs 1 --seed 1 --budget 2000 >/dev/null 2>&1
for s in meta valid zone nvm; do "$R/zonerun" --suite $s --seed 1 --scale 1 --out "$S/out/z$s.txt" >/dev/null 2>&1; done
"$R/searchrun" --seed 1 --out "$S/out/search.txt" >/dev/null 2>&1
"$R/polrun" --out "$S/out/pol.txt" >/dev/null 2>&1
"$TB/llvm-profdata" merge -sparse "$S"/prof/*.profraw -o "$S/all.profdata"
OBJ="$R/seqrun -object $R/schedrun -object $R/zonerun -object $R/searchrun -object $R/polrun"
"$TB/llvm-cov" report -instr-profile="$S/all.profdata" $OBJ 2>/dev/null | grep -E "repo/core|^Filename"
for f in llfree trees local lower bitfield atomic wrapper; do
  echo "=== uncovered lines of core/src/$f.rs (logging, closing braces and comments filtered)"
  "$TB/llvm-cov" show -instr-profile="$S/all.profdata" $OBJ /repo/core/src/$f.rs 2>/dev/null \
    | grep -E "^ +[0-9]+\| +0\|" | grep -v "warn!\|error!\|info!\|debug!\|\s*}\s*$\|\s*//" | cut -c1-150
done
rm -rf "$S"
