"""Policy / request tie (an extra suite of C09 and C13): the Coq policies of Policies.v, the request
closures / class tables and the JSON policy of Requests.v are compared DIRECTLY with the compiled functions
(not only through whole-allocator runs).

  polrun  (harness/, core crate): `Classing::simple(cores)` / `Classing::movable(cores)`: policy function,
          request closure, `classes()` + default, for cores 1..8; and `policy_by_name` of harness/src/lib.rs,
          the very functions seqrun hands to the allocator (simple, movable, zeroed, zeroslot, custom).
  poljson (harness-eval/, evaluation crate): `ClassingConfig::classing(cores).policy` of every
          /repo/results/classes*.json plus seeded variants of the PERFECT / GOOD ranges.
  driver `policy`: CORR = extracted definitions vs compiled results; ORACLE = compiled results alone
          (requests valid for the compiled class table, tables well-formed, policy totality/order)."""
import os
import re

import vlib

HARNESS_EVAL = os.path.join(vlib.ROOT, "harness-eval")
TARGET_EVAL = os.path.join(vlib.TARGET, "eval")
GEOMETRIES = [(), ("tree_huge_1",), ("tree_huge_2",), ("tree_huge_8",), ("16K",)]


def build_poljson(ctx):
    """cargo build of harness-eval's poljson (as lib/props/c19.py does for classrun)."""
    cmd = ["cargo", "build", "--release", "--offline", "--bin", "poljson"]
    with vlib.Lock("cargo-eval"):
        rc, out = vlib.sh(cmd, cwd=HARNESS_EVAL, timeout=3000, env={"CARGO_TARGET_DIR": TARGET_EVAL})
    if rc != 0:
        ctx.notes.append("harness-eval build failed: " + out[-3000:])
        return None
    return os.path.join(TARGET_EVAL, "release")


def _samples(tr):
    want = {"K": 2, "P": 3, "Q": 3, "J": 1}
    out = []
    try:
        with open(tr) as fh:
            for i, ln in enumerate(fh):
                t = ln.split(" ", 1)[0]
                if want.get(t, 0) > 0 and (t in ("K", "J") or i % 977 == 5):
                    want[t] -= 1
                    out.append(ln.strip()[:160])
                if not any(want.values()):
                    break
    except OSError:
        pass
    return out


def _one(ctx, exe, suite, binary, args, tr, desc, geometry, oracle, corr):
    rc, out = vlib.sh([binary] + args + ["--out", tr], timeout=600)
    if rc != 0:
        corr.append(("policy-tie: %s failed rc=%d" % (suite, rc), [out[-500:]]))
        return
    mism, summ = vlib.run_driver(ctx, exe, suite, tr, timeout=600)
    hist = {k: v for k, v in summ.items() if k[:2] in ("p_", "q_") or k in ("k", "q", "j")}
    ctx.suites.append({
        "suite": "policy-tie/%s/%s: %s" % (suite, geometry, desc),
        "evaluations": summ.get("evaluations", 0),
        # non-trivial = request evaluations + policy evaluations on reflexive pairs (the rating depends on the
        # free count) are a subset of `distinct_inputs`; counted: requests + match results
        "distinct": min(summ.get("distinct", 0), summ.get("q", 0) + summ.get("p_match", 0)),
        "distinct_inputs": summ.get("distinct", 0),
        "histogram": hist,
        "samples": _samples(tr),
    })
    # one representative (the first = smallest arguments of the sweep) per kind and function; the others listed below it
    groups = {}
    for kind, text in mism:
        fn = re.sub(r"[@\[].*", "", " ".join(text.split()[:2]))
        groups.setdefault((kind, fn), []).append(text)
    for (kind, fn), texts in groups.items():
        n = summ.get("oracle" if kind == "ORACLE" else "corr", len(texts))
        lines = ["# policy tie (%s, geometry %s): the line above names the function and its concrete arguments;" % (suite, geometry),
                 "# re-run: ./check %s (the suite re-tabulates the compiled functions, it takes no input file)" % ctx.pid,
                 "# %d %s mismatch(es) in this suite in total; further ones of %r:" % (n, kind, fn)] + ["#   " + t for t in texts[1:8]]
        (oracle if kind == "ORACLE" else corr).append(("policy-tie %s %s" % (kind, texts[0]), lines))


def run_policy_tie(ctx):
    """-> (oracle_fail, corr_fail); appends suite records to ctx.suites."""
    oracle, corr = [], []
    exe = vlib.build_driver(ctx, "policy")
    if exe is None:
        return oracle, [("policy-tie: driver build failed", ctx.notes[-1:])]
    for feats in (GEOMETRIES[:1] if ctx.quick else GEOMETRIES):
        rel = vlib.build_harness(ctx, ["polrun"], feats)
        if rel is None:
            corr.append(("policy-tie: harness build failed", ctx.notes[-1:]))
            continue
        g = vlib.feat_dir(feats)
        _one(ctx, exe, "polrun", os.path.join(rel, "polrun"),
             ["--seed", str(ctx.seed), "--random", "24" if ctx.quick else "200"],
             ctx.path("polrun-%s.txt" % g),
             "compiled Classing::simple/movable(cores 1..8) policy, request closure (orders 0..TREE_ORDER+1, core 0..20, movable "
             "false/true) and classes()/default, and the harness's policy_by_name functions (as run by seqrun), all class pairs "
             "0..7 x threshold/neighbour/seeded free counts, vs extracted pol_simple/pol_movable/pol_zeroed/pol_zeroslot/pol_custom/"
             "pol_select, simple_request/movable_request, simple_classing/movable_classing (correspondence); request_valid_b on "
             "the compiled table + compiled request, table well-formedness, policy order/totality (oracle)",
             g, oracle, corr)
    rel = build_poljson(ctx)
    if rel is None:
        corr.append(("policy-tie: harness-eval build failed", ctx.notes[-1:]))
    else:
        _one(ctx, exe, "poljson", os.path.join(rel, "poljson"),
             ["--seed", str(ctx.seed), "--random", "16" if ctx.quick else "100", "--variants", "12" if ctx.quick else "60"],
             ctx.path("poljson.txt"),
             "compiled ClassingConfig::classing(cores).policy of every results/classes*.json and seeded PERFECT/GOOD range "
             "variants (overlapping, empty, single-point), all class pairs 0..7 x range-boundary/seeded free counts, vs extracted "
             "pol_json (correspondence); policy order/totality, default configured, ids < 8 (oracle)",
             "default", oracle, corr)
    return oracle, corr
