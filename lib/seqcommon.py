"""Sequential correspondence suites (harness/src/bin/seqrun.rs + driver/seq.ml), shared by the property
modules that rest on them (C02, C04, C06, C07, C08, C09, C10, C11, C12, C13, C14, C15, ...).

    rel, exe = build(ctx, features)                       harness release dir, driver exe
    mism, summ, paths = run_suite(ctx, "random", histories=150, ops=150)
        mism  = [(kind, text, transcript_path)], kind = "CORR[result]" / "ORACLE[C02]" / "DRIVER"
        summ  = merged SUMMARY counters of all shards (+ "wall_s", "shards")
        paths = transcript files of the shards that produced a mismatch (others are deleted)
    oracle, corr = select(mism, corr=("result", "ents", "rows"), oracle=("C02",))
    res = shrink(ctx, transcript_path, history_id, "ORACLE[C02]")   delta debugging on one history
    run_replay(ctx, file)                                  re-run an operation list on the current code

A suite is sharded over up to 16 parallel (seqrun, seq.exe) pairs with derived seeds (`--shard i/n`).
A replay file is a `CFG` line followed by `OP`/`Q` lines in the transcript's own syntax (results, if
present, are ignored): `seqrun --suite replay --file <f>` executes exactly these calls."""
import os
import re
import time
from concurrent.futures import ThreadPoolExecutor

import vlib

MAX_SHARDS = 16
SUM_MAX = {"max_trees"}
_built = {}


def build(ctx, features=()):
    """Driver `seq` and the harness binary `seqrun` for a geometry (cargo features)."""
    key = tuple(sorted(features))
    if key in _built:
        return _built[key]
    exe = vlib.build_driver(ctx, "seq")
    rel = vlib.build_harness(ctx, ["seqrun"], features=tuple(features)) if exe else None
    _built[key] = (rel, exe)
    return rel, exe


def _merge(total, s):
    for k, v in s.items():
        if k == "suite":
            continue
        if k == "orders":
            have = set(x for x in str(total.get(k, "")).split(",") if x and x != "-")
            have |= set(x for x in str(v).split(",") if x and x != "-")
            total[k] = ",".join(sorted(have, key=lambda x: int(x))) or "-"
        elif isinstance(v, int):
            total[k] = max(total.get(k, 0), v) if k in SUM_MAX else total.get(k, 0) + v
        else:
            total[k] = v


def _drive(ctx, exe, tr):
    mism, summ = vlib.run_driver(ctx, exe, "seq", tr)
    return [(k, t, tr) for k, t in mism], summ


def run_suite(ctx, suite, features=(), histories=100, ops=150, extra_args=(), shards=None, name=None, keep=False):
    """Generate and check one suite.  Returns (mismatches, summary, transcript_paths)."""
    rel, exe = build(ctx, features)
    if rel is None or exe is None:
        return [("DRIVER", "build failed: %s" % "; ".join(ctx.notes[-1:]), "")], {}, []
    n = shards or max(1, min(MAX_SHARDS, vlib.NPROC, histories if suite not in ("exhaustive", "init") else MAX_SHARDS))
    tag = name or (suite + ("-" + vlib.feat_dir(features) if features else ""))
    per = (histories + n - 1) // n
    t0 = time.time()

    def one(i):
        tr = ctx.path("%s-%d.txt" % (tag, i))
        cmd = [os.path.join(rel, "seqrun"), "--suite", suite, "--seed", str(ctx.seed), "--shard", "%d/%d" % (i, n),
               "--histories", str(per), "--ops", str(ops), "--out", tr] + [str(a) for a in extra_args]
        rc, out = vlib.sh(cmd, timeout=3000)
        if rc != 0:
            return [("DRIVER", "seqrun %s shard %d failed rc=%d: %s" % (suite, i, rc, out[-400:]), tr)], {}, tr
        m, s = _drive(ctx, exe, tr)
        return m, s, tr

    with ThreadPoolExecutor(max_workers=n) as ex:
        results = list(ex.map(one, range(n)))
    mism, summ, paths = [], {}, []
    for m, s, tr in results:
        mism += m
        _merge(summ, s)
        if m or keep:
            paths.append(tr)
        else:
            try:
                os.remove(tr)
            except OSError:
                pass
    summ["wall_s"] = round(time.time() - t0, 2)
    summ["shards"] = n
    summ["geometry"] = vlib.feat_dir(features)
    return mism, summ, paths


def run_replay(ctx, path, features=(), out_name="replay"):
    """Execute the operation list `path` on the current code and check it.  Returns (mismatches, summary, transcript)."""
    rel, exe = build(ctx, features)
    if rel is None or exe is None:
        return [("DRIVER", "build failed", "")], {}, ""
    tr = ctx.path(out_name + ".txt")
    rc, out = vlib.sh([os.path.join(rel, "seqrun"), "--suite", "replay", "--file", path, "--out", tr], timeout=600)
    if rc != 0:
        return [("DRIVER", "seqrun replay failed rc=%d: %s" % (rc, out[-400:]), tr)], {}, tr
    m, s = _drive(ctx, exe, tr)
    return m, s, tr


CORPUS = os.path.join(vlib.ROOT, "corpus", "seq")


def run_corpus(ctx, features=()):
    """Regression inputs: every replay file of corpus/seq/ (minimal call sequences of the findings exhibited so
    far; default geometry) is executed on the current code before the generated suites.
    Returns (mismatches, summary); a mismatch's path is the corpus file itself (it is its own replay)."""
    mism, summ = [], {}
    if features or not os.path.isdir(CORPUS):
        return mism, summ
    for f in sorted(os.listdir(CORPUS)):
        if not f.endswith(".txt"):
            continue
        path = os.path.join(CORPUS, f)
        m, s, _ = run_replay(ctx, path, features, out_name="corpus-" + f[:-4])
        mism += [(k, "%s [corpus/seq/%s]" % (t, f), path) for k, t, _ in m]
        _merge(summ, s)
    summ["geometry"] = vlib.feat_dir(features)
    return mism, summ


def corpus_lines(path):
    """replay lines of a corpus file (it already is a replay file)"""
    with open(path) as fh:
        return [ln.rstrip("\n") for ln in fh]


def select(mism, corr=(), oracle=()):
    """Projection of the mismatches a property depends on -> (oracle_list, corr_list) of (kind, text, path).
    DRIVER failures always count as correspondence failures."""
    o, c = [], []
    for kind, text, path in mism:
        m = re.fullmatch(r"(CORR|ORACLE)\[(\w+)\]", kind)
        if not m:
            c.append((kind, text, path))
        elif m.group(1) == "CORR" and m.group(2) in corr:
            c.append((kind, text, path))
        elif m.group(1) == "ORACLE" and m.group(2) in oracle:
            o.append((kind, text, path))
    return o, c


def history_of(text):
    """`<history id> op <i>: ...` -> (history id, op index)"""
    m = re.match(r"(\d+) op (\S+):", text)
    return (int(m.group(1)), m.group(2)) if m else (None, None)


def extract_history(transcript, hid):
    """(header lines [H, CFG], op lines without results) of one history of a transcript"""
    head, ops, inside = [], [], False
    with open(transcript) as fh:
        for ln in fh:
            if ln.startswith("H "):
                inside = ln.split()[1] == str(hid)
                if inside:
                    head.append(ln.strip())
            elif not inside:
                continue
            elif ln.startswith("CFG "):
                head.append(ln.strip())
            elif ln.startswith(("OP ", "Q ")):
                ops.append(ln.split(" => ")[0].strip())
            elif ln.startswith("E "):
                break
    return head, ops


def geometry_features(transcript):
    """cargo features that reproduce the geometry of a transcript (GEOM line)"""
    with open(transcript) as fh:
        first = fh.readline()
    m = re.search(r"huge_order=(\d+) tree_huge=(\d+)", first)
    if not m:
        return ()
    feats = []
    if m.group(1) == "11":
        feats.append("16K")
    if m.group(2) != "4":
        feats.append("tree_huge_" + m.group(2))
    return tuple(feats)


def shrink(ctx, transcript, hid, kind, features=None, budget=400, predicate=None):
    """Delta debugging of history `hid`: the smallest operation list (a sub-sequence of the history's calls,
    queries included) for which a mismatch of `kind` (e.g. "ORACLE[C02]") - or `predicate(kind, text)` -
    is still reported when the list is executed on the current code.
    Returns None if the history does not reproduce, else (replay_lines, text, n_ops)."""
    if features is None:
        features = geometry_features(transcript)
    head, ops = extract_history(transcript, hid)
    if not head:
        return None
    pred = predicate or (lambda k, t: k == kind)
    tests = [0]
    tmp = ctx.path("shrink-%s.txt" % re.sub(r"\W", "", kind))

    def fails(cand):
        if tests[0] >= budget:
            return None
        tests[0] += 1
        with open(tmp, "w") as fh:
            fh.write("\n".join(head + cand) + "\n")
        m, _, _ = run_replay(ctx, tmp, features, out_name="shrink-run")
        for k, t, _ in m:
            if pred(k, t):
                return t
        return None

    best = fails(ops)
    if best is None:
        return None
    # cut everything after the failing op
    _, opi = history_of(best)
    n = 2
    while len(ops) >= 2:
        size = max(1, len(ops) // n)
        removed = False
        i = 0
        while i < len(ops):
            cand = ops[:i] + ops[i + size:]
            r = fails(cand) if cand else None
            if r:
                ops, best, removed = cand, r, True
            else:
                i += size
        if tests[0] >= budget:
            break
        if not removed:
            if size == 1:
                break
            n = min(len(ops), n * 2)
        else:
            n = max(2, n - 1)
    # renumber for readability and record the results the current code produces
    with open(tmp, "w") as fh:
        fh.write("\n".join(head + ops) + "\n")
    m, _, tr = run_replay(ctx, tmp, features, out_name="shrink-final")
    text = next((t for k, t, _ in m if pred(k, t)), best)
    lines = ["# minimal failing call sequence (%d calls; %d replays used) for: %s" % (len(ops), tests[0], kind),
             "# re-run on the current code: ./check %s --replay <this file>" % ctx.pid,
             "# geometry features: %s" % (",".join(features) or "default")]
    with open(tr) as fh:
        lines += [ln.rstrip("\n")[:600] for ln in fh if not ln.startswith(("ST ", "LST "))]
    return lines, text, len(ops)


def shrink_groups(ctx, mism, max_groups=6, budget=int(os.environ.get("VERIF_SHRINK_BUDGET", "300"))):
    """One shrunk representative per mismatch kind (the one from the shortest history position).
    Returns {kind: (text, replay_lines)}."""
    groups = {}
    loose = {}
    for kind, text, path in mism:
        hid, opi = history_of(text)
        if hid is None or not path:
            # not tied to a history (the harness or the driver itself failed, e.g. a harness assertion about the metadata
            # layout): nothing to shrink, but it must never be dropped - the suite did not run
            loose.setdefault(kind, (text, ["# not tied to a history: %s" % text[:2000]]))
            continue
        try:
            pos = int(opi)
        except (TypeError, ValueError):
            pos = 0
        if kind not in groups or pos < groups[kind][0]:
            groups[kind] = (pos, text, path, hid)
    out = {}
    for kind, (pos, text, path, hid) in sorted(groups.items())[:max_groups]:
        try:
            r = shrink(ctx, path, hid, kind, budget=budget)
        except Exception as ex:  # best effort
            ctx.notes.append("shrink failed for %s: %r" % (kind, ex))
            r = None
        if r is None:
            head, ops = extract_history(path, hid)
            out[kind] = (text + " (history %s of %s; not reproducible in isolation)" % (hid, os.path.basename(path)),
                         ["# unshrunk history"] + head + ops[:400])
        else:
            lines, t, n = r
            out[kind] = ("%s [minimal sequence: %d calls]" % (t, n), lines)
    for kind, v in loose.items():
        out.setdefault(kind, v)
    return out


def suite_record(name, desc, summ):
    """Evidence entry for ctx.suites"""
    rec = {"suite": "seqrun/%s: %s" % (name, desc),
           "evaluations": summ.get("evaluations", 0), "distinct": summ.get("distinct", 0),
           "histories": summ.get("histories", 0), "panics": summ.get("panics", 0),
           "max_trees": summ.get("max_trees", 0), "orders": summ.get("orders", "-"),
           "geometry": summ.get("geometry", "default"), "wall_s": summ.get("wall_s", 0),
           "skipped_oracle_evaluations": summ.get("skipped_oracle", 0),
           "ops": {k: v for k, v in summ.items() if re.match(r"(get|put|drain|change|handoff|recover|lowerget|init|q)_", k)},
           "policies": {k[7:]: v for k, v in summ.items() if k.startswith("policy_")},
           "mismatches": {k[2:]: v for k, v in summ.items() if k.startswith("n_")}}
    return rec
