"""C07 - rebuilding from another allocator's metadata is observationally identical."""
import seqprop

THEOREMS = ["C07_handoff", "C07_handoff_identity", "C07_hypotheses_by_construction", "C07_operations_preserve_shape"]


def run(ctx):
    desc = ("random histories; at a quiescent point the three metadata buffers are byte-copied and a second real allocator is "
            "built over the copies with Init::None; every later call and query goes to both; results, statistics and buffer "
            "contents must stay equal to each other (HFAIL otherwise) and to the model, which performs the same handoff")
    quick = [dict(suite="handoff", histories=96, ops=120, desc=desc)]
    thorough = [dict(suite="handoff", features=f, histories=2000 if not f else 500, ops=150, desc=desc) for f in seqprop.GEOMETRIES]
    return seqprop.run(
        ctx, THEOREMS, corr=("result", "class", "ents", "rows", "trees", "locals", "stats", "tree_stats"), oracle=("C07",),
        quick_plan=quick, thorough_plan=thorough, corpus_tags=(),
        text="Coq theorems: the model state IS the content of the three buffers plus configuration; constructing in "
             "assume-initialised mode over copies of a state's buffers (even with trailing junk) returns exactly that state, hence "
             "every later call sequence gives the same outputs, statistics and final state; the hypotheses (locals laid out as "
             "Locals::new lays them out) hold by construction after any history from LLFree::new. The weight of this property is "
             "the tie: the real allocator is handed over at quiescent points and both instances are driven with the same "
             "continuation, which also validates that LLFree has no state outside the buffers.",
        rule="histories with one handoff each at a random quiescent point; evaluations = calls+queries replayed (each executed on "
             "both allocators after the handoff); distinct = distinct buffer dumps")
