"""C14 - per-class statistics count every tree frame slot exactly once."""
import json, os
import seqprop
from props import _seqplans

THEOREMS = {"C14.v": json.load(open(os.path.join(os.path.dirname(__file__), "_theorems.json")))["C14"],
            # the same at the quiescent end of every interleaving of machine M2 (AfterInterleaving.v)
            "ConcSeq.v": ["C14_after_every_interleaving"]}


def run(ctx):
    quick, thorough = _seqplans.plans()
    return seqprop.run(
        ctx, THEOREMS, corr=('tree_stats', 'trees', 'locals'), oracle=('C14',),
        quick_plan=quick, thorough_plan=thorough, corpus_tags=('D8',),
        text="Coq theorems under UpperInv, hence after every history: tree_stats succeeds, the per-class free counts sum to the fast total, and free + allocated over all classes equals ntrees * TREE_FRAMES (frames held by local reservations are counted free, not allocated, in the class of the reserved tree; saturating subtraction never bites). Tied to the code by comparing tree_stats().classes with the model after every call and evaluating the two sums on the implementation's output.",
        rule=_seqplans.RULE)
