"""C10 - after a drain, allocation fails only when nothing suitable is free."""
import json, os
import seqprop
from props import _seqplans
import schedupper

THEOREMS = {"C10.v": json.load(open(os.path.join(os.path.dirname(__file__), "_theorems.json")))["C10"],
            # the same at the quiescent end of every interleaving of machine M2 (AfterInterleaving.v)
            "ConcSeq.v": ["C10_after_every_interleaving"]}


def run(ctx):
    quick, thorough = _seqplans.plans(extra_suites=[('drain', 48, 600, 'random histories with a drain followed by probe calls: base-order get, targeted gets of free / allocated / partly free / offline blocks')])
    return seqprop.run(
        ctx, THEOREMS, corr=('result', 'trees', 'locals'), oracle=('C10',),
        quick_plan=quick, thorough_plan=thorough, corpus_tags=(),
        extra=schedupper.run_c10_conc,   # quiescent states at the end of explored interleavings (machine M2): drain + probes
        text="Coq theorems under UpperInv and a never-Invalid policy: drain leaves no reservation; then a base-order get returns out-of-memory only if every tree counter is zero, i.e. every free frame is hidden by an offline tree (no frame outside offline trees is free); a targeted get succeeds iff the tree counter covers the block and the block is entirely free in the allocation state. Uses coverage of the alternating tree walk, the candidate buffer keeping a rated candidate, and C12. Tied to the code by draining and probing at quiescent points of random histories (and at the end of explored interleavings via machine M2), compared with the model and with the harness's own free set.",
        rule=_seqplans.RULE)
