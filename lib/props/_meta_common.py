"""Shared by c17.py, c18.py and c08meta.py: the `zonerun` harness suites judged by driver/meta.exe."""
import os
import re
import vlib

DESCR = {
    "meta": "zonerun/meta: LLFree::metadata_size over a sweep of frame counts (0, 1, +-1 around 64/512/2048-multiples, "
            "random up to 8 trees, 2^30.., usize::MAX/2/FRAME_SIZE) x 10 classings (no class, zero-slot classes, 1-3 classes, "
            "duplicate id) vs lower_size/trees_size/local_size; LLFree::new (FreeAll/AllocAll/Recover/None) on exact-size "
            "guard-fenced buffers + probe operations with the verif hooks: every distinct (buffer, offset, width) of every "
            "atomic access vs row_loc/ent_loc/tree_loc/slot_loc/narrow_loc (CORR) and vs offset+width<=size, width-aligned (ORACLE)",
    "valid": "zonerun/valid: MetaData slices cut from one arena (exact, larger, adjacent in 3 orders, one byte short, offset by "
             "1..63, overlapping by 1 byte / a line / nested / identical / same start / same end, empty buffers at the start / "
             "inside / at the end / away from another buffer, random layouts) -> LLFree::new vs meta_valid (CORR) and vs "
             "short/misaligned/shared-byte computed on the implementation's own sizes (ORACLE)",
    "zone": "zonerun/zone: ZoneAlloc<LLFree>::create(offset, frames) vs a plain LLFree twin under the same random get/put/"
            "stats_at operations; offsets 0, TF, 7TF, 2^40, ~usize::MAX/2, non-multiples (refused), 2^64-TF (frame numbers "
            "not representable); frames below the offset; extracted zone_get/zone_put/zone_stats_at around the twin's "
            "answer (CORR) and result = twin + offset, below offset => err arg and unchanged stats (ORACLE)",
    "nvm": "zonerun/nvm: NvmAlloc<LLFree>::create on 8 MiB-aligned heap zones of 0..4 trees + odd remainders at 3 bases: "
           "recover of a zeroed region, misaligned base, create, random get/put history (returned blocks written with a "
           "pattern), recover with z-1 / z+1 frames (refused) and with z frames (same free/huge counts, held blocks "
           "freeable); nvm_create/nvm_layout (CORR) and block bytes below the implementation's own metadata address and "
           "header page, layout sums, header rule (ORACLE)",
}


def _run_line(suite, text, transcript):
    """The directed re-run (`RUN <suite> <zonerun args>`) for a mismatch text, or None."""
    if suite in ("meta", "valid"):
        m = re.search(r"frames=(\d+) cl=(\S+)", text)
        if m:
            return "RUN %s --only-frames %s --only-cl %s" % (suite, m.group(1), m.group(2))
    elif suite == "zone":
        m = re.search(r"offset=([0-9a-f]+) frames=(\d+)", text)
        if m:
            return "RUN zone --only-offset %s --only-frames %s" % (m.group(1), m.group(2))
    elif suite == "nvm":
        m = re.search(r"\bz=(\d+)", text)
        if m:
            return "RUN nvm --only-z %s" % m.group(1)
        m = re.search(r"\bid=(\d+)", text)
        if m:
            with open(transcript) as fh:
                for ln in fh:
                    p = ln.split()
                    if len(p) > 3 and p[0] == "NC" and p[1] == m.group(1):
                        return "RUN nvm --only-z %s" % p[3]
    return None


def run_suite(ctx, rel, exe, suite, oracle, corr, extra=(), label=None, scale=None, seed=None):
    """Runs one zonerun suite and judges it; appends to ctx.suites / ctx.samples; fills oracle / corr with
    (text, replay_lines).  Returns the driver summary."""
    tr = ctx.path("%s%s.txt" % (suite, label or ""))
    scale = scale if scale is not None else (1 if ctx.quick else 12)
    seed = ctx.seed if seed is None else seed
    cmd = [os.path.join(rel, "zonerun"), "--suite", suite, "--seed", str(seed), "--scale", str(scale), "--out", tr] + list(extra)
    rc, out = vlib.sh(cmd, timeout=1500)
    if rc != 0:
        corr.append(("zonerun %s failed rc=%d" % (suite, rc), [out[-500:]]))
        return {}
    mism, summ = vlib.run_driver(ctx, exe, suite, tr)
    d = {"suite": DESCR[suite] + (" [directed re-run: %s]" % " ".join(extra) if extra else ""),
         "evaluations": summ.get("evaluations", 0), "distinct": summ.get("distinct", 0), "seed": seed, "scale": scale}
    d.update({k: v for k, v in summ.items() if k not in ("suite", "evaluations", "distinct")})
    ctx.suites.append(d)
    seen = set()
    for kind, text in mism:
        run = _run_line(suite, text, tr)
        # one report per kind and defect signature (panic site if any, else the failing configuration);
        # the sweep is ordered by size, so the first one is the smallest input
        sig = re.search(r"panic (\S+:\d+)", text)
        lead = re.match(r"[A-Za-z:_ ,'/<>-]{12,}", text)     # the message up to its first number / parenthesis
        key = (kind, sig.group(1) if sig else (lead.group(0).strip() if lead else run))
        if key[1] is not None and key in seen:
            continue
        seen.add(key)
        lines = ["# re-run this configuration against the current code: ./check %s --replay <this file>" % ctx.pid]
        lines.append(run if run else "RUN %s" % suite)
        (oracle if kind == "ORACLE" else corr).append((text, lines))
    want = {"meta": ("MS", "MN", "MA"), "valid": ("V",), "zone": ("ZC", "Z"), "nvm": ("NC", "NG", "NS")}[suite]
    per = {}
    with open(tr) as fh:
        for ln in fh:
            k = ln.split(" ", 1)[0]
            if k in want:
                per.setdefault(k, []).append(ln.strip()[:260])
    for k in want:
        l = per.get(k, [])
        for idx in sorted({len(l) // 3, 2 * len(l) // 3}):
            if idx < len(l) and len(ctx.samples) < 8:
                ctx.samples.append(l[idx])
    return summ


def replay(ctx, rel, exe, oracle, corr):
    """Replay file = `RUN <suite> <args>` lines (comments start with #): each is run again on the current code."""
    n = 0
    for ln in open(ctx.replay):
        p = ln.split()
        if len(p) >= 2 and p[0] == "RUN" and p[1] in DESCR:
            n += 1
            run_suite(ctx, rel, exe, p[1], oracle, corr, extra=p[2:], label="-replay%d" % n)
    if n == 0:
        corr.append(("replay file %s has no RUN line" % ctx.replay, []))


def build(ctx, corr):
    exe = vlib.build_driver(ctx, "meta")
    rel = vlib.build_harness(ctx, ["zonerun"]) if exe else None
    if rel is None:
        corr.append(("build failed", ctx.notes[-1:]))
    return exe, rel
