"""C11 - a single-slot allocator finds every free base frame without draining."""
import json, os
import seqprop
from props import _seqplans

THEOREMS = json.load(open(os.path.join(os.path.dirname(__file__), "_theorems.json")))["C11"]


def run(ctx):
    quick, thorough = _seqplans.plans(quick_hist=60, thorough_hist=600, extra_suites=[('exhaust', 64, 800, 'one class, one slot, 2-4 trees: exhaust memory with base-order gets through slot 0, free a random subset each through slot 0 or without slot (incl. exactly one frame into the slot-reserved tree), allocate until out of memory and count')])
    return seqprop.run(
        ctx, THEOREMS, corr=('result', 'trees', 'locals'), oracle=('C11',),
        quick_plan=quick, thorough_plan=thorough, corpus_tags=('D7',),
        text="Coq theorems: in any consistent state where one class with one slot is configured, more trees than slots, policy never Invalid: a base-order get through slot 0 returns out-of-memory only if every tree's free frames are hidden by offline trees; with nothing offline, only if no frame is free (exact_free = 0) - even when frames were freed without naming the slot (the sync threshold accepts an exact fit). Tied to the code by the exhaustion suite compared with the model and the harness's own free set.",
        rule=_seqplans.RULE)
