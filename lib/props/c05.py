"""C05 - crash at any point: recovery keeps completed allocations and frees free frames (concurrent part).

Lower allocator under the deterministic scheduler with `--snapshots`: after the prologue and after every step that
wrote to the persistent (lower) buffer, the buffer is copied and recovered (`Init::Recover`, fresh volatile state).
Oracle [C05] on every snapshot (driver/step.ml): lower_invb of the recovered state; every block held at that step whose
free had not started is still allocated and freeable (spec_put_enabled on abs); frames that were free and not touched by an
in-flight call are free (an in-flight get may hold at most one aligned block of its order in its tree; an in-flight
partial free that observed the huge marker touches its whole huge frame: the stale-split window is reported as a NOTE and
counted in `stale_split_leaks`); recovered stats = accounting of abs.  CORR[snap]: the extracted `lower_recover` of the
machine's memory equals the recovered buffer.

Whole allocator (`schedrun --api upper --snapshots`, driver/ustep.ml, theorems of UpperCrash.v): the same crash points for
threads calling LLFree::get/put/drain/change_tree; the blocks that must survive are the client's blocks plus the blocks in
the hands of in-flight gets (`in_hand` of the machine state), every frame allocated after recovery must be covered by them or
touched by an in-flight lower call of the M1 view (`touched_b (m1_of s)`); the recovered LLFree instance must have equal fast
and exact counts and pass validate()."""
import schedprop
import schedcommon as sc

import json, os
import seqextra
THEOREMS = {"C05.v": json.load(open(os.path.join(os.path.dirname(__file__), "_theorems.json")))["C05"],
            # every reachable state of the whole-allocator machine M2 is a crash point (UpperCrash.v)
            "C05u.v": ["C05u_crash_safe", "C05u_counts_agree_after_recovery", "C05u_crash_safe_with_any_tree_change"]}


def jobs(ctx, rel):
    if ctx.quick:
        return [["--mode", "exhaustive", "--scenario", "all", "--preemptions", "2", "--snapshots"],
                ["--mode", "pct", "--scenario", "all", "--runs", "200", "--depth", "3", "--seed", str(ctx.seed), "--snapshots"]]
    two = ",".join(n for n, t in sc.scenarios(rel) if t <= 2)
    return [["--mode", "exhaustive", "--scenario", "all", "--preemptions", "3", "--snapshots"],
            ["--mode", "exhaustive", "--scenario", two, "--preemptions", "4", "--max-runs", "30000", "--snapshots"],
            ["--mode", "pct", "--scenario", "all", "--runs", "10000", "--depth", "4", "--seed", str(ctx.seed), "--snapshots"]]


def jobs_upper(ctx, rel):
    """the whole allocator (machine M2, UpperCrash.v): crash points of the upper-API scenarios"""
    if ctx.quick:
        return [["--api", "upper", "--mode", "exhaustive", "--scenario", "all", "--preemptions", "2", "--snapshots"],
                ["--api", "upper", "--mode", "pct", "--scenario", "all", "--runs", "100", "--depth", "3", "--seed", str(ctx.seed), "--snapshots"]]
    two = ",".join(n for n, t in sc.scenarios(rel, "upper") if t <= 2)
    return [["--api", "upper", "--mode", "exhaustive", "--scenario", "all", "--preemptions", "3", "--snapshots"],
            ["--api", "upper", "--mode", "exhaustive", "--scenario", two, "--preemptions", "4", "--max-runs", "30000", "--snapshots"],
            ["--api", "upper", "--mode", "pct", "--scenario", "all", "--runs", "5000", "--depth", "4", "--seed", str(ctx.seed), "--snapshots"]]


UPPER_DESC = ("compiled LLFree::get/put/drain/change_tree + LLFree::new(Recover) at every write to the lower buffer vs machine M2 and "
              "lower_recover (CORR), crash oracle on held + in_hand + touched of the M1 view (ORACLE [C05]), fast = exact count and "
              "validate() of the recovered instance")


def run(ctx):
    return schedprop.run(
        ctx, THEOREMS, "[C05]", jobs,
        "Coq theorems on machine M1: for EVERY reachable state (any schedule, any number of threads, any calls in flight = every "
        "crash point between any two writes), recovering the persistent metadata cannot index out of bounds, yields consistent "
        "metadata, keeps every block returned by a completed allocation and not passed to a started free allocated and freeable "
        "at its original order, and a frame is allocated after recovery exactly if it is held or touched by an in-flight call "
        "(`touched` is exact; it contains the stale-split window of partial frees of huge frames, an observation documented in "
        "DESIGN.md); rebuilding the upper layer over the recovered metadata gives the accounting invariant, so fast and exact "
        "counts agree; for every frame count (free-all and allocate-all starts); at quiescence recovery is the identity. "
        "Every memory state of every explored interleaving of the lower allocator is a crash point: the persistent buffer is "
        "recovered by the compiled `Lower::recover` and judged against the ownership specification (abs, lower_invb, "
        "spec_put_enabled) evaluated by the extracted Coq definitions, with the blocks held / in flight at that point.",
        "crash points: after the prologue and after every write (successful CAS) to the lower buffer of every schedule (as "
        "C01: at most P preemptions, P = 2 quick, 3-4 thorough, + PCT; whole and partial last trees); evaluations = steps "
        "replayed; snapshots are counted per suite",
        "compiled Lower::get/put + Lower::recover at every write vs machine M1 and lower_recover (CORR), crash oracle (ORACLE [C05])",
        more=[(jobs_upper, UPPER_DESC, sc.UPPER_DRIVER)],
        # sequential crash points: crash + recover at quiescent points of sequential histories through the whole allocator
        extra=seqextra.seq_suites([dict(suite="recover", histories=48, ops=120), dict(suite="recover", histories=1500, ops=150)],
                                  corr=("result", "ents", "rows", "trees", "stats"), oracle=("C05", "C04", "C02", "C09")))
