"""C13 - the class reported for an allocation is one the policy permits."""
import json, os
import seqprop
from props import _seqplans
import schedupper
import seqextra
import policytie

THEOREMS = {"C13.v": json.load(open(os.path.join(os.path.dirname(__file__), "_theorems.json")))["C13"],
            "C13c.v": ["C13_every_interleaving"]}


def run(ctx):
    quick, thorough = _seqplans.plans()
    return seqprop.run(
        ctx, THEOREMS, corr=('result', 'class'), oracle=('C13',),
        quick_plan=quick, thorough_plan=thorough, corpus_tags=(),
        extra=seqextra.chain(schedupper.run_c13_conc, policytie.run_policy_tie),
        text="Coq theorem for ANY policy (including ones with Invalid pairs), any state and any call: a successful get reports the requested class or a class t for which the policy, evaluated in the same call, answered Match or Steal; a path-local fact of LLFree::get (each return site's class comes from a policy evaluation on the entry value it committed), hence also along every history. Proved both for sequential histories (Upper.v) and for EVERY interleaving of the whole-allocator machine M2 (any number of threads, any schedule, any memory): a thread-local invariant over (primitive, continuation stack). Tied to the code by evaluating the extracted policy on the class component of every result, incl. a custom policy with unusable pairs.",
        rule=_seqplans.RULE)
