"""C04 - fast and exact accounting agree with the allocation state when quiescent."""
import json, os
import seqprop
from props import _seqplans
import schedupper

THEOREMS = {"C04.v": json.load(open(os.path.join(os.path.dirname(__file__), "_theorems.json")))["C04"],
            # concurrent half: the whole allocator under every interleaving (machine M2)
            "Conc.v": ['Conc_quiescent_validate', 'Conc_quiescent_stats', 'Conc_quiescent_stats_with_changes', 'Conc_upper_safe', 'Conc_from_new', 'Conc_online_exclusion_necessary', 'Conc_online_race_later_free_panics'],
            # Online executed while no other call is in flight is safe: phased schedules (UpperPhased.v)
            "Phased.v": ['Conc_phased_online_safe', 'Conc_phased_online_safe_then_concurrent', 'Conc_phased_held_everywhere',
                         'Conc_phased_ghost_unique', 'Conc_phased_validate', 'Conc_phased_stats', 'Conc_phased_instance']}


def run(ctx):
    quick, thorough = _seqplans.plans()
    return seqprop.run(
        ctx, THEOREMS, corr=('result', 'ents', 'rows', 'trees', 'locals', 'stats', 'tree_stats'), oracle=('C04',),
        quick_plan=quick, thorough_plan=thorough, corpus_tags=('D8', 'D5', 'D2'),
        extra=schedupper.run_c04_conc,
        text="Coq theorems: the invariant UpperInv (per tree: counter + slot counters + hidden-by-offline ghost = lower free frames; reserved iff exactly one slot holds the tree; LowerInv: entry counters = zero bits) holds after LLFree::new and after every history of valid calls; under it stats() equals the exact free-frame / free-huge / free-tree counts of the allocation state, stats_at at orders 0 / huge / tree and is_free agree with it, the fast count plus the hidden frames of offline trees equals the exact count, and validate() passes when nothing is hidden. Sequential half proved in full. Concurrent half (end of every interleaving): NOT proved; covered by exploration only: at the end of every explored schedule of the whole-allocator machine M2 the same equalities are evaluated on the real allocator's dump (lower_invb, upper_invb, stats vs held blocks, validate) with every atomic step replayed on the extracted machine.",
        rule=_seqplans.RULE)
