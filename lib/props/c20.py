"""C20 - trace replay frees exactly the frames each traced free releases."""
import collections
import concurrent.futures
import os
import random
import subprocess

import tracegen as tg
import vlib

THEOREMS = ["C20_replay_frees_traced_block", "C20_unknown_free_changes_nothing", "C20_free_never_panics", "C20_final_count",
            "C20_final_count_no_overwrite", "C20_allocator_spec", "C20_first_fit_ok", "C20_old_refuted",
            # the same loop over the modelled real allocator (Upper.v): coq/ReplayLLFree.v
            "C20_llfree_frees_traced_block", "C20_llfree_free_never_fails", "C20_llfree_unknown_free",
            "C20_llfree_reachable", "C20_llfree_final_count", "C20_llfree_final_count_new",
            "C20_llfree_step_simulated", "C20_llfree_run_simulated", "C20_run_with_repeat",
            "C20_llfree_builtin_policies", "C20_llfree_example"]
EVAL_TARGET = os.path.join(vlib.TARGET, "eval")
CLASSES_JSON = os.path.join(vlib.REPO, "results", "classes.json")


def build_replay(ctx):
    with vlib.Lock("cargo-eval"):
        rc, out = vlib.sh(["cargo", "build", "--release", "--offline", "-p", "llfree-eval", "--bin", "replay"],
                          cwd=vlib.REPO, timeout=3000, env={"CARGO_TARGET_DIR": EVAL_TARGET})
    if rc != 0:
        ctx.notes.append("replay build failed: " + out[-3000:])
        return None
    return os.path.join(EVAL_TARGET, "release", "replay")


def run_one(exe, trace, path, rng=None):
    """Writes the binary trace, runs the real replayer on it; returns (rc_class, free, total, failed, detail)."""
    tg.write_binary(trace, path, rng)
    cmd = [exe, path, "--stride", "1"]
    if trace.classing:
        cmd += ["--classing", CLASSES_JSON]
    env = dict(os.environ)
    env.update({"RUST_LOG": "error", "RUST_BACKTRACE": "0", "NO_COLOR": "1"})
    try:
        p = subprocess.run(cmd, env=env, stdout=subprocess.PIPE, stderr=subprocess.PIPE, timeout=300)
        rc, out, err = p.returncode, p.stdout.decode("utf-8", "replace"), p.stderr.decode("utf-8", "replace")
    except subprocess.TimeoutExpired:
        rc, out, err = 124, "", "TIMEOUT"
    finally:
        try:
            os.remove(path)
        except OSError:
            pass
    failed = sum(1 for ln in err.split("\n") if "Free failed" in ln)
    free = total = -1
    if rc == 0:
        try:
            import json
            js = json.loads(out[out.index("{"):])
            free, total = int(js["free_frames"]), int(js["total_frames"])
        except (ValueError, KeyError):
            rc = 125
    cls = 0 if rc == 0 else (2 if ("unwrap()" in err and "Memory" in err) else 1)
    return cls, free, total, failed, ("" if rc == 0 else "rc=%d %s" % (rc, err.strip()[-300:].replace("\n", " | ")))


def run_all(ctx, exe, traces, seed):
    os.makedirs(ctx.path("traces"), exist_ok=True)

    def job(it):
        i, t = it
        return run_one(exe, t, ctx.path("traces/%d.trace" % i), random.Random(seed * 1000003 + i))

    with concurrent.futures.ThreadPoolExecutor(max_workers=min(16, vlib.NPROC)) as ex:
        return list(ex.map(job, enumerate(traces)))


def block_lines(trace, ref, res):
    held = ref.held()
    partial = sum(1 for k in ref.kinds if k.startswith("partial"))
    return trace.lines() + [
        "H %d %d %d %d %d %d" % (held, ref.orphaned, ref.kinds.count("unknown_free"), ref.kinds.count("realloc"),
                                 partial, 1 if ref.ill else 0),
        "R %d %d %d %d" % res[:4], "."]


def violates(exe, ctx, trace, tag):
    """The implementation's own outputs against the reference (trace alone); None when the trace is outside
    the reference's domain or does not fit."""
    ref = tg.classify(trace)
    if ref.ill:
        return None
    cls, free, total, failed, detail = run_one(exe, trace, ctx.path("shrink-%s.trace" % tag))
    if cls == 2:
        return None
    if cls != 0:
        return "replay crashed: " + detail
    if free != total - ref.held() or failed != 0:
        return "free_frames=%d free_failed=%d, expected free_frames = total_frames - held = %d - %d = %d and free_failed=0" % (
            free, failed, total, ref.held(), total - ref.held())
    return None


def select_traces(ctx, rng):
    """Each replay process start costs a few ms (much more on a loaded machine), so the enumerated traces are
    sampled (seeded): quick ~400 traces, thorough ~10000.  Always included: the Coq example traces and every
    enumerated trace of up to 2 (quick) / 3 (thorough) events."""
    full = 2 if ctx.quick else 3
    traces = tg.fixed()
    for nested in (False, True):
        pool = tg.enumerated(full + 1, nested=nested)
        short = [t for t in pool if len(t.events) <= full]
        longer = [t for t in pool if len(t.events) > full]
        part = [t for t in longer if any(k.startswith("partial") for k in tg.classify(t).kinds)]
        rest = [t for t in longer if not any(k.startswith("partial") for k in tg.classify(t).kinds)]
        if nested:
            quota = [(part, 25 if ctx.quick else 1000), (rest, 15 if ctx.quick else 500)]
        else:
            quota = [(part, 120 if ctx.quick else 3000), (rest, 40 if ctx.quick else 1000)]
        traces += short
        for lst, n in quota:
            traces += rng.sample(lst, min(n, len(lst)))
    nrand = 100 if ctx.quick else 3000
    traces += [tg.random_trace(rng, "rand%d" % i) for i in range(nrand)]
    # tied time stamps (real traces stamp in microseconds and the parser compares f32 seconds): the merge of the per-cpu
    # pages must keep the traced order of events with equal stamps
    traces += [tg.with_ties(tg.random_trace(rng, "tie%d" % i, nev=rng.choice([30, 60, 120])), rng) for i in range(nrand // 4)]
    return traces


def run(ctx):
    proofs_ok = vlib.coq_prove(ctx, os.path.join(vlib.COQ, "Properties", "C20.v"), THEOREMS)
    oracle, corr = [], []
    drv = vlib.build_driver(ctx, "replay")
    exe = build_replay(ctx) if drv else None
    if exe is None:
        corr.append(("build failed", ctx.notes[-1:]))
    else:
        rng = random.Random(ctx.seed)
        if ctx.replay:
            traces = tg.parse_text(open(ctx.replay).read().split("\n"))
        else:
            traces = select_traces(ctx, rng)
        refs = [tg.classify(t) for t in traces]
        results = run_all(ctx, exe, traces, ctx.seed)
        tr = ctx.path("replay.txt")
        with open(tr, "w") as fh:
            for t, ref, res in zip(traces, refs, results):
                fh.write("\n".join(block_lines(t, ref, res)) + "\n")
        mism, summ = vlib.run_driver(ctx, drv, "replay", tr)
        kinds = collections.Counter()
        for ref in refs:
            kinds.update(ref.kinds)
        crashes = [(t, res) for t, res in zip(traces, results) if res[0] == 1]
        ctx.suites.append({
            "suite": "replay: the compiled eval/src/bin/replay.rs on synthetic binary traces vs the extracted replay model "
                     "(correspondence) and the extracted trace specification trace_held (oracle)",
            "evaluations": summ.get("evaluations", 0), "distinct": summ.get("distinct", 0),
            "distinct_traces": summ.get("traces", 0), "events": summ.get("events", 0),
            "event_kinds": dict(sorted(kinds.items())),
            "discarded_trace_does_not_fit": summ.get("discarded", 0),
            "model_none": summ.get("model_none", 0), "spec_none": summ.get("spec_none", 0),
            "with_classing_json": sum(1 for t in traces if t.classing),
            "nested_traces_outside_python_reference": sum(1 for r in refs if r.ill),
            "cores": dict(sorted(collections.Counter(t.cores for t in traces).items())),
            "orders": "0..10", "max_events": max((len(t.events) for t in traces), default=0)})
        byname = {t.name: t for t in traces}
        fails = sorted((len(byname[text.split()[0][6:]].events), kind, text) for kind, text in mism
                       if text.startswith("trace=") and text.split()[0][6:] in byname)
        n_oracle = summ.get("oracle", 0)
        shrunk = False
        for _, kind, text in fails:
            t = byname[text.split()[0][6:]]
            if kind == "ORACLE":
                if shrunk:
                    continue        # one shrunk witness is reported; the count of failing traces is in its text
                shrunk = True
                small = tg.ddmin(t.events, lambda evs: violates(exe, ctx, t.with_events(evs), "o") is not None)
                mt = t.with_events(small, t.name + "-min")
                why = violates(exe, ctx, mt, "o") or text
                msg = "minimal trace [%s] (cores=%d max_pfn=%d classing=%d): %s (%d of %d traces fail this oracle)" % (
                    " ; ".join("%s %d %d" % ("A" if e.alloc else "F", e.pfn, e.order) for e in small),
                    mt.cores, mt.hdr_max_pfn, 1 if mt.classing else 0, why, n_oracle, summ.get("evaluations", 0))
                oracle.append((msg, ["# re-run: ./check C20 --replay <this file>",
                                     "# shrunk from trace %s (%d events)" % (t.name, len(t.events))] + mt.lines() + ["."]))
            else:
                corr.append((text, ["# re-run: ./check C20 --replay <this file>"] + t.lines() + ["."]))
        for kind, text in mism:
            if not text.startswith("trace="):
                corr.append((text, []))
        for t, res in crashes[:3]:
            oracle.append(("replay crashed on trace %s: %s" % (t.name, res[4]), ["# re-run: ./check C20 --replay <this file>"] + t.lines() + ["."]))
        shown = 0
        for t, ref in zip(traces, refs):
            if any(k.startswith("partial") for k in ref.kinds) and shown < 6 and len(t.events) <= 8:
                ctx.samples.append(" ; ".join(t.lines()))
                shown += 1
    vlib.classify(ctx, proofs_ok, oracle, corr, name="replay")
    return vlib.finish(
        ctx,
        "Theorems for every trace (any length) of aligned events of orders 0..10 below max_pfn that fits in memory, over "
        "an abstract allocator given by its frame-ownership specification with an arbitrary allocation oracle: every free "
        "inside a tracked allocation puts exactly the traced part and succeeds, unknown frees change nothing, the final "
        "free count is max_pfn minus what the trace holds (trace_held, a function of the trace alone; re-allocated-over "
        "blocks are counted explicitly as held). The same theorems (C20_llfree_*) for the loop running over the sequential "
        "model of the real allocator (Upper.v llfree_get / llfree_put / llfree_stats; every wf geometry, every policy with "
        "pol_refl_match / pol_demote_trans, initial state from llfree_new FreeAll; events with a valid request and order "
        "<= tree order): every traced put returns Ok and changes abs by exactly spec_put, including parts of blocks of "
        "order >= the huge order; stats().free_frames at the end = max_pfn - trace_held; each step is a step of the "
        "abstract loop under a choose_ok oracle. The model is tied to the compiled replay binary by running both on the "
        "same synthetic binary traces.",
        "traces: the traces of the Coq examples + all traces of up to 2 (quick) / 3 (thorough) aligned events over pfns 4..7 "
        "at orders 0..2 that start with an allocation and a seeded sample of those with one more event (every "
        "first/middle/last part at every sub-order; well-formed ones and ones with nested allocations) + seeded "
        "random well-formed traces of 8..400 events with orders 0..10, "
        "partial frees, unknown frees, re-allocations, 1..8 cores, several cpu ids and trace pages, with and without "
        "--classing results/classes.json; evaluations = traces run through the real binary; non-trivial = the trace "
        "contains at least one partial free; distinct = distinct such traces (event sequences)")
