"""Shared suite plans of the sequential-history properties (same history space as C02)."""
import seqprop

EXH = ("all call sequences of the given length over a 15-symbol abstract alphabet (get order 0/7/huge/tree via slot 0, targeted get "
       "of a free / a held block with and without slot, free via slot / without slot, free of a part, repeated free, drain, offline/online tree 0, "
       "misaligned free) on small configurations, each followed by an epilogue (free what is held, drain, targeted tree-order "
       "allocation of every whole tree)")
RND = ("seeded adaptive random histories (+queries): all orders, targeted gets, frees of held / split / merged / never allocated "
       "blocks, drains, tree changes, invalid arguments; 1-4 trees incl. partial last trees and tiny ranges, free-all / alloc-all, "
       "simple/movable/zeroed/zero-slot/custom classings with 1-3 slots; every second history ends with an epilogue (free everything "
       "held, drain, targeted tree-order allocation of every tree, base allocations, validate)")


def plans(quick_hist=160, thorough_hist=5000, ops=150, depth_q=4, depth_t=5, extra_suites=()):
    quick = [dict(suite="exhaustive", extra_args=["--depth", depth_q, "--configs", 2], desc=EXH),
             dict(suite="random", histories=quick_hist, ops=ops, desc=RND)]
    thorough = [dict(suite="exhaustive", extra_args=["--depth", depth_t, "--configs", 2], desc=EXH),
                dict(suite="random", histories=thorough_hist, ops=ops, desc=RND)]
    for f in seqprop.GEOMETRIES[1:]:
        thorough.append(dict(suite="exhaustive", features=f, extra_args=["--depth", depth_q, "--configs", 2], desc=EXH))
        thorough.append(dict(suite="random", features=f, histories=max(200, thorough_hist // 4), ops=ops, desc=RND))
    for name, hq, ht, d in extra_suites:
        quick.append(dict(suite=name, histories=hq, ops=ops, desc=d))
        thorough.append(dict(suite=name, histories=ht, ops=ops, desc=d))
        for f in seqprop.GEOMETRIES[1:]:
            thorough.append(dict(suite=name, features=f, histories=max(50, ht // 4), ops=ops, desc=d))
    return quick, thorough


RULE = ("histories: bounded-exhaustive over an abstract alphabet + seeded adaptive random (+ the property's own suite); evaluations = "
        "calls and queries replayed through the model; distinct = distinct dumps of the three metadata buffers reached")
