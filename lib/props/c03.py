"""C03 - concurrent calls never panic and frees of held blocks always succeed.

Lower allocator (machine M1, driver step) and whole allocator (machine M2, driver ustep): every panic of a worker thread
is caught and reported (ORACLE [C03] `... panic <file:line> <message>`), every free of a held block must return ok.
Known finding D13: `panic lower.rs:... Exceeding retries` (partial_put_huge gives up after 4 spins)."""
import schedprop
import schedcommon as sc
import schedupper

import json, os
THEOREMS = {"C03.v": json.load(open(os.path.join(os.path.dirname(__file__), "_theorems.json")))["C03"],
            # part U: the whole allocator under every interleaving (machine M2)
            "Conc.v": ['Conc_upper_safe', 'Conc_upper_safe_with_changes', 'Conc_from_new']}


def jobs(ctx, rel):
    if ctx.quick:
        return [["--mode", "exhaustive", "--scenario", "all", "--preemptions", "2"],
                ["--mode", "pct", "--scenario", "all", "--runs", "300", "--depth", "3", "--seed", str(ctx.seed)]]
    two = ",".join(n for n, t in sc.scenarios(rel) if t <= 2)
    return [["--mode", "exhaustive", "--scenario", "all", "--preemptions", "3"],
            ["--mode", "exhaustive", "--scenario", two, "--preemptions", "5", "--max-runs", "100000"],
            ["--mode", "pct", "--scenario", "all", "--runs", "20000", "--depth", "4", "--seed", str(ctx.seed)]]


def run(ctx):
    return schedprop.run(
        ctx, THEOREMS, "[C03]", jobs,
        "Coq theorems on machine M1 (lower allocator, every schedule, any number of threads, most general client): the only "
        "reachable panic site is the known one (partial_put_huge gives up after 4 spins: finding D13, witness schedule proved "
        "reachable); all other expect/unwrap/assert/index sites of lower.rs/bitfield.rs/atomic.rs are unreachable and a free of "
        "a held block (or part of one) never completes with an error. PARTIAL for the upper layer (tree entries, local slots): "
        "sequentially C09's theorem; under interleaving exploration only (machine M2 step correspondence + oracle). "
        "Panics of the code under test are caught in the worker threads of the scheduled runs; the machines M1 (lower) and M2 "
        "(whole allocator) model every panic site (expect/unwrap/assert/index) as a TPanic/UPanic state, and the replay checks "
        "that the implementation panics exactly where the machine does (CORR[ret]).",
        "lower-API schedules as C01; " + schedupper.RULE,
        "compiled Lower::get/put vs machine M1 (CORR) and the no-panic / free-succeeds oracle (ORACLE [C03])",
        more=[(schedupper.upper_jobs, schedupper.DESC, sc.UPPER_DRIVER)])
