"""C16 - tree search tries the best-rated fallback candidates, best first.

Part 2 (proofs only so far): the order in which the modelled `Trees::search_best` calls `access`
(SearchBest.v / SearchBestProofs.v); its correspondence harness is not written yet.
Part 1: the bounded sorted candidate buffer (`util.rs` `SortedBuffer<N, OrdBy<K, V>>`): theorems about the
model `sb_add` (Sorted.v / SortedProofs.v) + correspondence of the compiled buffer with the extracted model
(CORR) and with a sort-based oracle that does not use the model (ORACLE), on all short insertion sequences
and on seeded random long ones.  Mismatches are shrunk to a minimal failing insertion sequence."""
import os
import re
import vlib

# candidate buffer (part 1) and visiting order of search_best (part 2; model only, no harness yet)
THEOREMS = ["C16_sorted_topN", "C16_best_first", "C16_first_is_max",
            "C16_search_order", "C16_search_once", "C16_walk_once", "C16_walk_all"]


# ------------------------------------------------------------------ one explicit sequence
def _fmt(keys):
    return ";".join("%d,%d" % (k, i) for i, k in enumerate(keys)) or "-"


def _run_one(ctx, rel, exe, cap, keys):
    """Insert `keys` (value = index) into the compiled buffer of capacity `cap`; returns
    (transcript line, {kind: text}) as judged by the driver."""
    tr = ctx.path("one.txt")
    rc, out = vlib.sh([os.path.join(rel, "bufrun"), "--seq", "%d:%s" % (cap, _fmt(keys)), "--out", tr])
    if rc != 0:
        return "", {"DRIVER": "bufrun failed rc=%d %s" % (rc, out[-300:])}
    mism, _ = vlib.run_driver(ctx, exe, "buf", tr)
    line = open(tr).read().strip()
    res = {}
    for kind, text in mism:
        res.setdefault(kind, text)
    return line, res


def _parse(text):
    m = re.search(r"cap=(\d+) seq=(\S+)", text)
    if not m:
        return None
    seq = [] if m.group(2) == "-" else [int(e.split(",")[0]) for e in m.group(2).split(";") if e]
    return int(m.group(1)), seq


def shrink(ctx, rel, exe, kind, cap, keys, budget=600):
    """Delta debugging over the insertion list (then over the capacity and the key values): returns the
    smallest (cap, keys, line, text) found that still yields a mismatch of `kind`."""
    tests = [0]

    def fails(c, ks):
        if tests[0] >= budget:
            return None
        tests[0] += 1
        line, res = _run_one(ctx, rel, exe, c, ks)
        return (line, res[kind]) if kind in res else None

    best = fails(cap, keys)
    if best is None:
        return None
    changed = True
    while changed:
        changed = False
        # 1. remove chunks of insertions: halves, quarters, ..., single elements
        n = 2
        while len(keys) >= 1 and n <= 2 * len(keys):
            size = max(1, len(keys) // n)
            i, removed = 0, False
            while i < len(keys):
                cand = keys[:i] + keys[i + size:]
                r = fails(cap, cand)
                if r:
                    keys, best, removed, changed = cand, r, True, True
                else:
                    i += size
            if size == 1 and not removed:
                break
            if not removed:
                n *= 2
        # 2. a smaller capacity
        for c in range(0 if cap == 0 else 1, cap):
            r = fails(c, keys)
            if r:
                cap, best, changed = c, r, True
                break
        # 3. smaller keys: rank-compress, then lower single keys
        ranks = {k: i for i, k in enumerate(sorted(set(keys)))}
        cand = [ranks[k] for k in keys]
        if cand != keys:
            r = fails(cap, cand)
            if r:
                keys, best, changed = cand, r, True
        for i in range(len(keys)):
            for smaller in range(keys[i]) if keys[i] <= 8 else ():
                cand = keys[:i] + [smaller] + keys[i + 1:]
                r = fails(cap, cand)
                if r:
                    keys, best, changed = cand, r, True
                    break
    return cap, keys, best[0], best[1]


# ------------------------------------------------------------------ suites
def _suite(ctx, rel, exe, name, desc, bufargs, oracle, corr, transcript=None):
    tr = transcript or ctx.path(name + ".txt")
    if transcript is None:
        rc, out = vlib.sh([os.path.join(rel, "bufrun"), "--seed", str(ctx.seed), "--out", tr] + bufargs)
        if rc != 0:
            corr.append(("bufrun %s failed rc=%d" % (name, rc), [out[-500:]]))
            return
    mism, s = vlib.run_driver(ctx, exe, "buf", tr)
    ctx.suites.append({
        "suite": "bufrun/%s: %s" % (name, desc),
        "evaluations": s.get("evaluations", 0),
        "distinct": s.get("distinct", 0),
        "overflowed_capacity": s.get("overflow", 0),
        "not_strictly_ascending": s.get("unordered", 0),
        "with_equal_keys": s.get("ties", 0),
        "panics": s.get("panics", 0),
        "max_length": s.get("maxlen", 0),
        "capacities": {k[3:]: v for k, v in s.items() if re.fullmatch(r"cap\d+", k)},
        "lengths": {k[3:].replace("_", "-"): v for k, v in s.items() if re.fullmatch(r"len\d+_\d+", k)},
        "mismatches": {"corr": s.get("corr", 0), "oracle": s.get("oracle", 0)},
    })
    with open(tr) as fh:
        step = max(1, s.get("evaluations", 1) // 4)
        for i, ln in enumerate(fh):
            if i % step == step // 2 and len(ctx.samples) < 8:
                ctx.samples.append(ln.strip()[:300])
    # shrink the shortest reported mismatch of each kind (per distinct violated clause for the oracle)
    groups = {}
    for kind, text in mism:
        if kind not in ("ORACLE", "CORR"):
            corr.append((text, []))
            continue
        why = re.search(r"violates=([a-z-]+)", text)
        key = (kind, why.group(1) if why else "")
        p = _parse(text)
        if p and (key not in groups or len(p[1]) < len(groups[key][1][1])):
            groups[key] = (text, p)
    seen = ctx.__dict__.setdefault("c16_seen", set())   # one report per minimal sequence, across suites
    for (kind, _), (text, (cap, keys)) in sorted(groups.items()):
        sh = shrink(ctx, rel, exe, kind, cap, keys)
        if sh is None:
            entry = (text + " (not reproducible in isolation)", ["# original transcript line not reproducible"])
        else:
            c, ks, line, t = sh
            if (kind, line) in seen:
                continue
            seen.add((kind, line))
            total = s.get("oracle" if kind == "ORACLE" else "corr", 0)
            entry = (t + " [minimal failing insertion sequence: capacity %d, keys %s; %d %s mismatches in suite %s]"
                     % (c, ks, total, kind, name),
                     ["# minimal failing insertion sequence (capacity %d, keys in insertion order %s)" % (c, ks),
                      "# line format: B <cap> <inserted key,value;...> <what iter().rev() returned>",
                      "# re-run against the current code: ./check C16 --replay <this file>",
                      line])
        (oracle if kind == "ORACLE" else corr).append(entry)


def run(ctx):
    proofs_ok = vlib.coq_prove(ctx, os.path.join(vlib.COQ, "Properties", "C16.v"), THEOREMS)
    oracle, corr = [], []
    exe = vlib.build_driver(ctx, "sorted")
    rel = vlib.build_harness(ctx, ["bufrun"]) if exe else None
    if rel is None:
        corr.append(("build failed", ctx.notes[-1:]))
    elif ctx.replay:
        # the recorded results are ignored: the inputs are run again on the current code
        tr = ctx.path("replay.txt")
        rc, out = vlib.sh([os.path.join(rel, "bufrun"), "--from", ctx.replay, "--out", tr])
        if rc != 0:
            corr.append(("bufrun --from failed rc=%d" % rc, [out[-500:]]))
        else:
            _suite(ctx, rel, exe, "replay", "inputs of %s re-run on the current code" % ctx.replay, [], oracle, corr, transcript=tr)
    else:
        if ctx.quick:
            exh = [("exhaustive", 6, 4)]
            nrand = 20000
        else:
            exh = [("exhaustive", 8, 4), ("exhaustive-wide", 6, 6)]
            nrand = 1000000
        for name, maxlen, dom in exh:
            _suite(ctx, rel, exe, name,
                   "all insertion sequences of length 0..%d over keys {0..%d}, capacities 1..8" % (maxlen, dom - 1),
                   ["--maxlen", str(maxlen), "--domain", str(dom), "--maxcap", "8"], oracle, corr)
        _suite(ctx, rel, exe, "random",
               "%d seeded random sequences of length 0..64 (key pools of 1..64 keys: tiny, rating-like, 62-bit; "
               "sorted/reversed/nearly sorted/shuffled), capacities 1..8" % nrand,
               ["--random", str(nrand)], oracle, corr)
    vlib.classify(ctx, proofs_ok, oracle, corr, name="bufrun")
    return vlib.finish(
        ctx,
        "Theorems for every capacity, every total preorder on keys and every insertion sequence: the modelled "
        "candidate buffer keeps min(cap, n) elements, sorted, a sub-multiset of the insertions, every dropped "
        "element rated no better than every kept one, and is read best first. The model is tied to the compiled "
        "SortedBuffer<N, OrdBy<u64, u64>> (N = 1..8) by running both on the same insertion sequences; the "
        "compiled buffer's output is also checked against a sort-based oracle that does not use the model. "
        "Theorems about the modelled search_best (access order = perfect matches in walk order, then the retained "
        "candidates best first; no tree visited twice) are proved but not yet tied to the compiled search_best "
        "by a correspondence run.",
        "sequences: exhaustive over a small key domain (shortest first) + seeded random long ones, value = insertion "
        "index so that equal keys stay distinguishable; non-trivial = the sequence overflows the capacity or is "
        "not strictly ascending (some insertion is not an append); distinct = distinct non-trivial "
        "(capacity, sequence) pairs")
