"""C16 - tree search tries the best-rated fallback candidates, best first.

Part 2: the order in which `Trees::search_best` calls `access`: theorems about the model `search_order`
(SearchBest.v / SearchBestProofs.v) + correspondence of the compiled `Trees::search_best::<N, _>` (harness
`searchrun`: tree entries and rating tables of our choosing, N = 1..8) with the extracted model (CORR) and with
an oracle computed from the transcript alone (ORACLE: perfect matches first in walk order, then the
min(N, #candidates) best candidates by (rating, entirely free), best first; a prefix of that when `access`
answers something other than Err(Memory)), on all small tree arrays and on seeded random ones up to 40 trees.
Part 1: the bounded sorted candidate buffer (`util.rs` `SortedBuffer<N, OrdBy<K, V>>`): theorems about the
model `sb_add` (Sorted.v / SortedProofs.v) + correspondence of the compiled buffer with the extracted model
(CORR) and with a sort-based oracle that does not use the model (ORACLE), on all short insertion sequences
and on seeded random long ones.  Mismatches are shrunk to a minimal failing insertion sequence."""
import os
import re
import vlib

# candidate buffer (part 1) and visiting order of search_best (part 2)
THEOREMS = ["C16_sorted_topN", "C16_best_first", "C16_first_is_max",
            "C16_search_order", "C16_search_once", "C16_walk_once", "C16_walk_all"]


# ------------------------------------------------------------------ one explicit sequence
def _fmt(keys):
    return ";".join("%d,%d" % (k, i) for i, k in enumerate(keys)) or "-"


def _run_one(ctx, rel, exe, cap, keys):
    """Insert `keys` (value = index) into the compiled buffer of capacity `cap`; returns
    (transcript line, {kind: text}) as judged by the driver."""
    tr = ctx.path("one.txt")
    rc, out = vlib.sh([os.path.join(rel, "bufrun"), "--seq", "%d:%s" % (cap, _fmt(keys)), "--out", tr])
    if rc != 0:
        return "", {"DRIVER": "bufrun failed rc=%d %s" % (rc, out[-300:])}
    mism, _ = vlib.run_driver(ctx, exe, "buf", tr)
    line = open(tr).read().strip()
    res = {}
    for kind, text in mism:
        res.setdefault(kind, text)
    return line, res


def _parse(text):
    m = re.search(r"cap=(\d+) seq=(\S+)", text)
    if not m:
        return None
    seq = [] if m.group(2) == "-" else [int(e.split(",")[0]) for e in m.group(2).split(";") if e]
    return int(m.group(1)), seq


def shrink(ctx, rel, exe, kind, cap, keys, budget=600):
    """Delta debugging over the insertion list (then over the capacity and the key values): returns the
    smallest (cap, keys, line, text) found that still yields a mismatch of `kind`."""
    tests = [0]

    def fails(c, ks):
        if tests[0] >= budget:
            return None
        tests[0] += 1
        line, res = _run_one(ctx, rel, exe, c, ks)
        return (line, res[kind]) if kind in res else None

    best = fails(cap, keys)
    if best is None:
        return None
    changed = True
    while changed:
        changed = False
        # 1. remove chunks of insertions: halves, quarters, ..., single elements
        n = 2
        while len(keys) >= 1 and n <= 2 * len(keys):
            size = max(1, len(keys) // n)
            i, removed = 0, False
            while i < len(keys):
                cand = keys[:i] + keys[i + size:]
                r = fails(cap, cand)
                if r:
                    keys, best, removed, changed = cand, r, True, True
                else:
                    i += size
            if size == 1 and not removed:
                break
            if not removed:
                n *= 2
        # 2. a smaller capacity
        for c in range(0 if cap == 0 else 1, cap):
            r = fails(c, keys)
            if r:
                cap, best, changed = c, r, True
                break
        # 3. smaller keys: rank-compress, then lower single keys
        ranks = {k: i for i, k in enumerate(sorted(set(keys)))}
        cand = [ranks[k] for k in keys]
        if cand != keys:
            r = fails(cap, cand)
            if r:
                keys, best, changed = cand, r, True
        for i in range(len(keys)):
            for smaller in range(keys[i]) if keys[i] <= 8 else ():
                cand = keys[:i] + [smaller] + keys[i + 1:]
                r = fails(cap, cand)
                if r:
                    keys, best, changed = cand, r, True
                    break
    return cap, keys, best[0], best[1]


# ------------------------------------------------------------------ suites
def _suite(ctx, rel, exe, name, desc, bufargs, oracle, corr, transcript=None):
    tr = transcript or ctx.path(name + ".txt")
    if transcript is None:
        rc, out = vlib.sh([os.path.join(rel, "bufrun"), "--seed", str(ctx.seed), "--out", tr] + bufargs)
        if rc != 0:
            corr.append(("bufrun %s failed rc=%d" % (name, rc), [out[-500:]]))
            return
    mism, s = vlib.run_driver(ctx, exe, "buf", tr)
    ctx.suites.append({
        "suite": "bufrun/%s: %s" % (name, desc),
        "evaluations": s.get("evaluations", 0),
        "distinct": s.get("distinct", 0),
        "overflowed_capacity": s.get("overflow", 0),
        "not_strictly_ascending": s.get("unordered", 0),
        "with_equal_keys": s.get("ties", 0),
        "panics": s.get("panics", 0),
        "max_length": s.get("maxlen", 0),
        "capacities": {k[3:]: v for k, v in s.items() if re.fullmatch(r"cap\d+", k)},
        "lengths": {k[3:].replace("_", "-"): v for k, v in s.items() if re.fullmatch(r"len\d+_\d+", k)},
        "mismatches": {"corr": s.get("corr", 0), "oracle": s.get("oracle", 0)},
    })
    with open(tr) as fh:
        step = max(1, s.get("evaluations", 1) // 4)
        for i, ln in enumerate(fh):
            if i % step == step // 2 and len(ctx.samples) < 4:
                ctx.samples.append(ln.strip()[:300])
    # shrink the shortest reported mismatch of each kind (per distinct violated clause for the oracle)
    groups = {}
    for kind, text in mism:
        if kind not in ("ORACLE", "CORR"):
            corr.append((text, []))
            continue
        why = re.search(r"violates=([a-z-]+)", text)
        key = (kind, why.group(1) if why else "")
        p = _parse(text)
        if p and (key not in groups or len(p[1]) < len(groups[key][1][1])):
            groups[key] = (text, p)
    seen = ctx.__dict__.setdefault("c16_seen", set())   # one report per minimal sequence, across suites
    for (kind, _), (text, (cap, keys)) in sorted(groups.items()):
        sh = shrink(ctx, rel, exe, kind, cap, keys)
        if sh is None:
            entry = (text + " (not reproducible in isolation)", ["# original transcript line not reproducible"])
        else:
            c, ks, line, t = sh
            if (kind, line) in seen:
                continue
            seen.add((kind, line))
            total = s.get("oracle" if kind == "ORACLE" else "corr", 0)
            entry = (t + " [minimal failing insertion sequence: capacity %d, keys %s; %d %s mismatches in suite %s]"
                     % (c, ks, total, kind, name),
                     ["# minimal failing insertion sequence (capacity %d, keys in insertion order %s)" % (c, ks),
                      "# line format: B <cap> <inserted key,value;...> <what iter().rev() returned>",
                      "# re-run against the current code: ./check C16 --replay <this file>",
                      line])
        (oracle if kind == "ORACLE" else corr).append(entry)


# ------------------------------------------------------------------ search_best: one explicit case
# a case = the input part of a transcript line:  S <N> <TF> <start> <offset> <len> <stop> <entries> <table>
def _s_parse(text):
    m = re.search(r"in=\[(S [^\]]*)\]", text)
    if not m:
        return None
    t = m.group(1).split()
    if len(t) != 9:
        return None
    return {"cap": int(t[1]), "tf": int(t[2]), "start": int(t[3]), "offset": int(t[4]), "len": int(t[5]), "stop": t[6],
            "entries": t[7].split(","), "table": [r.split(",") for r in t[8].split("/")]}


def _s_fmt(c):
    return "S %d %d %d %d %d %s %s %s" % (c["cap"], c["tf"], c["start"], c["offset"], c["len"], c["stop"],
                                          ",".join(c["entries"]), "/".join(",".join(r) for r in c["table"]))


def _s_run_one(ctx, rel, exe, case):
    """Run one search case on the compiled code; returns (transcript line, {kind: text}) as judged by the driver."""
    src, tr = ctx.path("sone.in"), ctx.path("sone.txt")
    with open(src, "w") as fh:
        fh.write(_s_fmt(case) + "\n")
    rc, out = vlib.sh([os.path.join(rel, "searchrun"), "--from", src, "--out", tr])
    if rc != 0:
        return "", {"DRIVER": "searchrun failed rc=%d %s" % (rc, out[-300:])}
    mism, _ = vlib.run_driver(ctx, exe, "search", tr)
    res = {}
    for kind, text in mism:
        res.setdefault(kind, text)
    return open(tr).read().strip(), res


def s_shrink(ctx, rel, exe, kind, case, budget=400):
    """Greedy shrinking of a failing search case: no stop, fewer trees, shorter walk, start 0, smaller N, rating
    table entries replaced by Invalid.  Returns (case, line, text) of the smallest case still failing with `kind`."""
    tests = [0]

    def fails(c):
        if tests[0] >= budget or not c["entries"] or c["offset"] > c["len"]:
            return None
        tests[0] += 1
        line, res = _s_run_one(ctx, rel, exe, c)
        return (line, res[kind]) if kind in res else None

    best = fails(case)
    if best is None:
        return None
    changed = True
    while changed:
        changed = False

        def attempt(**kw):
            nonlocal case, best, changed
            cand = dict(case, **kw)
            if cand == case:
                return False
            r = fails(cand)
            if r:
                case, best, changed = cand, r, True
                return True
            return False

        attempt(stop="-")
        # fewer trees (the walk is kept as long as the new array allows)
        j = 0
        while j < len(case["entries"]) and len(case["entries"]) > 1:
            ent = case["entries"][:j] + case["entries"][j + 1:]
            start = case["start"] - 1 if case["start"] > j else case["start"]
            if not (attempt(entries=ent, start=max(0, min(start, len(ent) - 1)), len=min(case["len"], len(ent) + 2))
                    or attempt(entries=ent, start=0, len=min(case["len"], len(ent)))):
                j += 1
        # shorter walk
        while case["len"] > 0 and attempt(len=case["len"] - 1):
            pass
        while case["offset"] > 0 and attempt(offset=case["offset"] - 1):
            pass
        while case["offset"] < case["len"] and attempt(offset=case["offset"] + 1):
            pass
        attempt(start=0)
        for n in range(1, case["cap"]):
            if attempt(cap=n):
                break
        # a simpler rating table: unused rows dropped, entries -> Invalid
        used = max(int(e.split(":")[2]) for e in case["entries"])
        if len(case["table"]) > used + 1:
            attempt(table=case["table"][:used + 1])
        for ri in range(len(case["table"])):
            for ci in range(5):
                if case["table"][ri][ci] != "258":
                    tab = [list(r) for r in case["table"]]
                    tab[ri][ci] = "258"
                    attempt(table=tab)
    return case, best[0], best[1]


S_FORMAT = ["# line format: S <N> <TREE_FRAMES> <start> <offset> <len> <stop> <entries free:reserved:class,...> "
            "<rating table: one row per class, `/` separated; 5 ranks per row for free = 0 | < TF/2 | < TF | = TF | > TF; "
            "rank 0..255 = Match(rank), 256 = Demote, 257 = Steal, 258 = Invalid> <tree indices `access` was called with> <result>",
            "# re-run against the current code: ./check C16 --replay <this file>"]


def _search_suite(ctx, rel, exe, name, desc, args, oracle, corr, transcript=None):
    tr = transcript or ctx.path("search-" + name + ".txt")
    if transcript is None:
        rc, out = vlib.sh([os.path.join(rel, "searchrun"), "--seed", str(ctx.seed), "--out", tr] + args)
        if rc != 0:
            corr.append(("searchrun %s failed rc=%d" % (name, rc), [out[-500:]]))
            return
    mism, s = vlib.run_driver(ctx, exe, "search", tr)
    ctx.suites.append({
        "suite": "searchrun/%s: %s" % (name, desc),
        "evaluations": s.get("evaluations", 0),
        "distinct": s.get("distinct", 0),
        "overflowed_capacity_N": s.get("overflow", 0),
        "with_perfect_matches": s.get("perfect", 0),
        "with_equally_rated_candidates": s.get("ties", 0),
        "entirely_free_candidate_rated_below_a_partial_one": s.get("conflict", 0),
        "with_a_stop": s.get("stops", 0),
        "stop_reached": s.get("fired", 0),
        "walk_longer_than_the_array": s.get("revisit", 0),
        "no_access_at_all": s.get("empty", 0),
        "distinct_access_sequences": s.get("sequences", 0),
        "panics": s.get("panics", 0),
        "max_trees": s.get("maxtrees", 0),
        "capacities_N": {k[3:]: v for k, v in s.items() if re.fullmatch(r"cap\d+", k)},
        "tree_counts": {k[5:].replace("_", "-"): v for k, v in s.items() if re.fullmatch(r"trees\d+_\d+", k)},
        "mismatches": {"corr": s.get("corr", 0), "oracle": s.get("oracle", 0)},
    })
    with open(tr) as fh:
        step = max(1, s.get("evaluations", 1) // 3)
        for i, ln in enumerate(fh):
            if i % step == step // 2 and len(ctx.samples) < 8:
                ctx.samples.append(ln.strip()[:300])
    # shrink the smallest reported mismatch of each kind (per violated clause for the oracle)
    groups = {}
    for kind, text in mism:
        if kind not in ("ORACLE", "CORR"):
            corr.append((text, []))
            continue
        why = re.search(r"violates=([A-Za-z()-]+)", text)
        key = (kind, why.group(1) if why else "")
        c = _s_parse(text)
        if c and (key not in groups or len(c["entries"]) < len(groups[key][1]["entries"])):
            groups[key] = (text, c)
    seen = ctx.__dict__.setdefault("c16_seen", set())
    for (kind, _), (text, case) in sorted(groups.items()):
        sh = s_shrink(ctx, rel, exe, kind, case)
        if sh is None:
            entry = (text + " (not reproducible in isolation)", ["# original transcript line not reproducible"])
        else:
            c, line, t = sh
            if (kind, line) in seen:
                continue
            seen.add((kind, line))
            total = s.get("oracle" if kind == "ORACLE" else "corr", 0)
            entry = (t + " [minimal failing search: N=%d, %d tree(s), start %d, walk positions %d..%d; %d %s mismatches in suite %s]"
                     % (c["cap"], len(c["entries"]), c["start"], c["offset"], c["len"], total, kind, name),
                     ["# minimal failing Trees::search_best::<%d, _> case (%d tree(s))" % (c["cap"], len(c["entries"]))]
                     + S_FORMAT + [line])
        (oracle if kind == "ORACLE" else corr).append(entry)
    if not mism and transcript is None and os.path.getsize(tr) > (64 << 20):
        os.remove(tr)   # large transcripts are kept only when something has to be looked at


def run(ctx):
    proofs_ok = vlib.coq_prove(ctx, os.path.join(vlib.COQ, "Properties", "C16.v"), THEOREMS)
    oracle, corr = [], []
    exe = vlib.build_driver(ctx, "sorted")
    sexe = vlib.build_driver(ctx, "search") if exe else None
    rel = vlib.build_harness(ctx, ["bufrun", "searchrun"]) if sexe else None
    if rel is None:
        corr.append(("build failed", ctx.notes[-1:]))
    elif ctx.replay:
        # the recorded results are ignored: the inputs are run again on the current code
        # (`B` lines: candidate buffer, `S` lines: search_best)
        kinds = {ln.split(" ", 1)[0] for ln in open(ctx.replay) if ln.strip()}
        if "B" in kinds or "S" not in kinds:
            tr = ctx.path("replay.txt")
            rc, out = vlib.sh([os.path.join(rel, "bufrun"), "--from", ctx.replay, "--out", tr])
            if rc != 0:
                corr.append(("bufrun --from failed rc=%d" % rc, [out[-500:]]))
            else:
                _suite(ctx, rel, exe, "replay", "inputs of %s re-run on the current code" % ctx.replay, [], oracle, corr, transcript=tr)
        if "S" in kinds:
            tr = ctx.path("search-replay.txt")
            rc, out = vlib.sh([os.path.join(rel, "searchrun"), "--from", ctx.replay, "--out", tr])
            if rc != 0:
                corr.append(("searchrun --from failed rc=%d" % rc, [out[-500:]]))
            else:
                _search_suite(ctx, rel, sexe, "replay", "inputs of %s re-run on the current code" % ctx.replay, [], oracle, corr,
                              transcript=tr)
    else:
        if ctx.quick:
            exh = [("exhaustive", 6, 4)]
            nrand = 20000
            # (name, first tree count, 10-entry set up to, 5-entry set up to, rating tables)
            sexh = [("exhaustive", 1, 2, 4, 4)]
            snrand = 100000
        else:
            exh = [("exhaustive", 8, 4), ("exhaustive-wide", 6, 6)]
            nrand = 1000000
            sexh = [("exhaustive-1-3", 1, 3, 3, 8), ("exhaustive-4", 4, 4, 4, 3), ("exhaustive-5", 5, 4, 5, 6)]
            snrand = 5000000
        for name, maxlen, dom in exh:
            _suite(ctx, rel, exe, name,
                   "all insertion sequences of length 0..%d over keys {0..%d}, capacities 1..8" % (maxlen, dom - 1),
                   ["--maxlen", str(maxlen), "--domain", str(dom), "--maxcap", "8"], oracle, corr)
        _suite(ctx, rel, exe, "random",
               "%d seeded random sequences of length 0..64 (key pools of 1..64 keys: tiny, rating-like, 62-bit; "
               "sorted/reversed/nearly sorted/shuffled), capacities 1..8" % nrand,
               ["--random", str(nrand)], oracle, corr)
        for name, lo, full, small, tables in sexh:
            _search_suite(ctx, rel, sexe, name,
                          "Trees::search_best::<N, _>, N in {1,3,8}: every array of %d..%d trees (up to %d trees: free in "
                          "{0, 1, TREE_FRAMES/2, TREE_FRAMES} x class in {0,1} + 2 reserved entries; above: 5 of these), "
                          "%d rating tables (4 fixed + seeded), every start < ntrees, every offset <= len <= ntrees+2; "
                          "every 4th case again with `access` answering Ok / Err(Argument) at call 1..3"
                          % (lo, max(full, small), full, tables),
                          ["--exh-min", str(lo), "--exh-full", str(full), "--exh-small", str(small), "--tables", str(tables)],
                          oracle, corr)
        _search_suite(ctx, rel, sexe, "random",
                      "%d seeded random searches: 1..40 trees, random entries (free 0..TREE_FRAMES and beyond, reserved, "
                      "class 0..7), random rating tables (Match(0..255), Demote, Steal, Invalid; small pools for ties), "
                      "N 1..8 (mostly 1, 3, 8), start anywhere / aligned down as search_and_reserve does / beyond the array, "
                      "offset 0..1, len = near, ntrees, ntrees+0..2, ...; 1/4 with an early Ok / Err(Argument)" % snrand,
                      ["--random", str(snrand)], oracle, corr)
    vlib.classify(ctx, proofs_ok, oracle, corr, name="bufrun/searchrun")
    return vlib.finish(
        ctx,
        "Theorems for every capacity, every total preorder on keys and every insertion sequence: the modelled "
        "candidate buffer keeps min(cap, n) elements, sorted, a sub-multiset of the insertions, every dropped "
        "element rated no better than every kept one, and is read best first. The model is tied to the compiled "
        "SortedBuffer<N, OrdBy<u64, u64>> (N = 1..8) by running both on the same insertion sequences; the "
        "compiled buffer's output is also checked against a sort-based oracle that does not use the model. "
        "Theorems about the modelled search_best (access order = perfect matches in walk order, then the retained "
        "candidates best first by (rating, entirely free); no tree visited twice) are tied to the compiled "
        "Trees::search_best::<N, _> by running it (through LLFree's public `trees` field, on tree entries written "
        "directly into the tree buffer and table-driven rating functions) and the extracted search_order on the same "
        "inputs; the observed access order is also checked against an oracle computed from the transcript alone.",
        "sequences: exhaustive over a small key domain (shortest first) + seeded random long ones, value = insertion "
        "index so that equal keys stay distinguishable; non-trivial = the sequence overflows the capacity or is "
        "not strictly ascending (some insertion is not an append); distinct = distinct non-trivial "
        "(capacity, sequence) pairs. searches: bounded-exhaustive small arrays + seeded random ones; non-trivial = the "
        "walk meets at least two trees that are perfect matches or candidates (so that the order matters); distinct = "
        "distinct non-trivial (N, start, offset, len, stop, entries, rating table) inputs")
