"""C15 - offline trees are never allocated from; online restores them exactly."""
import json, os
import seqprop
from props import _seqplans
import schedupper

THEOREMS = {"C15.v": json.load(open(os.path.join(os.path.dirname(__file__), "_theorems.json")))["C15"],
            # concurrent half: the whole allocator under every interleaving (machine M2)
            "Conc.v": ['Conc_offline_never_allocated', 'Conc_upper_safe_with_changes']}


def run(ctx):
    quick, thorough = _seqplans.plans(extra_suites=[('offline', 48, 800, 'offline/online/class changes by id and by class/free match interleaved with gets of every order, targeted gets into offline trees, drains, exhaustion')])
    return seqprop.run(
        ctx, THEOREMS, corr=('result', 'trees', 'locals'), oracle=('C15',),
        quick_plan=quick, thorough_plan=thorough, corpus_tags=('D4', 'D5'),
        extra=schedupper.run_c15_conc,   # tree changes racing with allocations (machine M2 schedules)
        text="Coq theorems with the ghost off_t (frames hidden by offline): change_tree(Offline) by id on an unreserved matching tree succeeds, zeroes the counter and hides exactly its frames; while a tree's free frames are entirely hidden no get of any kind returns a frame of it (every lower get on a tree is preceded by a successful decrement of its counter or of a slot holding it), along every history without change_tree and without frees into that tree; the fast count excludes hidden frames; Online restores counter = lower free frames, off = 0 and the requested class; change_tree never touches reserved or non-matching trees and an Err leaves everything unchanged. Tied to the code by the tree-change suite compared with the model and with the harness's own tracking of offline trees.",
        rule=_seqplans.RULE)
