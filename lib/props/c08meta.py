"""C08, metadata half (called from c08.py): `MetaData::valid` and the zone wrapper's offset check.
Theorems: coq/Properties/C08meta.v (to be merged into C08.v); THEOREMS lists their names."""
import vlib
from props import _meta_common as mc

THEOREMS = ["C08_valid_accepts_only_good", "C08_valid_rejects_short", "C08_valid_rejects_misaligned",
            "C08_valid_rejects_intersecting", "C08_overlap_exact", "C08_valid_decision",
            "C08_zone_get_below", "C08_zone_put_below"]

RULE = ("metadata buffers: 8 configurations (1 frame .. 17 trees + 5, 1-3 classes, empty local / trees / lower buffers) x "
        "(exact, larger, adjacent in 3 orders, each buffer one byte short, each buffer offset by 1..63, each pair "
        "overlapping by 1 byte / one line / nested / identical / same start / same end, empty buffers at 5 positions, "
        "40*scale random layouts); zone: calls with frames below the offset (offset-1, 0, offset-2^order, random). "
        "non-trivial = a rejected construction / a call below the offset")


def run_c08_meta(ctx):
    """Returns (oracle_fail, corr_fail, suite_summaries); also appends the suites to ctx.suites."""
    oracle, corr, summaries = [], [], []
    exe, rel = mc.build(ctx, corr)
    if rel is not None:
        if ctx.replay:
            # only replays written by this half carry RUN lines
            if any(ln.startswith("RUN ") for ln in open(ctx.replay)):
                mc.replay(ctx, rel, exe, oracle, corr)
        else:
            for suite in ("valid", "zone"):
                summaries.append(mc.run_suite(ctx, rel, exe, suite, oracle, corr, label="-c08"))
    return oracle, corr, summaries
