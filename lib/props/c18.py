"""C18 - no out-of-bounds access in metadata handling.  PARTIAL: bounds and alignment of every metadata
access only; Rust-level undefined behaviour that is not an address range is out of reach of this technique."""
import os
import vlib
import schedcommon as sc
import schedprop
import schedupper
from props import _meta_common as mc

THEOREMS = ["C18_row_in_bounds", "C18_entry_in_bounds", "C18_tree_in_bounds", "C18_slot_in_bounds", "C18_slot_defined",
            "C18_narrow_in_row", "C18_frame_words_exist", "C18_lower_parts", "C18_empty_buffers", "C18_empty_local",
            "C18_lower_size_mono", "C18_bitfield_stride",
            # every access of every reachable state of the machines M1 / M2 (coq/AccessBounds.v)
            "C18_reachable_m1_access_in_bounds", "C18_reachable_m2_access_in_bounds", "C18_row_index_check"]

SEQ_DESC = ("random sequential histories over exact-size guarded or packed metadata buffers: guard bytes after every call, "
            "metadata-size computation, atomic-read discipline of stats()/tree_stats() (hooked loads counted per query)")

NOT_COVERED = [
    "aliasing: `AtomicSlice::non_atomic` casts a shared slice to `&mut [T]` (atomic.rs) while other references exist",
    "data-race freedom in general: only a proxy is checked - the query functions stats() / tree_stats() must read every huge "
    "entry / tree entry / slot through hooked atomic loads and perform no atomic write (ORACLE [C18] on ACC lines); the "
    "non-atomic table fill in Lower::free_all / reserve_all and `*e = Atom::new(..)` in Trees::new run before the allocator "
    "is shared and are not reported by the hooks (only the guard bytes around the buffers would notice a stray write)",
    "pointer provenance of the `from_raw_parts(_mut)` slices (Lower::new x2, Trees::new, OffsetSlice, metadata() x3, NvmAlloc lower slice) "
    "and of the narrow-atomic punning in Bitfield::toggle_int",
    "`b.end.sub(1)` in MetaData::valid's `overlap` on an empty buffer (pointer arithmetic outside the allocation); the model only "
    "says what the comparison answers when the decrement wraps like an integer",
    "`alloc_zeroed` with a size of 0 in util::aligned_buf (zero frames / zero slots)",
    "anything only a sanitizer or Miri can observe",
]


def conc_jobs_lower(ctx, rel):
    if ctx.quick:
        return [["--mode", "exhaustive", "--scenario", "all", "--preemptions", "2"]]
    return [["--mode", "exhaustive", "--scenario", "all", "--preemptions", "3"],
            ["--mode", "pct", "--scenario", "all", "--runs", "5000", "--depth", "4", "--seed", str(ctx.seed)]]


def conc_jobs_upper(ctx, rel):
    if ctx.quick:
        return [["--api", "upper", "--mode", "exhaustive", "--scenario", "all", "--preemptions", "2"]]
    return [["--api", "upper", "--mode", "exhaustive", "--scenario", "all", "--preemptions", "3"],
            ["--api", "upper", "--mode", "pct", "--scenario", "all", "--runs", "5000", "--depth", "4", "--seed", str(ctx.seed)]]


def run(ctx):
    proofs_ok = vlib.coq_prove(ctx, os.path.join(vlib.COQ, "Properties", "C18.v"), THEOREMS)
    oracle, corr = [], []
    exe, rel = mc.build(ctx, corr)
    if rel is not None:
        if ctx.replay:
            mc.replay(ctx, rel, exe, oracle, corr)
        else:
            seeds = [ctx.seed] if ctx.quick else [ctx.seed + i for i in range(3)]
            for i, sd in enumerate(seeds):
                mc.run_suite(ctx, rel, exe, "meta", oracle, corr, seed=sd, label="-%d" % i)
    if not ctx.replay:
        # concurrent schedules: every access of the compiled code, on every explored interleaving of the lower allocator
        # (machine M1) and of the whole allocator (machine M2), has in-range indices and an aligned lane (ORACLE [C18]);
        # the step correspondence (CORR) ties the accessed address to the machine's event, for which
        # C18_reachable_m1/m2_access_in_bounds prove the byte range
        for jobs, desc, drv in ((conc_jobs_lower, "accesses of compiled Lower::get/put under a deterministic scheduler: index / lane "
                                 "bounds (ORACLE [C18]) and step correspondence with machine M1 (CORR)", sc.DRIVER),
                                (conc_jobs_upper, "accesses of compiled LLFree::get/put/drain/change_tree under a deterministic scheduler: "
                                 "index / lane bounds of tree entries, slots, huge entries and rows (ORACLE [C18]) and step "
                                 "correspondence with machine M2 (CORR)", sc.UPPER_DRIVER)):
            o, c = schedprop.collect(ctx, "[C18]", jobs, desc, drv)
            oracle += o
            corr += c
        # sequential histories with exact-size guarded / packed metadata buffers: guard bytes after every call (CANARY), the
        # metadata-size computation (LAYOUT) and the atomic-read discipline of the query functions (ACC: stats() /
        # tree_stats() read every entry / slot through hooked atomic loads and never write) - ORACLE [C18] of driver/seq.ml
        import seqextra
        o, c = seqextra.seq_suites([dict(suite="random", histories=48, ops=120, desc=SEQ_DESC), dict(suite="random", histories=1500, ops=150, desc=SEQ_DESC)],
                                   corr=("result",), oracle=("C18",))(ctx)
        oracle += o
        corr += c
    vlib.classify(ctx, proofs_ok, oracle, corr, name="zonerun")
    return vlib.finish(
        ctx,
        "PARTIAL (bounds and alignment of every metadata access only).  Theorems for every well-formed geometry "
        "(6 <= HUGE_ORDER <= 15, TREE_ORDER <= 18), every frame count including 0 and every classing: each word the "
        "allocator addresses (bitfield row, huge entry, tree entry, local slot, the 1/2/4/8-byte CAS of toggle_int) "
        "lies inside the buffer of the size metadata_size asks for, inside its own part of that buffer, and is "
        "aligned to its width; the indices a managed frame maps to exist; the two slices of Lower::new tile the lower "
        "buffer; empty buffers have no location; lower_size is monotone.  For the small-step machines M1 (lower allocator) "
        "and M2 (whole allocator): in EVERY reachable state (any number of threads, any schedule) every access the step "
        "function performs names a word with in-range indices and an aligned lane, hence bytes inside lower_size / trees_size / "
        "local_size (C18_reachable_m1/m2_access_in_bounds, coq/AccessBounds.v); on the explored interleavings the drivers check "
        "the same index predicate on every access of the compiled code (ORACLE [C18]).  Tied to the code by comparing "
        "metadata_size and the address and width of every atomic access (verif hooks) of construction and probe "
        "operations on exact-size, guard-fenced buffers with the model's locations.  NOT covered, and not "
        "expressible in an executable Gallina model: " + "; ".join(NOT_COVERED),
        "frame counts 0,1,2,63..65, HF/2HF/TF/2TF/3TF/8TF/16TF/17TF +-1, 6*scale random counts up to 8 trees (probed), "
        "2^30, 2^30+1, 2^40-1, usize::MAX/2/FRAME_SIZE (sizes only) x 10 classings; probe = all four Init modes + "
        "every slot, every frame (order 0), every order untargeted and targeted at first/middle/last block, stats, "
        "drain, invalid arguments; non-trivial = a distinct (configuration, buffer, offset, width) access or size "
        "line; the summary reports how many of the model's words were touched (words_touched / model_words)",
        extra_cov={"partial": True, "partial_scope": "bounds and alignment of every metadata access only",
                   "not_covered": NOT_COVERED},
        assumptions=vlib.TRUSTED_BASE + [
            "PARTIAL: address ranges and alignment only; see coverage.not_covered",
            "only accesses through the Atom wrapper are observed (verif hooks); non-atomic initialisation writes are "
            "covered by the model's locations and the guard bytes only",
            "the legality of an access under the Rust memory model is not covered (only its address range and alignment)",
        ])
