"""C06 - free-all and allocate-all initialisation are correct for every frame count."""
import seqprop

THEOREMS = ["C06_free_all", "C06_reserve_all", "C06_free_everything", "C06_free_exactly_when_allocated",
            "C06_nothing_beyond_range", "C06_counts_match_state"]


def run(ctx):
    desc = ("for each frame count: FreeAll -> dump, allocate every frame at order 0 until out of memory (exactly `frames` "
            "distinct successes, all below `frames`), free all; AllocAll -> dump, free every whole huge frame at huge order and "
            "every other frame at order 0 (each succeeds once, a second time fails), drain, dump; buffers compared word for "
            "word with the model after every call")
    quick = [dict(suite="init", histories=16, extra_args=["--from", 1, "--to", 4400, "--step", 389], desc=desc)]
    thorough = [dict(suite="init", features=f, histories=16,
                     extra_args=["--from", 1, "--to", 6200 if not f else 4200, "--step", 97 if not f else 211], desc=desc)
                for f in seqprop.GEOMETRIES]
    return seqprop.run(
        ctx, THEOREMS, corr=("result", "ents", "rows", "trees", "stats"), oracle=("C06", "C02", "C04", "C09"),
        quick_plan=quick, thorough_plan=thorough, corpus_tags=("D1", "D2"),
        text="Coq theorems for every geometry and EVERY frame count (0, partial last trees/huge frames included): free-all gives "
             "consistent metadata with nothing allocated and statistics (fr, fr/HF, fr/TF); allocate-all gives everything "
             "allocated with exactly the huge frames below fr/HF whole; freeing each whole huge frame once at huge order and every "
             "other frame once at base order succeeds and ends in exactly the free-all metadata; no frame at or beyond the managed "
             "count is ever reported free. The model's initial buffers and every step of the exhaustive allocate/free sequences "
             "are compared with the real allocator for a sweep of frame counts, dense (+-3) around every multiple of 64, the huge "
             "frame size and the tree size.",
        rule="frame counts: stride sweep plus +-3 around every multiple of 64 / HUGE_FRAMES / TREE_FRAMES and 0; evaluations = calls "
             "and queries replayed; distinct = distinct buffer dumps")
