"""C08 - invalid arguments are rejected with an error and no side effects."""
import seqprop
from props import c08meta

THEOREMS = {"C08.v": ["C08_put_rejected", "C08_get_at_rejected", "C08_get_rejected", "C08_check_exact", "C08_class_ge8"],
            "C08meta.v": c08meta.THEOREMS}


def _meta(ctx):
    o, c, _s = c08meta.run_c08_meta(ctx)
    return o, c


def run(ctx):
    desc = ("calls with invalid arguments on 1-3 tree allocators: all orders up to tree order + 3, frames at and around every "
            "boundary (last frame, range end, misaligned by 1..2^k-1, 2^64-1, 2^64-2^k), classes 0..255 against 1-3 configured "
            "classes; all three buffers compared before and after each call")
    quick = [dict(suite="args", histories=48, ops=200, desc=desc)]
    thorough = [dict(suite="args", features=f, histories=400 if not f else 120, ops=300, desc=desc) for f in seqprop.GEOMETRIES]
    return seqprop.run(
        ctx, THEOREMS, corr=("result", "ents", "rows", "trees", "locals"), oracle=("C08",),
        quick_plan=quick, thorough_plan=thorough, corpus_tags=("D14", "D15"), extra=_meta,
        text="Coq theorems for every state, every 64-bit frame number, every order and class: an allocation or free whose order "
             "exceeds the tree order, whose block extends past the managed range (checked addition: values near 2^64 included), "
             "whose frame is misaligned or whose class is not configured (ids 8..255 never are) returns Err(Argument) with the "
             "state unchanged, and the argument check rejects exactly these; the zone wrapper rejects frames below its offset "
             "without touching the inner allocator; MetaData::valid accepts exactly buffers that are large enough, 64-byte "
             "aligned and pairwise non-intersecting (decision rule for the four-endpoint overlap test). Tied to the code by the "
             "argument suite (results and all buffers before/after) and by constructing the real allocator over carved-up arenas.",
        rule="argument sweep + buffer layouts; evaluations = calls/constructions replayed; distinct = distinct dumps (args) / "
             "rejected constructions and below-offset calls (meta)")
