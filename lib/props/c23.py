"""C23 - row bit search returns the lowest aligned free block and sets exactly it."""
import os
import vlib

THEOREMS = ["C23_row_search", "C23_row_search_none", "C23_row_search_some"]


def run(ctx):
    proofs_ok = vlib.coq_prove(ctx, os.path.join(vlib.COQ, "Properties", "C23.v"), THEOREMS)
    oracle, corr = [], []
    exe = vlib.build_driver(ctx, "row")
    rel = vlib.build_harness(ctx, ["rowrun"]) if exe else None
    if rel is None:
        corr.append(("build failed", ctx.notes[-1:]))
    else:
        n = 30000 if ctx.quick else 3000000
        tr = ctx.path("rows.txt")
        if ctx.replay:
            tr = ctx.replay
        else:
            rc, out = vlib.sh([os.path.join(rel, "rowrun"), "--seed", str(ctx.seed), "--random", str(n), "--out", tr])
            if rc != 0:
                corr.append(("rowrun failed rc=%d" % rc, [out[-500:]]))
        mism, summ = vlib.run_driver(ctx, exe, "row", tr)
        ctx.suites.append({"suite": "rowrun: compiled first_zeros_aligned vs extracted fza (correspondence) and row_spec (oracle)",
                           "evaluations": summ.get("evaluations", 0), "distinct": summ.get("found", 0),
                           "distinct_inputs": summ.get("distinct", 0), "orders": "0..6"})
        for kind, text in mism:
            # replay line format = transcript line, so the replay can be fed back with --replay
            (oracle if kind == "ORACLE" else corr).append((text, ["# re-run: ./check C23 --replay <this file> (transcript lines follow)"]))
        with open(tr) as fh:
            for i, ln in enumerate(fh):
                if i % 40000 == 7:
                    ctx.samples.append(ln.strip())
    vlib.classify(ctx, proofs_ok, oracle, corr, name="rowrun")
    return vlib.finish(
        ctx,
        "Theorem for all 2^64 rows and orders 0..6: the modelled bit trick equals the specification search; "
        "the model is tied to the compiled function by running both on the same rows.",
        "rows: structured (single free/allocated aligned block per order and position, off-by-one shifted blocks, "
        "lane-boundary/borrow patterns) + seeded random rows of varying density, each at orders 0..6; "
        "non-trivial = the search found a block (result Some); distinct = distinct (row, order) pairs")
