"""C21 - every call finishes in bounded steps once it runs without interference."""
import schedprop
import schedcommon as sc
import schedupper

THEOREMS = {"C21.v": ["C21_solo_terminates", "C21_thread_ok_invariant", "C21_reachable_solo_terminates",
                      "C21_retry_loops_bounded", "C21_wait_only_PP3", "C21_known_wait"],
            # the whole allocator (machine M2 = UpperMachine.v, embedding M1)
            "C21u.v": ["C21u_solo_terminates", "C21u_thread_ok_invariant", "C21u_reachable_solo_terminates",
                       "C21u_retry_bounded", "C21u_wait_only_PP3", "C21u_known_wait"]}
# Progress.v: bound g = thuge*(5*rows+7) + 4*rows + 15 ; default geometry (thuge 4, rows 8) = 235.  The harness
# budget is the bound of the largest geometry used (thuge 8, rows 8 -> 423); the driver checks each SOLO run
# against the bound of its own geometry.
BUDGET = "423"


def jobs(ctx, rel):
    if ctx.quick:
        return [["--mode", "freeze", "--scenario", "all", "--runs", "2", "--seed", str(ctx.seed), "--budget", BUDGET]]
    return [["--mode", "freeze", "--scenario", "all", "--runs", "40", "--seed", str(ctx.seed), "--budget", BUDGET]]


def run(ctx):
    return schedprop.run(
        ctx, THEOREMS, "[C21]", jobs,
        "Coq theorems on machine M1 (lower allocator, one transition per atomic access): from every state reachable under "
        "any schedule (the pc well-formedness `thread_ok` is proved to be an invariant), a thread that runs alone settles "
        "(returns or panics) within bound g = TREE_HUGE*(5*ROWS+7)+4*ROWS+15 steps, independent of frame count and memory "
        "contents; every CAS-retry loop is left after at most two solo steps; the only step that can end in the wait panic is "
        "the bounded spin of partial_put_huge (known finding, witness C21_known_wait). Tied to the code by freezing all other "
        "real threads at every point of explored schedules and running each in-flight call alone under the step budget, every "
        "step replayed on the extracted machine. The same is proved for the whole allocator on machine M2 (UpperMachine.v, which "
        "embeds M1): from every reachable state a call of LLFree::get/put/drain/change_tree running alone settles within "
        "ubound g u steps (a function of the geometry, the number of trees and the number of local slots, not of memory contents), "
        "every CAS-retry site on tree entries and local slots is left after at most two solo steps, and the wait panic can only "
        "come from the embedded lower spin.",
        "freeze mode: after every prefix of base schedules (round-robin and PCT) of every built-in scenario, every in-flight "
        "call is run alone to completion; evaluations = steps replayed; distinct = distinct schedules; non-trivial = freeze "
        "point in the middle of another thread's call",
        "compiled Lower::get/put: all other threads frozen, the in-flight call runs alone under a step budget; steps replayed "
        "on machine M1 (CORR), solo bound and no-wait oracle (ORACLE [C21])",
        more=[(schedupper.upper_freeze_jobs, "whole allocator (LLFree::get/put/drain/change_tree), freeze mode: every in-flight "
               "call runs alone under a step budget; steps replayed on machine M2 (CORR), termination oracle (ORACLE [C21])",
               sc.UPPER_DRIVER)])
