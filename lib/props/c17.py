"""C17 - zone and persistent wrappers translate frames and protect their metadata."""
import os
import vlib
from props import _meta_common as mc

THEOREMS = ["C17_zone_get", "C17_zone_get_range", "C17_zone_put", "C17_zone_stats_at", "C17_zone_roundtrip",
            "C17_nvm_layout", "C17_nvm_create", "C17_nvm_recover_refuses", "C17_nvm_lower_buffer",
            "C17_nvm_returned_frames"]


def run(ctx):
    proofs_ok = vlib.coq_prove(ctx, os.path.join(vlib.COQ, "Properties", "C17.v"), THEOREMS)
    oracle, corr = [], []
    exe, rel = mc.build(ctx, corr)
    if rel is not None:
        if ctx.replay:
            mc.replay(ctx, rel, exe, oracle, corr)
        else:
            seeds = [ctx.seed] if ctx.quick else [ctx.seed + i for i in range(4)]
            for i, sd in enumerate(seeds):
                mc.run_suite(ctx, rel, exe, "zone", oracle, corr, seed=sd, label="-%d" % i)
                mc.run_suite(ctx, rel, exe, "nvm", oracle, corr, seed=sd, label="-%d" % i)
    vlib.classify(ctx, proofs_ok, oracle, corr, name="zonerun")
    return vlib.finish(
        ctx,
        "Theorems (any inner allocator, any state type; the only fact used about it is C01's in-range property, a "
        "hypothesis): ZoneAlloc::get/put/stats_at = the inner call conjugated by the offset (argument - offset, "
        "checked; result + offset), below the offset Err(Argument) / default statistics with the inner state "
        "untouched; NvmAlloc::create over z frames of fs bytes never panics (the subtraction cannot underflow under "
        "the size guard), managed + metadata pages + header page = z, the in-zone lower buffer (sized for z frames) "
        "is large enough for the managed count, 64-aligned, starts where the managed frames end and ends before the "
        "header page, so every block returned through the wrapper has its bytes inside the frame area; recover is "
        "refused unless the header holds the magic and z - 1.  'Recovers with the same allocation state' is C05's "
        "theorem about Lower::recover; here it is checked on the implementation only (free/huge counts before the "
        "drop = after recover, held blocks can be freed, everything free afterwards).  The model is tied to "
        "wrapper.rs by running both on the same zones.",
        "zones: ZoneAlloc at 10 offsets x 7 lengths (1 frame .. 3 trees, odd remainders), 150*scale random operations "
        "each incl. targeted gets, frees of unallocated blocks and calls below the offset; NvmAlloc zones of "
        "0,1,2,3,4,17,511..514,1025,2047,2048 and t*2048+k (t=1..3, k in 1,2,3,5,17,511..514,1024,1537,1538) and "
        "(t+1)*2048 frames at three 8 MiB-aligned bases, 200*scale random get/put each (orders 0..tree order); "
        "non-trivial = a frame was returned / a call was refused below the offset / a create-recover decision; "
        "distinct = distinct (zone, operation, results) resp. (zone length, inner frame, order)",
        assumptions=vlib.TRUSTED_BASE + [
            "hypothesis of C17_zone_get/_range/_roundtrip/_nvm_returned_frames: the inner allocator returns only frames "
            "inside its managed range (property C01)",
            "frame numbers fit: offset + frames <= 2^64 (ZoneAlloc::create does not check this; with a larger offset "
            "`frame + offset` overflows: panic with overflow checks, wrapped frame number without)",
            "the model's header check reads the two header words the harness reads before the call (no concurrent writer)",
        ])
