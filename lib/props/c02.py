"""C02 - sequential calls follow the frame-ownership model exactly."""
import json, os
import seqprop
from props import _seqplans

THEOREMS = json.load(open(os.path.join(os.path.dirname(__file__), "_theorems.json")))["C02"]


def run(ctx):
    quick, thorough = _seqplans.plans()
    return seqprop.run(
        ctx, THEOREMS, corr=("result", "ents", "rows"), oracle=("C02",),
        quick_plan=quick, thorough_plan=thorough, corpus_tags=("D",),
        text="Coq theorems (refinement to the ownership specification Spec.v: bitsets of allocated frames and whole huge frames), for "
             "every geometry, frame count, consistent state and history: a lower free succeeds exactly when the block is entirely "
             "allocated (whole huge frames for orders >= huge order) and then frees exactly those frames, splitting a whole huge "
             "frame on a partial free; a lower allocation returns an aligned, in-range, entirely free block (the requested one if "
             "targeted) which becomes allocated; failing calls leave the metadata unchanged; lifted through LLFree::get/put/drain/"
             "change_tree (every path of get is a chain of lower attempts that stops at the first success) and over whole "
             "histories from LLFree::new. Tied to the code by replaying bounded-exhaustive and random call sequences on the real "
             "allocator and the extracted model (results and the lower buffers after every call) and by feeding the "
             "implementation's own results to the extracted specification.",
        rule=_seqplans.RULE)
