"""C02 - sequential calls follow the frame-ownership model exactly.

Correspondence: the compiled allocator is run through bounded-exhaustive and seeded random call sequences
(harness seqrun); every call's result and the full content of the lower allocator's buffers after it are
compared with the extracted Coq model (CORR components result, ents, rows).
Oracle: independent of the allocator model, the implementation's own results are checked against the
extracted ownership specification (Spec.v): a free succeeds exactly when the block is entirely allocated
(whole huge frames for orders >= huge order), an allocation returns an aligned, in-range, entirely free block
(the requested one if targeted), and after every call the abstraction of the dumped buffers equals the
ownership state, so failing calls change nothing and successful ones change exactly the block."""
import os

import seqcommon
import vlib

# filled in by the lead once Properties/C02.v exists
THEOREMS = []

CORR = ("result", "ents", "rows")
ORACLE = ("C02",)
GEOMETRIES = [(), ("tree_huge_1",), ("tree_huge_2",), ("tree_huge_8",), ("16K",)]


def _suite(ctx, name, desc, oracle, corr, all_mism, **kw):
    mism, summ, _paths = seqcommon.run_suite(ctx, **kw)
    ctx.suites.append(seqcommon.suite_record(name, desc, summ))
    o, c = seqcommon.select(mism, corr=CORR, oracle=ORACLE)
    all_mism += o + c
    return summ


def run(ctx):
    prop = os.path.join(vlib.COQ, "Properties", "C02.v")
    proofs_ok = vlib.coq_prove(ctx, prop, THEOREMS) if THEOREMS and os.path.exists(prop) else not THEOREMS
    if not THEOREMS:
        ctx.notes.append("C02: theorem list not filled in yet (correspondence and oracle only)")
    oracle, corr, mism = [], [], []
    if ctx.replay:
        feats = ()
        with open(ctx.replay) as fh:
            for ln in fh:
                if ln.startswith("# geometry features:"):
                    f = ln.split(":", 1)[1].strip()
                    feats = () if f in ("", "default") else tuple(f.split(","))
        m, summ, _ = seqcommon.run_replay(ctx, ctx.replay, feats)
        ctx.suites.append(seqcommon.suite_record("replay", "calls of %s re-run on the current code" % ctx.replay, summ))
        o, c = seqcommon.select(m, corr=CORR, oracle=ORACLE)
        oracle += [(t, ["# " + k, "# re-run: ./check C02 --replay " + ctx.replay]) for k, t, _ in o]
        corr += [(k + " " + t, []) for k, t, _ in c]
    else:
        # regression inputs first: the minimal call sequences of earlier findings
        cm, cs = seqcommon.run_corpus(ctx)
        ctx.suites.append(seqcommon.suite_record("corpus", "replay files of corpus/seq (minimal sequences of earlier findings)", cs))
        co, cc = seqcommon.select(cm, corr=CORR, oracle=ORACLE)
        oracle += [(t, seqcommon.corpus_lines(p)) for _, t, p in co]
        corr += [(k + " " + t, seqcommon.corpus_lines(p)) for k, t, p in cc]
        if ctx.quick:
            plan = [((), 4, 2, 160, 150)]
        else:
            plan = [((), 5, 2, 5000, 150)] + [(g, 4, 2, 1200, 150) for g in GEOMETRIES[1:]]
        for feats, depth, configs, nhist, nops in plan:
            g = vlib.feat_dir(feats)
            _suite(ctx, "exhaustive/" + g,
                   "all call sequences of length %d over a 14-symbol abstract alphabet (get order 0/7/huge/tree via slot 0, "
                   "targeted get of a free / a held block, free via slot / without slot, free of a part, repeated free, drain, "
                   "offline/online tree 0, misaligned free) on %d small configurations" % (depth, configs),
                   oracle, corr, mism, suite="exhaustive", features=feats, extra_args=["--depth", depth, "--configs", configs])
            _suite(ctx, "random/" + g,
                   "%d seeded adaptive random histories x %d calls (+queries): all orders, targeted gets, frees of held / split / "
                   "merged / never allocated blocks, drains, tree changes, invalid arguments; 1-4 trees incl. partial last trees and "
                   "tiny ranges, free-all / alloc-all, simple/movable/zeroed/zero-slot/custom classings with 1-3 slots" % (nhist, nops),
                   oracle, corr, mism, suite="random", features=feats, histories=nhist, ops=nops)
        # one minimal replay per kind of mismatch
        for kind, (text, lines) in seqcommon.shrink_groups(ctx, mism).items():
            if kind.startswith("ORACLE"):
                oracle.append((text, lines))
            else:
                corr.append((kind + " " + text, lines))
        for kind, text, path in mism[:3]:
            ctx.samples.append("%s %s" % (kind, text[:200]))
    vlib.classify(ctx, proofs_ok, oracle, corr, name="seqrun")
    return vlib.finish(
        ctx,
        "The compiled allocator and the extracted sequential model are run on the same call sequences and agree on every "
        "result and on the complete content of the lower allocator's buffers after every call; independently of the model, "
        "every result and every buffer dump of the implementation is checked against the extracted ownership specification.",
        "histories: bounded-exhaustive over an abstract alphabet + seeded adaptive random; evaluations = calls and queries "
        "replayed through the model; distinct = distinct buffer dumps (all three metadata buffers) reached")
