"""C12 - search within one tree finds any aligned free block of the requested order."""
import seqprop

THEOREMS = ["C12_fails_only_if_none", "C12_finds_any", "C12_success_marks_block", "C12_never_panics"]


def run(ctx):
    desc = ("one tree driven by targeted allocations into structured random patterns (each aligned sub-block of a random "
            "granularity empty / full / single bit / random); then for every order 0..tree order and several row hints the lower "
            "search `Lower::get(row, order, None)` is called on a copy; result compared with the model and with a brute-force "
            "search of the dumped bitfields/entries")
    quick = [dict(suite="pattern", histories=48, ops=40, desc=desc)]
    thorough = [dict(suite="pattern", features=f, histories=600 if not f else 200, ops=60, desc=desc) for f in seqprop.GEOMETRIES]
    return seqprop.run(
        ctx, THEOREMS, corr=("result", "ents", "rows"), oracle=("C12", "C02"),
        quick_plan=quick, thorough_plan=thorough, corpus_tags=(),
        text="Coq theorems for every geometry, every frame count, every consistent lower-allocator state (any allocation "
             "pattern), every row hint and every order up to the tree order: the directed search fails only if the tree has no "
             "aligned entirely free block of that order (and finds one whenever one exists); a success lies in the tree, was "
             "entirely free and changes the allocation state by exactly that block; it never panics. Rests on the row theorem "
             "(C23) and lemmas for the wrapped row loop, the chunked multi-row search and the aligned multi-huge loop.",
        rule="patterns x orders x row hints; evaluations = calls replayed; distinct = distinct buffer dumps; non-trivial = "
             "searches on a partially allocated tree")
