"""C01 - allocated blocks never overlap, are aligned and in range, under any interleaving.

Concurrent part (lower allocator, machine M1 = coq/LowerMachine.v): real OS threads run the compiled
`Lower::get/put` under a deterministic scheduler (harness/src/bin/schedrun.rs, one scheduling point per
atomic access of `Atom`), every step is replayed on the extracted machine (driver/step.ml: CORR = the
implementation's step/result/memory differs from the machine's) and the blocks the implementation handed
out are checked to be aligned, in range and pairwise disjoint after every return (ORACLE [C01]; evaluated
on the implementation's results only).  Failing schedules are shrunk by delta debugging over the thread-id
list."""
import os

import schedcommon as sc
import vlib

# filled in by the lead once Properties/C01.v exists
THEOREMS = []
TAG = "[C01]"
GEOMETRIES = [("tree_huge_1",), ("tree_huge_2",), (), ("tree_huge_8",)]   # () = default TREE_HUGE = 4


def jobs(ctx, rel):
    if ctx.quick:
        return [["--mode", "exhaustive", "--scenario", "all", "--preemptions", "2"],
                ["--mode", "pct", "--scenario", "all", "--runs", "300", "--depth", "3", "--seed", str(ctx.seed)]]
    two = ",".join(n for n, t in sc.scenarios(rel) if t <= 2)
    return [["--mode", "exhaustive", "--scenario", "all", "--preemptions", "3"],
            ["--mode", "exhaustive", "--scenario", two, "--preemptions", "5"],
            ["--mode", "pct", "--scenario", "all", "--runs", "20000", "--depth", "4", "--seed", str(ctx.seed)]]


def run_replay(ctx, exe, oracle, corr):
    """./check C01 --replay <file>: re-run the REPLAY lines of a replay file"""
    for scenario, feats, sched in sc.parse_replay_file(ctx.replay):
        rel = vlib.build_harness(ctx, [sc.HARNESS_BIN], feats)
        if rel is None:
            corr.append(("build failed", ctx.notes[-1:]))
            continue
        fails, summ, tr = sc.replay(ctx, rel, exe, scenario, sched)
        ctx.suites.append({"suite": "replay %s %s" % (scenario, ",".join(map(str, sched))), "evaluations": summ.get("evaluations", 0),
                           "distinct": summ.get("distinct", 0)})
        for f in fails:
            f.features = feats
            item = (f.text, sc.replay_lines(f, None, feats))
            if f.kind == "ORACLE" and f.tag == TAG:
                oracle.append(item)
            elif f.kind != "ORACLE":
                corr.append(item)


def run(ctx):
    proofs_ok = True
    if THEOREMS:
        proofs_ok = vlib.coq_prove(ctx, os.path.join(vlib.COQ, "Properties", "C01.v"), THEOREMS)
    else:
        ctx.notes.append("no theorem list yet (Properties/C01.v is added by the lead)")
    oracle, corr = [], []
    exe = vlib.build_driver(ctx, sc.DRIVER)
    if exe is None:
        corr.append(("driver build failed", ctx.notes[-1:]))
    elif ctx.replay:
        run_replay(ctx, exe, oracle, corr)
    else:
        geoms = [()] if ctx.quick else GEOMETRIES
        for feats in geoms:
            rel = vlib.build_harness(ctx, [sc.HARNESS_BIN], feats)
            if rel is None:
                corr.append(("harness build failed (%s)" % (",".join(feats) or "default"), ctx.notes[-1:]))
                continue
            label = ",".join(feats) or "default"
            fails, summ, notes = sc.run_jobs(ctx, rel, exe, jobs(ctx, rel), feats, label=vlib.feat_dir(feats),
                                             timeout=80 if ctx.quick else 1000)
            ctx.notes += notes
            mine = [f for f in fails if f.kind == "ORACLE" and f.tag == TAG]
            other = [f for f in fails if f.kind == "ORACLE" and f.tag != TAG]
            bad = [f for f in fails if f.kind != "ORACLE"]
            ctx.suites.append({
                "suite": "schedrun|step (%s): compiled Lower::get/put under a deterministic scheduler vs machine M1 "
                         "(CORR) and the held-blocks oracle (ORACLE [C01])" % label,
                "evaluations": summ.get("evaluations", 0), "distinct": summ.get("distinct", 0),
                "runs": summ.get("runs", 0), "max_steps": summ.get("maxsteps", 0), "failed_cas_steps": summ.get("failed_cas", 0),
                "prologue_calls": summ.get("pre", 0), "panics": summ.get("panics", 0),
                "modes": {k[5:]: v for k, v in summ.items() if k.startswith("mode:")},
                "scenarios": {k[4:]: v for k, v in summ.items() if k.startswith("scn:")},
                "oracle_failures_of_other_properties": len(other),
                "other_tags": sorted({f.tag for f in other}),
            })
            # shrink one representative per kind of failure
            for f in sc.group_failures(mine, 1)[:3] + sc.group_failures(bad, 1)[:3]:
                shrunk = sc.shrink(ctx, rel, exe, f, budget=120) if f.scenario else None
                item = (f.text if not shrunk else shrunk[3].text, sc.replay_lines(f, shrunk, feats))
                (oracle if f.kind == "ORACLE" else corr).append(item)
            if rel and not ctx.samples:
                rc, out = vlib.sh([os.path.join(rel, sc.HARNESS_BIN), "--mode", "replay", "--scenario", "get7-get0row1",
                                   "--schedule", "0,0,0,0,0,0,1,1,1,1,1"])
                ctx.samples += [ln for ln in out.split("\n") if ln.startswith(("CALL", "S ", "RET"))][:8]
    vlib.classify(ctx, proofs_ok, oracle, corr, name="schedrun/step")
    return vlib.finish(
        ctx,
        "Machine M1 (one transition per atomic access of the lower allocator, any number of threads, any schedule) is "
        "tied to the compiled code by replaying every scheduled step of real threads on the extracted machine; the "
        "held-blocks predicate is evaluated on the implementation's own results after every return.",
        "schedules: all schedules with at most P preemptions (a preemption = switching away from a thread in the middle "
        "of a call; P = 2 quick; thorough: 3, and 5 for the two-thread scenarios, geometries TREE_HUGE = 1, 2, 4, 8) of every built-in scenario (1-4 threads: base gets on one tree, order 0 vs "
        "7/8/9, get_at twice, get vs put in one row, puts of two parts of one held huge block, order 9 / tree order "
        "races, mixed) + PCT random priority schedules; non-trivial = the schedule contains a failed CAS or a switch "
        "away from a thread in the middle of a call; distinct = distinct (scenario, geometry, thread-id sequence)")
