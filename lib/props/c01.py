"""C01 - allocated blocks never overlap, are aligned and in range, under any interleaving.

Lower allocator: machine M1 (coq/LowerMachine.v) with the theorem conc_safe; whole allocator: machine M2
(coq/UpperMachine.v, exploration only).  Real OS threads run the compiled code under a deterministic
scheduler (harness/src/bin/schedrun.rs, one scheduling point per atomic access of `Atom`), every step is
replayed on the extracted machine (CORR) and the blocks the implementation handed out are checked to be
aligned, in range and pairwise disjoint after every return (ORACLE [C01], on the implementation's results
only).  Failing schedules are shrunk by delta debugging over the thread-id list."""
import json
import os

import schedcommon as sc
import schedprop
import schedupper
import seqextra

THEOREMS = {"C01.v": json.load(open(os.path.join(os.path.dirname(__file__), "_theorems.json")))["C01"],
            # links between the machines and the sequential models (solo runs)
            "Links.v": ["Link_M1_solo_is_sequential", "Link_M2_solo_is_sequential", "Link_UpperInv_SInv"],
            # the whole allocator under every interleaving (machine M2)
            "Conc.v": ['Conc_upper_safe', 'Conc_upper_safe_with_changes', 'Conc_from_new', 'Conc_held_with_any_tree_change', 'Conc_m1_inv_with_any_tree_change', 'Conc_held_online_race_instance']}


def jobs(ctx, rel):
    if ctx.quick:
        return [["--mode", "exhaustive", "--scenario", "all", "--preemptions", "2"],
                ["--mode", "pct", "--scenario", "all", "--runs", "300", "--depth", "3", "--seed", str(ctx.seed)]]
    two = ",".join(n for n, t in sc.scenarios(rel) if t <= 2)
    return [["--mode", "exhaustive", "--scenario", "all", "--preemptions", "3"],
            ["--mode", "exhaustive", "--scenario", two, "--preemptions", "5", "--max-runs", "100000"],
            ["--mode", "pct", "--scenario", "all", "--runs", "20000", "--depth", "4", "--seed", str(ctx.seed)]]


def run(ctx):
    return schedprop.run(
        ctx, THEOREMS, "[C01]", jobs,
        "Coq theorem conc_safe on machine M1 (one transition per atomic access of lower.rs/bitfield.rs, any number of threads, "
        "any schedule length, most general client incl. frees of parts of held blocks, every geometry and frame count, free-all "
        "and allocate-all starts): in every reachable state the blocks handed out and not yet freed are pairwise disjoint, "
        "aligned and in range - by an inductive invariant (each set bit has exactly one owner; counter + pending = zero bits + "
        "transit; marker protocol) preserved by all 27 program points. It covers every upper-layer behaviour because the upper "
        "allocator reaches allocation bits only through these calls. Tied to the code by replaying every scheduled atomic step "
        "of real threads on the extracted machine (lower API: M1; whole allocator API: M2) and evaluating the held-blocks "
        "predicate on the implementation's own results after every return.",
        "lower-API schedules: all schedules with at most P preemptions (P = 2 quick; thorough: 3, and 5 for two-thread scenarios, "
        "geometries TREE_HUGE = 1, 2, 4, 8) of every built-in scenario (1-4 threads) + PCT random priority schedules; "
        + schedupper.RULE + "; non-trivial = the schedule contains a failed CAS or a switch away from a thread in the middle of a "
        "call; distinct = distinct (scenario, geometry, thread-id sequence)",
        "compiled Lower::get/put under a deterministic scheduler vs machine M1 (CORR) and the held-blocks oracle (ORACLE [C01])",
        more=[(schedupper.upper_jobs, schedupper.DESC, sc.UPPER_DRIVER)],
        # 'plus every sequential history': a returned block must have been entirely free (no overlap with held blocks)
        extra=seqextra.seq_extra(corr=("result",), oracle=("C02",)))
