"""C09 - no panic or abort for any valid-parameter call sequence or configuration."""
import json, os
import seqprop
import policytie
from props import _seqplans

# Requests.v: the requests / class tables handed out by Classing::simple / Classing::movable and the JSON policy lie
# inside C09's hypotheses (valid slot index, ids < 8, configured default, reflexive-Match + demote-transitive policy)
THEOREMS = {"C09.v": json.load(open(os.path.join(os.path.dirname(__file__), "_theorems.json")))["C09"],
            "Requests.v": ["Req_simple_valid", "Req_movable_valid", "Req_simple_valid_b", "Req_movable_valid_b",
                           "Req_valid_b_sound", "Req_simple_class", "Req_movable_class", "Req_simple_classing_wf",
                           "Req_movable_classing_wf", "Req_json_ordered", "Req_json_refl_match", "Req_json_demote_trans",
                           "Req_json_kind_indep", "Req_json_never_invalid"]}


def run(ctx):
    quick, thorough = _seqplans.plans(extra_suites=[('recover', 24, 400, 'random histories with crash+recover at quiescent points (lower buffer copied, Init::Recover over fresh volatile buffers)'), ('offline', 24, 400, 'tree changes by id and by match, incl. non-existent ids')])
    return seqprop.run(
        ctx, THEOREMS, corr=('result',), oracle=('C09',),
        quick_plan=quick, thorough_plan=thorough, corpus_tags=('D1', 'D2', 'D3', 'D4', 'D5', 'D6'),
        # the Coq policies / request closures / class tables compared directly with the compiled functions
        extra=policytie.run_policy_tie,
        # the harness's `custom` policy is not demote-transitive (hypothesis pol_demote_trans of the theorem, shown
        # necessary by upper_inv_needs_demote_trans): its 'unreserve invalid class' panic is outside C09's scope
        # ("every class configuration the repository uses"); the model reproduces it (no CORR mismatch)
        keep=lambda kind, text: not ("policy=custom" in text and "unreserve invalid class" in text),
        text="Coq theorems: for every geometry, every frame count (0 included), FreeAll / AllocAll / Recover (over any buffer satisfying the recovery precondition), every classing (ids < 8, default configured, any slot counts incl. zero), every policy that is reflexive-Match and demote-transitive (proved for the repository's simple, movable, zeroed and zero-slot policies; shown necessary by a witness), and every history of valid-parameter calls (slot index below the class's slot count or none; change_tree naming any tree id and any configured class): no call returns Panic, where the model maps every expect/unwrap/assert/index/checked-arithmetic site of the code to a Panic outcome; it is UpperInv preservation plus totality of every access. Tied to the code by replaying histories with catch_unwind around every call: the implementation must panic exactly where the model does (never, for valid parameters).",
        rule=_seqplans.RULE)
